"""C03 — the state-vector simulator applies gates exactly as the embedded operator.

Model: lean/NumqiModel/Sim.lean.  Theorems: lean/NumqiProps/C03.lean.
Correspondence: exact (Gaussian-integer states and operators: numpy's complex128 arithmetic on small integers is exact,
so every output must equal the Z[i] model bit for bit); programs containing non-integer gates (H, T, rotations) are sent
as binary64 bit patterns, the model computes in Q[i] exactly and the comparison is |impl - exact| <= 1e-10 * scale.
Probe: explicit np.kron + axis-permutation embedding built here, independent of the Lean model.
"""
import itertools, math
import numpy as np
from . import common

THEOREM_FILES = ['NumqiProps/C03.lean', 'NumqiProps/C03Gates.lean', 'NumqiProps/C03Prog.lean']
LEVEL = 'proof'
RULE = ('one evaluation = one call of the real routine (apply_gate, apply_control_n_gate, dm.apply_gate, operator_expectation, '
        'inner_product_psi0_O_psi1, reduce_to_probability, Circuit.apply_state, Circuit.to_unitary) on a generated input, compared with '
        'the Lean model (exact / 1e-10) and with the kron oracle. Index patterns are enumerated exhaustively: every ordered target tuple of '
        'size 1..3 and every control subset for n<=5 (quick) / n<=6 (thorough). An input is non-trivial unless the operator is the identity '
        'or the state is zero; distinct = distinct (routine, n, index pattern, operator kind) combinations.')
TRUSTED = ['Lean 4.33 kernel', 'axioms: propext, Classical.choice, Quot.sound', 'Lean compiler for the driver executable',
           'harness/c03.py: canonicalisation, the np.kron oracle and its reference gate arrays; the translation of a program step into the '
           'model\'s statement of the same name (u/c/x/m entry, v named method, s shift, e extend_circuit, n refused entry) — '
           'append_gate / extend_circuit / shift_qubit_index_ are executed by the model (runProg), not flattened here',
           'modelled, not verified: numqi/sim/state.py, dm.py, circuit.py; opt_einsum.contract is modelled as the einsum it denotes',
           'not modelled: rounding for non-integer gates (bounded by the 1e-10 comparison), numpy RNG']

TOL = 1e-10

# ---------------------------------------------------------------------------
# encoding
# ---------------------------------------------------------------------------

def enc_z(a):
    """Gaussian integers `re,im;…`; None if some entry is not an exact integer"""
    a = np.asarray(a, dtype=np.complex128).reshape(-1)
    re, im = a.real, a.imag
    if not (np.all(np.isfinite(re)) and np.all(np.isfinite(im))):
        return None
    if np.any(re != np.round(re)) or np.any(im != np.round(im)) or np.any(np.abs(re) > 2.0 ** 52) or np.any(np.abs(im) > 2.0 ** 52):
        return None
    return ';'.join(f'{int(x)},{int(y)}' for x, y in zip(re, im))


def enc_q(a):
    """binary64 bit patterns `reBits,imBits;…`"""
    a = np.asarray(a, dtype=np.complex128).reshape(-1)
    re = np.ascontiguousarray(a.real).view(np.uint64)
    im = np.ascontiguousarray(a.imag).view(np.uint64)
    return ';'.join(f'{int(x)},{int(y)}' for x, y in zip(re, im))


def dec_rat(s):
    p, q = s.split('/')
    return int(p) / int(q)


def dec_q(line):
    """exact rationals `p/q,p/q;…` -> complex128 (each component correctly rounded)"""
    out = []
    for e in line.split(';'):
        a, b = e.split(',')
        out.append(complex(dec_rat(a), dec_rat(b)))
    return np.array(out, dtype=np.complex128)


def dec_z(line):
    out = []
    for e in line.split(';'):
        a, b = e.split(',')
        out.append(complex(int(a), int(b)))
    return np.array(out, dtype=np.complex128)


def idx_str(t):
    t = list(t)
    return ';'.join(str(int(x)) for x in t) if t else '-'


def guarded(f):
    try:
        return f()
    except Exception:           # any exception of the implementation is an observable outcome, never an internal error of the check
        return 'error'


# ---------------------------------------------------------------------------
# independent oracle: np.kron + axis permutation
# ---------------------------------------------------------------------------

def oracle_embed(U, t, n):
    """2^n x 2^n operator acting as U on the qubits t (in that order), identity elsewhere"""
    U = np.asarray(U, dtype=np.complex128)
    t = [int(x) for x in t]
    k = len(t)
    rest = [q for q in range(n) if q not in t]
    M = np.kron(U, np.eye(2 ** (n - k)))           # acts on the qubit order t + rest
    order = t + rest
    perm = [order.index(q) for q in range(n)]
    T = M.reshape([2] * (2 * n)).transpose(perm + [n + p for p in perm])
    return T.reshape(2 ** n, 2 ** n)


def oracle_ctrl(U, c, t, n):
    P = np.array([[1.0]])
    for q in range(n):
        P = np.kron(P, np.diag([0.0, 1.0]) if q in set(c) else np.eye(2))
    E = oracle_embed(U, t, n)
    return (np.eye(2 ** n) - P) + P @ E


def oracle_marginal(psi, keep, n):
    keep = sorted(keep)
    out = np.zeros(2 ** len(keep))
    for x in range(2 ** n):
        bits = [(x >> (n - 1 - q)) & 1 for q in range(n)]
        o = 0
        for q in keep:
            o = 2 * o + bits[q]
        out[o] += psi[x].real ** 2 + psi[x].imag ** 2
    return out


# ---------------------------------------------------------------------------
# reference gate arrays (independent of numqi.gate)
# ---------------------------------------------------------------------------

def ref_rx(a): c, s = math.cos(a / 2), math.sin(a / 2); return np.array([[c, -1j * s], [-1j * s, c]])
def ref_ry(a): c, s = math.cos(a / 2), math.sin(a / 2); return np.array([[c, -s], [s, c]], dtype=np.complex128)
def ref_rz(a): c, s = math.cos(a / 2), math.sin(a / 2); return np.array([[c - 1j * s, 0], [0, c + 1j * s]])
def ref_u3(th, ph, la):
    c, s = math.cos(th / 2), math.sin(th / 2)
    return np.array([[c, -s * np.exp(1j * la)], [s * np.exp(1j * ph), c * np.exp(1j * la) * np.exp(1j * ph)]])
def ref_rzz(a):
    c, s = math.cos(a / 2), math.sin(a / 2)
    return np.diag([c - 1j * s, c + 1j * s, c + 1j * s, c - 1j * s])

REF = dict(
    X=np.array([[0, 1], [1, 0]], dtype=np.complex128), Y=np.array([[0, -1j], [1j, 0]]), Z=np.array([[1, 0], [0, -1]], dtype=np.complex128),
    H=np.array([[1, 1], [1, -1]], dtype=np.complex128) / np.sqrt(2), S=np.array([[1, 0], [0, 1j]]), T=np.array([[1, 0], [0, np.exp(1j * np.pi / 4)]]),
    Swap=np.array([[1, 0, 0, 0], [0, 0, 1, 0], [0, 1, 0, 0], [0, 0, 0, 1]], dtype=np.complex128),
)
PARAM = dict(rx=(ref_rx, 1), ry=(ref_ry, 1), rz=(ref_rz, 1), u3=(ref_u3, 3), rzz=(ref_rzz, 1))
INT_FIXED = ['X', 'Y', 'Z', 'S', 'Swap']
CTRL_FIXED = dict(cnot='X', cx='X', cy='Y', cz='Z', toffoli='X')


# ---------------------------------------------------------------------------
# random inputs
# ---------------------------------------------------------------------------

def rand_gi(rng, shape, lo=-3, hi=3):
    return (rng.integers(lo, hi + 1, size=shape) + 1j * rng.integers(lo, hi + 1, size=shape)).astype(np.complex128)


def rand_int_unitary(rng, d):
    """phase-permutation matrix: entries in {0,1,i,-1,-i}"""
    p = rng.permutation(d)
    M = np.zeros((d, d), dtype=np.complex128)
    for r in range(d):
        M[r, p[r]] = [1, 1j, -1, -1j][int(rng.integers(0, 4))]
    return M


def rand_op(rng, k, kind):
    d = 2 ** k
    if kind == 'unitary':
        return rand_int_unitary(rng, d)
    if kind == 'sparse':
        M = rand_gi(rng, (d, d))
        return M * (rng.integers(0, 2, size=(d, d)))
    return rand_gi(rng, (d, d))


# ---------------------------------------------------------------------------
# cases
# ---------------------------------------------------------------------------

class Case:
    __slots__ = ('op', 'impl', 'oracle', 'approx', 'key', 'ntkey', 'replay', 'value', 'soft', 'alias', 'tol', 'must_raise')

    def __init__(self, op, impl, oracle=None, approx=False, key='', ntkey=None, replay=None, soft=False, must_raise=None):
        self.op, self.impl, self.oracle, self.approx, self.key, self.ntkey, self.replay = op, impl, oracle, approx, key, ntkey, replay
        self.value = None
        # soft: a tie of the literal model to an internal helper (not part of the property's public behaviour): a mismatch is
        # recorded in the evidence but is not by itself a broken correspondence
        self.soft = soft
        self.tol = None       # comparison tolerance when not the default (single-precision argument forms)
        self.alias = None     # what went wrong with the arguments / repeated call (see run_case)
        # must_raise: why the documented behaviour on this input is to raise (model-independent oracle of the refusal ties): the probe
        # fails, with this input as the failing input, when the routine returns a value instead
        self.must_raise = must_raise


def S():
    import numqi
    return numqi.sim.state


def index_forms(rng, t):
    """the documented ways of writing an index"""
    t = tuple(int(x) for x in t)
    forms = [t, list(t), np.array(t)]
    if len(t) == 1:
        forms.append(t[0])
    return forms[int(rng.integers(0, len(forms)))]


def ctrl_forms(rng, c):
    c = tuple(int(x) for x in c)
    forms = [set(c), list(c), c, tuple(reversed(c))]
    if len(c) == 1:
        forms.append(c[0])
    return forms[int(rng.integers(0, len(forms)))]


FORMS = ['plain', 'strided', 'fortran-op', 'real', 'int', 'complex64', 'int-op', 'real-state', 'float32-state', 'int-state', 'real-op']


def arg_form(rng, psi, U, force=None):
    """the same values handed over in another layout / dtype (accepted by the clean tree): a non-contiguous view of a larger
    buffer, a Fortran-ordered operator, real float64, integer dtype, complex64.  Real forms need real data: the imaginary parts
    are dropped *before* the model op is written, so (psi, U) returned here are what both sides see."""
    form = force or FORMS[int(rng.integers(0, len(FORMS)))]
    if form in ('real', 'int', 'int-op'):
        psi, U = psi.real.copy(), U.real.copy()
    elif form in ('real-state', 'float32-state', 'int-state'):
        psi = psi.real.copy()          # real / integer dtype state, complex operator: the result must be upcast
    elif form == 'real-op':
        U = U.real.copy()
    psi_v, U_v = psi.astype(np.complex128), U.astype(np.complex128)
    if form == 'strided':
        big = np.zeros((2,) + psi.shape, dtype=np.complex128).reshape(-1)
        big[::2] = psi_v.reshape(-1)
        psi_a = big[::2].reshape(psi.shape) if psi.ndim == 1 else psi_v.copy()
        if psi.ndim == 2:
            bigm = np.zeros((2 * psi.shape[0], 2 * psi.shape[1]), dtype=np.complex128)
            bigm[::2, ::2] = psi_v
            psi_a = bigm[::2, ::2]
        bigU = np.zeros((2 * U.shape[0], 2 * U.shape[1]), dtype=np.complex128)
        bigU[::2, ::2] = U_v
        U_a = bigU[::2, ::2]
    elif form == 'fortran-op':
        psi_a, U_a = psi_v.copy(), np.asfortranarray(U_v)
    elif form == 'real':
        psi_a, U_a = psi.real.astype(np.float64), U.real.astype(np.float64)
    elif form == 'int':
        psi_a, U_a = psi.real.astype(np.int64), U.real.astype(np.int64)
    elif form == 'int-op':
        psi_a, U_a = psi_v.copy(), U.real.astype(np.int32)
    elif form == 'complex64':
        psi_a, U_a = psi_v.astype(np.complex64), U_v.astype(np.complex64)
    elif form == 'real-state':
        psi_a, U_a = psi.real.astype(np.float64), U_v.copy()
    elif form == 'float32-state':
        psi_a, U_a = psi.real.astype(np.float32), U_v.copy()
    elif form == 'int-state':
        psi_a, U_a = psi.real.astype(np.int64), U_v.copy()
    elif form == 'real-op':
        psi_a, U_a = psi_v.copy(), U.real.astype(np.float64)
    else:
        psi_a, U_a = psi_v.copy(), U_v.copy()
    return form, psi_v, U_v, psi_a, U_a


STATE_DTYPES = [None, None, np.float64, np.int64, np.float32]


def state_form(rng, psi):
    """(values, array as handed over): the state as complex128, or — real parts only — as float64 / int64 / float32"""
    dt = STATE_DTYPES[int(rng.integers(0, len(STATE_DTYPES)))]
    if dt is None:
        return psi.astype(np.complex128), psi.astype(np.complex128), 'complex128'
    v = psi.real.astype(np.complex128)
    return v, psi.real.astype(dt), np.dtype(dt).name


def gate_cases(ctx, rng):
    """apply_gate / apply_control_n_gate on every ordered target tuple and every control subset"""
    import numqi
    st = numqi.sim.state
    cases = []
    nmax = 5 if ctx.quick() else 6
    reps = 1 if ctx.quick() else 2
    for n in range(1, nmax + 1):
        for k in range(1, min(n, 3) + 1):
            for t in itertools.permutations(range(n), k):
                rest = [q for q in range(n) if q not in t]
                for r in range(0, len(rest) + 1):
                    for c in itertools.combinations(rest, r):
                        for rep in range(reps):
                            kind = ['general', 'unitary', 'sparse'][int(rng.integers(0, 3))]
                            form, psi, U, psi_a, U_a = arg_form(rng, rand_gi(rng, 2 ** n), rand_op(rng, k, kind))
                            ctx.count('argument-form:' + form)
                            rp = dict(n=n, target=list(t), control=list(c), op=U.tolist().__repr__(), psi=psi.tolist().__repr__(), argument_form=form)
                            if r == 0:
                                tf = index_forms(rng, t)
                                cases.append(Case(f'C03 gate Z {n} {idx_str(t)} {enc_z(U)} {enc_z(psi)}',
                                                  (lambda psi=psi_a, U=U_a, tf=tf: st.apply_gate(psi, U, tf)),
                                                  (lambda psi=psi, U=U, t=t, n=n: oracle_embed(U, t, n) @ psi),
                                                  key='apply_gate', ntkey=('gate', n, t, kind, form), replay=dict(fn='apply_gate', **rp)))
                            else:
                                cf = ctrl_forms(rng, c)
                                tf = index_forms(rng, t)
                                cases.append(Case(f'C03 ctrl Z {n} {idx_str(c)} {idx_str(t)} {enc_z(U)} {enc_z(psi)}',
                                                  (lambda psi=psi_a, U=U_a, cf=cf, tf=tf: st.apply_control_n_gate(psi, U, cf, tf)),
                                                  (lambda psi=psi, U=U, c=c, t=t, n=n: oracle_ctrl(U, c, t, n) @ psi),
                                                  key='apply_control_n_gate', ntkey=('ctrl', n, c, t, kind, form), replay=dict(fn='apply_control_n_gate', **rp)))
    if ctx.quick():
        # n = 6 sampled in the quick tier
        for _ in range(60):
            n = 6
            k = int(rng.integers(1, 4))
            q = [int(x) for x in rng.permutation(n)]
            t, rest = tuple(q[:k]), q[k:]
            c = tuple(sorted(rest[:int(rng.integers(0, len(rest) + 1))]))
            kind = ['general', 'unitary', 'sparse'][int(rng.integers(0, 3))]
            U = rand_op(rng, k, kind); psi = rand_gi(rng, 2 ** n)
            rp = dict(n=n, target=list(t), control=list(c), op=U.tolist().__repr__(), psi=psi.tolist().__repr__())
            if not c:
                cases.append(Case(f'C03 gate Z {n} {idx_str(t)} {enc_z(U)} {enc_z(psi)}', (lambda psi=psi, U=U, t=t: st.apply_gate(psi, U, t)),
                                  (lambda psi=psi, U=U, t=t, n=n: oracle_embed(U, t, n) @ psi), key='apply_gate', ntkey=('gate', n, t, kind),
                                  replay=dict(fn='apply_gate', **rp)))
            else:
                cases.append(Case(f'C03 ctrl Z {n} {idx_str(c)} {idx_str(t)} {enc_z(U)} {enc_z(psi)}',
                                  (lambda psi=psi, U=U, c=c, t=t: st.apply_control_n_gate(psi, U, set(c), t)),
                                  (lambda psi=psi, U=U, c=c, t=t, n=n: oracle_ctrl(U, c, t, n) @ psi), key='apply_control_n_gate',
                                  ntkey=('ctrl', n, c, t, kind), replay=dict(fn='apply_control_n_gate', **rp)))
    # chained calls: the array returned by one call is the input of the next and must still hold its value afterwards
    for _ in range(40 if ctx.quick() else 300):
        n = int(rng.integers(1, 5))
        psi, psi_a, sdt = state_form(rng, rand_gi(rng, 2 ** n, -2, 2))
        ctx.count('state-dtype:' + sdt)
        links = []
        for _ in range(int(rng.integers(2, 5))):
            k = int(rng.integers(1, min(n, 2) + 1))
            q = [int(x) for x in rng.permutation(n)]
            t, c = tuple(q[:k]), tuple(sorted(q[k:k + int(rng.integers(0, n - k + 1))]))
            links.append((rand_op(rng, k, 'sparse' if rng.integers(0, 2) else 'unitary'), c, t))
        def chain(psi=psi_a, links=links):
            cur, hist = psi, []
            for U, c, t in links:
                nxt = st.apply_control_n_gate(cur, U, set(c), t) if c else st.apply_gate(cur, U, t)
                hist.append((cur, cur.copy()))
                cur = nxt
            for a, a0 in hist:
                if not np.array_equal(a, a0):
                    return 'an earlier result was modified when it was used as the input of the next call'
            return cur
        def chain_oracle(psi=psi, links=links, n=n):
            v = psi
            for U, c, t in links:
                v = (oracle_ctrl(U, c, t, n) if c else oracle_embed(U, t, n)) @ v
            return v
        text = '|'.join((f'c:{idx_str(c)}:{idx_str(t)}:{enc_z(U)}' if c else f'u:{idx_str(t)}:{enc_z(U)}') for U, c, t in links)
        cases.append(Case(f'C03 circ Z {n} {text} {enc_z(psi)}', chain, chain_oracle, key='chained-calls', ntkey=('chain', n, len(links), len(cases)),
                          replay=dict(fn='chained apply_gate/apply_control_n_gate', n=n, psi=repr(psi.tolist()), state_dtype=sdt,
                                      links=repr([(U.tolist(), list(c), list(t)) for U, c, t in links]))))
    ctx.extra['exhaustive'] = True
    ctx.extra['exhaustive_domain'] = f'every ordered target tuple of size 1..3 and every control subset (incl. none) for n = 1..{nmax}'
    return cases


def embed_cases(ctx, rng):
    """the model's embedded operator against the kron oracle (no numqi involved: ties the Lean definition of `embed`/`ctrlEmbed`
    to the conventional kron + axis-permutation one)"""
    cases = []
    nmax = 3 if ctx.quick() else 4
    for n in range(1, nmax + 1):
        for k in range(1, min(n, 3) + 1):
            for t in itertools.permutations(range(n), k):
                U = rand_gi(rng, (2 ** k, 2 ** k))
                cases.append(Case(f'C03 embed Z {n} {idx_str(t)} {enc_z(U)}', (lambda U=U, t=t, n=n: oracle_embed(U, t, n)), None,
                                  key='embed-vs-kron', ntkey=('embed', n, t)))
                rest = [q for q in range(n) if q not in t]
                for r in range(1, len(rest) + 1):
                    for c in itertools.combinations(rest, r):
                        cases.append(Case(f'C03 cembed Z {n} {idx_str(c)} {idx_str(t)} {enc_z(U)}', (lambda U=U, c=c, t=t, n=n: oracle_ctrl(U, c, t, n)), None,
                                          key='ctrlEmbed-vs-kron', ntkey=('cembed', n, c, t)))
    return cases


def dm_cases(ctx, rng):
    import numqi
    dm = numqi.sim.dm
    cases = []
    nmax = 3 if ctx.quick() else 4
    extra = 12 if ctx.quick() else 150
    todo = []
    for n in range(1, nmax + 1):
        for k in range(1, min(n, 3) + 1):
            for t in itertools.permutations(range(n), k):
                todo.append((n, t))
    for _ in range(extra):
        n = int(rng.integers(4, 7)) if not ctx.quick() else 4
        k = int(rng.integers(1, 4))
        todo.append((n, tuple(int(x) for x in rng.permutation(n)[:k])))
    for n, t in todo:
        k = len(t)
        U = rand_op(rng, k, ['general', 'unitary'][int(rng.integers(0, 2))])
        rho = rand_gi(rng, (2 ** n, 2 ** n), -2, 2)
        if rng.integers(0, 2):
            rho = rho + rho.conj().T
        form, rho, U, rho_a, U_a = arg_form(rng, rho, U)
        ctx.count('argument-form:' + form)
        for form, tf in (('tuple', tuple(t)), ('list', list(t))) + ((('int', int(t[0])),) if k == 1 else ()):
            rp = dict(n=n, index=repr(tf), op=repr(U.tolist()), rho=repr(rho.tolist()), argument_form=form)
            cases.append(Case(f'C03 dm Z {n} {idx_str(t)} {enc_z(U)} {enc_z(rho)}',
                              (lambda rho=rho_a, U=U_a, tf=tf: dm.apply_gate(rho, U, tf)),
                              (lambda rho=rho, U=U, t=t, n=n: (lambda E: E @ rho @ E.conj().T)(oracle_embed(U, t, n))),
                              key='dm.apply_gate', ntkey=('dm', n, t, form), replay=dict(fn='dm.apply_gate', **rp)))
            cases.append(Case(f'C03 expect Z {n} {idx_str(t)} {enc_z(U)} {enc_z(rho)}',
                              (lambda rho=rho_a, U=U_a, tf=tf: np.asarray(dm.operator_expectation(rho, U, tf)).reshape(1)),
                              (lambda rho=rho, U=U, t=t, n=n: np.trace(rho @ oracle_embed(U, t, n)).reshape(1)),
                              key='dm.operator_expectation', ntkey=('expect', n, t, form), replay=dict(fn='dm.operator_expectation', **rp)))
    return cases


def inner_cases(ctx, rng):
    import numqi
    st = numqi.sim.state
    cases = []
    for _ in range(40 if ctx.quick() else 1000):
        n = int(rng.integers(1, 7))
        psi0, psi0_a, _ = state_form(rng, rand_gi(rng, 2 ** n, -2, 2))
        psi1, psi1_a, sdt = state_form(rng, rand_gi(rng, 2 ** n, -2, 2))
        nterms = int(rng.integers(1, 4))           # the sum over operators: one result entry per term (state.py:227-232)
        terms, texts = [], []
        for _ in range(nterms):
            nf = int(rng.integers(1, 4))
            term, steps = [], []
            for _ in range(nf):
                k = int(rng.integers(1, min(n, 3) + 1))
                t = tuple(int(x) for x in rng.permutation(n)[:k])
                U = rand_op(rng, k, 'general' if nf == 1 else 'sparse')
                U = np.clip(U.real, -2, 2) + 1j * np.clip(U.imag, -2, 2)
                term.append((U,) + t)
                steps.append(f'u:{idx_str(t)}:{enc_z(U)}')
            terms.append(term); texts.append('|'.join(steps))
        for i, term in enumerate(terms):
            def oracle(psi0=psi0, psi1=psi1, term=term, n=n):
                M = np.eye(2 ** n, dtype=np.complex128)
                for f in term:
                    M = M @ oracle_embed(f[0], f[1:], n)
                return np.vdot(psi0, M @ psi1).reshape(1)
            def impl(psi0=psi0_a, psi1=psi1_a, terms=terms, i=i):
                r = np.asarray(st.inner_product_psi0_O_psi1(psi0, psi1, terms))
                return r[i:i + 1] if r.shape == (len(terms),) else 'error:shape'
            cases.append(Case(f'C03 inner Z {n} {enc_z(psi0)} {enc_z(psi1)} {texts[i]}', impl,
                              oracle, key='inner_product_psi0_O_psi1', ntkey=('inner', n, nterms, i, tuple(f[1:] for f in term)),
                              replay=dict(fn='inner_product_psi0_O_psi1', n=n, psi0=repr(psi0.tolist()), psi1=repr(psi1.tolist()),
                                          term=repr([(f[0].tolist(),) + f[1:] for f in term]), number_of_terms=nterms, item=i)))
    return cases


def prob_cases(ctx, rng):
    import numqi
    st = numqi.sim.state
    cases = []
    nmax = 4 if ctx.quick() else 6
    for n in range(1, nmax + 1):
        for r in range(0, n + 1):
            for keep in itertools.combinations(range(n), r):
                psi = rand_gi(rng, 2 ** n)
                if rng.integers(0, 3) == 0:
                    psi = psi * rng.integers(0, 2, size=psi.shape)
                form, psi, _, psi_a, _ = arg_form(rng, psi, np.eye(2))
                ctx.count('argument-form:' + form)
                cases.append(Case(f'C03 prob Z {n} {idx_str(keep)} {enc_z(psi)}',
                                  (lambda psi=psi_a, keep=keep: st.reduce_to_probability(psi, set(keep))),
                                  (lambda psi=psi, keep=keep, n=n: oracle_marginal(psi, keep, n)),
                                  approx=True, key='reduce_to_probability', ntkey=('prob', n, keep, form),
                                  replay=dict(fn='reduce_to_probability', n=n, keep=list(keep), psi=repr(psi.tolist()), argument_form=form)))
                if form == 'complex64':
                    cases[-1].tol = 1e-5        # |.|^2 in float32: relative rounding 6e-8 per term
    return cases


# ---------------------------------------------------------------------------
# circuits: programs over the vocabulary of numqi.sim.Circuit
# ---------------------------------------------------------------------------

class _MyUnitary:
    """user-registered gate of a canonical kind"""
    def __init__(self, array, index):
        self.kind = 'unitary'; self.name = 'myu'; self.requires_grad = False
        self.array = array; self.index = tuple(index)


class _MyControl:
    def __init__(self, array, control, target):
        self.kind = 'control'; self.name = 'myc'; self.requires_grad = False
        self.array = array; self.index = (set(control), tuple(target))


class _MyCustom:
    """kind='custom': the circuit only calls forward(q0)"""
    def __init__(self, matrix):
        self.kind = 'custom'; self.name = 'myf'; self.requires_grad = False
        self.matrix = matrix

    def forward(self, q0):
        return self.matrix @ q0


def pick_targets(rng, n, k):
    return tuple(int(x) for x in rng.permutation(n)[:k])


NAMES_INT = ['X', 'Y', 'Z', 'S', 'Swap', 'cnot', 'cx', 'cy', 'cz', 'toffoli', 'single', 'double', 'triple', 'quadruple',
             'csingle', 'cdouble', 'append_u', 'append_c', 'myu', 'myc', 'myf']
NAMES_FLOAT = ['H', 'T', 'rx', 'ry', 'rz', 'u3', 'rzz', 'crx', 'cry', 'crz', 'cu3', 'rxP', 'ryP']
NEED = dict(Swap=2, cnot=2, cx=2, cy=2, cz=2, toffoli=3, double=2, triple=3, quadruple=4, cdouble=3, rzz=2, crx=2, cry=2, crz=2, cu3=2,
            csingle=2, append_c=2, myc=2)


def make_step(rng, n, name):
    """one step of the vocabulary on an n-qubit register (None if the gate does not fit)"""
    if NEED.get(name, 1) > n:
        return None
    if name in ('X', 'Y', 'Z', 'S', 'H', 'T'):
        return (name, pick_targets(rng, n, 1))
    if name == 'Swap':
        return (name, pick_targets(rng, n, 2))
    if name in ('cnot', 'cx', 'cy', 'cz'):
        q = pick_targets(rng, n, 2); return (name, (q[0],), (q[1],))
    if name == 'toffoli':
        q = pick_targets(rng, n, 3); return (name, (q[0], q[1]), (q[2],))
    if name in ('single', 'double', 'triple', 'quadruple'):
        k = dict(single=1, double=2, triple=3, quadruple=4)[name]
        return (name, rand_op(rng, k, 'unitary' if rng.integers(0, 2) else 'sparse'), pick_targets(rng, n, k))
    if name in ('csingle', 'cdouble'):
        k = 1 if name == 'csingle' else 2
        nc = int(rng.integers(1, n - k + 1))
        q = pick_targets(rng, n, k + nc)
        return (name, rand_op(rng, k, 'unitary' if rng.integers(0, 2) else 'sparse'), q[k:], q[:k])
    if name in ('append_u', 'myu'):
        k = int(rng.integers(1, min(n, 3) + 1))
        return (name, rand_op(rng, k, 'unitary'), pick_targets(rng, n, k))
    if name in ('append_c', 'myc'):
        k = int(rng.integers(1, min(n - 1, 2) + 1))
        nc = int(rng.integers(1, n - k + 1))
        q = pick_targets(rng, n, k + nc)
        ctrl = q[k:]
        if name == 'append_c' and rng.integers(0, 6) == 0:
            ctrl = ctrl + (ctrl[0],)            # a repeated control index: append_gate stores the controls as a set (circuit.py:148)
        return (name, rand_op(rng, k, 'unitary'), ctrl, q[:k])
    if name == 'myf':
        return (name, rand_int_unitary(rng, 2 ** n))
    if name in ('rx', 'ry', 'rz', 'rxP', 'ryP'):
        return (name, pick_targets(rng, n, 1), (float(rng.uniform(-4, 4)),))
    if name == 'u3':
        return (name, pick_targets(rng, n, 1), tuple(float(x) for x in rng.uniform(-4, 4, size=3)))
    if name == 'rzz':
        return (name, pick_targets(rng, n, 2), (float(rng.uniform(-4, 4)),))
    if name in ('crx', 'cry', 'crz', 'cu3'):
        # `_control_parameter_gate` takes any number of controls (circuit.py:82-96)
        nc = int(rng.integers(1, n))
        q = pick_targets(rng, n, nc + 1)
        args = (float(rng.uniform(-4, 4)),) if name != 'cu3' else tuple(float(x) for x in rng.uniform(-4, 4, size=3))
        ctrl = q[:nc]
        if rng.integers(0, 6) == 0:
            ctrl = ctrl + (ctrl[int(rng.integers(0, nc))],)     # a repeated control index collapses (`set(...)`, circuit.py:90)
        return (name, ctrl, (q[nc],), args)
    raise RuntimeError('unknown gate ' + name)


def gen_program(rng, n, length, integer_only, allow_custom=True, forced=()):
    """a list of steps (name, *args); every step has a reading on the real Circuit and one in the model's raw gate list"""
    steps = []
    names_int = [x for x in NAMES_INT if allow_custom or x != 'myf']
    for i in range(length):
        if i < len(forced):
            name = forced[i]
        else:
            pool = names_int if (integer_only or rng.integers(0, 3) == 0) else NAMES_FLOAT
            name = pool[int(rng.integers(0, len(pool)))]
        st = make_step(rng, n, name) or make_step(rng, n, 'X')
        steps.append(st)
    return steps


def build_circuit(steps, requires_grad=False, resolve_placeholders=True):
    """the program on the real numqi.sim.Circuit.  Every gate-creating step remembers the gate object it produced, so that a
    later `('reuse', k, …)` step can place the *same object* at another index tuple (`append_gate` re-use)."""
    b = CircuitBuilder(requires_grad)
    for st in steps:
        b.do(st)
    if b.placeholders and resolve_placeholders:
        b.circ.setP(**b.placeholders)   # note: this turns the placeholder gates into ordinary gates with concrete angles
    return b.circ


class CircuitBuilder:
    """the real numqi.sim.Circuit driven one step at a time (also used by the query/mutate/query histories)"""

    def __init__(self, requires_grad=False):
        import numqi
        self.circ = numqi.sim.Circuit(default_requires_grad=requires_grad)
        self.registered = set()
        self.placeholders = {}
        self.objs = []

    def do(self, st):
        import numqi
        circ, registered, placeholders, objs = self.circ, self.registered, self.placeholders, self.objs
        name = st[0]
        obj = None
        if name in ('X', 'Y', 'Z', 'S', 'H', 'T', 'Swap'):
            obj = getattr(circ, name)(*st[1])
        elif name in ('cnot', 'cx', 'cy', 'cz'):
            obj = getattr(circ, name)(st[1][0], st[2][0])
        elif name == 'toffoli':
            obj = circ.toffoli(st[1], st[2][0])
        elif name == 'single':
            obj = circ.single_qubit_gate(st[1], *st[2])
        elif name == 'double':
            obj = circ.double_qubit_gate(st[1], *st[2])
        elif name == 'triple':
            obj = circ.triple_qubit_gate(st[1], *st[2])
        elif name == 'quadruple':
            obj = circ.quadruple_qubit_gate(st[1], *st[2])
        elif name == 'csingle':
            obj = circ.controlled_single_qubit_gate(st[1], set(st[2]), st[3][0])
        elif name == 'cdouble':
            obj = circ.controlled_double_qubit_gate(st[1], set(st[2]), st[3])
        elif name == 'append_u':
            obj = numqi.sim.Gate('unitary', st[1], name='appended')
            circ.append_gate(obj, st[2])
        elif name == 'append_c':
            obj = numqi.sim.Gate('control', st[1], name='appended')
            circ.append_gate(obj, (list(st[2]), st[3]))
        elif name in ('myu', 'myc', 'myf'):
            if name not in registered:
                circ.register_custom_gate(name, dict(myu=_MyUnitary, myc=_MyControl, myf=_MyCustom)[name])
                registered.add(name)
            obj = getattr(circ, name)(*st[1:])
        elif name in ('rx', 'ry', 'rz'):
            obj = getattr(circ, name)(st[1][0], st[2][0])
        elif name in ('rxP', 'ryP'):
            key = f'p{len(placeholders)}'
            placeholders[key] = st[2][0]
            obj = getattr(circ, name[:2])(st[1][0], circ.P[key])
        elif name == 'u3':
            obj = circ.u3(st[1][0], st[2])
        elif name == 'rzz':
            obj = circ.rzz(st[1], st[2][0])
        elif name in ('crx', 'cry', 'crz'):
            obj = getattr(circ, name)(st[1][0] if len(st[1]) == 1 else tuple(st[1]), st[2][0], st[3][0])
        elif name == 'cu3':
            obj = circ.cu3(st[1][0] if len(st[1]) == 1 else tuple(st[1]), st[2][0], st[3])
        elif name == 'kraus':
            obj = getattr(circ, st[1])(st[2], st[3])          # dephasing / depolarizing / amplitude_damping: Kraus entries
        elif name == 'unsetP':
            obj = getattr(circ, st[1])(st[2][0] if len(st[2]) == 1 else tuple(st[2]), circ.P['never_set'])   # placeholder whose parameter is never supplied
        elif name == 'shift':
            circ.shift_qubit_index_(st[1])
        elif name == 'extend':
            circ.extend_circuit(build_circuit(st[1]))
        elif name == 'extend2':
            sub = build_circuit(st[1])          # the same block (same gate objects) twice
            circ.extend_circuit(sub)
            circ.extend_circuit(sub)
        elif name == 'reuse':
            g = objs[st[1]]
            if g.kind == 'unitary':
                circ.append_gate(g, st[2])
            elif g.kind == 'control':
                circ.append_gate(g, (list(st[2]), st[3]))
            else:
                circ.append_gate(g, ())
        elif name == 'measure':
            obj = circ.measure(st[1], seed=st[2])
        else:
            raise RuntimeError('unknown step ' + name)
        objs.append(obj)
        return obj


def program_semantics(steps):
    """intended meaning of a step list, resolving re-use of an earlier gate object (same array, new placement) and a block
    extended twice"""
    out, per = [], []
    for st in steps:
        if st[0] == 'reuse':
            e = per[st[1]][0]
            if e[0] == 'u':
                cur = [('u', e[1], tuple(st[2]), None)]
            elif e[0] == 'c':
                cur = [('c', e[1], tuple(st[2]), tuple(st[3]), None)]
            else:
                cur = [e]
        elif st[0] == 'extend2':
            sub = program_semantics(st[1])
            cur = sub + sub
        else:
            cur = step_semantics(st)
        per.append(cur)
        out += cur
    return out


def gen_history(rng, integer_only):
    """multi-step history over the Circuit API: appends, re-use of one gate object at several placements (unitary, controlled,
    parametrised), one block extended twice, shifts (+/-) before and after further appends, repeated shifts"""
    width = int(rng.integers(2, 5))
    steps, creators = [], []
    names = [x for x in (NAMES_INT if integer_only else NAMES_INT + NAMES_FLOAT + NAMES_FLOAT) if x != 'myf']
    def add_gate():
        st = make_step(rng, width, names[int(rng.integers(0, len(names)))]) or make_step(rng, width, 'X')
        steps.append(st)
        creators.append(len(steps) - 1)
    add_gate()
    for _ in range(int(rng.integers(3, 9))):
        r = int(rng.integers(0, 10))
        if r <= 2:
            add_gate()
        elif r <= 5 and creators:
            k = creators[int(rng.integers(0, len(creators)))]
            e = step_semantics(steps[k])[0]
            if e[0] == 'u' and len(e[2]) <= width:
                steps.append(('reuse', k, pick_targets(rng, width, len(e[2]))))
            elif e[0] == 'c' and len(e[2]) + len(e[3]) <= width:
                q = pick_targets(rng, width, len(e[2]) + len(e[3]))
                steps.append(('reuse', k, q[:len(e[2])], q[len(e[2]):]))
        elif r <= 7:
            lo = -program_min_index(program_semantics(steps))
            hi = 6 - width
            d = int(rng.integers(lo, hi + 1))
            if d != 0:
                steps.append(('shift', d)); width += d
        elif r == 8:
            sub = [make_step(rng, width, names[int(rng.integers(0, len(names)))]) or make_step(rng, width, 'X') for _ in range(int(rng.integers(1, 4)))]
            steps.append(('extend2', sub))
    if not any(s[0] == 'shift' for s in steps):
        d = int(rng.integers(1, 7 - width)) if width < 6 else -program_min_index(program_semantics(steps))
        if d != 0:
            steps.append(('shift', d)); width += d
    return steps


def index_list_of(circ):
    out = []
    for gate, index in circ.gate_index_list:
        if gate.kind == 'control':
            out.append(('c', sorted(int(x) for x in index[0]), [int(x) for x in index[1]]))
        elif gate.kind == 'unitary':
            out.append(('u', None, [int(x) for x in index]))
        elif gate.kind == 'measure':
            out.append(('m', None, [int(x) for x in index]))
        else:
            out.append(('x', None, None))
    return out


R_SQRT_HALF = float(1 / np.sqrt(2))
SPECIAL_ANGLES = [0.0, math.pi / 2, math.pi, 2 * math.pi, -math.pi / 2, -math.pi, -2 * math.pi, 3 * math.pi, 4 * math.pi, math.pi / 4, -0.0]


def cs(a):
    return (math.cos(a), math.sin(a))


def vocab_pairs(name, args=()):
    """the (cos, sin) pairs the Lean vocabulary takes for a gate name: half angles for rx ry rz rzz and the theta of u3,
    full angles for the two phases of u3, pi/4 for H (c = s = 1/sqrt 2) and T"""
    base = name[1:] if name in ('crx', 'cry', 'crz', 'cu3') else name
    if base == 'H':
        return [(R_SQRT_HALF, R_SQRT_HALF)]
    if base == 'T':
        return [cs(math.pi / 4)]
    if base in ('rx', 'ry', 'rz', 'rzz'):
        return [cs(args[0] / 2)]
    if base == 'u3':
        return [cs(args[0] / 2), cs(args[1]), cs(args[2])]
    return []


def enc_pairs(pairs, enc):
    if not pairs:
        return '-'
    one = lambda v: enc(np.array([v], dtype=np.complex128))
    return ';'.join(f'{one(c)}~{one(s_)}' for c, s_ in pairs)


def step_semantics(st):
    """what the step means: list of ('u', array, targets, vinfo) / ('c', array, controls, targets, vinfo) / ('x', matrix) /
    ('s', delta).  `vinfo = (name, qubits, pairs)` marks a method of the gate vocabulary: the model reads it through its own
    table (`Vocab.toRaw` in NumqiModel/Gates.lean); the array carried here is the harness reference, used by the oracle only."""
    name = st[0]
    if name in REF:
        return [('u', REF[name], st[1], (name, tuple(st[1]), vocab_pairs(name)))]
    if name in CTRL_FIXED:
        return [('c', REF[CTRL_FIXED[name]], st[1], st[2], (name, tuple(st[1]) + tuple(st[2]), []))]
    if name in ('single', 'double', 'triple', 'quadruple', 'append_u', 'myu'):
        return [('u', st[1], st[2], None)]
    if name in ('csingle', 'cdouble', 'append_c', 'myc'):
        return [('c', st[1], st[2], st[3], None)]
    if name == 'myf':
        return [('x', st[1])]
    if name in ('rx', 'ry', 'rz', 'rzz', 'u3'):
        return [('u', PARAM[name][0](*st[2]), st[1], (name, tuple(st[1]), vocab_pairs(name, st[2])))]
    if name in ('rxP', 'ryP'):
        return [('u', PARAM[name[:2]][0](*st[2]), st[1], (name[:2], tuple(st[1]), vocab_pairs(name[:2], st[2])))]
    if name in ('crx', 'cry', 'crz', 'cu3'):
        return [('c', PARAM[name[1:]][0](*st[3]), st[1], st[2], (name, tuple(st[1]) + tuple(st[2]), vocab_pairs(name, st[3])))]
    if name == 'shift':
        return [('s', st[1])]
    if name == 'extend':
        return program_semantics(st[1])
    if name == 'measure':
        return [('m', tuple(st[1]))]
    if name == 'kraus':
        return [('n', 'k', ())]            # not canonical: invisible to num_qubit and shift_qubit_index_
    if name == 'unsetP':
        return [('n', 'p', tuple(int(q) for q in st[2]))]    # a canonical unitary entry at its index, without array
    raise RuntimeError('unknown step ' + name)


def program_is_integer(sem):
    return all(enc_z(x[1]) is not None for x in sem if x[0] in 'ucx')


def program_text(sem, enc):
    out = []
    for x in sem:
        if x[0] in 'uc' and x[-1] is not None:
            name, qubits, pairs = x[-1]
            out.append(f'v:{name}:{idx_str(qubits)}:{enc_pairs(pairs, enc)}')
        elif x[0] == 'u':
            out.append(f'u:{idx_str(x[2])}:{enc(x[1])}')
        elif x[0] == 'c':
            out.append(f'c:{idx_str(x[2])}:{idx_str(x[3])}:{enc(x[1])}')
        elif x[0] == 'x':
            out.append(f'x:{enc(x[1])}')
        elif x[0] == 's':
            out.append(f's:{x[1]}')
        elif x[0] == 'm':
            out.append(f'm:{idx_str(x[1])}:{"0" * len(x[1])}')
        elif x[0] == 'n':
            out.append('n:k' if x[1] == 'k' else f'n:p:{idx_str(x[2])}')
    return '|'.join(out) if out else '-'


def steps_text(steps, enc):
    """the program as the model's statements (`Stmt` of NumqiModel/Gates.lean): single entries, named methods, shifts, and
    `e:` = extend_circuit of a sub-program — nothing is flattened here; re-use of a gate object is `append_gate` of the same
    array at the new placement"""
    out, per = [], []
    for st in steps:
        if st[0] == 'reuse':
            e = per[st[1]][0]
            cur = [('u', e[1], tuple(st[2]), None)] if e[0] == 'u' else [('c', e[1], tuple(st[2]), tuple(st[3]), None)] if e[0] == 'c' else [e]
            out.append(program_text(cur, enc))
        elif st[0] in ('extend', 'extend2'):
            sub = steps_text(st[1], enc).replace('|', '!')
            cur = program_semantics(st[1])
            out += ['e:' + ('' if sub == '-' else sub)] * (2 if st[0] == 'extend2' else 1)
            cur = cur * (2 if st[0] == 'extend2' else 1)
        else:
            cur = step_semantics(st)
            out.append(program_text(cur, enc))
        per.append(cur)
    return '|'.join(out) if out else '-'


def oracle_program_matrix(sem, n):
    """ordered product of the kron-embedded gates (shifts resolved here, independently of the model)"""
    gates = []
    for x in sem:
        if x[0] == 's':
            gates = [((g[0], g[1], tuple(q + x[1] for q in g[2])) if g[0] == 'u' else
                      (g[0], g[1], tuple(q + x[1] for q in g[2]), tuple(q + x[1] for q in g[3])) if g[0] == 'c' else g) for g in gates]
        else:
            gates.append(x)
    M = np.eye(2 ** n, dtype=np.complex128)
    for g in gates:
        if g[0] == 'u':
            E = oracle_embed(g[1], g[2], n)
        elif g[0] == 'c':
            E = oracle_ctrl(g[1], g[2], g[3], n)
        else:
            E = g[1]
        M = E @ M
    return M


def program_width(sem):
    """number of qubits the canonical gates reach after all shifts (Circuit.num_qubit)"""
    idx = []
    for x in sem:
        if x[0] == 's':
            idx = [q + x[1] for q in idx]
        elif x[0] == 'u':
            idx += list(x[2])
        elif x[0] == 'c':
            idx += list(x[2]) + list(x[3])
        elif x[0] == 'm':
            idx += list(x[1])
        elif x[0] == 'n' and x[1] == 'p':
            idx += list(x[2])
    return (max(idx) + 1) if idx else 0


def program_num_qubit(sem):
    """Circuit.num_qubit as documented (circuit.py:454-466): 1 + the largest index over the canonical entries (unitary, control,
    measure — a never-set placeholder is a canonical unitary entry; custom and Kraus entries do not count), at least 1; an
    empty gate list has no width"""
    if not any(x[0] != 's' for x in sem):
        return 'error'
    return str(max(program_width(sem), 1))


def program_min_index(sem):
    idx = []
    for x in sem:
        if x[0] == 's':
            idx = [q + x[1] for q in idx]
        elif x[0] == 'u':
            idx += list(x[2])
        elif x[0] == 'c':
            idx += list(x[2]) + list(x[3])
        elif x[0] == 'n' and x[1] == 'p':
            idx += list(x[2])
    return min(idx) if idx else 0


def describe(steps):
    out = []
    for st in steps:
        out.append([st[0]] + [(a.tolist() if isinstance(a, np.ndarray) else (describe(a) if st[0] in ('extend', 'extend2') and isinstance(a, list) else a)) for a in st[1:]])
    return out


def circuit_cases(ctx, rng):
    cases = []
    sweep = [x for x in NAMES_INT + NAMES_FLOAT for _ in range(2 if ctx.quick() else 6)]
    nprog = len(sweep) + (80 if ctx.quick() else 1500)
    for it in range(nprog):
        forced = (sweep[it],) if it < len(sweep) else ()
        integer_only = (forced[0] in NAMES_INT) if forced else (it % 2 == 0)
        n0 = int(rng.integers(max(1, NEED.get(forced[0], 1) if forced else 1), 5 if integer_only else 4))
        length = int(rng.integers(1, 9 if integer_only else 7))
        steps = gen_program(rng, n0, length, integer_only, forced=forced)
        # circuit-level operations: extend by a sub-circuit, shift everything
        r = int(rng.integers(0, 4))
        if r == 1:
            steps.append(('extend', gen_program(rng, n0, int(rng.integers(1, 4)), integer_only, allow_custom=False)))
        if r >= 2 and not any(s[0] == 'myf' for s in steps):
            d = int(rng.integers(1, 3))
            steps.append(('shift', d))
            if r == 3:
                steps += gen_program(rng, n0 + d, int(rng.integers(1, 3)), integer_only, allow_custom=False)
                steps.append(('shift', -int(rng.integers(0, program_min_index(step_semantics(('extend', steps))) + 1))))
        sem = step_semantics(('extend', steps))
        width = program_width(sem)
        has_custom = any(x[0] == 'x' for x in sem)
        n = max(width, n0) if has_custom else width + int(rng.integers(0, 2))
        if has_custom and width != n0:
            # the custom gate is a 2^n0 matrix: make the canonical gates reach the top qubit so that to_unitary has the same width
            steps.append(('Z', (n0 - 1,)))
            sem = step_semantics(('extend', steps)); width = program_width(sem); n = n0
        if n > 6 or width == 0:
            continue
        cases += program_cases(rng, steps, sem, n, width, it)
    # multi-step histories: one gate object at several placements, a block extended twice, shifts before/after/repeated
    nhist = 60 if ctx.quick() else 500
    for it in range(nhist):
        steps = gen_history(rng, integer_only=(it % 2 == 0))
        sem = program_semantics(steps)
        width = program_width(sem)
        if width == 0 or width > 6 or program_min_index(sem) < 0:
            continue
        cases += program_cases(rng, steps, sem, width, width, ('history', it), with_indices=True)
    # programs holding a MeasureGate: to_unitary must refuse (circuit.py:445), num_qubit counts the measured qubits (:463-464)
    for it in range(25 if ctx.quick() else 200):
        n0 = int(rng.integers(1, 5))
        steps = gen_program(rng, n0, int(rng.integers(0, 4)), integer_only=True, allow_custom=False)
        m = int(rng.integers(1, n0 + 2))
        top = n0 + int(rng.integers(0, 2))          # sometimes the measure alone reaches the top qubit
        subset = tuple(sorted(int(x) for x in rng.permutation(top)[:min(m, top)]))
        steps.insert(int(rng.integers(0, len(steps) + 1)), ('measure', subset, int(rng.integers(0, 2 ** 31))))
        if rng.integers(0, 3) == 0:
            steps.append(('shift', int(rng.integers(1, 3))))
        sem = program_semantics(steps)
        if program_width(sem) > 6:
            continue
        text = steps_text(steps, enc_z)
        desc = describe(steps)
        cases.append(Case(f'C03 unitary Z {text}', (lambda steps=steps: build_circuit(steps).to_unitary()), None, key='Circuit.to_unitary(measure)',
                          ntkey=('unitary-measure', it), replay=dict(fn='Circuit.to_unitary', program=repr(desc)),
                          must_raise='a circuit holding a MeasureGate has no unitary (circuit.py:445)'))
        cases.append(Case(f'C03 width Z {text}', (lambda steps=steps: str(int(build_circuit(steps).num_qubit))),
                          (lambda sem=sem: program_num_qubit(sem)), key='Circuit.num_qubit', ntkey=('width-measure', it),
                          replay=dict(fn='Circuit.num_qubit', program=repr(desc))))
    # entries apply_state refuses: a placeholder gate never given a value (circuit.py:497-498), Kraus entries (:509).  They stay in
    # gate_index_list: num_qubit counts the placeholder entry at its index and skips the Kraus entry, a later shift moves the former
    for it in range(16 if ctx.quick() else 100):
        n0 = int(rng.integers(1, 4))
        steps = gen_program(rng, n0, int(rng.integers(0, 4)), integer_only=True, allow_custom=False)
        hi = n0 + int(rng.integers(0, 3))           # the refused entry may be the one that reaches the top qubit
        q = int(rng.integers(0, hi))
        bad = [('unsetP', 'rx', (q,)), ('unsetP', 'u3', (q,)), ('unsetP', 'rzz', (q, q + 1)), ('kraus', 'dephasing', q, (0.1,)),
               ('kraus', 'depolarizing', q, (0.2,)), ('kraus', 'amplitude_damping', q, (0.3,))][int(rng.integers(0, 6))]
        steps.insert(int(rng.integers(0, len(steps) + 1)), bad)
        if rng.integers(0, 3) == 0:
            steps.append(('shift', int(rng.integers(1, 3))))
        sem = program_semantics(steps)
        nq = max(program_width(sem), 1)
        if nq > 6:
            continue
        psi = rand_gi(rng, 2 ** nq, -2, 2)
        text = steps_text(steps, enc_z)
        desc = describe(steps)
        why = ('a parametrised gate whose placeholder was never set cannot be applied (circuit.py:497-498)' if bad[0] == 'unsetP'
               else 'apply_state supports the kinds unitary/control/measure/custom only (circuit.py:509): a Kraus entry must be refused')
        cases.append(Case(f'C03 circ Z {nq} {text} {enc_z(psi)}', (lambda steps=steps, psi=psi: build_circuit(steps).apply_state(psi)), None,
                          key='Circuit.apply_state(refused entry)', ntkey=('refused', bad[0], bad[1], it),
                          replay=dict(fn='Circuit.apply_state', n=nq, program=repr(desc), psi=repr(psi.tolist())), must_raise=why))
        cases.append(Case(f'C03 unitary Z {text}', (lambda steps=steps: build_circuit(steps).to_unitary()), None,
                          key='Circuit.to_unitary(refused entry)', ntkey=('refused-unitary', bad[0], it), replay=dict(fn='Circuit.to_unitary', program=repr(desc)),
                          must_raise=why))
        cases.append(Case(f'C03 width Z {text}', (lambda steps=steps: str(int(build_circuit(steps).num_qubit))),
                          (lambda sem=sem: program_num_qubit(sem)), key='Circuit.num_qubit', ntkey=('width-refused', bad[0], it),
                          replay=dict(fn='Circuit.num_qubit', program=repr(desc))))
        cases.append(Case(f'C03 indices Z {text}', (lambda steps=steps: index_list_of(build_circuit(steps))),
                          (lambda sem=sem: intended_index_list(sem)), key='Circuit.gate_index_list', ntkey=('indices-refused', bad[0], it),
                          replay=dict(fn='Circuit.gate_index_list', program=repr(desc))))
    # the same kind='custom' object applied twice (no shift: a custom gate is tied to the register width)
    for it in range(6 if ctx.quick() else 40):
        n0 = int(rng.integers(1, 4))
        steps = [make_step(rng, n0, 'myf'), make_step(rng, n0, 'X'), ('reuse', 0), ('Z', (n0 - 1,)), ('reuse', 0)]
        sem = program_semantics(steps)
        cases += program_cases(rng, steps, sem, n0, n0, ('custom-reuse', it), with_indices=True)
    return cases


# ---------------------------------------------------------------------------
# query / mutate / query histories on one Circuit object
# ---------------------------------------------------------------------------

SESSION_PARAM = ['rx', 'ry', 'rz', 'rzz', 'u3', 'crx', 'cry', 'crz', 'cu3']


def new_args_like(rng, st):
    k = len(st[-1])
    return tuple(float(x) for x in rng.uniform(-4, 4, size=k))


def gen_session(rng):
    """actions on one circuit: ('step', st) append / re-use / shift; ('set_args', k, args) on the parametrised gate created by
    step k; ('place', st) a placeholder gate followed at once by circ.setP (the only moment a placeholder takes a value);
    ('fresh', {k: args}) new angles through CircuitTorchWrapper.fresh_gate_parameter.  A query (to_unitary + apply_state on the
    basis) follows every action."""
    width = int(rng.integers(1, 4))
    actions, steps = [], []
    def params():
        return [i for i, st in enumerate(steps) if base_of(st[0]) in SESSION_PARAM]
    st = make_step(rng, width, SESSION_PARAM[int(rng.integers(0, len(SESSION_PARAM)))]) or make_step(rng, width, 'rx')
    actions.append(('step', st)); steps.append(st)
    for _ in range(int(rng.integers(3, 8))):
        r = int(rng.integers(0, 12))
        if r <= 1:
            nm = (SESSION_PARAM + ['H', 'X', 'S', 'cnot', 'Swap', 'single', 'append_u', 'csingle'])[int(rng.integers(0, len(SESSION_PARAM) + 8))]
            st = make_step(rng, width, nm) or make_step(rng, width, 'ry')
            actions.append(('step', st)); steps.append(st)
        elif r <= 5 and params():
            k = params()[int(rng.integers(0, len(params())))]
            a = new_args_like(rng, steps[k])
            actions.append(('set_args', k, a)); steps[k] = steps[k][:-1] + (a,)
        elif r == 6 and params():
            k = params()[int(rng.integers(0, len(params())))]
            e = step_semantics(steps[k])[0]
            if e[0] == 'u' and len(e[2]) <= width:
                st = ('reuse', k, pick_targets(rng, width, len(e[2])))
            elif e[0] == 'c' and len(e[2]) + len(e[3]) <= width:
                q = pick_targets(rng, width, len(e[2]) + len(e[3])); st = ('reuse', k, q[:len(e[2])], q[len(e[2]):])
            else:
                continue
            actions.append(('step', st)); steps.append(st)
        elif r == 7:
            lo = -program_min_index(program_semantics(steps)); hi = 4 - width
            d = int(rng.integers(lo, hi + 1)) if hi >= lo else 0
            if d != 0:
                actions.append(('step', ('shift', d))); steps.append(('shift', d)); width += d
        elif r == 8:
            st = make_step(rng, width, ['rxP', 'ryP'][int(rng.integers(0, 2))])
            actions.append(('place', st)); steps.append(st)
        elif r >= 9 and params():
            ks = [k for k in params() if rng.integers(0, 2)] or params()[:1]
            new = {k: new_args_like(rng, steps[k]) for k in ks}
            actions.append(('fresh', new))
            for k, a in new.items():
                steps[k] = steps[k][:-1] + (a,)
    return actions


def run_session(actions):
    """execute the actions on the real objects; after every action record (intended step list, to_unitary(), images of the basis
    under apply_state) — or the exception the query raised"""
    import numqi, torch
    b = CircuitBuilder(requires_grad=True)
    steps, rec = [], []
    for act in actions:
        try:
            if act[0] == 'step':
                b.do(act[1]); steps.append(act[1])
            elif act[0] == 'place':
                b.do(act[1]); steps.append(act[1])
                key = f'p{len(b.placeholders) - 1}'
                b.circ.setP(**{key: b.placeholders[key]})
            elif act[0] == 'set_args':
                b.objs[act[1]].set_args(act[2]); steps[act[1]] = steps[act[1]][:-1] + (tuple(act[2]),)
            elif act[0] == 'fresh':
                w = numqi.sim.CircuitTorchWrapper(b.circ)
                with torch.no_grad():
                    # the row of a gate in the wrapper's parameter tensor is identified by its current angles (all distinct)
                    for k, new in act[1].items():
                        par = w.theta[base_of(steps[k][0])]
                        cur = np.array(steps[k][-1], dtype=np.float64)
                        rows = [r for r in range(par.shape[0]) if np.array_equal(par[r].numpy(), cur)]
                        if len(rows) != 1:
                            raise ValueError('parameter row not identifiable')
                        par[rows[0]] = torch.tensor(new, dtype=torch.float64)
                w.fresh_gate_parameter()
                for k, a in act[1].items():
                    steps[k] = steps[k][:-1] + (tuple(a),)
            U = b.circ.to_unitary()
            A = np.stack([b.circ.apply_state(np.eye(U.shape[0], dtype=np.complex128)[j]) for j in range(U.shape[0])], axis=1)
            rec.append((list(steps), U, A))
        except Exception as e:
            rec.append((list(steps), 'error:' + type(e).__name__, None))
    return rec


def check_history_point(v, A, want):
    """'' if the recorded query is right, else what is wrong"""
    if isinstance(v, str):
        return f'to_unitary()/apply_state raised ({v})'
    if np.asarray(v).size != np.asarray(want).size:
        return f'to_unitary() has {int(round(np.asarray(v)[0].real))} qubits, the circuit has {int(round(np.asarray(want)[0].real))}'
    d = int(round(math.sqrt(np.asarray(v).size - 1)))
    U = np.asarray(v)[1:].reshape(d, d); W = np.asarray(want)[1:].reshape(d, d)
    if not close(U, W):
        return 'to_unitary() is not the ordered product of the embedded operators of the gates as they are now'
    if A is not None and not close(A, U):
        return 'apply_state on the basis vectors differs from to_unitary()'
    return ''


def describe_actions(actions):
    out = []
    for a in actions:
        if a[0] in ('step', 'place'):
            out.append([a[0], describe([a[1]])[0]])
        elif a[0] == 'set_args':
            out.append(['set_args', a[1], list(a[2])])
        else:
            out.append(['fresh', {int(k): list(v) for k, v in a[1].items()}])
    return out


def actions_from_desc(desc):
    out = []
    for a in desc:
        if a[0] in ('step', 'place'):
            out.append((a[0], _steps_from_desc([a[1]])[0]))
        elif a[0] == 'set_args':
            out.append(('set_args', a[1], tuple(a[2])))
        else:
            out.append(('fresh', {int(k): tuple(v) for k, v in a[1].items()}))
    return out


def session_cases(ctx, rng):
    cases = []
    for si in range(40 if ctx.quick() else 300):
        actions = gen_session(rng)
        rec = run_session(actions)
        desc = describe_actions(actions)
        for qi, (steps, U, A) in enumerate(rec):
            sem = program_semantics(steps)
            width = program_width(sem)
            if width == 0 or width > 4:
                continue
            is_int = program_is_integer(sem)
            enc = enc_z if is_int else enc_q
            text = program_text(sem, enc)
            val = U if isinstance(U, str) else np.concatenate([[U.shape[0].bit_length() - 1], U.reshape(-1)])
            c = Case(f'C03 unitary {"Z" if is_int else "Q"} {text}', (lambda val=val: val),
                     (lambda sem=sem, width=width: np.concatenate([[width], oracle_program_matrix(sem, width).reshape(-1)])),
                     approx=not is_int, key='Circuit.history', ntkey=('history-query', si, qi, actions[qi][0]),
                     replay=dict(fn='Circuit.history', actions=repr(desc), step=qi, action=repr(desc[qi])))
            c.soft = False
            cases.append(c)
            _SESSION_EXTRA[id(c)] = (si, qi, A)
    return cases


_SESSION_EXTRA = {}


def intended_index_list(sem):
    """index part of gate_index_list the program is meant to end with (shifts resolved here, independently of model and code)"""
    ent = []
    for x in sem:
        if x[0] == 's':
            ent = [(e[0], None if e[1] is None else [q + x[1] for q in e[1]], None if e[2] is None else [q + x[1] for q in e[2]]) for e in ent]
        elif x[0] == 'u':
            ent.append(('u', None, [int(q) for q in x[2]]))
        elif x[0] == 'c':
            ent.append(('c', sorted({int(q) for q in x[2]}), [int(q) for q in x[3]]))      # the controls are stored as a set
        elif x[0] == 'm':
            ent.append(('m', None, [int(q) for q in x[1]]))
        elif x[0] == 'n' and x[1] == 'p':
            ent.append(('u', None, [int(q) for q in x[2]]))
        else:
            ent.append(('x', None, None))
    return ent


def program_cases(rng, steps, sem, n, width, it, with_indices=False):
    cases = []
    if True:
        is_int = program_is_integer(sem)
        enc = enc_z if is_int else enc_q
        ring = 'Z' if is_int else 'Q'
        psi, psi_a, sdt = state_form(rng, rand_gi(rng, 2 ** n, -2, 2))
        text = steps_text(steps, enc)
        desc = describe(steps)
        kinds = tuple(sorted({s[0] for s in steps}))
        cases.append(Case(f'C03 circ {ring} {n} {text} {enc(psi)}',
                          (lambda steps=steps, psi=psi_a: build_circuit(steps).apply_state(psi)),
                          (lambda sem=sem, n=n, psi=psi: oracle_program_matrix(sem, n) @ psi),
                          approx=not is_int, key='Circuit.apply_state', ntkey=('circ', ring, n, kinds, it),
                          replay=dict(fn='Circuit.apply_state', n=n, program=repr(desc), psi=repr(psi.tolist()), state_dtype=sdt)))
        if width <= (5 if is_int else 4):
            cases.append(Case(f'C03 unitary {ring} {text}',
                              (lambda steps=steps: (lambda U: np.concatenate([[U.shape[0].bit_length() - 1], U.reshape(-1)]))(build_circuit(steps).to_unitary())),
                              (lambda sem=sem, width=width: np.concatenate([[width], oracle_program_matrix(sem, width).reshape(-1)])),
                              approx=not is_int, key='Circuit.to_unitary', ntkey=('unitary', ring, width, kinds, it),
                              replay=dict(fn='Circuit.to_unitary', program=repr(desc))))
        cases.append(Case(f'C03 width {ring} {text}', (lambda steps=steps: str(int(build_circuit(steps).num_qubit))),
                          (lambda sem=sem: program_num_qubit(sem)),
                          key='Circuit.num_qubit', ntkey=('width', kinds, it), replay=dict(fn='Circuit.num_qubit', program=repr(desc))))
        if with_indices:
            cases.append(Case(f'C03 indices {ring} {text}', (lambda steps=steps: index_list_of(build_circuit(steps))),
                              (lambda sem=sem: intended_index_list(sem)), key='Circuit.gate_index_list', ntkey=('indices', kinds, it),
                              replay=dict(fn='Circuit.gate_index_list', program=repr(desc))))
    return cases


def malformed_cases(ctx, rng):
    """inputs the implementation must reject (assert guards): the model answers `error` as well"""
    import numqi
    st = numqi.sim.state
    cases = []
    for _ in range(30 if ctx.quick() else 200):
        n = int(rng.integers(1, 5))
        psi = rand_gi(rng, 2 ** n)
        kind = int(rng.integers(0, 5))
        if kind == 0:      # duplicate target
            k = 2; t = (int(rng.integers(0, n)),) * 2; U = rand_gi(rng, (4, 4))
            cases.append(Case(f'C03 gate Z {n} {idx_str(t)} {enc_z(U)} {enc_z(psi)}', (lambda psi=psi, U=U, t=t: st.apply_gate(psi, U, t)), key='malformed', ntkey=('dup', n, t)))
        elif kind == 1:    # target out of range
            t = (n + int(rng.integers(0, 2)),); U = rand_gi(rng, (2, 2))
            cases.append(Case(f'C03 gate Z {n} {idx_str(t)} {enc_z(U)} {enc_z(psi)}', (lambda psi=psi, U=U, t=t: st.apply_gate(psi, U, t)), key='malformed', ntkey=('range', n, t)))
        elif kind == 2:    # operator of the wrong size
            t = (int(rng.integers(0, n)),); U = rand_gi(rng, (4, 4))
            cases.append(Case(f'C03 gate Z {n} {idx_str(t)} {enc_z(U)} {enc_z(psi)}', (lambda psi=psi, U=U, t=t: st.apply_gate(psi, U, t)), key='malformed', ntkey=('size', n, t)))
        elif kind == 3 and n >= 1:    # target among the controls
            q = int(rng.integers(0, n)); U = rand_gi(rng, (2, 2))
            cases.append(Case(f'C03 ctrl Z {n} {q} {q} {enc_z(U)} {enc_z(psi)}', (lambda psi=psi, U=U, q=q: st.apply_control_n_gate(psi, U, {q}, (q,))), key='malformed', ntkey=('ctrl-target', n, q)))
        elif kind == 4 and n >= 2:    # negative target
            U = rand_gi(rng, (2, 2))
            cases.append(Case(f'C03 gate Z {n} -1 {enc_z(U)} {enc_z(psi)}', (lambda psi=psi, U=U: st.apply_gate(psi, U, (-1,))), key='malformed', ntkey=('neg', n)))
    return cases


def vocabulary_cases(ctx, rng):
    """the gate vocabulary itself: (a) the live constants / constructors of numqi.gate against the Lean gate arrays,
    (b) what every gate method of Circuit appends to gate_index_list (kind, array after setP, index) against `Vocab.toRaw`"""
    import numqi
    G = numqi.gate
    cases = []
    for name in ['I', 'X', 'Y', 'Z', 'S', 'Swap', 'CNOT', 'CZ']:
        cases.append(Case(f'C03 gatemat Z {name} -', (lambda name=name: np.asarray(getattr(G, name), dtype=np.complex128)), key='numqi.gate-constant',
                          ntkey=('gatemat', name), replay=dict(fn='numqi.gate.' + name)))
    for name in ['H', 'T']:
        cases.append(Case(f'C03 gatemat Q {name} {enc_pairs(vocab_pairs(name), enc_q)}', (lambda name=name: np.asarray(getattr(G, name), dtype=np.complex128)),
                          approx=True, key='numqi.gate-constant', ntkey=('gatemat', name), replay=dict(fn='numqi.gate.' + name)))
    nrand = 6 if ctx.quick() else 60
    for name, na in [('rx', 1), ('ry', 1), ('rz', 1), ('rzz', 1), ('u3', 3)]:
        angles = [(a,) * na for a in SPECIAL_ANGLES]
        if na == 3:
            angles += [tuple(SPECIAL_ANGLES[int(i)] for i in rng.integers(0, len(SPECIAL_ANGLES), size=3)) for _ in range(nrand)]
        angles += [tuple(float(x) for x in rng.uniform(-7, 7, size=na)) for _ in range(nrand)]
        for a in angles:
            cases.append(Case(f'C03 gatemat Q {name} {enc_pairs(vocab_pairs(name, a), enc_q)}', (lambda name=name, a=a: np.asarray(getattr(G, name)(*a), dtype=np.complex128)),
                              approx=True, key='numqi.gate-constructor', ntkey=('gatemat', name, a), replay=dict(fn='numqi.gate.' + name, args=list(a))))
    # numpy-batched constructors: result shape (*theta.shape, d, d) (gate/_internal.py:183-185, 205-207, 259-266, 96-101, 283-287)
    for name, na in [('rx', 1), ('ry', 1), ('rz', 1), ('rzz', 1), ('u3', 3)]:
        for shape in ([(3,), (2, 2)] if ctx.quick() else [(5,), (2, 3), (1,), (2, 1, 2)]):
            th = [rng.uniform(-7, 7, size=shape) for _ in range(na)]
            th[0].reshape(-1)[0] = 0.0
            for i in range(int(np.prod(shape))):
                a = tuple(float(t.reshape(-1)[i]) for t in th)
                d = 4 if name == 'rzz' else 2
                cases.append(Case(f'C03 gatemat Q {name} {enc_pairs(vocab_pairs(name, a), enc_q)}',
                                  (lambda name=name, th=th, i=i, d=d, shape=shape: (lambda r: r.reshape(-1, d, d)[i] if r.shape == tuple(shape) + (d, d) else 'error:shape')(
                                      np.asarray(getattr(G, name)(*th), dtype=np.complex128))),
                                  approx=True, key='numqi.gate-constructor(batched)', ntkey=('gatemat-batched', name, shape, i),
                                  replay=dict(fn='numqi.gate.' + name, batched_shape=list(shape), item=i, args=list(a))))
    # rz(diag_only=True): only the diagonal (gate/_internal.py:262-263), scalar and batched
    for a in SPECIAL_ANGLES[:6] + [float(x) for x in rng.uniform(-7, 7, size=nrand)]:
        cases.append(Case(f'C03 gatemat Q rz {enc_pairs(vocab_pairs("rz", (a,)), enc_q)}',
                          (lambda a=a: np.diag(np.asarray(G.rz(a, diag_only=True), dtype=np.complex128))), approx=True,
                          key='numqi.gate.rz(diag_only)', ntkey=('gatemat-diag', a), replay=dict(fn='numqi.gate.rz', diag_only=True, args=[a])))
        cases.append(Case(f'C03 gatemat Q rz {enc_pairs(vocab_pairs("rz", (a,)), enc_q)}',
                          (lambda a=a: np.diag(np.asarray(G.rz(np.array([0.3, a]), diag_only=True), dtype=np.complex128)[1])), approx=True,
                          key='numqi.gate.rz(diag_only)', ntkey=('gatemat-diag-batched', a), replay=dict(fn='numqi.gate.rz', diag_only=True, args=[[0.3, a]])))
    # Circuit methods
    appended = appended_entry
    n = 5
    reps = 2 if ctx.quick() else 10
    for rep in range(reps):
        q = [int(x) for x in rng.permutation(n)]
        a1 = float(rng.uniform(-7, 7)) if rep else SPECIAL_ANGLES[int(rng.integers(0, len(SPECIAL_ANGLES)))]
        a3 = tuple(float(x) for x in rng.uniform(-7, 7, size=3))
        table = vocab_table(q, a1, a3)
        for name, qubits, args, call in table:
            is_int = name in ('X', 'Y', 'Z', 'S', 'Swap', 'cnot', 'cx', 'cy', 'cz', 'toffoli')
            enc = enc_z if is_int else enc_q
            row = [r_[3] for r_ in table].index(call)
            cases.append(Case(f'C03 vocab {"Z" if is_int else "Q"} {name} {idx_str(qubits)} {enc_pairs(vocab_pairs(name, args), enc)}',
                              (lambda call=call: appended(call)), (lambda name=name, qubits=qubits, args=args: vocab_expected(name, qubits, args)),
                              approx=not is_int, key='Circuit-method-appends', ntkey=('vocab', name, rep, len(cases)),
                              replay=dict(fn='Circuit.' + name, call=VOCAB_FORMS.get(row, 'explicit angles'), qubits=list(qubits), args=list(args),
                                          table=dict(q=q, a1=a1, a3=list(a3), row=row))))
    return cases


def appended_entry(call):
    import numqi
    circ = numqi.sim.Circuit()
    call(circ)
    gate, index = circ.gate_index_list[-1]
    if gate.kind == 'control':
        return ('c', sorted(int(x) for x in index[0]), [int(x) for x in index[1]], np.asarray(gate.array, dtype=np.complex128))
    return ('u', None, [int(x) for x in index], np.asarray(gate.array, dtype=np.complex128))


def vocab_expected(name, qubits, args):
    """model-independent reading of a gate method: the entry it must leave in gate_index_list (kind, control set, targets, array from
    the reference formulas of this file); `args=None` means angle zero, i.e. the identity (docstring `initialize to zero`)"""
    qubits = [int(x) for x in qubits]
    if name in REF:
        return ('u', None, qubits, REF[name])
    if name in CTRL_FIXED:
        return ('c', sorted(set(qubits[:-1])), qubits[-1:], REF[CTRL_FIXED[name]])
    if name in PARAM:
        return ('u', None, qubits, PARAM[name][0](*args))
    return ('c', sorted(set(qubits[:-1])), qubits[-1:], PARAM[name[1:]][0](*args))


def vocab_mismatch(v, want):
    if isinstance(v, str):
        return 'the method raised'
    if (v[0], v[1], v[2]) != (want[0], want[1], want[2]):
        return f'appended entry is {(v[0], v[1], v[2])}, expected {(want[0], want[1], want[2])}'
    if np.asarray(v[3]).shape != np.asarray(want[3]).shape or not close(v[3], want[3], 1e-12):
        return f'gate array {np.asarray(v[3]).reshape(-1)[:4].tolist()}… differs from the reference {np.asarray(want[3]).reshape(-1)[:4].tolist()}…'
    return ''


# how the rows of vocab_table beyond the plain calls supply their arguments (for the failure message / replay file)
VOCAB_FORMS = {}


def vocab_table(q, a1, a3):
    """(name, qubits, angles, call on a Circuit) for every gate method"""
    groups = [
        ('explicit angles', [
            ('X', q[:1], (), lambda c: c.X(q[0])), ('Y', q[:1], (), lambda c: c.Y(q[0])), ('Z', q[:1], (), lambda c: c.Z(q[0])),
            ('S', q[:1], (), lambda c: c.S(q[0])), ('H', q[:1], (), lambda c: c.H(q[0])), ('T', q[:1], (), lambda c: c.T(q[0])),
            ('Swap', q[:2], (), lambda c: c.Swap(q[0], q[1])),
            ('cnot', q[:2], (), lambda c: c.cnot(q[0], q[1])), ('cx', q[:2], (), lambda c: c.cx(q[0], q[1])),
            ('cy', q[:2], (), lambda c: c.cy(q[0], q[1])), ('cz', q[:2], (), lambda c: c.cz(q[0], q[1])),
            ('toffoli', q[:3], (), lambda c: c.toffoli((q[0], q[1]), q[2])),
            ('rx', q[:1], (a1,), lambda c: c.rx(q[0], a1)), ('ry', q[:1], (a1,), lambda c: c.ry(q[0], a1)), ('rz', q[:1], (a1,), lambda c: c.rz(q[0], a1)),
            ('u3', q[:1], a3, lambda c: c.u3(q[0], a3)), ('rzz', q[:2], (a1,), lambda c: c.rzz((q[0], q[1]), a1)),
            ('crx', q[:2], (a1,), lambda c: c.crx(q[0], q[1], a1)), ('cry', q[:2], (a1,), lambda c: c.cry(q[0], q[1], a1)),
            ('crz', q[:2], (a1,), lambda c: c.crz(q[0], q[1], a1)), ('cu3', q[:2], a3, lambda c: c.cu3(q[0], q[1], a3))]),
        # `_control_parameter_gate` with several controls (circuit.py:82-96)
        ('several controls', [
            ('crx', q[:3], (a1,), lambda c: c.crx((q[0], q[1]), q[2], a1)), ('cry', q[:4], (a1,), lambda c: c.cry((q[0], q[1], q[2]), q[3], a1)),
            ('crz', q[:3], (a1,), lambda c: c.crz([q[0], q[1]], q[2], a1)), ('cu3', q[:4], a3, lambda c: c.cu3((q[0], q[1], q[2]), q[3], a3))]),
        # repeated control indices collapse: the entry holds the control *set* (circuit.py:90)
        ('repeated control index', [
            ('crx', [q[0], q[0], q[1]], (a1,), lambda c: c.crx((q[0], q[0]), q[1], a1)),
            ('cu3', [q[0], q[1], q[0], q[2]], a3, lambda c: c.cu3([q[0], q[1], q[0]], q[2], a3))]),
        # `args=None`: the angles are initialised to zero (circuit.py:71-72, 86-87)
        ('args=None (angles initialised to zero)', [
            ('rx', q[:1], (0.0,), lambda c: c.rx(q[0])), ('ry', q[:1], (0.0,), lambda c: c.ry(q[0])), ('rz', q[:1], (0.0,), lambda c: c.rz(q[0])),
            ('u3', q[:1], (0.0, 0.0, 0.0), lambda c: c.u3(q[0])), ('rzz', q[:2], (0.0,), lambda c: c.rzz((q[0], q[1]))),
            ('crx', q[:2], (0.0,), lambda c: c.crx(q[0], q[1])), ('cry', q[:2], (0.0,), lambda c: c.cry(q[0], q[1])),
            ('crz', q[:2], (0.0,), lambda c: c.crz(q[0], q[1])), ('cu3', q[:3], (0.0, 0.0, 0.0), lambda c: c.cu3((q[0], q[1]), q[2]))]),
        # parameters supplied later through the placeholder mechanism
        ('placeholder + setP', [
            ('rx', q[:1], (a1,), lambda c: (c.rx(q[0], c.P['t']), c.setP(t=a1))), ('u3', q[:1], a3, lambda c: (c.u3(q[0], c.P['w']), c.setP(w=np.array(a3)))),
            ('rz', q[:1], (a1,), lambda c: (c.rz(q[0], c.P[0]), c.setP([a1, 0.5])))]),
    ]
    out = []
    for form, rows in groups:
        for r_ in rows:
            VOCAB_FORMS[len(out)] = form
            out.append(r_)
    return out


def slice_cases(ctx, rng):
    """reduce_shape_index on general shapes, and the control slice of _control_n_index as a set of flat positions"""
    import numqi
    st = numqi.sim.state
    cases = []
    def enc_ri(shape, idx):
        return ';'.join(str(int(x)) for x in shape) + ' ' + ';'.join('N' if isinstance(y, slice) or y is None else str(int(y)) for y in idx)
    for _ in range(60 if ctx.quick() else 600):
        L = int(rng.integers(1, 8))
        shape = tuple(int(x) for x in rng.integers(2, 6, size=L))
        index = tuple((None if rng.integers(0, 2) else int(rng.integers(0, d))) for d in shape)
        cases.append(Case('C03 rsi ' + enc_ri(shape, index), (lambda shape=shape, index=index: enc_ri(*st.reduce_shape_index(shape, index))),
                          key='reduce_shape_index', ntkey=('rsi', shape, index)))
    nmax = 5 if ctx.quick() else 7
    for n in range(1, nmax + 1):
        for r in range(0, n + 1):
            for c in itertools.combinations(range(n), r):
                free = [q for q in range(n) if q not in c]
                if free:
                    # which flat positions the control slice touches, read off the PUBLIC routine: the doubling operator 2*I on a
                    # free target multiplies exactly the entries whose controls are all 1
                    def f(n=n, c=c, t=free[0]):
                        ones = np.ones(2 ** n, dtype=np.complex128)
                        r_ = st.apply_control_n_gate(ones, 2 * np.eye(2), set(c), (t,)) if c else st.apply_gate(ones, 2 * np.eye(2), (t,))
                        if not np.all((r_ == 1) | (r_ == 2)):
                            return 'not-a-0/1-selection'
                        return ';'.join(str(int(x)) for x in np.nonzero(r_ == 2)[0]) + ' slice=bitwise'
                    cases.append(Case(f'C03 slicepos {n} {idx_str(c)}', f, key='control-slice', ntkey=('slicepos', n, c)))
                # optional extra: the private helper, compared only if still callable with the known signature / return arity
                def fx(n=n, c=c, free=free):
                    r3 = st._control_n_index(n, set(c), tuple(free[:1]))
                    if not (isinstance(r3, tuple) and len(r3) == 3):
                        raise TypeError('different return arity')
                    pos = np.arange(2 ** n).reshape(r3[0])[r3[1]].reshape(-1)
                    return ';'.join(str(int(x)) for x in pos) + ' slice=bitwise'
                cases.append(Case(f'C03 slicepos {n} {idx_str(c)}', fx, key='control-slice(private helper)', ntkey=('slicepos-helper', n, c), soft=True))
    return cases


# ---------------------------------------------------------------------------
# gate-derivative: theta -> U(theta) (serves C04's claim "the optimiser receives the true gradient w.r.t. the angles")
# ---------------------------------------------------------------------------

HALF_BITS = None


def ref_dgate(name, part, args):
    """closed-form derivative of the reference gate formulas (harness side, independent of Lean and of numqi)"""
    X, Y, Z = REF['X'], REF['Y'], REF['Z']
    if name == 'rx':
        return -0.5j * X @ ref_rx(*args)
    if name == 'ry':
        return -0.5j * Y @ ref_ry(*args)
    if name == 'rz':
        return -0.5j * Z @ ref_rz(*args)
    if name == 'rzz':
        return -0.5j * np.kron(Z, Z) @ ref_rzz(*args)
    th, ph, la = args
    c, s_ = math.cos(th / 2), math.sin(th / 2)
    el, ep = np.exp(1j * la), np.exp(1j * ph)
    if part == 't':
        return 0.5 * np.array([[-s_, -c * el], [c * ep, -s_ * el * ep]])
    if part == 'p':
        return np.array([[0, 0], [s_ * 1j * ep, c * el * 1j * ep]])
    return np.array([[0, -s_ * 1j * el], [0, c * 1j * el * ep]])


def guarded_any(f):
    """torch raises RuntimeError for a broken graph: any exception of the real code is an observable failure here"""
    try:
        return f()
    except Exception as e:
        return 'error:' + type(e).__name__


def torch_jacobian(name, args):
    """d gate / d angle_a from torch autograd through the real constructor (float64), one complex matrix per angle"""
    import torch, numqi
    f = getattr(numqi.gate, name)
    a = torch.tensor(list(args), dtype=torch.float64)
    J = torch.autograd.functional.jacobian(lambda a: torch.view_as_real(f(*[a[i] for i in range(len(args))])), a)
    J = J.detach().numpy()
    return [J[..., 0, i] + 1j * J[..., 1, i] for i in range(len(args))]


def derivative_cases(ctx, rng):
    """`dgate` ops: the Lean derivative arrays (exact, pairs as bit patterns) against torch autograd of the real constructors"""
    cases = []
    half = enc_q(np.array([0.5]))
    nrand = 4 if ctx.quick() else 40
    for name, na in [('rx', 1), ('ry', 1), ('rz', 1), ('rzz', 1), ('u3', 3)]:
        angles = [(a,) * na for a in SPECIAL_ANGLES] + [tuple(float(x) for x in rng.uniform(-7, 7, size=na)) for _ in range(nrand)]
        if na == 3:
            angles += [tuple(SPECIAL_ANGLES[int(i)] for i in rng.integers(0, len(SPECIAL_ANGLES), size=3)) for _ in range(nrand)]
        for a in angles:
            parts = ['t', 'p', 'l'] if na == 3 else ['-']
            for i, part in enumerate(parts):
                dname = name + part if na == 3 else name
                cases.append(Case(f'C03 dgate Q {dname} {half} {enc_pairs(vocab_pairs(name, a), enc_q)}',
                                  (lambda name=name, a=a, i=i: np.asarray(torch_jacobian(name, a)[i], dtype=np.complex128)),
                                  (lambda name=name, a=a, part=part: ref_dgate(name, part, a)),
                                  approx=True, key='gate-derivative', ntkey=('dgate', dname, a),
                                  replay=dict(fn='d numqi.gate.' + name, part=part, args=list(a))))
    return cases


PARAM_NAMES = ['rx', 'ry', 'rz', 'rzz', 'u3', 'crx', 'cry', 'crz', 'cu3', 'rxP', 'ryP']


def base_of(name):
    """vocabulary name of a step name (`rxP`/`ryP` are rx/ry whose angle is a placeholder supplied from outside)"""
    return name[:2] if name in ('rxP', 'ryP') else name


def gen_trainable(rng, special=False):
    """a small circuit of trainable parametrised gates (distinct angles, so that a row of the wrapper's parameter tensor is
    identified by its values), fixed gates in between, and possibly one gate object re-used at a second placement (shared angle)"""
    n = int(rng.integers(1, 4))
    steps = []
    ng = int(rng.integers(1, 5))
    for _ in range(ng):
        if rng.integers(0, 3) == 0:
            steps.append(make_step(rng, n, ['H', 'X', 'S', 'cnot', 'Swap'][int(rng.integers(0, 5))]) or make_step(rng, n, 'H'))
        name = PARAM_NAMES[int(rng.integers(0, len(PARAM_NAMES)))]
        st = make_step(rng, n, name) or make_step(rng, n, 'rx')
        if special:
            k = 3 if st[0] in ('u3', 'cu3') else 1
            ang = tuple(SPECIAL_ANGLES[int(i)] + 1e-3 * float(rng.uniform(-1, 1)) * 0 for i in rng.integers(0, len(SPECIAL_ANGLES) - 1, size=k))
            st = st[:-1] + (ang,)
        steps.append(st)
    trainable = [i for i, st in enumerate(steps) if st[0] in PARAM_NAMES and st[0] not in ('rxP', 'ryP')]
    if rng.integers(0, 2) and trainable:
        k = trainable[int(rng.integers(0, len(trainable)))]
        e = step_semantics(steps[k])[0]
        if e[0] == 'u':
            steps.append(('reuse', k, pick_targets(rng, n, len(e[2]))))
        elif len(e[2]) + len(e[3]) <= n:
            q = pick_targets(rng, n, len(e[2]) + len(e[3]))
            steps.append(('reuse', k, q[:len(e[2])], q[len(e[2]):]))
    return n, steps


def trainable_cases(ctx, rng):
    out = []
    nc = 30 if ctx.quick() else 250
    it = 0
    while len(out) < nc and it < 10 * nc:
        it += 1
        n, steps = gen_trainable(rng, special=(it % 4 == 0))
        # distinct argument tuples per gate name (rows of the parameter tensor are identified by value)
        seen = set()
        ok = True
        for st in steps:
            if st[0] in PARAM_NAMES:
                key = (base_of(st[0]), st[-1])
                ok = ok and key not in seen
                seen.add(key)
        if not ok:
            continue
        psi = rand_gi(rng, 2 ** n, -2, 2)
        if not np.any(psi):
            psi[0] = 1
        g = rand_gi(rng, 2 ** n, -2, 2)
        out.append((n, steps, psi, g))
    return out


def wrapper_gradient(n, steps, psi, g):
    """what the optimiser receives: {(step index, angle position): d Re<g, F(theta) psi> / d angle} from CircuitTorchWrapper + autograd"""
    import torch, numqi
    circ = build_circuit(steps, requires_grad=True, resolve_placeholders=False)
    w = numqi.sim.CircuitTorchWrapper(circ)
    # placeholder angles are supplied from outside as tensors (keys p0, p1, … in the order build_circuit created them)
    ph, k = {}, 0
    for i, st in enumerate(steps):
        if st[0] in ('rxP', 'ryP'):
            ph[i] = (f'p{k}', torch.tensor(st[-1][0], dtype=torch.float64, requires_grad=True)); k += 1
    if ph:
        w.setP(**{key: t for key, t in ph.values()})
    out = w(torch.tensor(psi))
    loss = torch.real(torch.vdot(torch.tensor(g), out))
    loss.backward()
    res = {}
    for i, st in enumerate(steps):
        if st[0] in ('rxP', 'ryP'):
            res[(i, 0)] = float(ph[i][1].grad)
        elif st[0] in PARAM_NAMES:
            th = w.theta[st[0]].detach().numpy()
            gr = w.theta[st[0]].grad.numpy()
            rows = [r for r in range(th.shape[0]) if np.array_equal(th[r], np.array(st[-1], dtype=np.float64))]
            if len(rows) != 1:
                raise ValueError('parameter row not identifiable')
            for a in range(len(st[-1])):
                res[(i, a)] = float(gr[rows[0], a])
    return res


def derivative_entries(steps):
    """for every trainable step and angle position: the placements (sem index, qubits) of its gate object and the dv-name"""
    sem = program_semantics(steps)
    owners = {}
    for i, st in enumerate(steps):
        k = st[1] if st[0] == 'reuse' else i
        owners.setdefault(k, []).append(i)
    ent = {}
    for k, occ in owners.items():
        st = steps[k]
        if st[0] not in PARAM_NAMES:
            continue
        for a in range(len(st[-1])):
            base = base_of(st[0])
            dname = (base + 'tpl'[a]) if base in ('u3', 'cu3') else base
            ent[(k, a)] = (dname, occ)
    return sem, ent


def program_text_derivative(sem, i_repl, dname, args, enc, half):
    out = []
    for i, x in enumerate(sem):
        if i == i_repl:
            qubits = tuple(x[2]) if x[0] == 'u' else tuple(x[2]) + tuple(x[3])
            base = dname.rstrip('tpl') if dname.rstrip('tpl') in ('u3', 'cu3') else dname
            out.append(f'dv:{dname}:{idx_str(qubits)}:{half}:{enc_pairs(vocab_pairs(base, args), enc)}')
        else:
            out.append(program_text([x], enc))
    return '|'.join(out)


def gate_derivative_tie(ctx):
    """`angle_gradient` on the real code: the gradient CircuitTorchWrapper delivers for every angle against
    sum over placements of Re<g, (circuit with dGate/dtheta in place of the gate) psi> evaluated by the Lean model"""
    circuits = _CACHE.setdefault('gd', trainable_cases(ctx, np.random.default_rng(ctx.np_seed + 11)))
    half = enc_q(np.array([0.5]))
    ops, meta = [], []
    for ci, (n, steps, psi, g) in enumerate(circuits):
        sem, ent = derivative_entries(steps)
        for (k, a), (dname, occ) in ent.items():
            for i in occ:
                ops.append(f'C03 circ Q {n} {program_text_derivative(sem, i, dname, steps[k][-1], enc_q, half)} {enc_q(psi)}')
                meta.append((ci, k, a, 1.0))
                if sem[i][0] == 'c':
                    # a controlled gate is affine in its matrix, (1-P) + P*embed(U): its derivative is the control-on block only,
                    # obtained from the model as (entry with dU) - (entry with the zero matrix)
                    x = sem[i]
                    zero = f'c:{idx_str(x[2])}:{idx_str(x[3])}:{enc_q(np.zeros_like(np.asarray(x[1], dtype=np.complex128)))}'
                    txt = '|'.join(zero if j == i else program_text([y], enc_q) for j, y in enumerate(sem))
                    ops.append(f'C03 circ Q {n} {txt} {enc_q(psi)}')
                    meta.append((ci, k, a, -1.0))
    model = common.run_model(ops, pid='C03') if ops else []
    expect = {}
    bad_model = set()
    for (ci, k, a, sign), line in zip(meta, model):
        if line.startswith('error') or line == 'bad-op':
            bad_model.add((ci, k, a)); continue
        expect[(ci, k, a)] = expect.get((ci, k, a), 0.0) + sign * float(np.real(np.vdot(circuits[ci][3], dec_q(line))))
    for ci, (n, steps, psi, g) in enumerate(circuits):
        got = guarded_any(lambda: wrapper_gradient(n, steps, psi, g))
        sem, ent = derivative_entries(steps)
        for (k, a) in ent:
            ctx.count('angle-gradient')
            op = f'C03 angle-gradient circuit#{ci} step{k} angle{a} ' + repr(describe(steps))[:300]
            if isinstance(got, str) or (ci, k, a) in bad_model:
                ctx.disagree(op, 'model: ' + ('error' if (ci, k, a) in bad_model else f'{expect.get((ci, k, a))}'), f'impl: {got}')
                continue
            e, v = expect[(ci, k, a)], got[(k, a)]
            if abs(e - v) <= TOL * max(1.0, abs(e)):
                ctx.agree(op, ('angle-gradient', ci, k, a))
            else:
                ctx.disagree(op, f'{e!r}', f'{v!r}')


def gate_derivative_probe(ctx):
    """model-independent: the delivered gradient against the product rule with the kron oracle and the closed-form
    derivatives -(i/2) G gate(theta) of the harness reference formulas"""
    circuits = _CACHE.setdefault('gd', trainable_cases(ctx, np.random.default_rng(ctx.np_seed + 11)))
    for ci, (n, steps, psi, g) in enumerate(circuits):
        got = guarded_any(lambda: wrapper_gradient(n, steps, psi, g))
        rp = dict(fn='CircuitTorchWrapper gradient', n=n, program=repr(describe(steps)), psi=repr(psi.tolist()), g=repr(g.tolist()))
        if isinstance(got, str):
            ctx.fail('gate-derivative:raises', 'CircuitTorchWrapper forward/backward raised on a circuit of trainable vocabulary gates', rp)
            continue
        sem, ent = derivative_entries(steps)
        for (k, a), (dname, occ) in ent.items():
            base = base_of(steps[k][0])
            D = ref_dgate(base[1:] if base.startswith('c') else base, 'tpl'[a] if base in ('u3', 'cu3') else '-', steps[k][-1])
            want = 0.0
            for i in occ:
                v = psi.astype(np.complex128)
                for j, x in enumerate(sem):
                    A = D if j == i else x[1]
                    E = oracle_embed(A, x[2], n) if x[0] == 'u' else (oracle_ctrl(A, x[2], x[3], n) - (0 if j != i else (np.eye(2 ** n) - _ctrl_proj(x[2], n))))
                    v = E @ v
                want += float(np.real(np.vdot(g, v)))
            if abs(want - got[(k, a)]) > 1e-9 * max(1.0, abs(want)):
                ctx.fail('gate-derivative', f'gradient delivered for angle {a} of {base} (step {k}) is {got[(k, a)]!r}, the derivative of Re<g,F(theta)psi> is {want!r}',
                         dict(rp, step=k, angle=a, observed=got[(k, a)], expected=want))
            else:
                ctx.probe_ok(('gate-derivative', ci, k, a))


def qudit_probe(ctx):
    """the d != 2 branches of rx / rz (gate/_internal.py:186-187, 267-268) are not modelled: observed here only — unitarity,
    restoration of the qubit gate at d = 2, diag_only consistency, batched shape"""
    import numqi
    G = numqi.gate
    rng = np.random.default_rng(ctx.np_seed + 5)
    for d in (2, 3, 4, 5):
        for a in [0.0, math.pi, -math.pi / 2] + [float(x) for x in rng.uniform(-7, 7, size=3)]:
            for name in ('rx', 'rz'):
                U = guarded_any(lambda: np.asarray(getattr(G, name)(a, d=d)))
                if isinstance(U, str) or U.shape != (d, d) or not close(U @ U.conj().T, np.eye(d), 1e-10):
                    ctx.fail('qudit-constructor:' + name, f'numqi.gate.{name}({a}, d={d}) is not a {d}x{d} unitary', dict(fn='numqi.gate.' + name, args=[a], d=d))
                    continue
                if d == 2 and not close(U, (ref_rx if name == 'rx' else ref_rz)(a), 1e-12):
                    ctx.fail('qudit-constructor:' + name, f'numqi.gate.{name}({a}, d=2) is not the qubit gate', dict(fn='numqi.gate.' + name, args=[a], d=2))
                    continue
                ctx.probe_ok(('qudit', name, d, a))
            D = guarded_any(lambda: np.asarray(G.rz(a, d=d, diag_only=True)))
            F = guarded_any(lambda: np.asarray(G.rz(a, d=d)))
            if isinstance(D, str) or isinstance(F, str) or not close(np.diag(D), F, 1e-12):
                ctx.fail('qudit-constructor:rz-diag_only', f'rz({a}, d={d}, diag_only=True) is not the diagonal of rz({a}, d={d})', dict(fn='numqi.gate.rz', args=[a], d=d))
            else:
                ctx.probe_ok(('qudit-diag', d, a))
        B = guarded_any(lambda: np.asarray(G.rx(np.array([0.1, 0.2, 0.3]), d=d)))
        if isinstance(B, str) or B.shape != (3, d, d) or not close(B[1], np.asarray(G.rx(0.2, d=d)), 1e-12):
            ctx.fail('qudit-constructor:rx-batched', f'rx(batched, d={d}) does not have shape (3,{d},{d}) / the items of the scalar calls', dict(fn='numqi.gate.rx', d=d))
        else:
            ctx.probe_ok(('qudit-batched', d))


def _ctrl_proj(c, n):
    P = np.array([[1.0]])
    for q in range(n):
        P = np.kron(P, np.diag([0.0, 1.0]) if q in set(c) else np.eye(2))
    return P


def _arrays_in(obj, out, depth=0):
    if isinstance(obj, np.ndarray):
        out.append(obj)
    elif isinstance(obj, (list, tuple)) and depth < 6:
        for x in obj:
            _arrays_in(x, out, depth + 1)
    elif isinstance(obj, dict) and depth < 6:
        for x in obj.values():
            _arrays_in(x, out, depth + 1)
    return out


def _same(a, b):
    if isinstance(a, str) or isinstance(b, str):
        return isinstance(a, str) and isinstance(b, str) and a == b
    if isinstance(a, (tuple, list)) and isinstance(b, (tuple, list)):
        return len(a) == len(b) and all(_same(x, y) for x, y in zip(a, b))
    if a is None or b is None:
        return a is None and b is None
    try:
        x, y = np.asarray(a), np.asarray(b)
        return x.shape == y.shape and bool(np.array_equal(x, y, equal_nan=True))
    except Exception:
        return a == b


def _snapshot(v):
    if isinstance(v, np.ndarray):
        return v.copy()
    if isinstance(v, (tuple, list)):
        return type(v)(_snapshot(x) for x in v)
    return v


def _cx(x):
    if isinstance(x, list):
        return [_cx(y) for y in x]
    return complex(x) if isinstance(x, str) else complex(x)


def corpus_cases(ctx):
    """original witnesses of the repaired defects of this property (corpus/C03/*.json), replayed first in both tiers"""
    import glob, json, os, numqi
    dm = numqi.sim.dm
    cases = []
    for f in sorted(glob.glob(os.path.join(common.VERIF, 'corpus', 'C03', '*.json'))):
        for i, e in enumerate(json.load(open(f))['entries']):
            n = e['n']
            if e['kind'] in ('apply_control_n_gate', 'circuit-controlled'):
                st_ = numqi.sim.state
                U = np.array(_cx(e['U']), dtype=np.complex128)
                psi_v = np.array(_cx(e['psi']), dtype=np.complex128)
                psi_a = psi_v.real.astype(np.dtype(e['dtype']))
                c, t = tuple(e['control']), tuple(e['target'])
                rp = dict(n=n, control=list(c), target=list(t), op=repr(U.tolist()), psi=repr(psi_v.tolist()), state_dtype=e['dtype'], corpus=os.path.basename(f))
                ctx.count('corpus')
                if e['kind'] == 'apply_control_n_gate':
                    impl = (lambda psi=psi_a, U=U, c=c, t=t: st_.apply_control_n_gate(psi, U, set(c), t))
                else:
                    def impl(psi=psi_a, U=U, c=c, t=t):
                        circ = numqi.sim.Circuit()
                        circ.controlled_single_qubit_gate(U, set(c), t[0]) if len(t) == 1 else circ.controlled_double_qubit_gate(U, set(c), t)
                        return circ.apply_state(psi)
                cases.append(Case(f'C03 ctrl Z {n} {idx_str(c)} {idx_str(t)} {enc_z(U)} {enc_z(psi_v)}', impl,
                                  (lambda psi=psi_v, U=U, c=c, t=t, n=n: oracle_ctrl(U, c, t, n) @ psi),
                                  key='apply_control_n_gate', ntkey=('corpus', os.path.basename(f), i), replay=dict(fn='apply_control_n_gate', **rp)))
                continue
            idx = eval(e['index'], {'__builtins__': {}}, {})
            t = (idx,) if isinstance(idx, int) else tuple(idx)
            U = np.array(_cx(e['U']), dtype=np.complex128); rho = np.array(_cx(e['rho']), dtype=np.complex128)
            rp = dict(n=n, index=e['index'], op=repr(U.tolist()), rho=repr(rho.tolist()), corpus=os.path.basename(f))
            ctx.count('corpus')
            if e['kind'] == 'dm.apply_gate':
                cases.append(Case(f'C03 dm Z {n} {idx_str(t)} {enc_z(U)} {enc_z(rho)}', (lambda rho=rho, U=U, idx=idx: dm.apply_gate(rho, U, idx)),
                                  (lambda rho=rho, U=U, t=t, n=n: (lambda E: E @ rho @ E.conj().T)(oracle_embed(U, t, n))),
                                  key='dm.apply_gate', ntkey=('corpus', os.path.basename(f), i), replay=dict(fn='dm.apply_gate', **rp)))
            else:
                cases.append(Case(f'C03 expect Z {n} {idx_str(t)} {enc_z(U)} {enc_z(rho)}',
                                  (lambda rho=rho, U=U, idx=idx: np.asarray(dm.operator_expectation(rho, U, idx)).reshape(1)),
                                  (lambda rho=rho, U=U, t=t, n=n: np.trace(rho @ oracle_embed(U, t, n)).reshape(1)),
                                  key='dm.operator_expectation', ntkey=('corpus', os.path.basename(f), i), replay=dict(fn='dm.operator_expectation', **rp)))
    return cases


def run_case(c):
    """call the implementation with every array argument snapshotted: the arguments must be bit-identical afterwards, a second
    call on the very same argument objects must return the same value, and the value returned first must not change when
    the routine is called again (no aliasing of caller data or of cached buffers)"""
    arrs = _arrays_in(list(c.impl.__defaults__ or ()), [])
    snaps = [(a.copy(), a.dtype, a.strides) for a in arrs]
    v1 = guarded(c.impl)
    problems = []
    if any(not (np.array_equal(a, s0, equal_nan=True) and a.dtype == dt) for a, (s0, dt, _) in zip(arrs, snaps)):
        problems.append('an argument array was modified by the call')
    keep = _snapshot(v1)
    v2 = guarded(c.impl)
    if not _same(v1, keep):
        problems.append('the value returned by the first call changed when the routine was called again (it aliases a shared buffer)')
    elif not _same(v2, keep):
        problems.append('a second call on the same argument objects returned a different value')
    if not problems and isinstance(v1, np.ndarray) and any(np.shares_memory(v1, a) for a in arrs) and c.key in NO_ALIAS_KEYS:
        problems.append('the returned array shares memory with an argument')
    c.alias = problems[0] if problems else None
    return keep


# routines whose result is a new state (must not be a view of the caller's state)
NO_ALIAS_KEYS = {'apply_gate', 'apply_control_n_gate', 'dm.apply_gate', 'Circuit.apply_state'}

_CACHE = {}


def all_cases(ctx):
    if 'cases' not in _CACHE:
        rng = np.random.default_rng(ctx.np_seed)
        cases = corpus_cases(ctx) + gate_cases(ctx, rng) + embed_cases(ctx, rng) + dm_cases(ctx, rng) + inner_cases(ctx, rng) + prob_cases(ctx, rng) \
            + circuit_cases(ctx, rng) + malformed_cases(ctx, rng) + slice_cases(ctx, rng) + vocabulary_cases(ctx, rng) + derivative_cases(ctx, rng) + session_cases(ctx, rng)
        for c in cases:
            if c.soft:
                try:
                    c.value = c.impl()
                except Exception as e:      # internal helper renamed / re-shaped: the tie is simply not applicable
                    c.value = 'unavailable:' + type(e).__name__
            else:
                c.value = run_case(c)
        _CACHE['cases'] = cases
    return _CACHE['cases']


def close(a, b, tol=TOL):
    a = np.asarray(a, dtype=np.complex128).reshape(-1); b = np.asarray(b, dtype=np.complex128).reshape(-1)
    if a.shape != b.shape:
        return False
    scale = max(1.0, float(np.max(np.abs(b))) if b.size else 1.0)
    return bool(np.all(np.abs(a - b) <= tol * scale))


def agree(case, model_line):
    """implementation value vs the model's canonical line"""
    v = case.value
    if isinstance(v, str):
        return v == model_line
    if model_line in ('error', 'bad-op') or model_line.startswith('error'):
        return False
    if case.op.split(' ')[1] == 'indices':
        got = []
        for e in (model_line.split('|') if model_line else []):
            t = e.split(':')
            f = lambda z: [] if z == '-' else [int(q) for q in z.split(';')]
            got.append(('x', None, None) if t[0] == 'x' else ('c', sorted(f(t[1])), f(t[2])) if t[0] == 'c' else (t[0], None, f(t[1])))
        return got == v
    if case.op.split(' ')[1] == 'vocab':
        kind, ctrl, targets, arr = v
        t = model_line.split(' ')
        if t[0] != kind or len(t) != (4 if kind == 'c' else 3):
            return False
        if kind == 'c' and sorted(int(x) for x in t[1].split(';')) != ctrl:
            return False
        if [int(x) for x in t[-2].split(';')] != targets:
            return False
        v, model_line = arr, t[-1]
    if case.op.split(' ')[1] == 'unitary':
        w, rest = model_line.split(' ', 1)
        if int(w) != int(round(v[0].real)):
            return False
        v = v[1:]; model_line = rest
    if not case.approx:
        e = enc_z(v)
        return e is not None and e == model_line
    ring = case.op.split(' ')[2]
    m = dec_z(model_line) if ring == 'Z' else dec_q(model_line)
    return close(v, m, case.tol or (1e-12 if case.op.split(' ')[1] in ('gatemat', 'vocab', 'dgate') else TOL))


def correspondence(ctx):
    cases = all_cases(ctx)
    ops = [c.op for c in cases]
    model = common.run_model(ops, pid='C03')
    for c, m in zip(cases, model):
        ctx.count(c.key)
        if agree(c, m):
            ctx.agree(c.op, c.ntkey)
        elif c.soft:
            ctx.count('internal-helper-tie-mismatch:' + c.key)
            if not any(c.key in x for x in ctx.notes):
                ctx.note(f'internal helper behind {c.key} no longer matches its literal model (e.g. {c.op[:80]}: impl {str(c.value)[:60]} / model {m[:60]}); '
                         'not a property violation by itself - the public routines are compared on every index pattern')
        else:
            v = c.value
            shown = v if isinstance(v, str) else (repr(v) if isinstance(v, (tuple, list)) else (enc_z(v) or repr(np.asarray(v).tolist())))
            ctx.disagree(c.op if len(c.op) < 4000 else c.op[:4000] + '…', m[:2000], shown[:2000])
    gate_derivative_tie(ctx)
    for c in cases[:3]:
        ctx.sample({'op': c.op[:200], 'out': (c.value if isinstance(c.value, str) else enc_z(c.value) or '')[:120]})
    ctx.assumptions += ['opt_einsum.contract computes the einsum its label lists denote (contraction order is result-equivalent)',
                        'numpy complex128 arithmetic on integers of magnitude < 2^53 is exact (inputs are bounded so that every intermediate value stays below)',
                        'the reference gate arrays of harness/c03.py are what the gate names of numqi.sim.Circuit mean (checked against numqi.gate to 1e-13 in the probe)']
    ctx.extra['tolerance'] = f'exact on Gaussian-integer inputs; {TOL} * max(1,|.|_inf) for programs with non-integer gates and for reduce_to_probability (np.abs()**2 rounds)'


def probe(ctx):
    """direct, model-independent evaluation: every routine against the np.kron + axis-permutation oracle"""
    import numqi
    cases = all_cases(ctx)
    failed_sessions = set()
    for c in cases:
        if c.alias:
            ctx.fail('aliasing:' + c.key, f'{c.key}: {c.alias}', dict(c.replay or {}, op=c.op[:300]))
        if c.must_raise:
            # refusal ties: the documented behaviour is to raise; a returned value is a failing input of its own
            if isinstance(c.value, str):
                ctx.probe_ok(('probe',) + tuple(c.ntkey))
            else:
                ctx.fail(c.key + ':returns', f'{c.key} returned a value where it must raise: {c.must_raise}',
                         dict(c.replay or {}, must_raise=c.must_raise, observed=repr(np.asarray(c.value).reshape(-1)[:8].tolist())))
            continue
        if c.oracle is None:
            continue
        want = c.oracle()
        v = c.value
        if c.key == 'Circuit-method-appends':
            bad = vocab_mismatch(v, want)
            if bad:
                ctx.fail(c.key, f"Circuit.{c.replay['fn'].split('.')[-1]}({c.replay['call']}): {bad}", dict(c.replay, observed=repr(v if isinstance(v, str) else (v[0], v[1], v[2], np.asarray(v[3]).tolist()))))
            else:
                ctx.probe_ok(('probe',) + tuple(c.ntkey))
            continue
        if isinstance(v, str) and c.key != 'Circuit.num_qubit':
            ctx.fail(c.key + ':raises', f'{c.key} raised on a valid input', c.replay)
            continue
        if c.key == 'Circuit.history':
            si, qi, A = _SESSION_EXTRA[id(c)]
            if si in failed_sessions:
                continue       # only the first failing step of a history is reported
            bad = check_history_point(v, A, want)
            if bad:
                failed_sessions.add(si)
                ctx.fail('Circuit.history' if 'raised' not in bad else 'Circuit.history:raises',
                         f'history of one Circuit object: after step {qi} ({c.replay["action"][:120]}) {bad}',
                         dict(c.replay, first_failing_step=qi))
            else:
                ctx.probe_ok(('probe',) + tuple(c.ntkey))
            continue
        if c.key == 'Circuit.num_qubit':
            if v != want:
                ctx.fail(c.key, f'Circuit.num_qubit is {v}, the entries reach {want} qubits', dict(c.replay or {}, observed=v, expected=want))
            else:
                ctx.probe_ok(('probe',) + tuple(c.ntkey))
            continue
        if c.key == 'Circuit.gate_index_list':
            if v != want:
                ctx.fail(c.key, f'gate_index_list after the history is {v}, intended placements are {want}', dict(c.replay or {}, observed=repr(v), expected=repr(want)))
            else:
                ctx.probe_ok(('probe',) + tuple(c.ntkey))
            continue
        ok = np.array_equal(np.asarray(v).reshape(-1), np.asarray(want).reshape(-1)) if not c.approx else close(v, want, c.tol or TOL)
        if not ok:
            ctx.fail(c.key, f'{c.key} differs from the explicitly embedded operator (np.kron oracle): got {np.asarray(v).reshape(-1)[:6].tolist()}…, '
                             f'expected {np.asarray(want).reshape(-1)[:6].tolist()}…', dict(c.replay or {}, observed=repr(np.asarray(v).tolist()), expected=repr(np.asarray(want).tolist())))
        else:
            ctx.probe_ok(('probe',) + tuple(c.ntkey) if c.ntkey else None)
        if c.key == 'Circuit.to_unitary' and not isinstance(v, str) and np.asarray(v).size == np.asarray(want).size:
            U = np.asarray(v)[1:]
            d = int(round(math.sqrt(U.size)))
            U = U.reshape(d, d)
            # unitarity is claimed for circuits of unitary gates only: the generator uses non-unitary ('sparse') matrices too,
            # so test it against the oracle product instead of assuming it
            W = np.asarray(want)[1:].reshape(d, d)
            if close(W @ W.conj().T, np.eye(d)) and not close(U @ U.conj().T, np.eye(d)):
                ctx.fail('Circuit.to_unitary:not-unitary', 'to_unitary of a circuit of unitary gates is not unitary', c.replay)
            else:
                ctx.probe_ok()
    gate_derivative_probe(ctx)
    qudit_probe(ctx)
    buffer_reuse_probe(ctx)
    # reference gate arrays used for the model's reading of the vocabulary agree with the live constants
    G = numqi.gate
    live = dict(X=G.X, Y=G.Y, Z=G.Z, H=G.H, S=G.S, T=G.T, Swap=G.Swap)
    for k, v in live.items():
        if not close(v, REF[k], 1e-14):
            ctx.fail('gate-constant:' + k, f'numqi.gate.{k} differs from the textbook matrix', dict(fn='numqi.gate.' + k, observed=repr(np.asarray(v).tolist())))
        else:
            ctx.probe_ok(('const', k))
    rng = np.random.default_rng(ctx.np_seed + 1)
    for name, (f, na) in PARAM.items():
        for _ in range(5):
            a = tuple(float(x) for x in rng.uniform(-4, 4, size=na))
            if not close(getattr(G, name)(*a), f(*a), 1e-13):
                ctx.fail('gate-constructor:' + name, f'numqi.gate.{name}{a} differs from the reference formula', dict(fn='numqi.gate.' + name, args=a))
            else:
                ctx.probe_ok(('param', name))


def search(ctx, hints):
    """the probe already evaluated the oracle on every generated input (including the disagreeing ones);
    additionally perturb around the disagreeing operations: same index pattern, basis states and elementary operators"""
    import numqi
    st = numqi.sim.state
    seen = 0
    by_op = {c.op[:4000]: c for c in _CACHE.get('cases', []) if c.key == 'Circuit.history'}
    done = set()
    for d in hints:
        c = by_op.get(d['op'].rstrip('…')[:4000])
        if c is None or _SESSION_EXTRA[id(c)][0] in done:
            continue
        done.add(_SESSION_EXTRA[id(c)][0])
        first = replay_history(eval(c.replay['actions'], {'__builtins__': {}}, {}))
        if first is not None:
            ctx.fail('Circuit.history', f'history replayed step by step: first failing step {first[0]} ({first[1][:120]}): {first[2]}',
                     dict(c.replay, first_failing_step=first[0]))
            return
    for d in hints[:50]:
        t = d['op'].split(' ')
        if len(t) < 5 or t[1] not in ('gate', 'ctrl'):
            continue
        n = int(t[3])
        if t[1] == 'gate':
            c, tt = (), tuple(int(x) for x in t[4].split(';'))
        else:
            c, tt = tuple(int(x) for x in t[4].split(';')), tuple(int(x) for x in t[5].split(';'))
        k = len(tt)
        for r in range(2 ** k):
            for cc in range(2 ** k):
                U = np.zeros((2 ** k, 2 ** k), dtype=np.complex128); U[r, cc] = 1
                for b in range(2 ** n):
                    psi = np.zeros(2 ** n, dtype=np.complex128); psi[b] = 1
                    got = guarded(lambda: st.apply_control_n_gate(psi, U, set(c), tt) if c else st.apply_gate(psi, U, tt))
                    want = (oracle_ctrl(U, c, tt, n) if c else oracle_embed(U, tt, n)) @ psi
                    seen += 1
                    if isinstance(got, str) or not np.array_equal(got, want):
                        ctx.fail('apply_control_n_gate' if c else 'apply_gate', 'differs from the embedded operator on an elementary input',
                                 dict(fn='apply_control_n_gate' if c else 'apply_gate', n=n, control=list(c), target=list(tt), op_unit=(r, cc), basis_state=b))
                        return
    ctx.note(f'search: {seen} elementary inputs around the disagreeing operations, no failing input')


# ---------------------------------------------------------------------------
# replay of a recorded failing input
# ---------------------------------------------------------------------------

def _arr(s):
    return np.array(eval(s, {'__builtins__': {}}, {}), dtype=np.complex128)


def _recorded_form(r, psi, U):
    """the arrays as the recording run handed them over: `argument_form` (layout / dtype variants of arg_form) or `state_dtype`
    (a real / integer dtype state); the values are unchanged, so the oracle is evaluated on (psi, U) themselves"""
    form = r.get('argument_form')
    if form in FORMS:
        _, _, _, psi_a, U_a = arg_form(None, psi, U, force=form)
        return psi_a, U_a
    sd = r.get('state_dtype')
    if sd and sd != 'complex128':
        return psi.real.astype(np.dtype(sd)), U
    return psi, U


def _steps_from_desc(desc):
    """inverse of `describe`"""
    out = []
    for st in desc:
        name = st[0]
        if name in ('extend', 'extend2'):
            out.append((name, _steps_from_desc(st[1])))
        elif name == 'reuse':
            out.append(('reuse', st[1]) + tuple(tuple(a) for a in st[2:]))
        elif name in ('single', 'double', 'triple', 'quadruple', 'csingle', 'cdouble', 'append_u', 'append_c', 'myu', 'myc', 'myf'):
            out.append((name, np.array(st[1], dtype=np.complex128)) + tuple(tuple(a) if isinstance(a, (list, tuple)) else a for a in st[2:]))
        else:
            out.append((name,) + tuple(tuple(a) if isinstance(a, (list, tuple)) else a for a in st[1:]))
    return out



# ---------------------------------------------------------------------------
# input class "buffer reuse across calls": r1 = f(A); r2 = f(B) with B != A of the same size; r1 must keep its value, must not share
# memory with r2, and must still be right for A; then r1 is overwritten in place by the caller and f(B), f(A) must still be right.
# Deterministic (seed-independent) block of the quick tier; numpy and torch where both are accepted.
# ---------------------------------------------------------------------------

def _leaves(r):
    """the arrays / tensors / lists inside a result"""
    if isinstance(r, (tuple,)):
        return [x for e in r for x in _leaves(e)]
    return [r]


def _is_tensor(x):
    return type(x).__module__.startswith('torch')


def _np(x):
    return x.detach().cpu().numpy() if _is_tensor(x) else np.asarray(x)


def _snap_result(r):
    return [(_np(x).copy() if not isinstance(x, list) else list(x)) for x in _leaves(r)]


def _same_result(r, snap):
    for x, s0 in zip(_leaves(r), snap):
        if isinstance(x, list):
            if list(x) != s0:
                return False
        else:
            a = _np(x)
            if a.shape != s0.shape or a.dtype != s0.dtype or not np.array_equal(a, s0, equal_nan=True):
                return False
    return True


def _shares(x, y):
    if x is y:
        return True
    if isinstance(x, list) or isinstance(y, list):
        return False
    if _is_tensor(x) and _is_tensor(y):
        return x.numel() > 0 and y.numel() > 0 and x.untyped_storage().data_ptr() == y.untyped_storage().data_ptr()
    if _is_tensor(x) or _is_tensor(y):
        return bool(np.shares_memory(_np(x), _np(y)))
    return isinstance(x, np.ndarray) and isinstance(y, np.ndarray) and bool(np.shares_memory(x, y))


def _overwrite_result(r):
    """the caller overwrites what it was given, in place (read-only results are left alone)"""
    for x in _leaves(r):
        try:
            if isinstance(x, list):
                for i in range(len(x)):
                    x[i] = 7
            elif _is_tensor(x):
                x.fill_(7)
            elif isinstance(x, np.ndarray):
                x.fill(7)
        except Exception:       # noqa: BLE001  (read-only buffer / tensor requiring grad: nothing to overwrite)
            pass


def reuse_history(f, A, B, prop):
    """'' if the history [f(A), f(B)] leaves the first result intact (and both right), else what is wrong"""
    try:
        r1 = f(*A)
        c1 = _snap_result(r1)
        r2 = f(*B)
        if not _same_result(r1, c1):
            return 'the result of the first call changed when the routine was called with another input of the same size'
        if r1 is r2 or any(_shares(x, y) for x in _leaves(r1) for y in _leaves(r2)):
            return 'the results of two calls with different inputs share memory (the same buffer is handed out twice)'
        if not prop(A, r1):
            return 'the result of the first call is not right for its input'
        if not prop(B, r2):
            return 'the result of the second call is not right for its input'
        _overwrite_result(r1)
        r3 = f(*B)
        r4 = f(*A)
        if not prop(B, r3) or not prop(A, r4):
            return 'after the caller overwrote the first result in place, a later call returns a wrong value'
    except Exception as e:      # noqa: BLE001
        return 'raised ' + type(e).__name__
    return ''


def _close_prop(oracle, tol=1e-12):
    def prop(args, r):
        want = oracle(*args)
        got = _leaves(r)
        want = want if isinstance(want, (list, tuple)) else [want]
        return len(got) == len(want) and all(np.asarray(_np(g)).shape == np.asarray(w).shape and close(_np(g), w, tol) for g, w in zip(got, want))
    return prop


def _backends(*names):
    out = [('numpy', lambda a: a)]
    if 'torch' in names:
        import torch
        out.append(('torch', lambda a: torch.tensor(a) if isinstance(a, np.ndarray) else a))
    return out


def reuse_routines():
    """(routine name, backend, [(A, B), …], f, prop): a handful of pairs per routine at the sizes where the property starts"""
    import numqi
    st, dm, G = numqi.sim.state, numqi.sim.dm, numqi.gate
    rng = np.random.default_rng(20260930)
    cst = lambda n: (rng.normal(size=2 ** n) + 1j * rng.normal(size=2 ** n))
    cop = lambda k: (rng.normal(size=(2 ** k, 2 ** k)) + 1j * rng.normal(size=(2 ** k, 2 ** k)))
    out = []
    for bname, conv in _backends('torch'):
        for n, t in [(1, (0,)), (2, (1,)), (3, (2, 0))]:
            pairs = [((conv(cst(n)), conv(cop(len(t)))), (conv(cst(n)), conv(cop(len(t)))))]
            out.append((f'apply_gate[n={n},t={t}]', bname, pairs, (lambda psi, U, t=t: st.apply_gate(psi, U, t)),
                        _close_prop(lambda psi, U, t=t, n=n: oracle_embed(_np(U), t, n) @ _np(psi))))
        for n, t in [(1, (0,)), (2, (1,))]:
            rho = lambda n=n: (lambda v: np.outer(v, v.conj()))(cst(n))
            pairs = [((conv(rho()), conv(cop(1))), (conv(rho()), conv(cop(1))))]
            out.append((f'dm.apply_gate[n={n},t={t}]', bname, pairs, (lambda r_, U, t=t: dm.apply_gate(r_, U, t)),
                        _close_prop(lambda r_, U, t=t, n=n: (lambda E: E @ _np(r_) @ E.conj().T)(oracle_embed(_np(U), t, n)), 1e-10)))
        for name, (ref, na) in PARAM.items():
            sc = [tuple(float(x) for x in rng.uniform(-3, 3, size=na)) for _ in range(2)]
            ba = [tuple(rng.uniform(-3, 3, size=3) for _ in range(na)) for _ in range(2)]
            if bname == 'torch':
                import torch
                sc = [tuple(torch.tensor(x, dtype=torch.float64) for x in a) for a in sc]
                ba = [tuple(torch.tensor(x, dtype=torch.float64) for x in a) for a in ba]
            out.append((f'numqi.gate.{name}[scalar]', bname, [(sc[0], sc[1])], (lambda *a, name=name: getattr(G, name)(*a)),
                        _close_prop(lambda *a, ref=ref: ref(*[float(_np(x)) for x in a]))))
            out.append((f'numqi.gate.{name}[batched]', bname, [(ba[0], ba[1])], (lambda *a, name=name: getattr(G, name)(*a)),
                        _close_prop(lambda *a, ref=ref: np.stack([ref(*[float(_np(x)[i]) for x in a]) for i in range(3)]))))
    for n, c, t in [(2, (0,), (1,)), (3, (2,), (0,)), (3, (0, 1), (2,))]:
        pairs = [((cst(n), cop(1)), (cst(n), cop(1)))]
        out.append((f'apply_control_n_gate[n={n},c={c},t={t}]', 'numpy', pairs, (lambda psi, U, c=c, t=t: st.apply_control_n_gate(psi, U, set(c), t)),
                    _close_prop(lambda psi, U, c=c, t=t, n=n: oracle_ctrl(U, c, t, n) @ psi)))
    for n, keep in [(1, (0,)), (2, (0,)), (3, (0, 2))]:
        out.append((f'reduce_to_probability[n={n},keep={keep}]', 'numpy', [((cst(n),), (cst(n),))], (lambda psi, keep=keep: st.reduce_to_probability(psi, set(keep))),
                    _close_prop(lambda psi, keep=keep, n=n: oracle_marginal(psi, list(keep), n), 1e-10)))
    # stateful objects: one Circuit called with two states; two Circuit objects of the same size, interleaved
    progs = [[('H', (0,)), ('cnot', (0,), (1,)), ('rx', (1,), (0.3,))], [('S', (1,)), ('ry', (0,), (1.1,)), ('cz', (1,), (0,))]]
    circs = [build_circuit(p_) for p_ in progs]
    mats = [oracle_program_matrix(step_semantics(('extend', p_)), 2) for p_ in progs]
    out.append(('Circuit.apply_state[one object, two states]', 'numpy', [((0, cst(2)), (0, cst(2)))], (lambda i, psi: circs[i].apply_state(psi)),
                _close_prop(lambda i, psi: mats[i] @ psi, 1e-10)))
    out.append(('Circuit.apply_state[two objects interleaved]', 'numpy', [((0, cst(2)), (1, cst(2)))], (lambda i, psi: circs[i].apply_state(psi)),
                _close_prop(lambda i, psi: mats[i] @ psi, 1e-10)))
    out.append(('Circuit.to_unitary[two objects interleaved]', 'numpy', [((0,), (1,))], (lambda i: circs[i].to_unitary()),
                _close_prop(lambda i: mats[i], 1e-10)))
    return out


def buffer_reuse_probe(ctx, routines=None, pid='C03'):
    for name, backend, pairs, f, prop in (routines if routines is not None else reuse_routines()):
        for i, (A, B) in enumerate(pairs):
            bad = reuse_history(f, A, B, prop)
            ctx.count('buffer-reuse')
            if bad:
                fn = name.split('[')[0]
                ctx.fail(f'{fn}:result-overwritten-by-next-call', f'{name} ({backend}), history [f(A), f(B)] with B != A of the same size: {bad}',
                         dict(fn='buffer-reuse', routine=name, backend=backend, pair=i,
                              history=[repr([(_np(x).tolist() if not isinstance(x, (int, float)) else x) for x in A])[:1500],
                                       repr([(_np(x).tolist() if not isinstance(x, (int, float)) else x) for x in B])[:1500]]))
            else:
                ctx.probe_ok(('buffer-reuse', name, backend, i))


def replay_buffer_reuse(r, routines, pid):
    hit = [(name, backend, pairs, f, prop) for name, backend, pairs, f, prop in routines if name == r.get('routine') and backend == r.get('backend')]
    if not hit:
        print(f"replay: unknown routine {r.get('routine')}"); return 2
    name, backend, pairs, f, prop = hit[0]
    A, B = pairs[int(r.get('pair', 0))]
    bad = reuse_history(f, A, B, prop)
    if bad:
        print(f'replay: {name} ({backend}), history [f(A), f(B)]: {bad}')
        print(f'VIOLATION property={pid} replay={_replay_path()}')
        return 1
    print(f'replay: {name} ({backend}): the first result now survives the second call')
    return 0


def _replay_path():
    import sys
    return sys.argv[sys.argv.index('--replay') + 1] if '--replay' in sys.argv[:-1] else 'recorded-input'


def replay_history(desc):
    """re-run a recorded history step by step; (step, action, what) of the first failing step, or None"""
    actions = actions_from_desc(desc)
    rec = run_session(actions)
    for qi, (steps, U, A) in enumerate(rec):
        sem = program_semantics(steps)
        width = program_width(sem)
        if width == 0:
            continue
        want = np.concatenate([[width], oracle_program_matrix(sem, width).reshape(-1)])
        v = U if isinstance(U, str) else np.concatenate([[U.shape[0].bit_length() - 1], U.reshape(-1)])
        bad = check_history_point(v, A, want)
        if bad:
            return qi, repr(desc[qi]), bad
    return None


def replay(ctx, payload):
    """re-run exactly the recorded input on the real code and compare with the kron oracle"""
    import numqi
    st, dm = numqi.sim.state, numqi.sim.dm
    r = payload.get('replay') or {}
    fn = r.get('fn')
    if not fn:
        probe(ctx)
        bad = [f for f in ctx.failures]
        print(f'replay: no single input recorded; full probe: {len(bad)} failing inputs')
        if bad:
            print(f'VIOLATION property=C03 replay={_replay_path()}')
        return 1 if bad else 0
    approx = False
    if fn == 'buffer-reuse':
        return replay_buffer_reuse(r, reuse_routines(), 'C03')
    if fn == 'Circuit.history':
        first = replay_history(eval(r['actions'], {'__builtins__': {}}, {}))
        if first is None:
            print('replay: the recorded history now agrees with the embedded operators at every step')
            return 0
        print(f'replay: history still fails; first failing step {first[0]} ({first[1][:200]}): {first[2]}')
        print(f'VIOLATION property=C03 replay={_replay_path()}')
        return 1
    if fn in ('apply_gate', 'apply_control_n_gate') and 'basis_state' in r:
        n, t, c = r['n'], tuple(r['target']), tuple(r['control'])
        k = len(t); U = np.zeros((2 ** k, 2 ** k), dtype=np.complex128); U[tuple(r['op_unit'])] = 1
        psi = np.zeros(2 ** n, dtype=np.complex128); psi[r['basis_state']] = 1
        got = guarded(lambda: st.apply_control_n_gate(psi, U, set(c), t) if c else st.apply_gate(psi, U, t))
        want = (oracle_ctrl(U, c, t, n) if c else oracle_embed(U, t, n)) @ psi
    elif fn == 'apply_gate':
        n, t = r['n'], tuple(r['target']); U, psi = _arr(r['op']), _arr(r['psi'])
        psi_a, U_a = _recorded_form(r, psi, U)
        got = guarded(lambda: st.apply_gate(psi_a, U_a, t)); want = oracle_embed(U, t, n) @ psi
    elif fn == 'apply_control_n_gate':
        n, t, c = r['n'], tuple(r['target']), tuple(r['control']); U, psi = _arr(r['op']), _arr(r['psi'])
        psi_a, U_a = _recorded_form(r, psi, U)
        got = guarded(lambda: st.apply_control_n_gate(psi_a, U_a, set(c), t)); want = oracle_ctrl(U, c, t, n) @ psi
    elif fn == 'chained apply_gate/apply_control_n_gate':
        # the array returned by one call is the input of the next; every intermediate result must keep its value
        n, psi = r['n'], _arr(r['psi'])
        links = [(np.array(U, dtype=np.complex128), tuple(c), tuple(t)) for U, c, t in eval(r['links'], {'__builtins__': {}}, {})]
        psi_a, _ = _recorded_form(r, psi, np.eye(2))
        def chain():
            cur, hist = psi_a, []
            for U, c, t in links:
                nxt = st.apply_control_n_gate(cur, U, set(c), t) if c else st.apply_gate(cur, U, t)
                hist.append((cur, cur.copy())); cur = nxt
            if any(not np.array_equal(a, a0) for a, a0 in hist):
                return 'error: an earlier result was modified when it was used as the input of the next call'
            return cur
        got = guarded(chain)
        want = psi
        for U, c, t in links:
            want = (oracle_ctrl(U, c, t, n) if c else oracle_embed(U, t, n)) @ want
    elif fn in ('dm.apply_gate', 'dm.operator_expectation'):
        n = r['n']; idx = eval(r['index'], {'__builtins__': {}}, {}); U, rho = _arr(r['op']), _arr(r['rho'])
        t = (idx,) if isinstance(idx, int) else tuple(idx)
        E = oracle_embed(U, t, n)
        if fn == 'dm.apply_gate':
            got = guarded(lambda: dm.apply_gate(rho, U, idx)); want = E @ rho @ E.conj().T
        else:
            got = guarded(lambda: np.asarray(dm.operator_expectation(rho, U, idx)).reshape(1)); want = np.trace(rho @ E).reshape(1)
    elif fn == 'reduce_to_probability':
        n, keep, psi = r['n'], r['keep'], _arr(r['psi'])
        got = guarded(lambda: st.reduce_to_probability(psi, set(keep))); want = oracle_marginal(psi, keep, n); approx = True
    elif fn == 'inner_product_psi0_O_psi1':
        n = r['n']; psi0, psi1 = _arr(r['psi0']), _arr(r['psi1'])
        term = [(np.array(f[0], dtype=np.complex128),) + tuple(f[1:]) for f in eval(r['term'], {'__builtins__': {}}, {})]
        got = guarded(lambda: st.inner_product_psi0_O_psi1(psi0, psi1, [term]))
        M = np.eye(2 ** n, dtype=np.complex128)
        for f in term:
            M = M @ oracle_embed(f[0], f[1:], n)
        want = np.vdot(psi0, M @ psi1).reshape(1)
    elif fn.startswith('Circuit.') and 'table' in r:
        t = r['table']
        name, qubits, args, call = vocab_table(list(t['q']), t['a1'], tuple(t['a3']))[t['row']]
        bad = vocab_mismatch(guarded(lambda: appended_entry(call)), vocab_expected(name, qubits, args))
        print(f"replay: {fn} ({r.get('call')}) " + (f'still wrong: {bad}' if bad else 'now appends the documented entry'))
        if bad:
            print(f'VIOLATION property=C03 replay={_replay_path()}')
        return 1 if bad else 0
    elif fn in ('Circuit.apply_state', 'Circuit.to_unitary') and r.get('must_raise'):
        steps = _steps_from_desc(eval(r['program'], {'__builtins__': {}}, {}))
        if fn == 'Circuit.apply_state':
            psi = _arr(r['psi']); got = guarded(lambda: build_circuit(steps).apply_state(psi))
        else:
            got = guarded(lambda: build_circuit(steps).to_unitary())
        ok = isinstance(got, str)
        print(f"replay: {fn} {'now raises' if ok else 'still returns a value'} on the recorded program ({r['must_raise']})")
        if not ok:
            print(f'VIOLATION property=C03 replay={_replay_path()}')
        return 0 if ok else 1
    elif fn == 'Circuit.num_qubit':
        steps = _steps_from_desc(eval(r['program'], {'__builtins__': {}}, {}))
        got = guarded(lambda: str(int(build_circuit(steps).num_qubit))); want = program_num_qubit(program_semantics(steps))
        print(f"replay: Circuit.num_qubit is {got}, the canonical entries reach {want} qubits")
        if got != want:
            print(f'VIOLATION property=C03 replay={_replay_path()}')
        return 0 if got == want else 1
    elif fn in ('Circuit.apply_state', 'Circuit.to_unitary', 'Circuit.gate_index_list'):
        steps = _steps_from_desc(eval(r['program'], {'__builtins__': {}}, {}))
        sem = step_semantics(('extend', steps)); approx = True
        if fn == 'Circuit.gate_index_list':
            got = guarded(lambda: index_list_of(build_circuit(steps))); want = intended_index_list(sem)
            ok = got == want
            print(f'replay: gate_index_list {"now matches" if ok else "still differs from"} the intended placements: got {got}, expected {want}')
            if not ok:
                print(f'VIOLATION property=C03 replay={_replay_path()}')
            return 0 if ok else 1
        if fn == 'Circuit.apply_state':
            n, psi = r['n'], _arr(r['psi'])
            psi_a, _ = _recorded_form(r, psi, np.eye(2))
            got = guarded(lambda: build_circuit(steps).apply_state(psi_a)); want = oracle_program_matrix(sem, n) @ psi
        else:
            w = program_width(sem)
            got = guarded(lambda: build_circuit(steps).to_unitary().reshape(-1)); want = oracle_program_matrix(sem, w).reshape(-1)
    else:
        print(f'replay: unknown routine {fn}')
        return 2
    ok = (not isinstance(got, str)) and (close(got, want) if approx else np.array_equal(np.asarray(got).reshape(-1), np.asarray(want).reshape(-1)))
    if ok:
        print(f'replay: {fn} now agrees with the embedded operator on the recorded input')
        return 0
    print(f'replay: {fn} still differs from the embedded operator on the recorded input: got {got if isinstance(got, str) else np.asarray(got).reshape(-1)[:6].tolist()}, '
          f'expected {np.asarray(want).reshape(-1)[:6].tolist()}')
    print(f'VIOLATION property=C03 replay={_replay_path()}')
    return 1
