import sys, os, argparse, importlib
from . import common


def main():
    ap = argparse.ArgumentParser()
    ap.add_argument('pid')
    ap.add_argument('--tier', default=os.environ.get('VERIF_TIER', 'quick'), choices=['quick', 'thorough'])
    ap.add_argument('--seed', type=int, default=int(os.environ.get('VERIF_SEED', '0') or 0))
    ap.add_argument('--replay', default=None)
    a = ap.parse_args()
    pid = a.pid.upper()
    try:
        mod = importlib.import_module('harness.' + pid.lower())
    except ModuleNotFoundError as e:
        print(f'no check for {pid}: {e}', file=sys.stderr)
        sys.exit(2)
    sys.exit(common.run_check(pid, mod, a.tier, a.seed, a.replay))


if __name__ == '__main__':
    main()
