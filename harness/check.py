import sys, os, re, argparse, importlib, traceback
from . import common


def main():
    ap = argparse.ArgumentParser()
    ap.add_argument('pid')
    ap.add_argument('--tier', default=None, choices=['quick', 'thorough'])
    ap.add_argument('--seed', type=int, default=None)
    ap.add_argument('--replay', default=None)
    a = ap.parse_args()
    # exit 2 = the check itself could not run (bad arguments, internal error); exit 1 is reserved for a VIOLATION line
    tier = a.tier or os.environ.get('VERIF_TIER') or 'quick'
    if tier not in ('quick', 'thorough'):
        print(f'invalid tier {tier!r} (VERIF_TIER): quick or thorough', file=sys.stderr)
        sys.exit(2)
    try:
        seed = a.seed if a.seed is not None else int(os.environ.get('VERIF_SEED') or 0)
    except ValueError:
        print(f'invalid VERIF_SEED {os.environ.get("VERIF_SEED")!r}: a non-negative integer is required', file=sys.stderr)
        sys.exit(2)
    if seed < 0:
        print('seed must be non-negative', file=sys.stderr)
        sys.exit(2)
    pid = a.pid.upper()
    if not re.fullmatch(r'C\d\d', pid):
        print(f'no check for {a.pid!r}: property ids are C01 … C20', file=sys.stderr)
        sys.exit(2)
    try:
        mod = importlib.import_module('harness.' + pid.lower())
    except ModuleNotFoundError as e:
        print(f'no check for {pid}: {e}', file=sys.stderr)
        sys.exit(2)
    seed_given = a.seed is not None or bool(os.environ.get('VERIF_SEED'))
    tier_given = a.tier is not None or bool(os.environ.get('VERIF_TIER'))
    try:
        rc = common.run_check(pid, mod, tier, seed, a.replay, seed_given=seed_given, tier_given=tier_given)
    except SystemExit:
        raise
    except BaseException:
        traceback.print_exc()
        rc = 2
    sys.exit(rc)


if __name__ == '__main__':
    main()
