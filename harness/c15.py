"""C15 — SU(2)/SO(3) conversions are consistent for every rotation, gimbal lock included.

Model: lean/NumqiModel/Lie.lean.  Theorems: lean/NumqiProps/C15.lean.
Correspondence: exact (rationals) for the polynomial map su2_to_so3 and the rational 2x2 rotation; bit-exact for the
angular-momentum matrices; Float model (bit patterns in / out, tolerance on the Python side) for everything built from
cos/sin/arccos/arctan2.
"""
import struct, itertools, math
from fractions import Fraction
import numpy as np
from . import common

THEOREM_FILES = ['NumqiProps/C15.lean', 'NumqiProps/C15Tables.lean']
LEVEL = 'proof'
RULE = ('ops: Euler-angle grid containing beta in {0, pi} exactly with alpha+gamma / alpha-gamma in all four quadrants, '
        'the 24 axis-aligned rotations, the threshold region beta in (0,1e-7) and (pi-1e-7,pi), random generic angles, '
        'mixed batches; dyadic-rational quaternion pairs for the exact tie of su2_to_so3; j2=0..12 for the angular momentum '
        'matrices, j2=0..10 for the spin-j matrices. An op is non-trivial when the rotation is not the identity; '
        'distinct = distinct op lines / distinct probe keys.')
TRUSTED = ['Lean 4.33 kernel', 'axioms: propext, Classical.choice, Quot.sound', 'Lean compiler for the driver executable',
           'libm cos/sin/acos/atan2 behind Lean `Float` (correspondence only; the theorems are over exact rings / the reals)',
           'harness/c15.py comparison tolerances (1e-12 forward maps, 1e-9 rebuilt rotations, 1e-6 inside |beta|<zero_eps)',
           'modelled, not verified: numqi/group/_lie.py, matrix_space/_clebsch_gordan.py; sympy CG values are a contract (probed)']

OPEN_STATEMENTS = ['Numqi.C15.So3RoundtripThreshold.Statement', 'Numqi.C15.Su2IrrepHom.Statement', 'Numqi.C15.ClebschGordanOrthonormal.Statement']
PI = math.pi
EPS = 1e-7


def f2b(x):
    return str(struct.unpack('<Q', struct.pack('<d', float(x)))[0])


def b2f(s):
    return struct.unpack('<d', struct.pack('<Q', int(s)))[0]


def fr(x):
    return Fraction(x)


def frs(q):
    q = Fraction(q)
    return f'{q.numerator}/{q.denominator}'


def guarded(f):
    try:
        return f()
    except AssertionError:
        return 'error:assert'
    except Exception as e:   # any exception raised by the implementation is an outcome, never a harness crash
        return 'error:' + type(e).__name__


# --- reference formulas written independently of numqi (used to compare angle triples as rotations) ---------------
def ref_so3(a, b, g):
    Rz = lambda t: np.array([[math.cos(t), -math.sin(t), 0], [math.sin(t), math.cos(t), 0], [0, 0, 1.0]])
    Ry = lambda t: np.array([[math.cos(t), 0, math.sin(t)], [0, 1.0, 0], [-math.sin(t), 0, math.cos(t)]])
    return Rz(a) @ Ry(b) @ Rz(g)


def ref_su2(a, b, g):
    # exp(-i a sz/2) exp(-i b sy/2) exp(-i g sz/2)
    Uz = lambda t: np.array([[np.exp(-0.5j * t), 0], [0, np.exp(0.5j * t)]])
    Uy = lambda t: np.array([[math.cos(t / 2), -math.sin(t / 2)], [math.sin(t / 2), math.cos(t / 2)]], dtype=np.complex128)
    return Uz(a) @ Uy(b) @ Uz(g)


def amax(a):
    """max |a| with NaN counted as +inf (a NaN result must never pass a `> tol` test)"""
    a = np.abs(np.asarray(a))
    return float('inf') if (a.size and np.isnan(a).any()) else (float(a.max()) if a.size else 0.0)


def ref_su2to3(U):
    """R_ij = tr(sigma_i U sigma_j U^dagger)/2, written independently of numqi"""
    sig = [np.array([[0, 1], [1, 0]], dtype=np.complex128), np.array([[0, -1j], [1j, 0]]), np.array([[1, 0], [0, -1]], dtype=np.complex128)]
    U = np.asarray(U, dtype=np.complex128)
    return np.array([[0.5 * np.trace(sig[i] @ U @ sig[j] @ U.conj().T).real for j in range(3)] for i in range(3)])


def exact_rz(t):
    c, s = math.cos(t), math.sin(t)
    return np.array([[c, -s, 0], [s, c, 0], [0, 0, 1.0]])


def cube_rotations():
    out = []
    for perm in itertools.permutations(range(3)):
        for signs in itertools.product([1.0, -1.0], repeat=3):
            M = np.zeros((3, 3))
            for i in range(3):
                M[i, perm[i]] = signs[i]
            if abs(np.linalg.det(M) - 1) < 1e-9:
                out.append(M)
    return out


def angle_grid(ctx):
    """(alpha, beta, gamma, tag) — degenerate and generic"""
    rng = ctx.rng
    out = []
    quad = [0.0, 0.3, PI / 2, 2.0, PI, 4.0, 4.5, 3 * PI / 2, 5.5, -1.0, -2.5, 2 * PI - 1e-9]
    for s, d in itertools.product(quad, quad[:8]):
        a, g = (s + d) / 2, (s - d) / 2
        out.append((a, 0.0, g, 'beta0'))
        out.append((a, PI, g, 'betapi'))
    for b in [1e-12, 1e-9, 3e-8, 9.9e-8, 1.02e-7, 1e-6, 1e-4]:
        for _ in range(4):
            a, g = rng.uniform(0, 2 * PI), rng.uniform(0, 2 * PI)
            out.append((a, b, g, 'near0'))
            out.append((a, PI - b, g, 'nearpi'))
    for a, b, g in itertools.product([0.0, PI / 2, PI, 3 * PI / 2], [PI / 2, 1.0, PI / 3], [0.0, PI / 2, PI, 3 * PI / 2]):
        out.append((a, b, g, 'meridian'))
    n = 150 if ctx.quick() else 3000
    for _ in range(n):
        out.append((rng.uniform(0, 2 * PI), math.acos(rng.uniform(-1, 1)), rng.uniform(0, 2 * PI), 'generic'))
    for _ in range(n // 5):
        out.append((rng.uniform(-20, 20), rng.uniform(-7, 7), rng.uniform(-20, 20), 'wide'))
    return out


def so3_inputs(ctx):
    """rotation matrices (float arrays) with a tag; includes exact gimbal-lock matrices"""
    import numqi
    out = []
    D = np.diag([-1.0, 1.0, -1.0])
    for a, b, g, tag in angle_grid(ctx):
        if tag == 'beta0':
            out.append((exact_rz(a + g), tag))
        elif tag == 'betapi':
            out.append((exact_rz(a) @ D @ exact_rz(g), tag))
        elif tag != 'wide':
            out.append((ref_so3(a, b, g), tag))
        else:
            out.append((numqi.group.angle_to_so3(a, b, g), tag))
    for M in cube_rotations():
        out.append((M, 'cube'))
    return out


def branch_of_beta(beta, eps=EPS):
    return 'zero' if beta < eps else ('pi' if beta > (np.pi - eps) else 'generic')


def wrap_flip(al, ga, ma, mg):
    """parity of the number of 2pi wraps by which the implementation's extracted (alpha, gamma) differ from the model's: each wrap
    flips the sign of angle_to_su2; non-finite or non-multiple differences give no flip (the so3ang tie reports those)"""
    try:
        return (round((al - ma) / (2 * PI)) + round((ga - mg) / (2 * PI))) % 2 == 1
    except (ValueError, OverflowError):
        return False


def in_threshold(R, eps=EPS):
    b = math.acos(min(1.0, max(-1.0, R[2, 2])))
    return (0 < b < eps) or (PI - eps < b < PI)


def mat_ops(prefix, R, eps=EPS):
    return f'C15 {prefix} ' + ' '.join(f2b(x) for x in np.asarray(R, dtype=np.float64).reshape(-1)) + ' ' + f2b(eps)


def parse_f(s):
    return [b2f(t) for t in s.split(';')]


def parse_cx(s):
    return np.array([complex(b2f(t.split(',')[0]), b2f(t.split(',')[1])) for t in s.split(';')])


def cmp(ctx, op, ok, model, impl, key=None, nontrivial=True):
    ctx.count(key or op.split(' ')[1])
    if ok:
        ctx.agree(op, op if nontrivial else None)
    else:
        ctx.disagree(op, str(model)[:400], str(impl)[:400])


def correspondence(ctx):
    import numqi
    G = numqi.group
    rng = ctx.rng
    # full statements kept as `def … .Statement : Prop` (not proved) are listed by name in the evidence
    ctx.extra['open_statements'] = list(OPEN_STATEMENTS)
    delta = dict(fwd=0.0, ang=0.0, irrep=0.0)

    # ---- forward maps: angles -> SO(3), SU(2) (Float model) ---------------------------------------------------------
    grid = angle_grid(ctx)
    ops = []
    for a, b, g, tag in grid:
        ops += [f'C15 a2so3 {f2b(a)} {f2b(b)} {f2b(g)}', f'C15 a2su2 {f2b(a)} {f2b(b)} {f2b(g)}']
    model = common.run_model(ops)
    k = 0
    for a, b, g, tag in grid:
        R = guarded(lambda: G.angle_to_so3(a, b, g))
        m = np.array(parse_f(model[k])).reshape(3, 3) if ';' in model[k] else model[k]
        ok = (not isinstance(R, str)) and (not isinstance(m, str)) and np.abs(R - m).max() <= 1e-12
        if ok: delta['fwd'] = max(delta['fwd'], float(np.abs(R - m).max()))
        cmp(ctx, ops[k], ok, model[k], R, nontrivial=(a, b, g) != (0, 0, 0)); ctx.count('fwd-' + tag)
        U = guarded(lambda: G.angle_to_su2(a, b, g))
        m = parse_cx(model[k + 1]).reshape(2, 2) if ';' in model[k + 1] else model[k + 1]
        ok = (not isinstance(U, str)) and (not isinstance(m, str)) and np.abs(U - m).max() <= 1e-12
        if ok: delta['fwd'] = max(delta['fwd'], float(np.abs(U - m).max()))
        cmp(ctx, ops[k + 1], ok, model[k + 1], U)
        k += 2
    ctx.sample({'op': ops[0], 'out': model[0]})

    # ---- broadcast-shaped angle batches (k,1) x (1,l) x scalar: the batched forward maps against the model, element by element
    nprng0 = np.random.default_rng(ctx.np_seed + 3)
    for (k_, l_) in [(2, 3), (3, 2), (4, 5)]:
        A_ = nprng0.uniform(-7, 7, size=(k_, 1)); B_ = np.array([[0.0, PI, 1.0, 2.5, 0.3][:l_]]); g_ = float(nprng0.uniform(-7, 7))
        Rb = guarded(lambda: G.angle_to_so3(A_, B_, g_)); Ub = guarded(lambda: G.angle_to_su2(A_, B_, g_))
        ops_b = []
        for i in range(k_):
            for j in range(l_):
                ops_b += [f'C15 a2so3 {f2b(A_[i, 0])} {f2b(B_[0, j])} {f2b(g_)}', f'C15 a2su2 {f2b(A_[i, 0])} {f2b(B_[0, j])} {f2b(g_)}']
        mb = common.run_model(ops_b)
        q = 0
        for i in range(k_):
            for j in range(l_):
                okR = (not isinstance(Rb, str)) and Rb.shape == (k_, l_, 3, 3) and np.abs(Rb[i, j] - np.array(parse_f(mb[q])).reshape(3, 3)).max() <= 1e-12
                okU = (not isinstance(Ub, str)) and Ub.shape == (k_, l_, 2, 2) and np.abs(Ub[i, j] - parse_cx(mb[q + 1]).reshape(2, 2)).max() <= 1e-12
                cmp(ctx, ops_b[q], okR, mb[q], Rb if isinstance(Rb, str) else Rb[i, j], key='broadcast-a2so3')
                cmp(ctx, ops_b[q + 1], okU, mb[q + 1], Ub if isinstance(Ub, str) else Ub[i, j], key='broadcast-a2su2')
                q += 2

    # ---- su2_to_so3: exact tie on dyadic rationals (binary64 arithmetic on these is exact) ---------------------------
    ops, impl = [], []
    quats = [(1, 0, 0, 0, 0), (0, 1, 0, 0, 0), (0, 0, 1, 0, 0), (0, 0, 0, 1, 0), (1, 1, 1, 1, 1), (1, -1, 1, -1, 1), (-1, 1, 1, 1, 1)]
    for _ in range(300 if ctx.quick() else 4000):
        quats.append(tuple(rng.randint(-200, 200) for _ in range(4)) + (rng.randint(0, 8),))
    for (p, q, r, s, e) in quats:
        sc = Fraction(1, 2 ** e)
        a = complex(float(p * sc), float(q * sc)); b = complex(float(r * sc), float(s * sc))
        ops.append(f'C15 su2so3q {frs(p*sc)} {frs(q*sc)} {frs(r*sc)} {frs(s*sc)}')
        U = np.array([[a, b], [-b.conjugate(), a.conjugate()]])
        impl.append(guarded(lambda: ';'.join(frs(fr(float(x))) for x in G.su2_to_so3(U).reshape(-1)) + ' real'))
    qs = quats[:60] if ctx.quick() else quats[:600]
    for (p, q, r, s, e), (p2, q2, r2, s2, e2) in zip(qs, qs[7:] + qs[:7]):
        sc, sc2 = Fraction(1, 2 ** e), Fraction(1, 2 ** e2)
        a = complex(float(p * sc), float(q * sc)); b = complex(float(r * sc), float(s * sc))
        c = complex(float(p2 * sc2), float(q2 * sc2)); d = complex(float(r2 * sc2), float(s2 * sc2))
        ops.append('C15 su2mulq ' + ' '.join(frs(x) for x in (p*sc, q*sc, r*sc, s*sc, p2*sc2, q2*sc2, r2*sc2, s2*sc2)))
        W = np.array([[a, b], [-b.conjugate(), a.conjugate()]]) @ np.array([[c, d], [-d.conjugate(), c.conjugate()]])
        impl.append(' '.join(frs(fr(x)) for x in (W[0, 0].real, W[0, 0].imag, W[0, 1].real, W[0, 1].imag)))
    for m, n in [(1, 2), (2, 1), (3, 2), (-3, 2), (5, -7), (12, 5), (1, 1), (0, 3), (2, 0), (2, -2)] + [(rng.randint(-50, 50), rng.randint(-50, 50)) for _ in range(60)]:
        ops.append(f'C15 rot2 {m} {n}')
        impl.append(guarded(lambda: ';'.join(frs(fr(float(x))) for x in G.get_rational_orthogonal2_matrix(m, n).reshape(-1))))
    model = common.run_model(ops)
    for op, a, b in zip(ops, impl, model):
        if op.split(' ')[1] == 'rot2' and not b.startswith('error'):
            # the implementation divides Python ints (correctly rounded); the model is the exact rational
            b = ';'.join(frs(fr(float(Fraction(t)))) for t in b.split(';'))
        cmp(ctx, op, a == b, b, a)
    ctx.sample({'op': ops[10], 'out': model[10]})

    # ---- su2_to_so3 on genuine SU(2) floats: model on the same binary64 inputs --------------------------------------
    ops, impl = [], []
    for a, b, g, tag in grid[::3]:
        U = ref_su2(a, b, g)
        ops.append('C15 su2so3f ' + ' '.join(f2b(x) for x in (U[0, 0].real, U[0, 0].imag, U[0, 1].real, U[0, 1].imag)))
        impl.append(guarded(lambda: G.su2_to_so3(U)))
    model = common.run_model(ops)
    for op, a, b in zip(ops, impl, model):
        ok = (not isinstance(a, str)) and ';' in b and np.abs(a.reshape(-1) - np.array(parse_f(b))).max() <= 1e-13
        cmp(ctx, op, ok, b, a)

    # ---- su2_to_so3 on SU(2) matrices stored with a real dtype (float64 / float32 / int), against the same model op -----------------
    ops, impl, tols = [], [], []
    for t_ in [0.0, 0.3, 0.9, 1.7, 2.2, PI, 4.0, -1.1]:
        c_, s_ = math.cos(t_ / 2), math.sin(t_ / 2)
        for dt, tol in [(np.float64, 1e-13), (np.float32, 1e-6)]:
            U = np.array([[c_, -s_], [s_, c_]], dtype=dt)
            ops.append('C15 su2so3f ' + ' '.join(f2b(x) for x in (float(U[0, 0]), 0.0, float(U[0, 1]), 0.0)))
            impl.append(guarded(lambda: np.asarray(G.su2_to_so3(U), dtype=np.float64))); tols.append(tol)
    for M in [[[1, 0], [0, 1]], [[-1, 0], [0, -1]], [[0, -1], [1, 0]], [[0, 1], [-1, 0]]]:
        U = np.array(M, dtype=np.int64)
        ops.append('C15 su2so3f ' + ' '.join(f2b(x) for x in (float(U[0, 0]), 0.0, float(U[0, 1]), 0.0)))
        impl.append(guarded(lambda: np.asarray(G.su2_to_so3(U), dtype=np.float64))); tols.append(1e-13)
    model = common.run_model(ops)
    for op, a, b, tol in zip(ops, impl, model, tols):
        ok = (not isinstance(a, str)) and ';' in b and np.abs(a.reshape(-1) - np.array(parse_f(b))).max() <= tol
        cmp(ctx, op, ok, b, a, key='su2so3f-real-dtype')

    # ---- extraction: so3_to_angle / so3_to_su2 / su2_to_angle with the branch structure -----------------------------
    inputs = so3_inputs(ctx)
    ops = [mat_ops('so3ang', R) for R, _ in inputs] + [mat_ops('so3su2', R) for R, _ in inputs]
    model = common.run_model(ops)
    nI = len(inputs)
    for i, (R, tag) in enumerate(inputs):
        r = guarded(lambda: G.so3_to_angle(R))
        mb = model[i].split(' ')
        if isinstance(r, str) or len(mb) != 2:
            cmp(ctx, ops[i], r == model[i], model[i], r); continue
        al, be, ga = [float(x) for x in r]
        ma, mbeta, mg = parse_f(mb[1])
        br = branch_of_beta(be)
        d = np.abs(ref_so3(al, be, ga) - ref_so3(ma, mbeta, mg)).max()
        ok = (br == mb[0]) and abs(be - mbeta) <= 1e-12 and d <= 1e-9 and (0 <= al < 2 * PI + 1e-12) and (0 <= ga < 2 * PI + 1e-12)
        if ok: delta['ang'] = max(delta['ang'], float(d))
        cmp(ctx, ops[i], ok, model[i], (br, al, be, ga), nontrivial=not np.array_equal(R, np.eye(3)))
        ctx.count('branch-' + mb[0]); ctx.count('in-' + tag)
        U = guarded(lambda: G.so3_to_su2(R))
        m = parse_cx(model[nI + i]).reshape(2, 2)
        # so3_to_su2 = angle_to_su2(so3_to_angle(R)) fixes the sign of U.  Model and implementation may differ in sign only when one of
        # their extracted angles really landed on the other side of the 2pi wrap of `% (2*pi)` (fmod vs floor); each such wrap flips
        # e^{i(alpha+-gamma)/2} by pi, so the sign demanded is (-1)^(number of wraps) — decided on the two sides' actual angles
        flip = wrap_flip(al, ga, ma, mg)
        ok = (not isinstance(U, str)) and np.abs(U - (-m if flip else m)).max() <= 1e-9
        cmp(ctx, ops[nI + i], ok, model[nI + i], U); ctx.count('so3su2-sign-exact' if not flip else 'so3su2-wrap-flip')
    ctx.sample({'op': ops[0][:120] + '…', 'out': model[0]})

    ops, aux = [], []
    for a, b, g, tag in grid:
        if tag in ('near0', 'nearpi') and 8e-8 < min(b, PI - b) < 1.3e-7:
            continue   # x22=|a|^2-|b|^2 is recomputed from (a,b): one ulp there decides the branch at beta ~ zero_eps
        for sgn in (1, -1):
            U = sgn * (ref_su2(a, b, g) if tag != 'betapi' else ref_su2(a, 0, 0) @ np.array([[0, -1], [1, 0]]) @ ref_su2(0, 0, g))
            ops.append('C15 su2ang ' + ' '.join(f2b(x) for x in (U[0, 0].real, U[0, 0].imag, U[0, 1].real, U[0, 1].imag)) + ' ' + f2b(EPS))
            aux.append((U, b, tag))
    model = common.run_model(ops)
    for op, (U, b, tag), mo in zip(ops, aux, model):
        r = guarded(lambda: G.su2_to_angle(U))
        mb = mo.split(' ')
        if isinstance(r, str) or len(mb) != 2:
            cmp(ctx, op, r == mo, mo, r); continue
        al, be, ga = [float(x) for x in r]
        ma, mbeta, mg = parse_f(mb[1])
        V0, V1 = ref_su2(al, be, ga), ref_su2(ma, mbeta, mg)
        # the 4pi branch of gamma is decided by the sign of Re(e^(i(al+ga)/2) a - e^(i(al-ga)/2) b) = +-(cos(beta/2)+sin(beta/2)), |.|>=1:
        # well conditioned everywhere, so model and implementation must agree including the sign of U
        d = np.abs(V0 - V1).max()
        # x22 = |a|^2-|b|^2 is recomputed by the model from (a,b): one ulp there moves arccos by ~1e-8 next to +-1
        thr = branch_of_beta(be) != 'generic'
        ok = branch_of_beta(be) == mb[0] and (abs(be - mbeta) <= 1e-12 or abs(math.cos(be) - math.cos(mbeta)) <= 1e-15) and d <= (2e-7 if thr else 1e-9)
        cmp(ctx, op, ok, mo, (al, be, ga)); ctx.count('su2ang-' + mb[0])

    # ---- non-default zero_eps: the threshold is an argument and must be forwarded (so3_to_angle, su2_to_angle, so3_to_su2) ----
    for eps in [1e-3, 1e-5, 0.05]:   # (thresholds below ~1e-7 cannot be resolved by arccos next to +-1 in binary64)
        betas = [0.0, PI, eps / 3, eps * 0.9, eps * 1.1, eps * 5, PI - eps / 3, PI - eps * 0.9, PI - eps * 1.1, 1.0, 2.5]
        Rs = [ref_so3(rng.uniform(0, 6), b, rng.uniform(0, 6)) if b not in (0.0, PI) else (exact_rz(1.3) if b == 0.0 else exact_rz(1.3) @ np.diag([-1.0, 1.0, -1.0])) for b in betas]
        ops_e = [mat_ops('so3ang', R, eps) for R in Rs] + [mat_ops('so3su2', R, eps) for R in Rs]
        Us = [ref_su2(rng.uniform(0, 6), b, rng.uniform(0, 6)) for b in betas if not (0.8 * eps < min(b, PI - b) < 1.25 * eps)]
        ops_e += ['C15 su2ang ' + ' '.join(f2b(x) for x in (U[0, 0].real, U[0, 0].imag, U[0, 1].real, U[0, 1].imag)) + ' ' + f2b(eps) for U in Us]
        mo = common.run_model(ops_e)
        nR = len(Rs)
        for i, R in enumerate(Rs):
            r = guarded(lambda: G.so3_to_angle(R, zero_eps=eps))
            mb = mo[i].split(' ')
            if isinstance(r, str) or len(mb) != 2:
                cmp(ctx, ops_e[i], r == mo[i], mo[i], r, key='zero_eps-so3ang'); continue
            al, be, ga = [float(x) for x in r]
            ma, mbeta, mg = parse_f(mb[1])
            ok = branch_of_beta(be, eps) == mb[0] and abs(be - mbeta) <= 1e-12 and np.abs(ref_so3(al, be, ga) - ref_so3(ma, mbeta, mg)).max() <= 1e-9
            cmp(ctx, ops_e[i], ok, mo[i], (al, be, ga), key='zero_eps-so3ang')
            U = guarded(lambda: G.so3_to_su2(R, zero_eps=eps))
            m_ = parse_cx(mo[nR + i]).reshape(2, 2)
            flip = wrap_flip(al, ga, ma, mg)
            cmp(ctx, ops_e[nR + i], (not isinstance(U, str)) and np.abs(U - (-m_ if flip else m_)).max() <= 1e-9, mo[nR + i], U, key='zero_eps-so3su2')
        for j, U in enumerate(Us):
            op = ops_e[2 * nR + j]; line = mo[2 * nR + j]
            r = guarded(lambda: G.su2_to_angle(U, zero_eps=eps))
            mb = line.split(' ')
            if isinstance(r, str) or len(mb) != 2:
                cmp(ctx, op, r == line, line, r, key='zero_eps-su2ang'); continue
            al, be, ga = [float(x) for x in r]
            ma, mbeta, mg = parse_f(mb[1])
            thr = branch_of_beta(be, eps) != 'generic'
            ok = branch_of_beta(be, eps) == mb[0] and (abs(be - mbeta) <= 1e-12 or abs(math.cos(be) - math.cos(mbeta)) <= 1e-15) and np.abs(ref_su2(al, be, ga) - ref_su2(ma, mbeta, mg)).max() <= (2e-7 if thr else 1e-9)
            cmp(ctx, op, ok, line, (al, be, ga), key='zero_eps-su2ang')

    # ---- Clebsch–Gordan table (sympy) against the exact rational model (Racah's formula): sign and square ------------------
    top = 8 if ctx.quick() else 12
    ops_c, impl_c = [], []
    for j1d in range(0, top + 1):
        for j2d in range(0, top + 1 - j1d):
            ops_c.append(f'C15 cg {j1d} {j2d}')
            impl_c.append(guarded(lambda: numqi.matrix_space.get_clebsch_gordan_coeffient(j1d, j2d)))
    mo = common.run_model(ops_c)
    for op, tab, line in zip(ops_c, impl_c, mo):
        ok = not isinstance(tab, str)
        if ok:
            blocks = line.split(' ')
            ok = len(blocks) == len(tab)
            for (jd, coeff), blk in zip(tab, blocks if ok else []):
                head, body = blk.split('|')
                vals = np.asarray(coeff, dtype=np.float64).reshape(-1)
                sg = np.array([int(t.split(':')[0]) for t in body.split(';')]); sq = np.array([float(Fraction(t.split(':')[1])) for t in body.split(';')])
                ok = ok and int(head) == jd and vals.shape == sg.shape and bool(np.all(np.sign(np.where(np.abs(vals) < 1e-14, 0, vals)) == sg)) and bool(np.all(np.abs(vals * vals - sq) <= 1e-12))
        cmp(ctx, op, ok, line[:200], 'table' if not isinstance(tab, str) else tab, key='cg')

    # ---- batches on the SU(2) side: su2_to_so3 / su2_to_angle / so3_to_su2 / get_su2_irrep called once on a batch (complex dtype,
    #      ndim up to 5), each element against the single-item model op
    nprng1 = np.random.default_rng(ctx.np_seed + 11)
    su2_pool = [ref_su2(a, b, g) if tag != 'betapi' else ref_su2(a, 0, 0) @ np.array([[0, -1], [1, 0]]) @ ref_su2(0, 0, g)
                for a, b, g, tag in grid if not (tag in ('near0', 'nearpi') and 8e-8 < min(b, PI - b) < 1.3e-7)]
    for shape in ([(5,), (2, 3), (2, 1, 2)] if ctx.quick() else [(5,), (2, 3), (2, 1, 2), (1,), (3, 1, 1, 2), (17,)]):
        n_ = int(np.prod(shape))
        pick = nprng1.integers(0, len(su2_pool), size=n_)
        Ub = np.stack([su2_pool[i] for i in pick]).reshape(shape + (2, 2))
        flatU = Ub.reshape(-1, 2, 2)
        enc = lambda U: ' '.join(f2b(x) for x in (U[0, 0].real, U[0, 0].imag, U[0, 1].real, U[0, 1].imag))
        ops_b = ['C15 su2so3f ' + enc(U) for U in flatU] + ['C15 su2ang ' + enc(U) + ' ' + f2b(EPS) for U in flatU]
        mb_ = common.run_model(ops_b)
        Rb = guarded(lambda: np.asarray(G.su2_to_so3(Ub)))
        ang = guarded(lambda: [np.asarray(x) for x in G.su2_to_angle(Ub)])
        for j in range(n_):
            okR = (not isinstance(Rb, str)) and Rb.shape == shape + (3, 3) and np.abs(Rb.reshape(-1, 3, 3)[j].reshape(-1) - np.array(parse_f(mb_[j]))).max() <= 1e-13
            cmp(ctx, ops_b[j], okR, mb_[j], Rb if isinstance(Rb, str) else 'batch element', key='batched-su2so3')
            line = mb_[n_ + j].split(' ')
            okA = (not isinstance(ang, str)) and ang[0].shape == shape
            if okA:
                al, be, ga = [float(x.reshape(-1)[j]) for x in ang]
                ma, mbeta, mg = parse_f(line[1])
                thr = branch_of_beta(be) != 'generic'
                okA = branch_of_beta(be) == line[0] and (abs(be - mbeta) <= 1e-12 or abs(math.cos(be) - math.cos(mbeta)) <= 1e-15) \
                    and np.abs(ref_su2(al, be, ga) - ref_su2(ma, mbeta, mg)).max() <= (2e-7 if thr else 1e-9)
            cmp(ctx, ops_b[n_ + j], okA, mb_[n_ + j], ang if isinstance(ang, str) else 'batch element', key='batched-su2ang')
        # so3_to_su2 on the batch of images
        Rin = np.stack([inputs[i % len(inputs)][0] for i in pick]).reshape(shape + (3, 3))
        ops_c = [mat_ops('so3su2', R) for R in Rin.reshape(-1, 3, 3)] + [mat_ops('so3ang', R) for R in Rin.reshape(-1, 3, 3)]
        mc_ = common.run_model(ops_c)
        Vb = guarded(lambda: np.asarray(G.so3_to_su2(Rin)))
        angR = guarded(lambda: [np.asarray(x, dtype=np.float64) for x in G.so3_to_angle(Rin)])     # the implementation's own batched angles
        for j in range(n_):
            m_ = parse_cx(mc_[j]).reshape(2, 2)
            ma, _, mg = parse_f(mc_[n_ + j].split(' ')[1])
            flip = (not isinstance(angR, str)) and angR[0].shape == shape and wrap_flip(float(angR[0].reshape(-1)[j]), float(angR[2].reshape(-1)[j]), ma, mg)
            okV = (not isinstance(Vb, str)) and Vb.shape == shape + (2, 2) and np.abs(Vb.reshape(-1, 2, 2)[j] - (-m_ if flip else m_)).max() <= 1e-9
            cmp(ctx, ops_c[j], okV, mc_[j], Vb if isinstance(Vb, str) else 'batch element', key='batched-so3su2')
        # get_su2_irrep: matrix batch, angle batch, return_matd, j2 = 0 included; the model op takes the angles the implementation extracts
        for j2 in ([0, 1, 4] if ctx.quick() else [0, 1, 2, 3, 4, 7, 10]):
            Dm = guarded(lambda: G.get_su2_irrep(j2, Ub, return_matd=True))
            if isinstance(ang, str) or isinstance(Dm, str):
                cmp(ctx, f'C15 irrep-batch {j2} {shape}', False, 'n/a', Dm if isinstance(Dm, str) else ang, key='batched-irrep'); continue
            D, md = np.asarray(Dm[0], dtype=np.complex128), np.asarray(Dm[1], dtype=np.float64)
            ops_i = []
            for j in range(n_):
                al, be, ga = [float(x.reshape(-1)[j]) for x in ang]
                ops_i += [f'C15 irrep {j2} {f2b(al)} {f2b(be)} {f2b(ga)}', f'C15 irrep {j2} {f2b(0.0)} {f2b(be)} {f2b(0.0)}']
            mi = common.run_model(ops_i)
            for j in range(n_):
                okD = D.shape == shape + (j2 + 1, j2 + 1) and md.shape == D.shape \
                    and np.abs(D.reshape(n_, j2 + 1, j2 + 1)[j] - parse_cx(mi[2 * j]).reshape(j2 + 1, j2 + 1)).max() <= 1e-10 \
                    and np.abs(md.reshape(n_, j2 + 1, j2 + 1)[j] - parse_cx(mi[2 * j + 1]).reshape(j2 + 1, j2 + 1)).max() <= 1e-10
                cmp(ctx, ops_i[2 * j], okD, mi[2 * j][:120], 'batch element', key='batched-irrep')
            # angle-batch form (k,l) by broadcasting
            A_ = nprng1.uniform(-7, 7, size=(shape[0], 1)); B_ = np.array([[0.0, PI, 1.3]])
            Da = guarded(lambda: np.asarray(G.get_su2_irrep(j2, A_, B_, 0.4), dtype=np.complex128))
            ops_a = [f'C15 irrep {j2} {f2b(A_[i, 0])} {f2b(B_[0, l])} {f2b(0.4)}' for i in range(shape[0]) for l in range(3)]
            ma_ = common.run_model(ops_a)
            for q, (op, line) in enumerate(zip(ops_a, ma_)):
                okq = (not isinstance(Da, str)) and Da.shape == (shape[0], 3, j2 + 1, j2 + 1) and np.abs(Da.reshape(-1, j2 + 1, j2 + 1)[q] - parse_cx(line).reshape(j2 + 1, j2 + 1)).max() <= 1e-10
                cmp(ctx, op, okq, line[:120], Da if isinstance(Da, str) else 'batch element', key='batched-irrep-angles')

    # ---- irreducible tensor operators: sign and square against the exact model built from cgSq -------------------------------------
    ops_t = [f'C15 ito {S_}' for S_ in range(0, 7 if ctx.quick() else 9)]
    mo = common.run_model(ops_t)
    for op, line in zip(ops_t, mo):
        S_ = int(op.split(' ')[2])
        tab = guarded(lambda: numqi.matrix_space.get_irreducible_tensor_operator(S_))
        if isinstance(tab, str) or line.startswith('error'):
            cmp(ctx, op, tab == line, line, tab, key='ito'); continue
        blocks = line.split(' ')
        ok = len(blocks) == len(tab)
        for T_, blk in zip(tab, blocks if ok else []):
            head, body = blk.split('|')
            vals = np.asarray(T_, dtype=np.float64).reshape(-1)
            sg = np.array([int(t.split(':')[0]) for t in body.split(';')]); sq = np.array([float(Fraction(t.split(':')[1])) for t in body.split(';')])
            ok = ok and T_.shape[0] == int(head) + 1 and vals.shape == sg.shape and bool(np.all(np.sign(np.where(np.abs(vals) < 1e-13, 0, vals)) == sg)) and bool(np.all(np.abs(vals * vals - sq) <= 1e-11))
        cmp(ctx, op, ok, line[:160], 'table', key='ito')

    # ---- mixed batches: the batched call against the model element by element ---------------------------------------
    nprng = np.random.default_rng(ctx.np_seed)
    for shape in [(7,), (2, 3), (1,), (4, 1, 2)] if ctx.quick() else [(7,), (2, 3), (1,), (4, 1, 2), (40,), (3, 5, 2)]:
        n = int(np.prod(shape))
        idx = nprng.integers(0, len(inputs), size=n)
        idx[0] = next(i for i, (_, t) in enumerate(inputs) if t == 'beta0'); idx[-1] = next(i for i, (_, t) in enumerate(inputs) if t == 'betapi')
        batch = np.stack([inputs[i][0] for i in idx]).reshape(shape + (3, 3))
        r = guarded(lambda: G.so3_to_angle(batch))
        ops = [mat_ops('so3ang', inputs[i][0]) for i in idx]
        model = common.run_model(ops)
        if isinstance(r, str):
            for op, mo in zip(ops, model): cmp(ctx, op, False, mo, r, key='batched-so3ang')
            continue
        al, be, ga = [np.asarray(x).reshape(-1) for x in r]
        for j, (op, mo) in enumerate(zip(ops, model)):
            mb = mo.split(' ')
            ma, mbeta, mg = parse_f(mb[1])
            d = np.abs(ref_so3(al[j], be[j], ga[j]) - ref_so3(ma, mbeta, mg)).max()
            ok = np.asarray(r[0]).shape == shape and branch_of_beta(be[j]) == mb[0] and abs(be[j] - mbeta) <= 1e-12 and d <= 1e-9
            cmp(ctx, op, ok, mo, (al[j], be[j], ga[j]), key='batched-so3ang')

    # ---- angular momentum matrices: bit-exact ------------------------------------------------------------------------
    ops, impl = [], []
    for j2 in range(0, 13 if ctx.quick() else 41):
        ops.append(f'C15 jops {j2}')
        def f():
            jx, jy, jz = numqi.matrix_space.get_angular_momentum_op(j2)
            enc = lambda M: ';'.join(f'{f2b(complex(v).real)},{f2b(complex(v).imag)}' for v in np.asarray(M).reshape(-1))
            return f'{enc(jx)} {enc(jy)} {enc(jz)}'
        impl.append(guarded(f))
    model = common.run_model(ops)
    for op, a, b in zip(ops, impl, model):
        # compare as numbers (so that -0.0 == 0.0), exactly
        ok = len(a.split(' ')) == 3 and len(b.split(' ')) == 3 and all(np.array_equal(parse_cx(x), parse_cx(y)) for x, y in zip(a.split(' '), b.split(' ')))
        cmp(ctx, op, ok, b[:200], a[:200], nontrivial=op != 'C15 jops 0')

    # ---- spin-j matrices ----------------------------------------------------------------------------------------------
    ops, aux = [], []
    sel = [x for x in grid if x[3] in ('beta0', 'betapi', 'meridian')][::9] + [x for x in grid if x[3] == 'generic'][:(12 if ctx.quick() else 200)]
    for j2 in range(0, 11):
        for a, b, g, tag in sel:
            ops.append(f'C15 irrep {j2} {f2b(a)} {f2b(b)} {f2b(g)}'); aux.append((j2, a, b, g))
    model = common.run_model(ops)
    for op, (j2, a, b, g), mo in zip(ops, aux, model):
        D = guarded(lambda: np.asarray(G.get_su2_irrep(j2, a, b, g), dtype=np.complex128))
        m = parse_cx(mo).reshape(j2 + 1, j2 + 1)
        ok = (not isinstance(D, str)) and D.shape == m.shape and np.abs(D - m).max() <= 1e-10
        if ok: delta['irrep'] = max(delta['irrep'], float(np.abs(D - m).max()))
        cmp(ctx, op, ok, mo[:200], D, nontrivial=j2 > 0)
    # the same matrices from the half-angle data (irrepCS) and as Sym^{j2}(angle_to_su2) (symD): the objects of the j2<=3 theorems
    ops, aux = [], []
    for j2 in range(0, 11):
        for a, b, g, tag in sel[::2]:
            ops.append(f'C15 irrepcs {j2} {f2b(a)} {f2b(b)} {f2b(g)}'); aux.append((j2, a, b, g))
    model = common.run_model(ops)
    for op, (j2, a, b, g), mo in zip(ops, aux, model):
        D = guarded(lambda: np.asarray(G.get_su2_irrep(j2, a, b, g), dtype=np.complex128))
        parts = mo.split(' ')
        ok = (not isinstance(D, str)) and len(parts) == 2 and all(np.abs(D - parse_cx(x).reshape(j2 + 1, j2 + 1)).max() <= 1e-10 for x in parts)
        cmp(ctx, op, ok, mo[:200], D, nontrivial=j2 > 0)
    ctx.extra['measured_model_vs_impl_delta'] = delta
    ctx.assumptions.append('Float correspondence: model and implementation call different libm builds; measured max deviation recorded in measured_model_vs_impl_delta')


# ----------------------------------------------------------------------------------------------------------------------
def probe(ctx):
    """direct evaluation of the property on the real code, independent of the Lean model"""
    import numqi
    G = numqi.group
    rng = ctx.rng
    nprng = np.random.default_rng(ctx.np_seed + 1)
    inputs = so3_inputs(ctx)

    def fl(x):
        return [float(v) for v in np.asarray(x).reshape(-1)]

    # P0: committed corpus of past failing inputs (corpus/C15/*.jsonl), replayed first
    import glob, json, os
    for path in sorted(glob.glob(os.path.join(common.VERIF, 'corpus', 'C15', '*.jsonl'))):
        for ln, line in enumerate(open(path)):
            if not line.strip():
                continue
            e = json.loads(line)
            tag = f'{os.path.basename(path)}:{ln + 1}'
            if e['kind'] == 'su2':
                if 'angles' in e:
                    U = ref_su2(*e['angles'])
                else:
                    U = np.array([complex(x, y) for x, y in e['U']]).reshape(2, 2)
                    if e.get('normalise'):
                        U = U / math.sqrt(abs(np.linalg.det(U)))
                def f():
                    a, b, g = G.su2_to_angle(U)
                    return np.array([float(a), float(b), float(g)]), G.angle_to_su2(a, b, g), np.asarray(G.get_su2_irrep(1, U)), \
                        amax(np.asarray(G.get_su2_irrep(3, U @ U)) - np.asarray(G.get_su2_irrep(3, U)) @ np.asarray(G.get_su2_irrep(3, U)))
                r = guarded(f)
                if isinstance(r, str) or not np.all(np.isfinite(r[0])) or amax(r[1] - U) > 1e-6 or amax(r[2] - U) > 1e-6 or r[3] > 1e-5:
                    ctx.fail('corpus-su2', f'corpus {tag} ({e.get("why", "")}): su2_to_angle / get_su2_irrep fail: ' + (r if isinstance(r, str) else f'angles={r[0].tolist()}, |rebuilt-U|={amax(r[1] - U):.3g}, |D1(U)-U|={amax(r[2] - U):.3g}, hom={r[3]:.3g}'),
                             dict(op='su2-roundtrip', U=[[x.real, x.imag] for x in U.reshape(-1)], corpus=tag))
                else:
                    ctx.probe_ok(('corpus', tag))
            elif e['kind'] == 'so3_batch':
                Rs = [exact_rz(a_ + g_) if b_ == 0 else ref_so3(a_, b_, g_) for a_, b_, g_ in e['angles']]
                Rb = np.stack(Rs)
                r = guarded(lambda: G.angle_to_so3(*G.so3_to_angle(Rb)))
                if isinstance(r, str) or amax(r - Rb) > 1e-6:
                    ctx.fail('corpus-so3', f'corpus {tag} ({e.get("why", "")}): batch conversion fails: ' + (r if isinstance(r, str) else f'{amax(r - Rb):.3g}'), dict(op='so3-batch', shape=[len(Rs)], batch=fl(Rb), corpus=tag))
                else:
                    ctx.probe_ok(('corpus', tag))
            elif e['kind'] == 'so3_to_su2':
                R = ref_so3(*e['angles']) if 'angles' in e else np.array(e['R'], dtype=np.float64).reshape(3, 3)
                def f():
                    U = np.asarray(G.so3_to_su2(R))
                    return U, G.su2_to_so3(U), G.angle_to_so3(*G.so3_to_angle(R))
                r = guarded(f)
                if isinstance(r, str) or not np.all(np.isfinite(r[0])) or amax(r[0] @ r[0].conj().T - np.eye(2)) > 1e-6 or amax(r[1] - R) > 1e-6 or amax(r[2] - R) > 1e-6:
                    ctx.fail('corpus-so3-to-su2', f'corpus {tag} ({e.get("why", "")}): so3_to_su2(R) is not an SU(2) pre-image of R: ' + (r if isinstance(r, str) else f'U={r[0].tolist()}'),
                             dict(op='so3-to-su2', R=fl(R), corpus=tag))
                else:
                    ctx.probe_ok(('corpus', tag))
            elif e['kind'] == 'su2_real':
                if 'ry' in e:
                    c_, s_ = math.cos(e['ry'] / 2), math.sin(e['ry'] / 2)
                    U0 = np.array([[c_, -s_], [s_, c_]])
                else:
                    U0 = np.array(e['U'], dtype=np.float64).reshape(2, 2)
                U = U0.astype(e['dtype']); snap = U.copy()
                tol = 1e-6 if e['dtype'] == 'float32' else 1e-12
                ref = ref_su2to3(U0.astype(np.complex128))
                r = guarded(lambda: (np.asarray(G.su2_to_so3(U)), np.asarray(G.su2_to_so3(U))))
                if isinstance(r, str) or amax(r[0] - ref) > tol or amax(r[1] - ref) > tol or not np.array_equal(U, snap):
                    ctx.fail('corpus-real-dtype', f'corpus {tag} ({e.get("why", "")}): su2_to_so3 on a real-dtype SU(2) matrix is wrong or modifies its input: ' + (r if isinstance(r, str) else f'result {r[0].tolist()}, input now {U.tolist()}'),
                             dict(op='su2-to-so3', U=U0.reshape(-1).tolist(), dtype=e['dtype'], corpus=tag))
                else:
                    ctx.probe_ok(('corpus', tag))
            elif e['kind'] == 'so3':
                if 'angles' in e:
                    R = exact_rz(e['angles'][0] + e['angles'][2]) if e['angles'][1] == 0 else ref_so3(*e['angles'])
                else:
                    t = e['rxrx']
                    Rx = lambda u: np.array([[1.0, 0, 0], [0, math.cos(u), -math.sin(u)], [0, math.sin(u), math.cos(u)]])
                    R = Rx(t) @ Rx(-t)
                def f():
                    a, b, g = G.so3_to_angle(R)
                    return np.array([float(a), float(b), float(g)]), G.angle_to_so3(a, b, g)
                r = guarded(f)
                if isinstance(r, str) or not np.all(np.isfinite(r[0])) or amax(r[1] - R) > 1e-6:
                    ctx.fail('corpus-so3', f'corpus {tag} ({e.get("why", "")}): angle_to_so3(so3_to_angle(R)) != R: ' + (r if isinstance(r, str) else f'angles={r[0].tolist()}'),
                             dict(op='so3-roundtrip', R=fl(R), corpus=tag))
                else:
                    ctx.probe_ok(('corpus', tag))

    # P1: SO(3) round trip, single items
    for R, tag in inputs:
        def f():
            a, b, g = G.so3_to_angle(R)
            return G.angle_to_so3(a, b, g), (float(a), float(b), float(g))
        r = guarded(f)
        tol = 1e-6 if in_threshold(R) else 1e-9
        if isinstance(r, str) or not (amax(r[0] - R) <= tol):
            ctx.fail('so3-roundtrip', f'angle_to_so3(so3_to_angle(R)) != R ({tag}): ' + (r if isinstance(r, str) else f'err={amax(r[0]-R):.3g}, angles={r[1]}'),
                     dict(op='so3-roundtrip', R=fl(R), tag=tag))
        else:
            ctx.probe_ok(('rt', tag, hash(R.tobytes())))
        # range of the returned angles
        if not isinstance(r, str):
            a, b, g = r[1]
            if not (0 <= a <= 2 * PI and 0 <= b <= PI and 0 <= g <= 2 * PI):
                ctx.fail('so3-angle-range', f'so3_to_angle returned angles outside [0,2pi]x[0,pi]x[0,2pi]: {r[1]}', dict(op='so3-angle-range', R=fl(R)))
            else:
                ctx.probe_ok()

    # P2: batches are converted element-wise, whatever the mixture
    for shape in [(6,), (2, 2), (1,), (3, 1, 2)]:
        n = int(np.prod(shape))
        idx = [rng.randrange(len(inputs)) for _ in range(n)]
        kinds = [i for i, (_, t) in enumerate(inputs) if t in ('beta0', 'betapi', 'cube')]
        idx[0] = rng.choice(kinds)
        batch = np.stack([inputs[i][0] for i in idx]).reshape(shape + (3, 3))
        def f():
            a, b, g = G.so3_to_angle(batch)
            assert np.asarray(a).shape == shape
            Rb = G.angle_to_so3(a, b, g)
            single = np.stack([G.angle_to_so3(*G.so3_to_angle(inputs[i][0])) for i in idx]).reshape(shape + (3, 3))
            return Rb, single
        r = guarded(f)
        if isinstance(r, str) or amax(r[0] - r[1]) > 1e-12:
            ctx.fail('so3-batch-elementwise', f'so3_to_angle on a mixed batch of shape {shape} differs from item-wise conversion: ' + (r if isinstance(r, str) else f'{amax(r[0]-r[1]):.3g}'),
                     dict(op='so3-batch', shape=list(shape), batch=fl(batch)))
        else:
            ctx.probe_ok(('batch', shape, tuple(idx)))
        Ub = np.stack([ref_su2(rng.uniform(0, 6), rng.choice([0.0, PI, 1.0, 2.0]), rng.uniform(0, 6)) for _ in range(n)]).reshape(shape + (2, 2))
        def f2():
            a, b, g = G.su2_to_angle(Ub)
            V = G.angle_to_su2(a, b, g)
            return V
        r = guarded(f2)
        if isinstance(r, str) or max(min(amax(x - y), amax(x + y)) for x, y in zip(r.reshape(-1, 2, 2), Ub.reshape(-1, 2, 2))) > 1e-6:
            ctx.fail('su2-batch-roundtrip', f'su2 round trip on a mixed batch of shape {shape} fails: ' + (r if isinstance(r, str) else 'mismatch'),
                     dict(op='su2-batch', shape=list(shape), batch=[[x.real, x.imag] for x in Ub.reshape(-1)]))
        else:
            ctx.probe_ok(('su2batch', shape))

    # P3: SU(2) round trip up to the documented sign; two-to-one homomorphism
    grid = angle_grid(ctx)
    Y = np.array([[0, -1], [1, 0]], dtype=np.complex128)
    su2s = []
    for a, b, g, tag in grid:
        U = ref_su2(a, b, g) if tag != 'betapi' else ref_su2(a, 0, 0) @ Y @ ref_su2(0, 0, g)
        su2s.append((U, tag)); su2s.append((-U, tag))
    for U, tag in su2s:
        def f():
            return G.angle_to_su2(*G.su2_to_angle(U))
        V = guarded(f)
        # inside the threshold region (|U00| or |U01| below ~zero_eps) the extraction is only accurate to ~zero_eps
        tol = 1e-6 if (abs(U[0, 1]) < 2e-7 or abs(U[0, 0]) < 2e-7) else 1e-9
        if isinstance(V, str) or min(amax(V - U), amax(V + U)) > tol:
            ctx.fail('su2-roundtrip', f'angle_to_su2(su2_to_angle(U)) != +-U ({tag}): ' + (V if isinstance(V, str) else f'{min(amax(V-U), amax(V+U)):.3g}'),
                     dict(op='su2-roundtrip', U=[[x.real, x.imag] for x in U.reshape(-1)], tag=tag))
        else:
            ctx.probe_ok(('su2rt', tag, hash(U.tobytes())))
        R = guarded(lambda: G.su2_to_so3(U))
        R2 = guarded(lambda: G.su2_to_so3(-U))
        if isinstance(R, str) or isinstance(R2, str) or amax(R - R2) > 1e-12 or amax(R @ R.T - np.eye(3)) > 1e-12 or abs(np.linalg.det(R) - 1) > 1e-12:
            ctx.fail('su2-to-so3', f'su2_to_so3(U) not a rotation or differs from su2_to_so3(-U) ({tag})', dict(op='su2-to-so3', U=[[x.real, x.imag] for x in U.reshape(-1)]))
        else:
            ctx.probe_ok()
    for (a, b, g, tag) in grid:
        r = guarded(lambda: (G.su2_to_so3(G.angle_to_su2(a, b, g)), G.angle_to_so3(a, b, g)))
        if isinstance(r, str) or amax(r[0] - r[1]) > 1e-12 or amax(r[1] - ref_so3(a, b, g)) > 1e-12:
            ctx.fail('su2-so3-angles', f'su2_to_so3(angle_to_su2(a,b,g)) != angle_to_so3(a,b,g) = Rz Ry Rz at {(a, b, g)}', dict(op='su2-so3-angles', angles=[a, b, g]))
        else:
            ctx.probe_ok(('cov', a, b, g))
    for _ in range(100 if ctx.quick() else 2000):
        (U1, _), (U2, _) = rng.choice(su2s), rng.choice(su2s)
        r = guarded(lambda: (G.su2_to_so3(U1 @ U2), G.su2_to_so3(U1) @ G.su2_to_so3(U2)))
        if isinstance(r, str) or amax(r[0] - r[1]) > 1e-12:
            ctx.fail('su2-to-so3-hom', 'su2_to_so3(U1 U2) != su2_to_so3(U1) su2_to_so3(U2)', dict(op='hom', U1=[[x.real, x.imag] for x in U1.reshape(-1)], U2=[[x.real, x.imag] for x in U2.reshape(-1)]))
        else:
            ctx.probe_ok(('hom', hash(U1.tobytes()), hash(U2.tobytes())))

    # P4: spin-j matrices: unitary, D(U1 U2) = D(U1) D(U2), j2 = 0..10
    haar = [numqi.random.rand_special_orthogonal_matrix(2, tag_complex=True, seed=ctx.np_seed + i) for i in range(12 if ctx.quick() else 100)]
    special = [U for U, tag in su2s if tag in ('beta0', 'betapi')][::37]
    for j2 in range(0, 11):
        for trial in range(len(haar) // 2):
            U1, U2 = haar[2 * trial], haar[2 * trial + 1]
            def f():
                D1, D2, D12 = G.get_su2_irrep(j2, U1), G.get_su2_irrep(j2, U2), G.get_su2_irrep(j2, U1 @ U2)
                return amax(D1 @ D2 - D12), amax(D1 @ D1.conj().T - np.eye(j2 + 1))
            r = guarded(f)
            if isinstance(r, str) or r[0] > 1e-9 or r[1] > 1e-9:
                ctx.fail('irrep-hom', f'get_su2_irrep(j2={j2}) not a unitary homomorphism on Haar samples: {r}', dict(op='irrep-hom', j2=j2, U1=[[x.real, x.imag] for x in U1.reshape(-1)], U2=[[x.real, x.imag] for x in U2.reshape(-1)]))
            else:
                ctx.probe_ok(('irrep', j2, trial))
        # axis-aligned elements (gimbal lock on the SU(2) side)
        for U1 in special[:6]:
            for U2 in special[3:9]:
                def f():
                    D1, D2, D12 = G.get_su2_irrep(j2, U1), G.get_su2_irrep(j2, U2), G.get_su2_irrep(j2, U1 @ U2)
                    return amax(D1 @ D2 - D12)
                r = guarded(f)
                # |U00|^2-|U01|^2 rounds to 1-ulp, arccos of that is ~1.5e-8: inside the threshold region, accuracy ~zero_eps*(j2+1)
                if isinstance(r, str) or r > 1e-6 * (j2 + 1):
                    ctx.fail('irrep-hom-axis-aligned', f'get_su2_irrep(j2={j2}): D(U1 U2) != D(U1) D(U2) for axis-aligned U (beta in {{0, pi}}): {r}',
                             dict(op='irrep-hom', j2=j2, U1=[[x.real, x.imag] for x in U1.reshape(-1)], U2=[[x.real, x.imag] for x in U2.reshape(-1)]))
                else:
                    ctx.probe_ok(('irrep-ax', j2))
    # j2=1 is the defining representation, also at U[0,0]=0 (beta=pi), where the 4pi branch of gamma cannot be read off U[0,0]
    # (repaired in /repo 7f0ceda; before that get_su2_irrep(1,[[0,1],[-1,0]]) returned -U)
    for U in [np.array([[0, 1], [-1, 0]], dtype=np.complex128), np.array([[0, -1], [1, 0]], dtype=np.complex128), np.array([[0, 1j], [1j, 0]])]:
        r = guarded(lambda: amax(G.get_su2_irrep(1, U) - U))
        if isinstance(r, str) or r > 1e-9:
            ctx.fail('su2-sign-at-beta-pi', f'get_su2_irrep(1, U) = -U for U={U.tolist()} (su2_to_angle decides the 4pi branch of gamma from Re(e^(i(a+g)/2) U00), which is 0 when beta=pi): deviation {r}',
                     dict(op='irrep1', U=[[x.real, x.imag] for x in U.reshape(-1)]))
        else:
            ctx.probe_ok(('irrep1-betapi', hash(U.tobytes())))
    for U in haar[:6]:
        r = guarded(lambda: amax(G.get_su2_irrep(1, U) - U))
        if isinstance(r, str) or r > 1e-9:
            ctx.fail('irrep-j2-1', f'get_su2_irrep(1, U) != U: {r}', dict(op='irrep1', U=[[x.real, x.imag] for x in U.reshape(-1)]))
        else:
            ctx.probe_ok()

    # P5: su(2) relations of the angular-momentum matrices; the spin-j matrices are generated by them
    for j2 in range(0, 21 if ctx.quick() else 61):
        ops3 = guarded(lambda: numqi.matrix_space.get_angular_momentum_op(j2))
        if isinstance(ops3, str):
            ctx.fail('angular-momentum', f'get_angular_momentum_op({j2}) raised {ops3}', dict(op='angmom', j2=j2)); continue
        jx, jy, jz = ops3
        j = j2 / 2
        c = lambda A, B: A @ B - B @ A
        err = max(amax(c(jx, jy) - 1j * jz), amax(c(jy, jz) - 1j * jx), amax(c(jz, jx) - 1j * jy),
                  amax(jx @ jx + jy @ jy + jz @ jz - j * (j + 1) * np.eye(j2 + 1))) if j2 > 0 else float(amax(jx) + amax(jy) + amax(jz))
        if err > 1e-10 * (1 + j * j):
            ctx.fail('angular-momentum', f'su(2) relations violated for j2={j2}: {err:.3g}', dict(op='angmom', j2=j2))
        else:
            ctx.probe_ok(('am', j2))
        if 1 <= j2 <= 10:
            import scipy.linalg
            a, b, g = rng.uniform(0, 6), rng.uniform(0, 3), rng.uniform(0, 6)
            D = guarded(lambda: np.asarray(G.get_su2_irrep(j2, a, b, g)))
            E = scipy.linalg.expm(-1j * a * jz) @ scipy.linalg.expm(-1j * b * jy) @ scipy.linalg.expm(-1j * g * jz)
            if isinstance(D, str) or amax(D - E) > 1e-9:
                ctx.fail('irrep-generators', f'get_su2_irrep(j2={j2}) != exp(-i a Jz) exp(-i b Jy) exp(-i g Jz)', dict(op='irrep-gen', j2=j2, angles=[a, b, g]))
            else:
                ctx.probe_ok(('gen', j2))

    # P6: Clebsch–Gordan coefficients (sympy contract): orthogonality, completeness, intertwining; all j1+j2 <= 6 (doubles <= 12)
    top = 8 if ctx.quick() else 12
    for j1d in range(0, top + 1):
        for j2d in range(0, top + 1 - j1d):
            cg = guarded(lambda: numqi.matrix_space.get_clebsch_gordan_coeffient(j1d, j2d))
            if isinstance(cg, str):
                ctx.fail('clebsch-gordan', f'get_clebsch_gordan_coeffient({j1d},{j2d}) raised {cg}', dict(op='cg', j1d=j1d, j2d=j2d)); continue
            rows = np.concatenate([c.reshape(c.shape[0], -1) for _, c in cg], axis=0)
            n = (j1d + 1) * (j2d + 1)
            ok = rows.shape == (n, n) and amax(rows @ rows.T - np.eye(n)) < 1e-10
            if ok:
                ops1 = numqi.matrix_space.get_angular_momentum_op(j1d); ops2 = numqi.matrix_space.get_angular_momentum_op(j2d)
                for jd, c in cg:
                    opsj = numqi.matrix_space.get_angular_momentum_op(jd)
                    C = c.reshape(jd + 1, -1)
                    for A1, A2, AJ in zip(ops1, ops2, opsj):
                        tot = np.kron(A1, np.eye(j2d + 1)) + np.kron(np.eye(j1d + 1), A2)
                        if amax(C @ tot - AJ @ C) > 1e-10:
                            ok = False
            if ok:
                # Condon–Shortley phase convention (the table the source cites): <j1 j1; j2 (j-j1) | j j> > 0 for every block
                for jd, c in cg:
                    t = (j2d - jd + j1d) // 2
                    if not (c[0, 0, t] > 1e-12):
                        ctx.fail('clebsch-gordan-convention', f'CG block j_double={jd} of ({j1d},{j2d}): <j1 j1; j2 j-j1 | j j> = {c[0, 0, t]} is not positive (Condon-Shortley convention)', dict(op='cg', j1d=j1d, j2d=j2d, jd=jd))
            if not ok:
                ctx.fail('clebsch-gordan', f'CG table for (j1_double, j2_double)=({j1d},{j2d}) is not an orthogonal intertwiner', dict(op='cg', j1d=j1d, j2d=j2d))
            else:
                ctx.probe_ok(('cg', j1d, j2d))

    # P8: dense sweep of the poles beta in {0, pi}: k*pi/16 grid and random angles, SU(2) and SO(3), plus rotations that land on
    # the poles only through matrix products (R R^T, Rx(t)Rx(-t), Rz Rz, Ry(t)Ry(pi-t)); single items and mixed batches
    def rx(t):
        c, s_ = math.cos(t), math.sin(t)
        return np.array([[1.0, 0, 0], [0, c, -s_], [0, s_, c]])

    def ry(t):
        c, s_ = math.cos(t), math.sin(t)
        return np.array([[c, 0, s_], [0, 1.0, 0], [-s_, 0, c]])

    nrand = 500 if ctx.quick() else 5000
    phis = [k * PI / 16 for k in range(0, 65)] + [rng.uniform(-4 * PI, 4 * PI) for _ in range(nrand)]
    pole_su2, pole_so3 = [], []
    for phi in phis:
        pole_su2.append((ref_su2(phi, 0, 0), 'su2-beta0', phi))
        pole_su2.append((ref_su2(phi, 0, 0) @ Y, 'su2-betapi', phi))
        pole_so3.append((exact_rz(phi), 'so3-beta0', phi))
        pole_so3.append((exact_rz(phi) @ np.diag([-1.0, 1.0, -1.0]), 'so3-betapi', phi))
    for _ in range(nrand // 2):
        t, u = rng.uniform(-7, 7), rng.uniform(-7, 7)
        Rr = ref_so3(rng.uniform(0, 6), rng.uniform(0, 3), rng.uniform(0, 6))
        pole_so3 += [(rx(t) @ rx(-t), 'so3-RxRx', t), (Rr @ Rr.T, 'so3-RRt', t), (exact_rz(t) @ exact_rz(u), 'so3-RzRz', t),
                     (ry(t) @ ry(PI - t), 'so3-RyRy-pi', t), (rx(t) @ ry(PI) @ rx(t), 'so3-RxRyRx-pi', t)]
        Ur = ref_su2(rng.uniform(0, 6), rng.uniform(0, 3), rng.uniform(0, 6))
        pole_su2 += [(Ur @ Ur.conj().T, 'su2-UUh', t), (ref_su2(t, 0, 0) @ ref_su2(u, 0, 0), 'su2-zz', t), (ref_su2(0, t, 0) @ ref_su2(0, PI - t, 0), 'su2-yy-pi', t)]
    for R, tag, par in pole_so3:
        def f():
            a, b, g = G.so3_to_angle(R)
            return np.array([float(a), float(b), float(g)]), G.angle_to_so3(a, b, g)
        r = guarded(f)
        if isinstance(r, str) or not np.all(np.isfinite(r[0])) or amax(r[1] - R) > 1e-6:
            ctx.fail('so3-roundtrip-pole', f'so3_to_angle at a pole ({tag}, parameter {par!r}): ' + (r if isinstance(r, str) else f'angles={r[0].tolist()}, |rebuilt-R|={amax(r[1] - R):.3g}'),
                     dict(op='so3-roundtrip', R=fl(R), tag=tag, parameter=par))
        else:
            ctx.probe_ok(('pole', tag, par))
    for U, tag, par in pole_su2:
        def f():
            a, b, g = G.su2_to_angle(U)
            return np.array([float(a), float(b), float(g)]), G.angle_to_su2(a, b, g), np.asarray(G.get_su2_irrep(1, U)), np.asarray(G.get_su2_irrep(3, U))
        r = guarded(f)
        rep = dict(op='su2-roundtrip', U=[[x.real, x.imag] for x in U.reshape(-1)], tag=tag, parameter=par)
        if isinstance(r, str) or not np.all(np.isfinite(r[0])) or amax(r[1] - U) > 1e-6 or amax(r[2] - U) > 1e-6 or not np.all(np.isfinite(r[3])):
            ctx.fail('su2-roundtrip-pole', f'su2_to_angle / get_su2_irrep at a pole ({tag}, parameter {par!r}): ' + (r if isinstance(r, str) else f'angles={r[0].tolist()}, |rebuilt-U|={amax(r[1] - U):.3g}, |D1(U)-U|={amax(r[2] - U):.3g}'), rep)
        else:
            ctx.probe_ok(('pole', tag, par))
    for trial in range(6 if ctx.quick() else 60):
        shape = rng.choice([(8,), (3, 4), (2, 1, 5)])
        n = int(np.prod(shape))
        sel3 = [pole_so3[rng.randrange(len(pole_so3))][0] for _ in range(n)]
        sel2 = [pole_su2[rng.randrange(len(pole_su2))][0] for _ in range(n)]
        sel3[1] = ref_so3(1.0, 2.0, 3.0); sel2[1] = ref_su2(1.0, 2.0, 3.0)
        Rb = np.stack(sel3).reshape(shape + (3, 3)); Ub = np.stack(sel2).reshape(shape + (2, 2))
        r = guarded(lambda: (G.angle_to_so3(*G.so3_to_angle(Rb)), G.angle_to_su2(*G.su2_to_angle(Ub)), np.asarray(G.get_su2_irrep(2, Ub)),
                             np.stack([np.asarray(G.get_su2_irrep(2, u)) for u in sel2]).reshape(shape + (3, 3))))
        if isinstance(r, str) or amax(r[0] - Rb) > 1e-6 or amax(r[1] - Ub) > 1e-6 or amax(r[2] - r[3]) > 1e-9:
            ctx.fail('pole-batch', f'mixed batch of shape {shape} with gimbal-lock elements (grid, random, composed) is not converted element-wise: ' + (r if isinstance(r, str) else f'{amax(r[0] - Rb):.3g}, {amax(r[1] - Ub):.3g}, {amax(r[2] - r[3]):.3g}'),
                     dict(op='pole-batch', shape=list(shape), R=fl(Rb), U=[[x.real, x.imag] for x in Ub.reshape(-1)]))
        else:
            ctx.probe_ok(('polebatch', trial))

    # P9: angle batches built by broadcasting, ndim >= 2 with trailing dimension > 1
    for trial in range(4 if ctx.quick() else 40):
        k, l = rng.randint(2, 4), rng.randint(2, 5)
        A = np.array([rng.uniform(-7, 7) for _ in range(k)]); B = np.array([rng.choice([0.0, PI, rng.uniform(0, 3)]) for _ in range(l)]); gam = rng.uniform(-7, 7)
        for tag, (a_, b_, g_) in [('(k,1),(1,l),()', (A[:, None], B[None, :], gam)), ('(k,1),(l,),()', (A[:, None], B, gam)), ('(),(k,1),(1,l)', (gam, A[:, None], B[None, :])),
                                  ('(k,l),(k,l),(k,l)', np.broadcast_arrays(A[:, None], B[None, :], np.float64(gam))), ('(1,l),(k,1),(k,l)', (B[None, :], A[:, None], np.add.outer(A, B)))]:
            af, bf, gf = [np.broadcast_to(np.asarray(x, dtype=np.float64), (k, l)) for x in (a_, b_, g_)]
            def f():
                R = G.angle_to_so3(a_, b_, g_); U = G.angle_to_su2(a_, b_, g_); D = np.asarray(G.get_su2_irrep(3, a_, b_, g_))
                assert R.shape == (k, l, 3, 3) and U.shape == (k, l, 2, 2) and D.shape == (k, l, 4, 4)
                e = 0.0
                for i in range(k):
                    for j in range(l):
                        e = max(e, amax(R[i, j] - ref_so3(af[i, j], bf[i, j], gf[i, j])), amax(U[i, j] - ref_su2(af[i, j], bf[i, j], gf[i, j])),
                                amax(D[i, j] - np.asarray(G.get_su2_irrep(3, af[i, j], bf[i, j], gf[i, j]))))
                Rt = G.angle_to_so3(*G.so3_to_angle(R)); Ut = G.angle_to_su2(*G.su2_to_angle(U))
                return e, max(amax(Rt - R), amax(Ut - U))
            r = guarded(f)
            if isinstance(r, str) or r[0] > 1e-12 or r[1] > 1e-6:
                ctx.fail('angle-broadcast', f'angle batches of broadcast shapes {tag} -> ({k},{l}): angle_to_so3 / angle_to_su2 / get_su2_irrep / round trip differ from the element-wise results: {r}',
                         dict(op='angle-broadcast', shapes=tag, alpha=np.asarray(a_).tolist(), beta=np.asarray(b_).tolist(), gamma=np.asarray(g_).tolist()))
            else:
                ctx.probe_ok(('bcast', trial, tag))

    # P10: zero_eps is honoured: with a large threshold the gimbal-lock branch is taken, with a tiny one it is not; assertion tolerance
    for eps in [1e-3, 1e-5]:
        for b in [eps / 2, eps * 2, PI - eps / 2, PI - eps * 2]:
            R = ref_so3(1.1, b, 2.3); U = ref_su2(1.1, b, 2.3)
            def f():
                a1, b1, g1 = G.so3_to_angle(R, zero_eps=eps); a2, b2, g2 = G.su2_to_angle(U, zero_eps=eps)
                V = G.so3_to_su2(R, zero_eps=eps)
                return (float(a1), float(b1), float(g1)), (float(a2), float(b2), float(g2)), V
            r = guarded(f)
            lock = min(b, PI - b) < eps
            def islock(t):
                return abs(t[0] - t[2]) < 1e-15 if t[1] < PI / 2 else min(t[2] % (2 * PI), 2 * PI - t[2] % (2 * PI)) < 1e-12
            tol = 4 * eps if lock else 1e-9
            if isinstance(r, str) or islock(r[0]) != lock or islock(r[1]) != lock or amax(ref_so3(*r[0]) - R) > tol or amax(ref_su2(*r[1]) - U) > max(tol, 1e-7) \
                    or min(amax(r[2] - ref_su2(*r[0])), amax(r[2] + ref_su2(*r[0]))) > 1e-12:
                ctx.fail('zero-eps-forwarding', f'zero_eps={eps} not honoured at beta={b!r}: ' + (r if isinstance(r, str) else f'so3 angles {r[0]}, su2 angles {r[1]}'), dict(op='zero_eps', eps=eps, beta=b))
            else:
                ctx.probe_ok(('zeroeps', eps, b))
    Ubad = ref_su2(0.4, 1.0, 0.7).copy(); Ubad[1, 1] += 1e-5
    r1 = guarded(lambda: G.su2_to_so3(Ubad)); r2 = guarded(lambda: G.su2_to_so3(Ubad, zero_eps=1e-3)); r3 = guarded(lambda: G.su2_to_angle(Ubad)); r4 = guarded(lambda: G.su2_to_angle(Ubad, zero_eps=1e-3))
    if r1 != 'error:assert' or isinstance(r2, str) or r3 != 'error:assert' or isinstance(r4, str):
        ctx.fail('su2-input-assert', f'su2_to_so3 / su2_to_angle must reject a matrix with |U11 - conj(U00)| = 1e-5 at the default zero_eps and accept it at zero_eps=1e-3: {[x if isinstance(x, str) else "ok" for x in (r1, r2, r3, r4)]}',
                 dict(op='su2-assert', U=[[x.real, x.imag] for x in Ubad.reshape(-1)]))
    else:
        ctx.probe_ok('su2-assert')

    # P11: real-dtype / non-contiguous / read-only inputs, and no conversion may modify its input (snapshot before, compare after,
    # call twice on the same object)
    def variants_of(M, allow_int):
        out = [('float64', M.real.astype(np.float64) if not np.iscomplexobj(M) or amax(M.imag) == 0 else None), ('complex128', M.astype(np.complex128))]
        if not np.iscomplexobj(M) or amax(M.imag) == 0:
            Mr = np.real(M).astype(np.float64)
            out += [('float32', Mr.astype(np.float32)), ('fortran', np.asfortranarray(Mr)), ('complex-real-view', (Mr + 0j).real),
                    ('strided', np.stack([Mr, 7 * Mr, Mr])[::2][0]), ('transposed-twice', Mr.T.copy().T)]
            ro = Mr.copy(); ro.flags.writeable = False
            out.append(('read-only', ro))
            if allow_int and np.array_equal(Mr, np.round(Mr)):
                # (int8 / int16 are not used: numpy promotes arccos/arctan2 of int8 to float16, angles are then only 1e-3 accurate —
                #  reported to the coordinator as an observation, not part of the documented input types)
                out += [('int64', Mr.astype(np.int64)), ('int32', Mr.astype(np.int32))]
        return [(t, x) for t, x in out if x is not None]

    real_su2 = [np.eye(2), -np.eye(2), np.array([[0.0, -1.0], [1.0, 0.0]]), np.array([[0.0, 1.0], [-1.0, 0.0]])] + \
        [np.array([[math.cos(t / 2), -math.sin(t / 2)], [math.sin(t / 2), math.cos(t / 2)]]) for t in (0.3, 0.9, 1.7, 2.2, PI, 4.0, -1.1)]
    for U0 in real_su2:
        refR = ref_su2to3(U0)
        for tag, U in variants_of(U0, True):
            tol = 1e-6 if tag == 'float32' else 1e-9
            snap = np.array(U, copy=True)
            def f():
                r1 = np.asarray(G.su2_to_so3(U)); r2 = np.asarray(G.su2_to_so3(U))
                a1 = G.su2_to_angle(U); D1 = np.asarray(G.get_su2_irrep(2, U)); D2 = np.asarray(G.get_su2_irrep(2, U))
                return r1, r2, G.angle_to_su2(*a1), D1, D2
            r = guarded(f)
            rep = dict(op='dtype-aliasing', function='su2_to_so3/su2_to_angle/get_su2_irrep', U=U0.reshape(-1).tolist(), variant=tag)
            if isinstance(r, str) or amax(r[0] - refR) > tol or amax(r[1] - refR) > tol or amax(r[2] - U0) > max(tol, 1e-6) or amax(r[3] - r[4]) > 0 \
                    or amax(r[3] - np.asarray(G.get_su2_irrep(2, U0.astype(np.complex128)))) > max(tol, 1e-6) or not np.array_equal(np.asarray(U), snap):
                ctx.fail('dtype-aliasing-su2', f'SU(2) matrix stored as {tag} ({U0.tolist()}): wrong image, results differ between two calls, or the input was modified: ' + (r if isinstance(r, str) else f'su2_to_so3 -> {r[0].tolist()}, input now {np.asarray(U).tolist()}'), rep)
            else:
                ctx.probe_ok(('dtype-su2', tag, hash(U0.tobytes())))
    real_so3 = cube_rotations()[:8] + [ref_so3(0.3, 1.1, 2.0), exact_rz(1.3), exact_rz(0.4) @ np.diag([-1.0, 1.0, -1.0])]
    for R0 in real_so3:
        for tag, R in variants_of(R0, True):
            tol = 1e-5 if tag == 'float32' else 1e-9
            snap = np.array(R, copy=True)
            def f():
                a1 = G.so3_to_angle(R); a2 = G.so3_to_angle(R); U1 = np.asarray(G.so3_to_su2(R)); U2 = np.asarray(G.so3_to_su2(R))
                return G.angle_to_so3(*a1), np.array([float(x) for x in a1]) - np.array([float(x) for x in a2]), G.su2_to_so3(U1), U1 - U2
            r = guarded(f)
            rep = dict(op='dtype-aliasing', function='so3_to_angle/so3_to_su2', R=R0.reshape(-1).tolist(), variant=tag)
            if isinstance(r, str) or amax(r[0] - R0) > max(tol, 1e-6) or amax(r[1]) > 0 or amax(r[2] - R0) > max(tol, 1e-6) or amax(r[3]) > 0 or not np.array_equal(np.asarray(R), snap):
                ctx.fail('dtype-aliasing-so3', f'SO(3) matrix stored as {tag}: wrong round trip, results differ between two calls, or the input was modified: ' + (r if isinstance(r, str) else f'{amax(r[0] - R0):.3g}'), rep)
            else:
                ctx.probe_ok(('dtype-so3', tag, hash(R0.tobytes())))
    # batches of real-dtype matrices, and angle arrays of int / float32 / read-only dtype
    Ub = np.stack(real_su2[:6]); snap = Ub.copy()
    r = guarded(lambda: (np.asarray(G.su2_to_so3(Ub)), np.asarray(G.su2_to_so3(Ub))))
    if isinstance(r, str) or amax(r[0] - np.stack([ref_su2to3(u) for u in real_su2[:6]])) > 1e-9 or amax(r[0] - r[1]) > 0 or not np.array_equal(Ub, snap):
        ctx.fail('dtype-aliasing-su2', 'batch of real-dtype SU(2) matrices: wrong images or input modified', dict(op='dtype-aliasing', function='su2_to_so3', batch=Ub.reshape(-1).tolist(), variant='float64-batch'))
    else:
        ctx.probe_ok('dtype-su2-batch')
    for tag, arr in [('int64', np.array([0, 1, 2, 3])), ('float32', np.array([0.0, 0.5, 1.0, 3.0], dtype=np.float32)), ('read-only', np.array([0.0, 0.5, 1.0, 3.0])), ('strided', np.arange(8.0)[::2])]:
        if tag == 'read-only': arr.flags.writeable = False
        snap = np.array(arr, copy=True)
        af = np.asarray(arr, dtype=np.float64)
        tol = 1e-6 if tag == 'float32' else 1e-12
        r = guarded(lambda: (np.asarray(G.angle_to_so3(arr, arr, arr), dtype=np.float64), np.asarray(G.angle_to_su2(arr, arr, arr), dtype=np.complex128), np.asarray(G.get_su2_irrep(2, arr, arr, arr), dtype=np.complex128)))
        if isinstance(r, str) or max(amax(r[0][i] - ref_so3(af[i], af[i], af[i])) for i in range(4)) > tol or max(amax(r[1][i] - ref_su2(af[i], af[i], af[i])) for i in range(4)) > tol \
                or max(amax(r[2][i] - np.asarray(G.get_su2_irrep(2, af[i], af[i], af[i]))) for i in range(4)) > max(tol, 1e-6) or not np.array_equal(arr, snap):
            ctx.fail('dtype-aliasing-angles', f'angle arrays of kind {tag}: forward maps wrong or input modified: ' + (r if isinstance(r, str) else ''), dict(op='dtype-aliasing', function='angle_to_*', angles=af.tolist(), variant=tag))
        else:
            ctx.probe_ok(('dtype-angles', tag))

    # P12: histories over the memoised helpers (_get_su2_irrep_get_coeff, the Clebsch–Gordan cache): the same call repeated, sizes
    # interleaved, float32 then float64, other functions that read the caches in between — every result must equal the first one;
    # returned arrays are the caller's: overwriting them must not change later results
    def snap(x):
        if isinstance(x, (list, tuple)):
            return [snap(y) for y in x]
        return np.array(x, copy=True)

    def same(x, y):
        if isinstance(x, (list, tuple)):
            return len(x) == len(y) and all(same(u, v) for u, v in zip(x, y))
        return np.array_equal(np.asarray(x), np.asarray(y))

    def poison(x):
        if isinstance(x, (list, tuple)):
            for y in x: poison(y)
        elif isinstance(x, np.ndarray) and x.flags.writeable:
            x[...] = 7
    a32 = np.array([0.3, 1.2], dtype=np.float32)
    hist = [('irrep3', lambda: G.get_su2_irrep(3, 0.4, 1.1, 2.0)), ('irrep7', lambda: G.get_su2_irrep(7, 0.4, 1.1, 2.0)), ('irrep3-f32', lambda: G.get_su2_irrep(3, a32, a32, a32)),
            ('irrep3-matd', lambda: G.get_su2_irrep(3, 0.4, 1.1, 2.0, return_matd=True)), ('irrep3-U', lambda: G.get_su2_irrep(3, ref_su2(0.4, 1.1, 2.0))),
            ('cg21', lambda: [c for _, c in numqi.matrix_space.get_clebsch_gordan_coeffient(2, 1)]), ('cg33', lambda: [c for _, c in numqi.matrix_space.get_clebsch_gordan_coeffient(3, 3)]),
            ('ito3', lambda: numqi.matrix_space.get_irreducible_tensor_operator(3)), ('ihb3', lambda: numqi.matrix_space.get_irreducible_hermitian_matrix_basis(3, tag_stack=True)),
            ('jop5', lambda: numqi.matrix_space.get_angular_momentum_op(5))]
    first = {}
    order = [h for h in hist] + [hist[i] for i in (1, 0, 2, 0, 5, 7, 5, 8, 6, 5, 3, 0, 4, 9, 1)]
    for step, (name, f) in enumerate(order):
        r = guarded(lambda: snap(f()))
        if isinstance(r, str):
            ctx.fail('history-caches', f'step {step} ({name}) of the call history raised {r}', dict(op='history', step=step, name=name, order=[n for n, _ in order])); break
        if name not in first:
            first[name] = r
        elif not same(r, first[name]):
            ctx.fail('history-caches', f'step {step}: {name} differs from its first result after the history {[n for n, _ in order[:step]]}', dict(op='history', step=step, name=name, order=[n for n, _ in order])); break
        else:
            ctx.probe_ok(('hist', step))
        if not name.startswith('cg'):      # (the CG getter hands out the cached arrays themselves on the clean tree: observation, see design notes)
            guarded(lambda: poison(f()))
    rm = guarded(lambda: G.get_su2_irrep(2, 0.4, 1.1, 2.0, return_matd=True))
    if isinstance(rm, str) or len(rm) != 2 or amax(np.asarray(rm[0]) - np.asarray(G.get_su2_irrep(2, 0.4, 1.1, 2.0))) > 0 or amax(np.asarray(rm[1]) - np.asarray(G.get_su2_irrep(2, 0.0, 1.1, 0.0)).real) > 1e-14:
        ctx.fail('irrep-return-matd', f'get_su2_irrep(return_matd=True) does not return (D, d(beta)): {rm if isinstance(rm, str) else ""}', dict(op='irrep-matd', j2=2, angles=[0.4, 1.1, 2.0]))
    else:
        ctx.probe_ok('matd')

    # P13: irreducible tensor operators and the Hermitian basis built from them (all four tag_norm / tag_stack combinations)
    for S_ in range(1, 7 if ctx.quick() else 11):
        def f():
            T = numqi.matrix_space.get_irreducible_tensor_operator(S_)
            jx, jy, jz = numqi.matrix_space.get_angular_momentum_op(S_)
            allT = np.concatenate(T, axis=0)
            gram = np.einsum('aij,bij->ab', allT.conj(), allT)
            e1 = amax(gram - (S_ + 1) * np.eye(gram.shape[0]))
            # spherical tensor: [Jz, T^k_q] = q T^k_q, q = k, k-1, ..., -k
            e2 = max(amax(jz @ Tk[r] - Tk[r] @ jz - (k - r) * Tk[r]) for k, Tk in enumerate(T) for r in range(2 * k + 1))
            e3 = 0.0; shapes_ok = len(T) == S_ + 1 and all(Tk.shape == (2 * k + 1, S_ + 1, S_ + 1) for k, Tk in enumerate(T))
            for norm in (False, True):
                B = numqi.matrix_space.get_irreducible_hermitian_matrix_basis(S_, tag_norm=norm, tag_stack=True)
                cz, cx, cy = numqi.matrix_space.get_irreducible_hermitian_matrix_basis(S_, tag_norm=norm, tag_stack=False)
                g2 = np.einsum('aij,bji->ab', B, B)
                nrm = 1.0 if norm else (S_ / 2) * (S_ / 2 + 1) * (S_ + 1) / 3
                e3 = max(e3, amax(B - B.conj().transpose(0, 2, 1)), amax(g2 - nrm * np.eye(B.shape[0])), amax(np.concatenate([cz, cx, cy], axis=0) - B),
                         amax(B[0] - B[0][0, 0] * np.eye(S_ + 1)), 0.0 if B.shape == ((S_ + 1) ** 2, S_ + 1, S_ + 1) else float('inf'))
            return e1, e2, e3, shapes_ok
        r = guarded(f)
        if isinstance(r, str) or not r[3] or max(r[:3]) > 1e-10:
            ctx.fail('irreducible-tensor', f'get_irreducible_tensor_operator / get_irreducible_hermitian_matrix_basis (S_double={S_}): not trace-orthogonal spherical tensors / Hermitian trace-orthogonal basis of (S+1)^2 elements: {r}', dict(op='irreducible-tensor', S_double=S_))
        else:
            ctx.probe_ok(('ito', S_))

    # P7: rational 2x2 rotations are orthogonal
    for _ in range(50):
        m, n = rng.randint(-40, 40), rng.randint(-40, 40)
        if m == 0 or n == 0 or abs(m) == abs(n): continue
        M = guarded(lambda: G.get_rational_orthogonal2_matrix(m, n))
        if isinstance(M, str) or amax(M @ M.T - np.eye(2)) > 1e-14 or abs(np.linalg.det(M) - 1) > 1e-14:
            ctx.fail('rational-rot2', f'get_rational_orthogonal2_matrix({m},{n}) not in SO(2)', dict(op='rot2', m=m, n=n))
        else:
            ctx.probe_ok(('rot2', m, n))

    # P14: batches on the SU(2) side: one call on a batch == per-item calls; homomorphism on whole batches
    probe_su2_batches(ctx)

    # P15: buffer reuse across calls (a result must not be changed by the next call with a different input of the same size)
    probe_buffer_reuse(ctx)


def probe_buffer_reuse(ctx):
    """hardening class "buffer reuse across calls" (harness/bufreuse.py): for every returning function of C15, f(A) then f(B) with a
    different input of the same shape must leave the first result untouched, unshared and still correct; deterministic inputs"""
    import numqi
    from harness import bufreuse as BR
    G = numqi.group
    MS = numqi.matrix_space
    Y = np.array([[0, -1], [1, 0]], dtype=np.complex128)
    # angle triples: generic, gimbal-lock (beta = 0, pi), generic again; two different sets of the same shape
    angA = (np.array([0.3, 1.1, 5.0]), np.array([0.7, 0.0, 2.2]), np.array([1.9, 0.4, 0.0]))
    angB = (np.array([2.3, 0.2, 4.1]), np.array([PI, 1.3, 0.5]), np.array([0.6, 3.3, 2.7]))
    scA, scB = (0.3, 0.7, 1.9), (2.3, 1.3, 0.6)
    each = lambda t: list(zip(*[np.atleast_1d(np.asarray(x, dtype=np.float64)).reshape(-1) for x in t]))
    su2 = lambda t: np.stack([ref_su2(a, b, g) for a, b, g in each(t)])
    so3 = lambda t: np.stack([ref_so3(a, b, g) for a, b, g in each(t)])
    UA, UB = su2(angA), np.concatenate([su2(angB)[:2], (ref_su2(0.4, 0, 0) @ Y @ ref_su2(0, 0, 1.0))[None]])
    RA, RB = so3(angA), np.concatenate([so3(angB)[1:], exact_rz(1.3)[None]])
    lab_ang = lambda a: 'angles ' + ', '.join(np.array2string(np.asarray(x), precision=3) for x in a)
    js_arr = lambda a: [np.asarray(x).tolist() if not np.iscomplexobj(x) else [[float(z.real), float(z.imag)] for z in np.asarray(x).reshape(-1)] for x in a]
    lab_mat = lambda a: f'batch {np.asarray(a[-1]).shape}, first entry {np.asarray(a[-1]).reshape(-1)[0]:.4g}'

    def chk_a2so3(r, a):
        want = so3(a).reshape(np.shape(r))
        return None if amax(np.asarray(r) - want) <= 1e-12 else f'angle_to_so3 != Rz Ry Rz ({amax(np.asarray(r) - want):.3g})'

    def chk_a2su2(r, a):
        want = su2(a).reshape(np.shape(r))
        return None if amax(np.asarray(r) - want) <= 1e-12 else f'angle_to_su2 != reference ({amax(np.asarray(r) - want):.3g})'

    def chk_su2so3(r, a):
        want = np.stack([ref_su2to3(U) for U in a[0].reshape(-1, 2, 2)]).reshape(np.shape(r))
        return None if amax(np.asarray(r) - want) <= 1e-12 else f'su2_to_so3(U) != tr(s_i U s_j U^+)/2 ({amax(np.asarray(r) - want):.3g})'

    def chk_so3su2(r, a):
        got = np.stack([ref_su2to3(U) for U in np.asarray(r).reshape(-1, 2, 2)]).reshape(a[0].shape)
        return None if amax(got - a[0]) <= 1e-6 else f'so3_to_su2(R) is not a pre-image of R ({amax(got - a[0]):.3g})'

    def chk_su2ang(r, a):
        V = su2(r).reshape(a[0].shape)
        d = max(min(amax(x - y), amax(x + y)) for x, y in zip(V.reshape(-1, 2, 2), a[0].reshape(-1, 2, 2)))
        return None if d <= 1e-6 else f'angle_to_su2(su2_to_angle(U)) != +-U ({d:.3g})'

    def chk_so3ang(r, a):
        return None if amax(so3(r).reshape(a[0].shape) - a[0]) <= 1e-6 else 'angle_to_so3(so3_to_angle(R)) != R'

    def chk_irrep(j2, matd=False):
        def chk(r, a):
            D = np.asarray(r[0] if matd else r)
            Us = a[-1].reshape(-1, 2, 2) if len(a) == 1 else su2(a)
            D = D.reshape(-1, j2 + 1, j2 + 1)
            for U, Dj in zip(Us, D):
                if amax(Dj @ Dj.conj().T - np.eye(j2 + 1)) > 1e-10:
                    return f'get_su2_irrep(j2={j2}) not unitary'
                # character: tr D^j(U) = sum_m e^{-i m theta}, cos(theta/2) = Re tr U / 2
                th = 2 * math.acos(min(1.0, max(-1.0, float(np.trace(U).real) / 2)))
                ch = sum(math.cos((j2 / 2 - k) * th) for k in range(j2 + 1))
                if abs(np.trace(Dj) - ch) > 1e-6:
                    return f'get_su2_irrep(j2={j2}): character {np.trace(Dj)} != {ch}'
                if j2 == 1 and amax(Dj - U) > 1e-6:
                    return 'get_su2_irrep(1, U) != U'
            return None
        return chk

    def chk_cg(r, a):
        j1d, j2d = a
        want = list(range(abs(j1d - j2d), j1d + j2d + 1, 2))
        if [int(jd) for jd, _ in r] != want and [int(jd) for jd, _ in r] != want[::-1]:
            return f'CG blocks {[int(jd) for jd, _ in r]} for ({j1d},{j2d})'
        M = np.concatenate([np.asarray(c).reshape(jd + 1, -1) for jd, c in r], axis=0)
        if M.shape != ((j1d + 1) * (j2d + 1),) * 2 or amax(M @ M.T - np.eye(M.shape[0])) > 1e-10:
            return f'CG table of ({j1d},{j2d}) is not an orthogonal matrix'
        ops1, ops2 = MS.get_angular_momentum_op(j1d), MS.get_angular_momentum_op(j2d)
        for jd, c in r:
            C = np.asarray(c).reshape(jd + 1, -1)
            for A1, A2, AJ in zip(ops1, ops2, MS.get_angular_momentum_op(jd)):
                if amax(C @ (np.kron(A1, np.eye(j2d + 1)) + np.kron(np.eye(j1d + 1), A2)) - AJ @ C) > 1e-10:
                    return f'CG block j_double={jd} of ({j1d},{j2d}) does not intertwine'
        return None

    def chk_ito(r, a):
        S_ = a[0]
        allT = np.concatenate(r, axis=0)
        gram = np.einsum('aij,bij->ab', allT.conj(), allT)
        return None if allT.shape == ((S_ + 1) ** 2, S_ + 1, S_ + 1) and amax(gram - (S_ + 1) * np.eye(len(gram))) <= 1e-10 else f'tensor operators of S_double={S_} not trace-orthogonal with norm S_double+1'

    def chk_herm(r, a):
        S_, norm, stack = a
        B = np.asarray(r) if stack else np.concatenate(r, axis=0)
        nrm = 1.0 if norm else (S_ / 2) * (S_ / 2 + 1) * (S_ + 1) / 3
        g2 = np.einsum('aij,bji->ab', B, B)
        return None if B.shape == ((S_ + 1) ** 2, S_ + 1, S_ + 1) and amax(B - B.conj().transpose(0, 2, 1)) <= 1e-12 and amax(g2 - nrm * np.eye(len(B))) <= 1e-10 \
            else f'Hermitian basis (S_double={S_}, tag_norm={norm}) not Hermitian / trace-orthogonal with norm {nrm}'

    def chk_jops(r, a):
        jx, jy, jz = [np.asarray(x) for x in r]
        return None if amax(jx @ jy - jy @ jx - 1j * jz) <= 1e-12 and jz.shape == (a[0] + 1, a[0] + 1) else f'[Jx,Jy] != iJz for j_double={a[0]}'

    def chk_rot2(r, a):
        M = np.asarray(r)
        return None if amax(M @ M.T - np.eye(2)) <= 1e-14 and abs(np.linalg.det(M) - 1) <= 1e-14 else f'get_rational_orthogonal2_matrix{a} not in SO(2)'

    cases = [
        ('angle_to_so3', G.angle_to_so3, angA, angB, chk_a2so3, lab_ang), ('angle_to_so3', G.angle_to_so3, scA, scB, chk_a2so3, lab_ang),
        ('angle_to_su2', G.angle_to_su2, angA, angB, chk_a2su2, lab_ang), ('angle_to_su2', G.angle_to_su2, scA, scB, chk_a2su2, lab_ang),
        ('su2_to_so3', G.su2_to_so3, (UA,), (UB,), chk_su2so3, lab_mat), ('su2_to_so3', G.su2_to_so3, (UA[0],), (UB[2],), chk_su2so3, lab_mat),
        ('so3_to_su2', G.so3_to_su2, (RA,), (RB,), chk_so3su2, lab_mat), ('so3_to_su2', G.so3_to_su2, (RA[1],), (RB[0],), chk_so3su2, lab_mat),
        ('su2_to_angle', G.su2_to_angle, (UA,), (UB,), chk_su2ang, lab_mat), ('su2_to_angle', G.su2_to_angle, (UA[1],), (UB[1],), chk_su2ang, lab_mat),
        ('so3_to_angle', G.so3_to_angle, (RA,), (RB,), chk_so3ang, lab_mat), ('so3_to_angle', G.so3_to_angle, (RA[0],), (RB[2],), chk_so3ang, lab_mat),
    ]
    for j2 in (1, 2, 5):
        cases.append((f'get_su2_irrep[j2={j2},matrix]', (lambda U, j2=j2: G.get_su2_irrep(j2, U)), (UA,), (UB,), chk_irrep(j2), lab_mat))
        cases.append((f'get_su2_irrep[j2={j2},angles]', (lambda a, b, g, j2=j2: G.get_su2_irrep(j2, a, b, g)), angA, angB, chk_irrep(j2), lab_ang))
        cases.append((f'get_su2_irrep[j2={j2},return_matd]', (lambda U, j2=j2: G.get_su2_irrep(j2, U, return_matd=True)), (UA[0],), (UB[0],), chk_irrep(j2, matd=True), lab_mat))
    # Clebsch-Gordan tables of different (j1, j2) with the same total size (j1+1)(j2+1)
    for a, b in [((1, 2), (2, 1)), ((3, 3), (1, 7)), ((2, 4), (4, 2)), ((1, 1), (0, 3)), ((2, 3), (3, 2)), ((5, 1), (2, 3))]:
        cases.append(('get_clebsch_gordan_coeffient', MS.get_clebsch_gordan_coeffient, a, b, chk_cg, repr))
    for a, b in [((2,), (3,)), ((3,), (2,)), ((4,), (1,))]:
        cases.append(('get_irreducible_tensor_operator', MS.get_irreducible_tensor_operator, a, b, chk_ito, repr))
        cases.append(('get_angular_momentum_op', MS.get_angular_momentum_op, a, b, chk_jops, repr))
    for a, b in [((2, False, True), (2, True, True)), ((3, True, True), (3, False, True)), ((2, False, False), (2, True, False)), ((3, False, True), (3, False, False))]:
        cases.append(('get_irreducible_hermitian_matrix_basis', MS.get_irreducible_hermitian_matrix_basis, a, b, chk_herm, repr))
    for a, b in [((1, 2), (2, 3)), ((3, -4), (-5, 12))]:
        cases.append(('get_rational_orthogonal2_matrix', G.get_rational_orthogonal2_matrix, a, b, chk_rot2, repr))
    for name, f, A, B, chk, lab in cases:
        BR.run_pair(ctx, name.split('[')[0], f, A, B, check=chk, label=lab, jsonable=(js_arr if lab is not repr else (lambda a: list(a))))
        if name.split('[')[0] != 'get_clebsch_gordan_coeffient':      # and the other way round (B first)
            BR.run_pair(ctx, name.split('[')[0], f, B, A, check=chk, label=lab, jsonable=(js_arr if lab is not repr else (lambda a: list(a))))


def replay(ctx, payload):
    """--replay: a `<fn>:result-overwritten-by-next-call` record re-runs the (deterministic) buffer-reuse block only; anything else
    re-runs the whole probe; reports whether the recorded key fails again"""
    key = payload.get('key', '')
    if key.endswith(':result-overwritten-by-next-call'):
        probe_buffer_reuse(ctx)
    else:
        probe(ctx)
    hit = [f for f in ctx.failures if f['key'] == key]
    if hit:
        print(f"replay: {key} still fails: {hit[0]['what']}")
        print(f'VIOLATION property={ctx.pid} replay={ctx.replay_path}')
        return 1
    print(f'replay: {key} no longer fails ({ctx.probe_evals} probe evaluations)')
    return 0


def probe_su2_batches(ctx, wide=False):
    """implementation-side oracle for batches on the SU(2) side (no model involved): one call on a batch == the per-item calls, for
    su2_to_so3, su2_to_angle, so3_to_su2, get_su2_irrep, and the two-to-one homomorphism su2_to_so3(U V) = su2_to_so3(U) su2_to_so3(V)
    evaluated on whole batches.  Shapes with distinct axis lengths, so that a permutation of the batch axes shows."""
    import numqi
    G = numqi.group
    nprng = np.random.default_rng(ctx.np_seed + 23 + (1000 if wide else 0))
    grid = angle_grid(ctx)
    Y = np.array([[0, -1], [1, 0]], dtype=np.complex128)
    pool = [ref_su2(a, b, g) if tag != 'betapi' else ref_su2(a, 0, 0) @ Y @ ref_su2(0, 0, g) for a, b, g, tag in grid
            if not (tag in ('near0', 'nearpi') and min(b, PI - b) < 1e-6)]
    shapes = [(5,), (2, 3), (2, 1, 3), (1,)] + ([(3, 1, 1, 2), (17,), (4, 2, 3), (2, 3, 4, 1)] if (wide or not ctx.quick()) else [])
    cx = lambda A: [[float(x.real), float(x.imag)] for x in np.asarray(A).reshape(-1)]
    for shape in shapes:
        for rep in range(2 if not wide else 4):
            n = int(np.prod(shape))
            Ub = np.stack([pool[i] for i in nprng.integers(0, len(pool), size=n)]).reshape(shape + (2, 2))
            Vb = np.stack([pool[i] for i in nprng.integers(0, len(pool), size=n)]).reshape(shape + (2, 2))
            items = list(np.ndindex(*shape))

            def per_item(f, X, tail):
                return np.stack([np.asarray(f(X[ix])) for ix in items]).reshape(shape + tail)

            def f_so3():
                Rb = np.asarray(G.su2_to_so3(Ub))
                assert Rb.shape == shape + (3, 3), f'shape {Rb.shape}'
                return amax(Rb - per_item(G.su2_to_so3, Ub, (3, 3)))

            def f_ang():
                ab = [np.asarray(x, dtype=np.float64) for x in G.su2_to_angle(Ub)]
                assert all(x.shape == shape for x in ab), f'shapes {[x.shape for x in ab]}'
                one = [np.array([float(G.su2_to_angle(Ub[ix])[k]) for ix in items]).reshape(shape) for k in range(3)]
                return max(amax(x - y) for x, y in zip(ab, one))

            def f_lift():
                Rb = np.asarray(G.su2_to_so3(Ub))
                Wb = np.asarray(G.so3_to_su2(Rb))
                assert Wb.shape == shape + (2, 2), f'shape {Wb.shape}'
                return amax(Wb - per_item(G.so3_to_su2, Rb, (2, 2)))     # (that Wb is a pre-image of Rb is P1 / the corpus, with the pole tolerances)

            def f_hom():
                return amax(np.asarray(G.su2_to_so3(Ub @ Vb)) - np.asarray(G.su2_to_so3(Ub)) @ np.asarray(G.su2_to_so3(Vb)))

            checks = [('su2_to_so3', f_so3, 1e-13), ('su2_to_angle', f_ang, 1e-12), ('so3_to_su2', f_lift, 1e-12), ('su2_to_so3 homomorphism', f_hom, 1e-12)]
            for j2 in ((1, 4) if ctx.quick() and not wide else (1, 2, 5, 8)):
                def f_irrep(j2=j2):
                    Db = np.asarray(G.get_su2_irrep(j2, Ub))
                    assert Db.shape == shape + (j2 + 1, j2 + 1), f'shape {Db.shape}'
                    return amax(Db - per_item(lambda U: G.get_su2_irrep(j2, U), Ub, (j2 + 1, j2 + 1)))
                checks.append((f'get_su2_irrep(j2={j2})', f_irrep, 1e-12))
            for name, f, tol in checks:
                r = guarded(f)
                if isinstance(r, str) or not (r <= tol):
                    ctx.fail('su2-batch-elementwise', f'{name} on a batch of shape {shape} differs from the per-item calls'
                             + (' (or the batch images do not multiply)' if 'hom' in name else '') + ': ' + (r if isinstance(r, str) else f'max difference {r:.3g}'),
                             dict(op='su2-batch-elementwise', function=name, shape=list(shape), U=cx(Ub), V=cx(Vb)))
                else:
                    ctx.probe_ok(('su2-batch', name, shape, rep))


def search(ctx, hints):
    # the probe evaluates the property statement directly on the same grids as the correspondence;
    # nothing extra to search beyond replaying the disagreeing forward ops through the reference formulas
    import numqi
    G = numqi.group
    for d in hints[:2000]:
        t = d['op'].split(' ')
        if len(t) >= 12 and t[1] in ('so3ang', 'so3su2'):
            R = np.array([b2f(x) for x in t[2:11]]).reshape(3, 3)
            def f():
                a, b, g = G.so3_to_angle(R)
                return np.array([float(a), float(b), float(g)]), G.angle_to_so3(a, b, g)
            r = guarded(f)
            tol = 1e-6 if in_threshold(R) or abs(abs(R[2, 2]) - 1) < 1e-12 else 1e-9
            if isinstance(r, str) or not np.all(np.isfinite(r[0])) or amax(r[1] - R) > tol:
                ctx.fail('so3-roundtrip', 'angle_to_so3(so3_to_angle(R)) != R on an input where model and implementation disagree: ' + (r if isinstance(r, str) else f'angles={r[0].tolist()}'),
                         dict(op='so3-roundtrip', R=[float(x) for x in R.reshape(-1)]))
        if len(t) >= 7 and t[1] in ('su2ang', 'su2so3f'):
            ar, ai, br, bi = [b2f(x) for x in t[2:6]]
            a_, b_ = complex(ar, ai), complex(br, bi)
            U = np.array([[a_, b_], [-b_.conjugate(), a_.conjugate()]])
            def f():
                al, be, ga = G.su2_to_angle(U)
                D1, D3 = np.asarray(G.get_su2_irrep(1, U)), np.asarray(G.get_su2_irrep(3, U))
                return np.array([float(al), float(be), float(ga)]), G.angle_to_su2(al, be, ga), D1, amax(np.asarray(G.get_su2_irrep(3, U @ U)) - D3 @ D3)
            r = guarded(f)
            if isinstance(r, str) or not np.all(np.isfinite(r[0])) or amax(r[1] - U) > 1e-6 or amax(r[2] - U) > 1e-6 or r[3] > 1e-5:
                ctx.fail('su2-roundtrip', 'su2_to_angle / get_su2_irrep fail on an input where model and implementation disagree: ' + (r if isinstance(r, str) else f'angles={r[0].tolist()}, |rebuilt-U|={amax(r[1] - U):.3g}, hom={r[3]:.3g}'),
                         dict(op='su2-roundtrip', U=[[x.real, x.imag] for x in U.reshape(-1)]))
        if len(t) >= 5 and t[1] == 'a2so3':
            a, b, g = [b2f(x) for x in t[2:5]]
            R = guarded(lambda: G.angle_to_so3(a, b, g))
            if isinstance(R, str) or amax(R - ref_so3(a, b, g)) > 1e-12:
                ctx.fail('angle-to-so3', f'angle_to_so3{(a, b, g)} != Rz(a) Ry(b) Rz(g)', dict(op='a2so3', angles=[a, b, g]))
        if len(t) >= 5 and t[1] == 'a2su2':
            a, b, g = [b2f(x) for x in t[2:5]]
            U = guarded(lambda: G.angle_to_su2(a, b, g))
            if isinstance(U, str) or amax(U - ref_su2(a, b, g)) > 1e-12:
                ctx.fail('angle-to-su2', f'angle_to_su2{(a, b, g)} != exp(-i a sz/2) exp(-i b sy/2) exp(-i g sz/2)', dict(op='a2su2', angles=[a, b, g]))
    if not ctx.failures:
        # disagreeing batched-* ops (and anything else left unexplained): the implementation-side batch oracle on more shapes
        probe_su2_batches(ctx, wide=True)
