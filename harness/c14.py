"""C14 — finite-group tables are groups; partition and tableau counts are exact.

Model: lean/NumqiModel/FinGroup.lean, Young.lean.  Theorems: lean/NumqiProps/C14.lean (+ C14Thorough.lean in the
thorough tier).  Correspondence: exact (integer tables / lists), no floats.  The only float comparison is in the probe of
`reduce_group_representation` (numerical eigen-reduction, contract only), tolerance 1e-8 (observed <= 5e-15).
"""
import math
import itertools
import numpy as np
from . import common

THEOREM_FILES = ['NumqiProps/C14.lean', 'NumqiProps/C14Helpers.lean']
LEVEL = 'proof'
RULE = ('every constructible table of order <= 120 (S2..S5, A2..A5, D3..D12, C2..C12, (Z/n)^* n<=24, V4, Q8) is compared entry for entry '
        'with the model; partition counts and the full recurrence table for all N<=60 (full table N<=40 in quick), Young-diagram arrays N<=12, '
        'hook length / transpose / mask / all tableaux for every partition of N<=8 (N<=10 thorough), malformed arguments hitting the asserts. '
        'An op is non-trivial when its result is not a single number < 2; distinct = distinct op lines.')
TRUSTED = ['Lean 4.33 kernel', 'axioms: propext, Classical.choice, Quot.sound', 'Lean compiler for the driver executable',
           'harness/c14.py canonicalisation (integer arrays printed row by row; Young-diagram rows and tableau lists compared as sorted lists)',
           'modelled, not verified: numqi/group/_internal.py, _symmetric.py; itertools.permutations / itertools.combinations order and '
           'scipy.linalg.circulant are modelled from their documentation and checked by the tie',
           'contract only (probed, tolerance 1e-8): np.linalg.eigh inside reduce_group_representation']

TOL_IRREP = 1e-8


def translate(ctx):
    # nothing is generated for C14; the hook only selects the theorem modules of the tier
    # (the N = 9, 10 tableau tables are several minutes of kernel evaluation when first built)
    global THEOREM_FILES
    THEOREM_FILES = ['NumqiProps/C14.lean', 'NumqiProps/C14Helpers.lean'] + ([] if ctx.quick() else ['NumqiProps/C14Thorough.lean'])
    ctx.extra['theorem_files'] = list(THEOREM_FILES)


def guarded(f):
    try:
        return f()
    except AssertionError:
        return 'error:assert'
    except (ValueError, TypeError, IndexError, KeyError, ZeroDivisionError) as e:
        return 'error:' + type(e).__name__


def rows_str(T):
    return ';'.join(','.join(str(int(x)) for x in r) for r in np.asarray(T).tolist())


def row_str(r):
    return ','.join(str(int(x)) for x in r)


def tabs_str(ts):
    return ';'.join('|'.join(','.join(str(int(x)) for x in r) for r in t) for t in np.asarray(ts).tolist())


def build_table(kind, n):
    import numqi
    G = numqi.group
    if kind == 'sym': return G.get_symmetric_group_cayley_table(n)
    if kind == 'alt': return G.get_symmetric_group_cayley_table(n, alternating=True)
    if kind == 'dih': return G.get_dihedral_group_cayley_table(n)
    if kind == 'cyc': return G.get_cyclic_group_cayley_table(n)
    if kind == 'mul': return G.get_multiplicative_group_cayley_table(n)
    if kind == 'klein': return G.get_klein_four_group_cayley_table()
    if kind == 'quat': return G.get_quaternion_cayley_table()
    raise KeyError(kind)


def totient(n):
    return sum(1 for x in range(1, n + 1) if math.gcd(n, x) == 1)


def stated_order(kind, n):
    return {'sym': lambda: math.factorial(n), 'alt': lambda: math.factorial(n) // 2, 'dih': lambda: 2 * n, 'cyc': lambda: n,
            'mul': lambda: totient(n), 'klein': lambda: 4, 'quat': lambda: 8}[kind]()


def table_list(ctx):
    q = ctx.quick()
    out = [('sym', n) for n in range(2, 6)] + [('alt', n) for n in range(2, 6)]
    out += [('dih', n) for n in range(3, 13)] + [('cyc', n) for n in range(2, 13)] + [('mul', n) for n in range(3, 25)]
    out += [('klein', 0), ('quat', 0)]
    # boundaries: (Z/n)^* at prime squares / cubes, twin-prime products p(p+2), powers of two; D_n and C_n at powers of two
    out += [('mul', n) for n in (25, 27, 32, 35, 49, 63, 64, 65, 121, 143)] + [('dih', 16), ('dih', 32), ('cyc', 32), ('cyc', 64)]
    if not q:
        out += [('alt', 6), ('sym', 6)] + [('dih', n) for n in range(13, 31)] + [('cyc', n) for n in range(13, 41)] + [('mul', n) for n in range(26, 61) if n not in (27, 32, 35, 49)] + [('mul', n) for n in (169, 128, 323)]
    return out


def group_check(T):
    """exhaustive group axioms on an integer table; returns None or (what, witness)"""
    T = np.asarray(T)
    N = T.shape[0]
    if T.ndim != 2 or T.shape != (N, N):
        return ('shape', dict(shape=list(T.shape)))
    if T.min() < 0 or T.max() >= N:
        i, j = np.argwhere((T < 0) | (T >= N))[0]
        return ('closure', dict(i=int(i), j=int(j), entry=int(T[i, j])))
    A = T[T, :]                   # A[i,j,k] = T[T[i,j],k]
    B = T[:, T]                   # B[i,j,k] = T[i,T[j,k]]
    if not np.array_equal(A, B):
        i, j, k = np.argwhere(A != B)[0]
        return ('associativity', dict(i=int(i), j=int(j), k=int(k), lhs=int(A[i, j, k]), rhs=int(B[i, j, k])))
    ar = np.arange(N)
    es = [e for e in range(N) if np.array_equal(T[e], ar) and np.array_equal(T[:, e], ar)]
    if len(es) != 1:
        return ('identity', dict(identities=es))
    e = es[0]
    for i in range(N):
        js = [j for j in range(N) if T[i, j] == e and T[j, i] == e]
        if len(js) != 1:
            return ('inverse', dict(i=i, identity=e, inverses=js))
    return None


def all_shapes(N):
    import numqi
    return [[int(x) for x in row if x > 0] for row in numqi.group.get_sym_group_young_diagram(N).tolist()]


def partitions_ref(N):
    """independent enumeration of the partitions of N (descending lists)"""
    def rec(n, mx):
        if n == 0:
            yield []
            return
        for a in range(min(n, mx), 0, -1):
            for rest in rec(n - a, a):
                yield [a] + rest
    return list(rec(N, N))


def pentagonal_counts(M):
    p = [1] + [0] * M
    for n in range(1, M + 1):
        s, k = 0, 1
        while True:
            g1, g2 = k * (3 * k - 1) // 2, k * (3 * k + 1) // 2
            if g1 > n: break
            sign = 1 if k % 2 == 1 else -1
            s += sign * p[n - g1]
            if g2 <= n: s += sign * p[n - g2]
            k += 1
        p[n] = s
    return p


def impl_op(op):
    import numqi
    G = numqi.group
    t = op.split(' ')
    k = t[1]
    if k == 'table':
        return guarded(lambda: rows_str(build_table(t[2], int(t[3]))))
    if k == 'isgroup':
        def f():
            T = build_table(t[2], int(t[3]))
            return f'{len(T)} {1 if group_check(T) is None else 0}'
        return guarded(f)
    if k == 'leftreg':
        def f():
            T = build_table(t[2], int(t[3]))
            L = np.asarray(G.cayley_table_to_left_regular_form(T))
            N = len(T)
            if L.shape != (N, N, N) or not np.all((L == 0) | (L == 1)) or not np.all(L.sum(axis=1) == 1):
                return 'not-permutation-matrices'
            return rows_str(L.argmax(axis=1))          # [g, c] -> the row holding the 1 of column c
        return guarded(f)
    if k == 'leftregfull':
        def f():
            T = build_table(t[2], int(t[3]))
            L = np.asarray(G.cayley_table_to_left_regular_form(T))
            N = len(T)
            if L.shape != (N, N, N) or not np.all((L == 0) | (L == 1)):
                return f'shape {L.shape} / entries outside 0,1'
            return '|'.join(';'.join(''.join(str(int(x)) for x in row) for row in Lg) for Lg in L)
        return guarded(f)
    if k == 'totient':
        return guarded(lambda: str(int(G.hf_Euler_totient(int(t[2])))))
    if k == 'dummypart':
        def f():
            import numqi.group._internal as GI
            n = int(t[2]); bits = t[3]
            calls = []
            def hf0(x, y):
                calls.append((x, y))
                return bits[x * (n + 1) + y] == '1'
            out = GI._dummy_partition(n, hf0)
            if any((not isinstance(sl, slice)) or sl.step is not None for sl in out) or any(not (0 <= x < y < n) for x, y in calls):
                return f'not plain slices / predicate called outside 0 <= x < y < length: {calls[:4]}'
            return ';'.join(f'{sl.start}:{sl.stop}' for sl in out)
        return guarded(f)
    if k == 'numirrep':
        return guarded(lambda: str(int(G.get_sym_group_num_irrep(int(t[2])))))
    if k == 'numirrepfull':
        return guarded(lambda: rows_str(G.get_sym_group_num_irrep(int(t[2]), return_full=True)[1]))
    if k == 'young':
        return guarded(lambda: rows_str(G.get_sym_group_young_diagram(int(t[2]))))
    shape = [int(x) for x in t[2].split(',')]
    if k == 'hook':
        return guarded(lambda: str(int(G.get_hook_length(*shape))))
    if k == 'transpose':
        return guarded(lambda: row_str(G.get_young_diagram_transpose(shape)))
    if k == 'mask':
        return guarded(lambda: rows_str(G.get_young_diagram_mask(shape)))
    if k == 'tableaux':
        return guarded(lambda: tabs_str(G.get_all_young_tableaux(shape)))
    if k == 'tabok':
        return guarded(lambda: '1' if tableaux_violation(shape, G.get_all_young_tableaux(shape), int(G.get_hook_length(*shape))) is None else '0')
    if k == 'sytcount':
        return guarded(lambda: str(len(G.get_all_young_tableaux(shape))))
    return 'bad-op'


def tableaux_violation(shape, ts, hook):
    """the property for one shape, evaluated directly on the returned array"""
    ts = np.asarray(ts)
    N = sum(shape)
    if ts.ndim != 3 or ts.shape[1:] != (len(shape), shape[0]):
        return ('shape', dict(shape=list(ts.shape)))
    seen = set()
    for idx, t in enumerate(ts.tolist()):
        cells = [row[:a] for row, a in zip(t, shape)]
        flat = [x for r in cells for x in r]
        if sorted(flat) != list(range(N)):
            return ('not-a-filling', dict(index=idx, tableau=t))
        if any(r[i] >= r[i + 1] for r in cells for i in range(len(r) - 1)):
            return ('row-not-increasing', dict(index=idx, tableau=t))
        for c in range(shape[0]):
            col = [r[c] for r in cells if len(r) > c]
            if any(col[i] >= col[i + 1] for i in range(len(col) - 1)):
                return ('column-not-increasing', dict(index=idx, tableau=t))
        key = tuple(flat)
        if key in seen:
            return ('duplicate', dict(index=idx, tableau=t))
        seen.add(key)
    if len(ts) != hook:
        return ('count', dict(enumerated=len(ts), hook_length=hook))
    return None


def hook_ref(shape):
    """N! / prod(hooks), computed from the definition"""
    N = sum(shape)
    prod = 1
    for r, a in enumerate(shape):
        for c in range(a):
            arm = a - c - 1
            leg = sum(1 for b in shape[r + 1:] if b > c)
            prod *= arm + leg + 1
    assert math.factorial(N) % prod == 0
    return math.factorial(N) // prod


def gen_ops(ctx):
    q = ctx.quick()
    rng = ctx.rng
    ops = []
    for kind, n in table_list(ctx):
        ops.append(f'C14 table {kind} {n}')
        order = stated_order(kind, n)
        if order <= (24 if q else 120):
            ops.append(f'C14 leftreg {kind} {n}')
        if order <= (60 if q else 120):
            ops.append(f'C14 isgroup {kind} {n}')
        if order <= 12:
            ops.append(f'C14 leftregfull {kind} {n}')
    # Euler's totient (the stated order of (Z/n)^*)
    for n in range(0, 401 if q else 1201):
        ops.append(f'C14 totient {n}')
    # _dummy_partition on every predicate table for length <= 3 (2 quick) and on random ones above
    for n in range(0, 3 if q else 4):
        for bits in itertools.product('01', repeat=n * (n + 1)):
            ops.append(f'C14 dummypart {n} ' + (''.join(bits) or '-'))
    for _ in range(150 if q else 800):
        n = rng.randint(3, 9)
        pr = rng.choice([0.2, 0.5, 0.8, 0.95])
        ops.append(f'C14 dummypart {n} ' + ''.join('1' if rng.random() < pr else '0' for _ in range(n * (n + 1))))
    # arguments rejected by the asserts
    ops += ['C14 table sym 1', 'C14 table sym 0', 'C14 table alt 1', 'C14 table dih 2', 'C14 table dih 0', 'C14 table cyc 1', 'C14 table cyc 0',
            'C14 table mul 2', 'C14 table mul 1', 'C14 numirrep 0', 'C14 young 0', 'C14 hook 1,2', 'C14 hook 2,0', 'C14 hook 0', 'C14 transpose 1,3',
            'C14 tableaux 2,3', 'C14 mask 1,2,1']
    for N in range(1, 61):
        ops.append(f'C14 numirrep {N}')
    for N in (range(1, 41) if q else range(1, 61)):
        ops.append(f'C14 numirrepfull {N}')
    for N in range(1, 13 if q else 19):
        ops.append(f'C14 young {N}')
    for N in range(1, 9 if q else 11):
        for s in all_shapes(N):
            ss = row_str(s)
            ops += [f'C14 hook {ss}', f'C14 transpose {ss}', f'C14 mask {ss}', f'C14 tableaux {ss}', f'C14 tabok {ss}', f'C14 sytcount {ss}']
    # larger shapes: hook length / transpose only (cheap)
    for _ in range(60 if q else 600):
        N = rng.randint(9, 40)
        parts = []
        left = N
        mx = rng.randint(1, N)
        while left > 0:
            a = rng.randint(1, min(left, mx))
            parts.append(a); left -= a; mx = a
        ss = row_str(parts)
        ops += [f'C14 hook {ss}', f'C14 transpose {ss}']
    return ops


def sort_rows(line, sep=';'):
    if line.startswith('error') or line == 'bad-op':
        return line
    return sep.join(sorted(line.split(sep)))


def reduce_trace(L):
    """run `reduce_group_representation(L)` and record, for every (recursive) call that reaches the selection step, the candidate
    blocks and the returned blocks.  The observation points are chosen so that the spelling of the selection step does not matter:
    the public function itself (every recursive call goes through the module attribute), and the list of candidate blocks as it
    enters the grouping by dimension — seen by a module-level `sorted` shadow *or* by a proxy of the module's `itertools`
    (`groupby` after `sorted(...)` or after `z1.sort(...)`: the order inside one dimension is the discovery order either way).
    The Boolean rows handed to `np.nonzero` / `np.flatnonzero` / `np.where` / `np.argwhere` are kept as a cross-check only."""
    import itertools as _it
    import numqi.group._internal as GI
    frames, stack = [], []
    orig_red = GI.reduce_group_representation
    is_blocks = lambda items: len(items) > 0 and all(isinstance(b, np.ndarray) and b.ndim == 3 and b.shape[1] == b.shape[2] for b in items)

    def my_sorted(iterable, *a, **k):
        items = list(iterable)
        if stack and stack[-1]['found'] is None and is_blocks(items):
            stack[-1]['found'] = items; stack[-1]['how'] = 'sorted'
        return sorted(items, *a, **k)

    class ItProxy:
        def __getattr__(self, nm):
            return getattr(_it, nm)
        def groupby(self, iterable, key=None):
            items = list(iterable)
            if stack and stack[-1]['found'] is None and is_blocks(items):
                stack[-1]['found'] = items; stack[-1]['how'] = 'groupby'
            return _it.groupby(items, key=key)

    saved_np = {}
    def wrap_np(nm):
        orig = getattr(np, nm)
        def w(x, *a, **k):
            if stack and isinstance(x, np.ndarray) and x.dtype == np.bool_ and x.ndim == 1 and not a and not k:
                stack[-1]['rows'].append(x.copy())
            return orig(x, *a, **k)
        saved_np[nm] = orig
        setattr(np, nm, w)

    def red(np0, *a, **k):
        fr = dict(rows=[], found=None, how=None, N=int(np.asarray(np0).shape[0])); stack.append(fr)
        try:
            out = orig_red(np0, *a, **k)
        finally:
            stack.pop()
        fr['out'] = out
        frames.append(fr)
        return out
    had_sorted = 'sorted' in vars(GI)
    old_sorted = vars(GI).get('sorted')
    old_it = vars(GI).get('itertools')
    GI.reduce_group_representation = red; GI.sorted = my_sorted
    if old_it is not None:
        GI.itertools = ItProxy()
    for nm in ('nonzero', 'flatnonzero', 'where', 'argwhere'):
        wrap_np(nm)
    try:
        out = red(L)
    finally:
        GI.reduce_group_representation = orig_red
        for nm, orig in saved_np.items():
            setattr(np, nm, orig)
        if had_sorted:
            GI.sorted = old_sorted
        else:
            del GI.sorted
        if old_it is not None:
            GI.itertools = old_it
    return out, frames


def overlap_matrix(blocks, N):
    """Boolean overlap relation of candidate blocks computed from the arrays themselves (not from the implementation's Boolean matrix):
    |<chi_i, chi_j>| / N is 1 for equivalent irreducible blocks and 0 otherwise; returns (E, margin) with margin the distance of the
    least clear entry from {0, 1}"""
    chi = np.stack([np.trace(b, axis1=1, axis2=2) for b in blocks])
    ov = np.abs(chi @ chi.conj().T) / N
    margin = float(np.minimum(np.abs(ov), np.abs(ov - 1)).max())
    return (np.abs(ov - 1) < 1e-6), margin


def dedup_tie(ctx):
    """the selection step of `reduce_group_representation` (group by dimension, drop equivalent copies by character overlap) against
    `FinGroup.dedupAll`, on the candidate blocks captured from the real call"""
    import numqi
    G = numqi.group
    ops, impl = [], []
    cases = [('sym', 3), ('dih', 3), ('dih', 4), ('quat', 0), ('cyc', 4), ('klein', 0), ('mul', 15), ('dih', 5), ('cyc', 6)]
    if not ctx.quick():
        cases += [('alt', 4), ('dih', 6), ('sym', 4), ('dih', 7), ('mul', 24), ('cyc', 12)]
    uncaptured, hyp_bad, crosscheck_diff, worst_margin, how_seen = [], [], 0, 0.0, set()
    for kind, n in cases:
        T = np.asarray(build_table(kind, n))
        L = np.asarray(G.cayley_table_to_left_regular_form(T))
        out, frames = reduce_trace(L)
        nf = 0
        for fr in frames:
            found = fr['found']
            if found is None:
                continue        # a call that returned before the selection step (irreducible input), or whose candidates were not observable
            how_seen.add(fr['how'])
            dims = [int(b.shape[1]) for b in found]
            rows = list(fr['rows'])
            mats, groups, ok_frame = [], {}, True
            for d in sorted(set(dims)):
                members = [b for b in found if b.shape[1] == d]
                groups[d] = members
                if len(members) > 1:
                    E, margin = overlap_matrix(members, fr['N'])
                    worst_margin = max(worst_margin, margin)
                    if margin > 1e-6:
                        ok_frame = False; break        # overlaps not cleanly 0/1: the candidates are not irreducible blocks; leave it to the probe
                    m = len(members)
                    # hypotheses of `dedupGroup_transversal`: reflexive, symmetric, transitive
                    Ei = E.astype(int)
                    if not (E.diagonal().all() and np.array_equal(E, E.T) and np.array_equal((Ei @ Ei) > 0, E)):
                        hyp_bad.append(f'{kind}{n}: dimension-{d} overlap relation {E.astype(int).tolist()}')
                    # cross-check with the Boolean rows the implementation handed to np.nonzero & co (when it did)
                    if len(rows) >= m and all(len(r) == m for r in rows[:m]):
                        blk, rows = rows[:m], rows[m:]
                        if not np.array_equal(np.array(blk), E):
                            crosscheck_diff += 1
                    mats.append(f'{d}=' + '/'.join(''.join('1' if x else '0' for x in r) for r in E))
            if not ok_frame:
                continue
            sel = []
            for b in fr['out']:
                d = int(b.shape[1])
                mem = groups.get(d, [])
                idx = [i for i, mm in enumerate(mem) if mm is b] or [i for i, mm in enumerate(mem) if mm.shape == b.shape and np.array_equal(mm, b)]
                sel.append((d, idx[0] if idx else -1))
            ops.append(f'C14 dedup {",".join(map(str, dims))} {"+".join(mats) or "-"}')
            impl.append(';'.join(f'{d}:{i}' for d, i in sorted(sel)))
            ctx.count('dedup-' + kind)
            nf += 1
        if nf == 0:
            uncaptured.append(f'{kind}{n}')
            # public path (always available): the returned blocks must be pairwise inequivalent and complete for the regular representation
            N = len(T)
            chi = np.stack([np.trace(b, axis1=1, axis2=2) for b in out])
            gram = np.abs(chi @ chi.conj().T) / N
            dims = [int(b.shape[1]) for b in out]
            if np.abs(gram - np.eye(len(out))).max() > 1e-6 or sum(d * d for d in dims) != N:
                ctx.fail('irrep:selection', f'{kind}{n}: the blocks returned for the left regular representation are not one per class (character Gram matrix deviates by '
                         f'{np.abs(gram - np.eye(len(out))).max():.2e}, sum d^2 = {sum(d * d for d in dims)}, |G| = {N})', dict(constructor=kind, n=n, dims=dims))
            else:
                ctx.probe_ok(('selection-public', kind, n))
    if ops:
        model = common.run_model(ops)
        model = [';'.join(sorted(m.split(';'), key=lambda t: tuple(int(x) for x in t.split(':')))) if m and ':' in m else m for m in model]
        common.compare(ctx, ops, impl, model, key=lambda op: 'dedup')
    for h in hyp_bad:
        ctx.disagree('C14 dedup hypotheses', 'overlap relation reflexive, symmetric, transitive (hypotheses of dedupGroup_transversal)', h)
    ctx.extra['dedup_frames'] = len(ops)
    ctx.extra['dedup_capture'] = dict(observed_through=sorted(x for x in how_seen if x), cases_without_frames=uncaptured, overlap_margin_from_0_1=worst_margin,
                                      hypotheses_violated=len(hyp_bad), implementation_boolean_rows_differ=crosscheck_diff)
    if uncaptured:
        ctx.note(f'dedup tie: the candidate blocks of the selection step were not observable for {uncaptured} (neither `sorted` nor `itertools.groupby` sees them); '
                 'covered on the public path only (returned blocks pairwise inequivalent, sum d^2 = |G|)')


def correspondence(ctx):
    ops = gen_ops(ctx)
    impl = [impl_op(op) for op in ops]
    model = common.run_model(ops)
    # Young-diagram rows and tableau lists: the enumeration ORDER of the real code is tied too (round 6).  A result with the same rows in
    # another order does not violate the property; it is reported as a disagreement whose text says so (verdict no-failing-input-found).
    same_order = sum(1 for i, op in enumerate(ops) if op.split(' ')[1] in ('young', 'tableaux') and impl[i] == model[i])
    n_ordered = sum(1 for op in ops if op.split(' ')[1] in ('young', 'tableaux'))
    ctx.extra['young_tableaux_lists_in_identical_order'] = f'{same_order}/{n_ordered}'
    for i, op in enumerate(ops):
        if op.split(' ')[1] in ('young', 'tableaux') and impl[i] != model[i] and sort_rows(impl[i]) == sort_rows(model[i]):
            impl[i] = 'same rows as the model, different enumeration order: ' + impl[i][:200]
    nontriv = lambda op, out: not (out.isdigit() and int(out) < 2) and not out.startswith('error')
    common.compare(ctx, ops, impl, model, nontrivial=nontriv)
    try:
        dedup_tie(ctx)
    except Exception as e:
        ctx.disagree('C14 dedup (capture of reduce_group_representation)', 'the model of the selection step applies', f'capture failed: {type(e).__name__}: {e}'[:300])
    ctx.extra['exhaustive'] = True
    ctx.extra['exhaustive_domain'] = ('all tables of order <= 120 listed in RULE entry for entry; all N<=60 partition counts; every partition of N<=%d for '
                                      'hook/transpose/mask/tableaux' % (8 if ctx.quick() else 10))


def probe_table(ctx, kind, n):
    import numqi
    G = numqi.group
    name = f'{kind}{n}' if kind not in ('klein', 'quat') else kind
    T = guarded(lambda: np.asarray(build_table(kind, n)))
    if isinstance(T, str):
        ctx.fail(f'table:{kind}:raises', f'constructor {kind}({n}) raised {T}', dict(constructor=kind, n=n, observed=T)); return
    bad = group_check(T)
    if bad is not None:
        ctx.fail(f'table:{kind}:{bad[0]}', f'{name}: group axiom "{bad[0]}" fails at {bad[1]}', dict(constructor=kind, n=n, axiom=bad[0], witness=bad[1])); return
    ctx.probe_ok(('axioms', name))
    if len(T) != stated_order(kind, n):
        ctx.fail(f'table:{kind}:order', f'{name}: order {len(T)} != stated {stated_order(kind, n)}', dict(constructor=kind, n=n, order=len(T), stated=stated_order(kind, n))); return
    ctx.probe_ok()
    N = len(T)
    limit = 24 if ctx.quick() else 120
    # left regular form: homomorphism, faithful, permutation matrices
    L = np.asarray(G.cayley_table_to_left_regular_form(T))
    ok = L.shape == (N, N, N) and np.all((L == 0) | (L == 1)) and np.all(L.sum(axis=1) == 1) and np.all(L.sum(axis=2) == 1)
    if not ok:
        ctx.fail('leftreg:permutation', f'{name}: left regular form is not a family of permutation matrices', dict(constructor=kind, n=n)); return
    pairs = [(g, h) for g in range(N) for h in range(N)] if N <= limit else [(ctx.rng.randrange(N), ctx.rng.randrange(N)) for _ in range(300)]
    for g, h in pairs:
        if not np.array_equal(L[g] @ L[h], L[T[g, h]]):
            ctx.fail('leftreg:hom', f'{name}: L[{g}]@L[{h}] != L[T[{g},{h}]]', dict(constructor=kind, n=n, g=g, h=h)); return
    ctx.probe_ok(('leftreg-hom', name))
    if len({L[g].tobytes() for g in range(N)}) != N:
        ctx.fail('leftreg:faithful', f'{name}: two elements have the same left regular matrix', dict(constructor=kind, n=n)); return
    ctx.probe_ok()
    # irreducible blocks (numerical; contract only)
    if N <= limit:
        irr = guarded(lambda: G.reduce_group_representation(L))
        if isinstance(irr, str):
            ctx.fail('irrep:raises', f'{name}: reduce_group_representation raised {irr}', dict(constructor=kind, n=n, observed=irr)); return
        dims = [int(x.shape[1]) for x in irr]
        if sum(d * d for d in dims) != N:
            ctx.fail('irrep:sum-d2', f'{name}: sum d^2 = {sum(d * d for d in dims)} != |G| = {N}, dims {dims}', dict(constructor=kind, n=n, dims=dims)); return
        for x in irr:
            d = x.shape[1]
            e1 = float(np.abs(x @ x.transpose(0, 2, 1).conj() - np.eye(d)).max())
            e2 = float(np.abs(np.einsum('gab,hbc->ghac', x, x) - x[T]).max())
            ctx.extra['irrep_max_err'] = max(ctx.extra.get('irrep_max_err', 0.0), e1, e2)
            if e1 > TOL_IRREP:
                ctx.fail('irrep:unitary', f'{name}: irreducible block of dim {d} not unitary (err {e1:.2e})', dict(constructor=kind, n=n, dim=d, err=e1)); return
            if e2 > TOL_IRREP:
                ctx.fail('irrep:hom', f'{name}: irreducible block of dim {d} not a homomorphism (err {e2:.2e})', dict(constructor=kind, n=n, dim=d, err=e2)); return
        chi = np.stack([np.trace(x, axis1=1, axis2=2) for x in irr])
        gram = chi @ chi.conj().T / N
        e3 = float(np.abs(gram - np.eye(len(irr))).max())
        if e3 > 1e-6:
            ctx.fail('irrep:characters', f'{name}: characters of the blocks are not orthonormal (err {e3:.2e}): not irreducible / repeated', dict(constructor=kind, n=n, err=e3)); return
        # the hypotheses of `sum_sq_dims_eq_order` / `fourier_intertwines`: F[(i,a,b), g] = sqrt(d_i/N) rho_i(g)[a,b] is unitary on
        # both sides and intertwines the left regular representation with  (+)_i rho_i (x) 1_{d_i}
        F = np.concatenate([x.reshape(N, -1).T * np.sqrt(x.shape[1] / N) for x in irr], axis=0)
        r1 = float(np.abs(F @ F.conj().T - np.eye(F.shape[0])).max())
        r2 = float(np.abs(F.conj().T @ F - np.eye(N)).max())
        hs = range(N) if N <= 24 else sorted({ctx.rng.randrange(N) for _ in range(12)})
        r3 = 0.0
        for hh in hs:
            D = np.zeros((F.shape[0], F.shape[0]), dtype=F.dtype)
            o = 0
            for x in irr:
                d = x.shape[1]
                D[o:o + d * d, o:o + d * d] = np.kron(x[hh], np.eye(d)); o += d * d
            r3 = max(r3, float(np.abs(F @ L[hh] - D @ F).max()))
        ctx.extra['irrep_regular_equiv_residual'] = max(ctx.extra.get('irrep_regular_equiv_residual', 0.0), r1, r2, r3)
        if max(r1, r2, r3) > TOL_IRREP:
            ctx.fail('irrep:regular-equivalence', f'{name}: the blocks do not assemble to a unitary equivalence with the left regular representation '
                     f'(|FF^+-1|={r1:.2e}, |F^+F-1|={r2:.2e}, |F L(h) - (+)rho(h)(x)1 F|={r3:.2e})', dict(constructor=kind, n=n, dims=dims, residuals=[r1, r2, r3])); return
        ctx.probe_ok(('irrep', name))
        ctx.count('probe-irrep')


# ---------------------------------------------------------------------------------------------------------
# hardening: histories over the memoised constructors, argument dtypes, aliasing, boundaries
# ---------------------------------------------------------------------------------------------------------
def history_calls():
    """the calls driven through several histories: [function, args, kwargs] (JSON)"""
    calls = []
    for n in range(2, 6):
        calls += [['table', ['sym', n], {}], ['table', ['alt', n], {}]]
    calls += [['table', ['dih', n], {}] for n in range(3, 9)] + [['table', ['cyc', n], {}] for n in range(2, 9)]
    calls += [['table', ['mul', n], {}] for n in (8, 15, 25, 35, 49)] + [['table', ['klein', 0], {}], ['table', ['quat', 0], {}]]
    for N in range(1, 41):
        calls.append(['numirrep', [N], {}])
        if N in (1, 3, 4, 5, 12, 30, 33, 40):
            calls.append(['numirrepfull', [N], {}])
    calls += [['young', [N], {}] for N in range(1, 11)]
    for N in range(1, 7):
        for sh in all_shapes(N):
            calls += [['hook', list(sh), {}], ['hook', list(sh), {'check': False}], ['transpose', [list(sh)], {}], ['mask', [list(sh)], {}],
                      ['tableaux', [list(sh)], {}], ['tableaux', [list(sh)], {'check': False}]]
    return calls


def run_call(G, c):
    f, a, k = c
    if f == 'table': return build_table(a[0], a[1])
    if f == 'numirrep': return G.get_sym_group_num_irrep(a[0])
    if f == 'numirrepfull': return G.get_sym_group_num_irrep(a[0], return_full=True)
    if f == 'young': return G.get_sym_group_young_diagram(a[0])
    if f == 'hook': return G.get_hook_length(*a, **k)
    if f == 'transpose': return G.get_young_diagram_transpose(tuple(a[0]), **k)
    if f == 'mask': return G.get_young_diagram_mask(tuple(a[0]), **k)
    if f == 'tableaux': return G.get_all_young_tableaux(tuple(a[0]), **k)
    raise KeyError(f)


def digest(x):
    import hashlib
    def enc(y):
        if isinstance(y, np.ndarray):
            return f'a:{y.dtype.str}:{y.shape}:'.encode() + np.ascontiguousarray(y).tobytes()
        if isinstance(y, (tuple, list)):
            return b'l(' + b','.join(enc(z) for z in y) + b')'
        if isinstance(y, (bool, np.bool_)):
            return f'b:{bool(y)}'.encode()
        if isinstance(y, (int, np.integer)):
            return f'i:{int(y)}'.encode()
        return f'o:{type(y).__name__}:{y!r}'.encode()
    return hashlib.sha1(enc(x)).hexdigest()[:16]


def run_history(calls):
    """digest of every call's result, in the given order (exceptions are results too)"""
    import numqi
    G = numqi.group
    out = []
    for c in calls:
        try:
            out.append(digest(run_call(G, c)))
        except Exception as e:
            out.append(f'raised {type(e).__name__}')
    return out


def history_main():
    """entry point of the fresh-process history: the calls in reversed order, digests (JSON) on stdout"""
    import json
    print('DIGESTS ' + json.dumps(run_history(list(reversed(history_calls())))))


def start_fresh_history():
    import subprocess, sys
    return subprocess.Popen([sys.executable, '-c', 'from harness import c14; c14.history_main()'], stdin=subprocess.DEVNULL, stdout=subprocess.PIPE,
                            stderr=subprocess.PIPE, text=True, cwd=common.VERIF)


def probe_histories(ctx, fresh):
    """(3) HISTORIES: every memoised helper (Cayley tables of S_n / A_n, partition-count tables, hook lengths) is driven through the same
    calls in four orders: forward, forward again (same call repeated), shuffled (sizes and options interleaved), and reversed in a fresh
    process (A_n before S_n, return_full before the plain count, check=False before check=True).  A call's result may depend on its
    arguments only."""
    import json
    calls = history_calls()
    key = lambda c: json.dumps(c)
    runs = {}
    runs['forward'] = (calls, run_history(calls))
    runs['forward, second time'] = (calls, run_history(calls))
    sh = list(calls); ctx.rng.shuffle(sh)
    runs[f'shuffled (random.Random({ctx.seed}) order)'] = (sh, run_history(sh))
    rv = list(reversed(calls))
    try:
        out, err = fresh.communicate(timeout=300)
        line = [l for l in out.splitlines() if l.startswith('DIGESTS ')]
        if fresh.returncode != 0 or not line:
            ctx.fail('history:fresh-process', f'the fresh-process history did not complete: exit {fresh.returncode}: {err[-300:]}', dict(order='reversed', stderr=err[-600:]))
        else:
            runs['reversed, in a fresh process'] = (rv, json.loads(line[0][8:]))
    except Exception as e:
        ctx.fail('history:fresh-process', f'the fresh-process history did not complete: {type(e).__name__}: {e}', dict(order='reversed'))
    ref = dict(zip(map(key, calls), runs['forward'][1]))
    bad = 0
    for name, (order, digs) in runs.items():
        for i, (c, d) in enumerate(zip(order, digs)):
            if d != ref[key(c)] and bad < 5:
                bad += 1
                ctx.fail(f'history:{c[0]}', f'{c[0]}{tuple(c[1])}{c[2] or ""} depends on the calls made before it: run "{name}" gives {d}, run "forward" gives {ref[key(c)]}',
                         dict(call=c, run=name, position=i, calls_before_it_in_that_run=order[max(0, i - 40):i], forward_digest=ref[key(c)], this_digest=d))
        ctx.count('history-run')
    if not bad:
        ctx.probe_ok(('histories', len(calls), len(runs)))
    for c, d in zip(calls, runs['forward'][1]):
        if d.startswith('raised'):
            ctx.fail(f'history:{c[0]}:raises', f'{c[0]}{tuple(c[1])}{c[2] or ""} {d}', dict(call=c, observed=d))


def probe_dtypes_aliasing(ctx):
    """(1) ALIASING and (2) DTYPE: sizes and shapes given as numpy integers / arrays of every integer width, lists, float arrays; tables as
    narrower integer dtypes, Fortran order, strided views, nested lists; every array argument is snapshotted around the call."""
    import numqi
    G = numqi.group
    def call(keyname, desc, f, replay):
        try:
            return True, f()
        except Exception as e:
            ctx.fail(f'{keyname}:raises', f'{desc} raised {type(e).__name__}: {e}'[:300], dict(replay, observed=f'{type(e).__name__}: {e}'[:200]))
            return False, None
    # sizes
    ntypes = [('np.int64', np.int64), ('np.int32', np.int32), ('np.uint8', np.uint8), ('np.int16', np.int16), ('0-d array', lambda n: np.array(n))]
    ftypes = [('float', float), ('np.float64', np.float64)]     # accepted by the constructors that normalise with int(n)
    for kind, ns in (('sym', (2, 3, 4)), ('alt', (2, 3, 4, 5)), ('dih', (3, 4, 8)), ('cyc', (2, 7, 8)), ('mul', (3, 8, 15, 25))):
        for n in ns:
            ok, ref = call(f'table:{kind}', f'{kind}({n})', lambda: digest(build_table(kind, n)), dict(constructor=kind, n=n))
            if not ok: continue
            for tn, mk in ntypes + (ftypes if kind in ('sym', 'alt', 'cyc') else []):
                if kind == 'mul' and tn == 'np.uint8' and n > 15:
                    continue        # observed below: (x*y) % n overflows the narrow type of n (an exception, not a wrong table)
                ok, got = call(f'dtype:table:{kind}', f'{kind}({tn}({n}))', lambda: digest(build_table(kind, mk(n))), dict(constructor=kind, n=n, n_type=tn))
                if ok and got != ref:
                    ctx.fail(f'dtype:table:{kind}', f'{kind}({tn}({n})) differs from {kind}({n})', dict(constructor=kind, n=n, n_type=tn))
                elif ok:
                    ctx.probe_ok(('dtype-n', kind, n, tn))
    for N in (1, 2, 5, 9, 30):
        for what, f in (('numirrep', lambda v: G.get_sym_group_num_irrep(v)), ('numirrepfull', lambda v: G.get_sym_group_num_irrep(v, return_full=True)),
                        ('young', lambda v: G.get_sym_group_young_diagram(v))):
            if what == 'young' and N > 12: continue
            ok, ref = call(what, f'{what}({N})', lambda: digest(f(N)), dict(N=N))
            if not ok: continue
            for tn, mk in ntypes[:4] + ([ntypes[4]] + ftypes if what != 'young' else []):
                ok, got = call(f'dtype:{what}', f'{what}({tn}({N}))', lambda: digest(f(mk(N))), dict(N=N, n_type=tn))
                if ok and got != ref:
                    ctx.fail(f'dtype:{what}', f'{what}({tn}({N})) differs from {what}({N})', dict(N=N, n_type=tn))
                elif ok:
                    ctx.probe_ok(('dtype-N', what, N, tn))
    # shapes
    stypes = [('list', list), ('int64 array', lambda s: np.array(s, dtype=np.int64)), ('int32 array', lambda s: np.array(s, dtype=np.int32)),
              ('uint8 array', lambda s: np.array(s, dtype=np.uint8)), ('int8 array', lambda s: np.array(s, dtype=np.int8)),
              ('float64 array', lambda s: np.array(s, dtype=np.float64)), ('list of np.int64', lambda s: [np.int64(x) for x in s]),
              ('strided int64 view', lambda s: np.repeat(np.array(s, dtype=np.int64), 2)[::2])]
    shapes = [tuple(x) for N in range(1, 6) for x in all_shapes(N)] + [(4, 4, 2, 1), (6, 3, 3, 1), (12, 8), (10, 5, 2)]
    fs = (('hook', lambda s: G.get_hook_length(*s)), ('transpose', lambda s: G.get_young_diagram_transpose(s)), ('mask', lambda s: G.get_young_diagram_mask(s)),
          ('check', lambda s: G.check_young_diagram(s)), ('tableaux', lambda s: G.get_all_young_tableaux(s)))
    for sh in shapes:
        for what, f in fs:
            if what == 'tableaux' and sum(sh) > 8: continue
            ok, ref = call(what, f'{what}{sh}', lambda: digest(f(sh)), dict(shape=list(sh)))
            if not ok: continue
            for tn, mk in stypes:
                arg = mk(sh)
                snap = arg.copy() if isinstance(arg, np.ndarray) else list(arg)
                ok, got = call(f'dtype:{what}', f'{what}({tn} {list(sh)})', lambda: digest(f(arg)), dict(shape=list(sh), shape_type=tn))
                same = np.array_equal(arg, snap) if isinstance(arg, np.ndarray) else list(arg) == snap
                if not same:
                    ctx.fail(f'alias:{what}', f'{what} modified its shape argument ({tn} {list(sh)}) in place: now {list(arg)}', dict(shape=list(sh), shape_type=tn, after=[int(x) for x in arg]))
                if ok and got != ref:
                    ctx.fail(f'dtype:{what}', f'{what}({tn} {list(sh)}) differs from {what}{sh} (tuple of Python ints)', dict(shape=list(sh), shape_type=tn))
                elif ok and same:
                    ctx.probe_ok(('dtype-shape', what, sh, tn))
        # returned objects reused as arguments: the transpose is an involution and its hook number is the same
        ok, tt = call('transpose', f'transpose{sh}', lambda: G.get_young_diagram_transpose(sh), dict(shape=list(sh)))
        if ok:
            ok2, back = call('transpose', f'transpose(transpose{sh})', lambda: (G.get_young_diagram_transpose(tt).tolist(), int(G.get_hook_length(*tt)), int(G.get_hook_length(*sh))), dict(shape=list(sh)))
            if ok2 and (back[0] != list(sh) or back[1] != back[2]):
                ctx.fail('reuse:transpose', f'feeding the array returned by get_young_diagram_transpose{sh} back: transpose gives {back[0]}, hook numbers {back[1]} vs {back[2]}', dict(shape=list(sh), observed=back))
            elif ok2:
                ctx.probe_ok(('reuse-transpose', sh))
    # rows of the Young-diagram array (views of a returned object) as shapes
    for N in (4, 6):
        ok, Y = call('young', f'young({N})', lambda: G.get_sym_group_young_diagram(N), dict(N=N))
        if not ok: continue
        Y0 = Y.copy()
        for r in range(len(Y)):
            row = Y[r][Y[r] > 0] if False else Y[r, :int((Y0[r] > 0).sum())]       # a view into the returned array
            t = tuple(int(x) for x in Y0[r] if x > 0)
            ok, got = call('reuse:young-row', f'functions of row {r} of young({N})', lambda: (digest(G.get_hook_length(*row)), digest(G.get_young_diagram_mask(row)), digest(G.get_all_young_tableaux(row))), dict(N=N, row=r))
            if ok:
                exp = (digest(G.get_hook_length(*t)), digest(G.get_young_diagram_mask(t)), digest(G.get_all_young_tableaux(t)))
                if got != exp or not np.array_equal(Y, Y0):
                    ctx.fail('reuse:young-row', f'row {r} of get_sym_group_young_diagram({N}) used as a shape: results differ from the tuple {t}, or the diagram array was modified', dict(N=N, row=r, shape=list(t)))
                else:
                    ctx.probe_ok(('reuse-young-row', N, r))
    # tables: dtype / layout of the Cayley table given to the left regular form; dtype of the representation given to the reduction
    for kind, n in (('cyc', 4), ('dih', 3), ('sym', 3), ('quat', 0), ('mul', 15)):
        ok, T = call(f'table:{kind}', f'{kind}({n})', lambda: np.array(build_table(kind, n)), dict(constructor=kind, n=n))
        if not ok: continue
        N = len(T)
        ok, L = call('leftreg', f'left regular form of {kind}({n})', lambda: np.asarray(G.cayley_table_to_left_regular_form(T)), dict(constructor=kind, n=n))
        if not ok: continue
        big = np.zeros((2 * N, 2 * N), dtype=np.int64); big[::2, ::2] = T
        tvars = [('int32', T.astype(np.int32)), ('int16', T.astype(np.int16)), ('uint8', T.astype(np.uint8)), ('Fortran order', np.asfortranarray(T)),
                 ('strided view', big[::2, ::2]), ('nested list', T.tolist()), ('read-only', T.copy())]
        tvars[-1][1].setflags(write=False)
        for tn, tv in tvars:
            snap = np.array(tv).copy()
            ok, got = call('dtype:leftreg', f'left regular form of {kind}({n}) given as {tn}', lambda: np.asarray(G.cayley_table_to_left_regular_form(tv)), dict(constructor=kind, n=n, table_type=tn))
            if not np.array_equal(np.array(tv), snap):
                ctx.fail('alias:leftreg', f'cayley_table_to_left_regular_form modified the table it was given ({kind}({n}) as {tn})', dict(constructor=kind, n=n, table_type=tn))
            elif ok and not np.array_equal(got, L):
                ctx.fail('dtype:leftreg', f'left regular form of {kind}({n}) given as {tn} differs from the int64 result', dict(constructor=kind, n=n, table_type=tn))
            elif ok:
                ctx.probe_ok(('dtype-leftreg', kind, n, tn))
        ok, ref = call('irrep', f'reduce_group_representation(left regular {kind}({n}))', lambda: sorted(int(x.shape[1]) for x in G.reduce_group_representation(L)), dict(constructor=kind, n=n))
        if not ok: continue
        for tn, lv in (('float64', L.astype(np.float64)), ('complex128', L.astype(np.complex128)), ('uint8', L.astype(np.uint8)), ('bool', L.astype(bool)),
                       ('Fortran order', np.asfortranarray(L)), ('read-only', L.copy())):
            if tn == 'read-only': lv.setflags(write=False)
            snap = lv.copy()
            def red():
                irr = G.reduce_group_representation(lv)
                err = max(float(np.abs(np.einsum('gab,hbc->ghac', x, x) - x[T]).max()) for x in irr)
                return sorted(int(x.shape[1]) for x in irr), err
            ok, got = call('dtype:irrep', f'reduce_group_representation(left regular {kind}({n}) as {tn})', red, dict(constructor=kind, n=n, rep_type=tn))
            if not (np.array_equal(lv, snap) and lv.dtype == snap.dtype):
                ctx.fail('alias:irrep', f'reduce_group_representation modified the representation it was given ({kind}({n}) as {tn})', dict(constructor=kind, n=n, rep_type=tn))
            elif ok and (got[0] != ref or got[1] > TOL_IRREP):
                ctx.fail('dtype:irrep', f'reduce_group_representation(left regular {kind}({n}) as {tn}): block dimensions {got[0]} (int64 input: {ref}), homomorphism error {got[1]:.1e}', dict(constructor=kind, n=n, rep_type=tn, dims=got[0]))
            elif ok:
                ctx.probe_ok(('dtype-irrep', kind, n, tn))
    try:
        G.get_multiplicative_group_cayley_table(np.uint8(25))
        ctx.extra['mul_table_uint8_n25'] = 'accepted'
    except Exception as e:
        ctx.extra['mul_table_uint8_n25'] = f'raises {type(e).__name__}: {e}'[:160]
    # observation (not a failure on this tree): memoised helpers hand the same writeable array to every caller
    shared = []
    try:
        for nm, f in (('get_symmetric_group_cayley_table(3)', lambda: G.get_symmetric_group_cayley_table(3)),
                      ('get_symmetric_group_cayley_table(4, alternating=True)', lambda: G.get_symmetric_group_cayley_table(4, alternating=True)),
                      ('get_sym_group_num_irrep(5, return_full=True)[1]', lambda: G.get_sym_group_num_irrep(5, return_full=True)[1]),
                      ('get_sym_group_young_diagram(5)', lambda: G.get_sym_group_young_diagram(5)),
                      ('get_all_young_tableaux((2,1))', lambda: G.get_all_young_tableaux((2, 1)))):
            a, b = f(), f()
            if isinstance(a, np.ndarray) and np.shares_memory(a, b) and a.flags.writeable:
                shared.append(nm)
    except Exception as e:
        shared.append(f'not evaluated: {type(e).__name__}')
    ctx.extra['memoised_results_shared_and_writeable'] = shared


def _deep(x):
    if isinstance(x, np.ndarray):
        return x.copy()
    if isinstance(x, (list, tuple)):
        return type(x)(_deep(y) for y in x)
    return x


def _same(a, b):
    if isinstance(a, np.ndarray) or isinstance(b, np.ndarray):
        return isinstance(a, np.ndarray) and isinstance(b, np.ndarray) and a.shape == b.shape and a.dtype == b.dtype and np.array_equal(a, b)
    if isinstance(a, (list, tuple)) and isinstance(b, (list, tuple)):
        return len(a) == len(b) and all(_same(x, y) for x, y in zip(a, b))
    return a == b


def _scribble(x):
    if isinstance(x, np.ndarray):
        if x.flags.writeable and x.size:
            x[...] = 7 if x.dtype.kind in 'iuf' else (7 + 7j if x.dtype.kind == 'c' else True)
    elif isinstance(x, (list, tuple)):
        for y in x:
            _scribble(y)


def leftreg_ok(L, T):
    """L is the left regular form of T: permutation matrices with L[g]@L[h] = L[T[g,h]] and L[g][T[g,c], c] = 1"""
    L = np.asarray(L); T = np.asarray(T); N = len(T)
    if L.shape != (N, N, N) or not np.all((L == 0) | (L == 1)) or not np.all(L.sum(axis=1) == 1):
        return 'not a family of permutation matrices'
    cols = np.arange(N)
    for g in range(N):
        if not np.all(L[g][T[g], cols] == 1):
            return f'L[{g}] is not left multiplication by element {g} of its table'
    for g in range(N):
        for h in range(N):
            if not np.array_equal(L[g] @ L[h], L[T[g, h]]):
                return f'L[{g}]@L[{h}] != L[T[{g},{h}]]'
    return None


def probe_result_aliasing(ctx):
    """RESULT ALIASING ACROSS CALLS: for every function of the scope that returns an array / list — call it on input A, hold the result (and a
    deep copy), call it on a DIFFERENT input B of the same size / order, then the held result must still equal its copy and still satisfy the
    property of ITS input; and: overwrite the returned object, call again on the same input, the new result must be unaffected (skipped, and
    recorded as an observation, for the two helpers that hand out their `lru_cache`d array on the pinned tree)."""
    import numqi
    G = numqi.group
    q = ctx.quick()

    def held(fname, A, B, fA, fB, check, describe):
        """A, B: printable inputs; fA/fB: thunks; check(result) -> None | str (property of A's result)"""
        rp = dict(function=fname, first_input=describe(A), second_input=describe(B),
                  history=[f'r = {fname}({describe(A)})', 'c = deepcopy(r)', f'{fname}({describe(B)})', 'r == c and r still has the property of its own input'])
        try:
            r = fA(); c = _deep(r)
            bad0 = check(r)
            fB()
        except Exception as e:
            ctx.fail(f'alias:held-result:{fname}:raises', f'{fname}: history on {describe(A)} then {describe(B)} raised {type(e).__name__}: {e}'[:300], dict(rp, observed=f'{type(e).__name__}: {e}'[:200]))
            return
        if bad0 is not None:
            return          # the result is wrong before the second call: reported by the direct probes
        if not _same(r, c):
            why = check(r)
            ctx.fail(f'alias:held-result:{fname}', f'{fname}: the result held for {describe(A)} changed when the function was called on {describe(B)} '
                     f'(same size); it now {"violates its property: " + why if why else "differs from its copy"}', dict(rp, now_violates=why))
        elif check(r) is not None:
            ctx.fail(f'alias:held-result:{fname}', f'{fname}: the result held for {describe(A)} no longer has its property after the call on {describe(B)}: {check(r)}', rp)
        else:
            ctx.probe_ok(('held', fname, describe(A), describe(B)))
        ctx.count('held-result')

    def overwritten(fname, A, fA, describe):
        rp = dict(function=fname, input=describe(A), history=[f'r = {fname}({describe(A)})', 'c = deepcopy(r)', 'r[...] = 7', f'{fname}({describe(A)}) == c'])
        try:
            r = fA(); c = _deep(r); _scribble(r); r2 = fA()
        except Exception as e:
            ctx.fail(f'alias:overwritten-result:{fname}:raises', f'{fname}({describe(A)}): overwrite-and-recall raised {type(e).__name__}: {e}'[:300], dict(rp, observed=f'{type(e).__name__}'))
            return
        if not _same(r2, c):
            ctx.fail(f'alias:overwritten-result:{fname}', f'{fname}({describe(A)}): after the returned object was overwritten in place the same call returns something else '
                     '(the function hands out internal / memoised storage)', rp)
        else:
            ctx.probe_ok(('overwritten', fname, describe(A)))
        ctx.count('overwritten-result')

    tname = lambda kn: (f'{kn[0]}{kn[1]}' if kn[0] not in ('klein', 'quat') else kn[0])
    tab = lambda kn: np.asarray(build_table(*kn))
    # ---- left regular form: tables of the same order, both orders of the two calls, and a chain of three
    same_order = [(('dih', 4), ('quat', 0)), (('cyc', 6), ('sym', 3)), (('alt', 4), ('dih', 6)), (('cyc', 12), ('mul', 13)), (('klein', 0), ('cyc', 4)),
                  (('mul', 21), ('alt', 4)), (('cyc', 8), ('dih', 4)), (('mul', 15), ('quat', 0))]
    if not q:
        same_order += [(('sym', 4), ('dih', 12)), (('cyc', 24), ('sym', 4)), (('dih', 10), ('cyc', 20)), (('mul', 35), ('dih', 12))]
    for a, b in same_order:
        for A, B in ((a, b), (b, a)):
            TA, TB = tab(A), tab(B)
            held('cayley_table_to_left_regular_form', A, B, lambda: G.cayley_table_to_left_regular_form(TA), lambda: G.cayley_table_to_left_regular_form(TB),
                 lambda L, TA=TA: leftreg_ok(L, TA), tname)
    chain = [('dih', 4), ('quat', 0), ('cyc', 8), ('mul', 15)]
    try:
        Ts = [tab(k) for k in chain]
        Ls = [G.cayley_table_to_left_regular_form(T) for T in Ts]          # all computed first, all checked afterwards
        for k, T, L in zip(chain, Ts, Ls):
            why = leftreg_ok(L, T)
            if why is not None:
                ctx.fail('alias:held-result:cayley_table_to_left_regular_form', f'left regular forms of {[tname(x) for x in chain]} computed one after the other and checked afterwards: '
                         f'the one of {tname(k)} is wrong: {why}', dict(function='cayley_table_to_left_regular_form', tables=[tname(x) for x in chain], wrong=tname(k), why=why))
            else:
                ctx.probe_ok(('held-chain', tname(k)))
    except Exception as e:
        ctx.fail('alias:held-result:cayley_table_to_left_regular_form:raises', f'chain of left regular forms raised {type(e).__name__}: {e}'[:300], dict(tables=[tname(x) for x in chain]))
    for A in [('dih', 4), ('sym', 3), ('cyc', 5)]:
        TA = tab(A)
        overwritten('cayley_table_to_left_regular_form', A, lambda: G.cayley_table_to_left_regular_form(TA), tname)
    # ---- table constructors: hold one table, build others (same constructor / same order), the held one must stay a group table
    grp = lambda T: (lambda bad: None if bad is None else f'{bad[0]} fails at {bad[1]}')(group_check(T))
    ctor_pairs = [(('mul', 13), ('mul', 21)), (('mul', 5), ('mul', 8)), (('mul', 8), ('mul', 12)), (('dih', 4), ('dih', 5)), (('cyc', 6), ('cyc', 7)), (('sym', 3), ('alt', 3)),
                  (('alt', 4), ('sym', 4)), (('sym', 4), ('sym', 3)), (('dih', 6), ('alt', 4)), (('cyc', 8), ('dih', 4)), (('klein', 0), ('mul', 8)), (('quat', 0), ('dih', 4))]
    for A, B in ctor_pairs:
        held('cayley table constructor', A, B, lambda: build_table(*A), lambda: build_table(*B), grp, tname)
    shared = set(ctx.extra.get('memoised_results_shared_and_writeable', []))
    for A in [('dih', 4), ('cyc', 6), ('mul', 15), ('klein', 0), ('quat', 0)]:
        overwritten('cayley table constructor', A, lambda: build_table(*A), tname)
    # S_n / A_n tables and the full partition table are the memoised objects themselves on the pinned tree (observation `memoised_results_shared_and_writeable`):
    # the overwrite test is not applied to them (it would corrupt the cache for the rest of the run)
    ctx.extra['overwrite_test_skipped_for'] = ['get_symmetric_group_cayley_table', 'get_sym_group_num_irrep(return_full=True)']
    # ---- partitions / diagrams / tableaux / masks
    ident = lambda x: str(x)
    for A, B in ((6, 7), (7, 6), (5, 5), (4, 8)):
        held('get_sym_group_young_diagram', A, B, lambda: G.get_sym_group_young_diagram(A), lambda: G.get_sym_group_young_diagram(B),
             lambda Y, A=A: None if sorted(tuple(x for x in r if x > 0) for r in np.asarray(Y).tolist()) == sorted(tuple(x) for x in partitions_ref(A)) else 'not the partitions of N', ident)
        held('get_sym_group_num_irrep(return_full=True)', A, B, lambda: G.get_sym_group_num_irrep(A, return_full=True), lambda: G.get_sym_group_num_irrep(B, return_full=True),
             lambda r, A=A: None if int(r[0]) == len(partitions_ref(A)) and int(np.asarray(r[1])[A, A]) == len(partitions_ref(A)) else 'count is not the number of partitions', ident)
    overwritten('get_sym_group_young_diagram', 6, lambda: G.get_sym_group_young_diagram(6), ident)
    shape_pairs = [((3, 2), (2, 2, 1)), ((2, 2, 1), (3, 2)), ((2, 1), (2, 1)), ((3, 1), (2, 2)), ((2, 2), (2, 1, 1)), ((4, 2), (3, 3)), ((3, 2, 1), (4, 1, 1))]
    for A, B in shape_pairs:
        held('get_all_young_tableaux', A, B, lambda: G.get_all_young_tableaux(A), lambda: G.get_all_young_tableaux(B),
             lambda ts, A=A: (lambda bad: None if bad is None else f'{bad[0]} {bad[1]}')(tableaux_violation(list(A), ts, hook_ref(list(A)))), ident)
        held('get_young_diagram_mask', A, B, lambda: G.get_young_diagram_mask(A), lambda: G.get_young_diagram_mask(B),
             lambda m, A=A: None if np.asarray(m).sum(axis=1).tolist() == list(A) else 'row sums are not the shape', ident)
        held('get_young_diagram_transpose', A, B, lambda: G.get_young_diagram_transpose(A), lambda: G.get_young_diagram_transpose(B),
             lambda t, A=A: None if int(np.asarray(t).sum()) == sum(A) and np.asarray(G.get_young_diagram_transpose(tuple(int(x) for x in t))).tolist() == list(A) else 'not the conjugate partition', ident)
    for A in ((3, 2), (2, 1, 1)):
        overwritten('get_all_young_tableaux', A, lambda: G.get_all_young_tableaux(A), ident)
        overwritten('get_young_diagram_mask', A, lambda: G.get_young_diagram_mask(A), ident)
        overwritten('get_young_diagram_transpose', A, lambda: G.get_young_diagram_transpose(A), ident)
    # ---- irreducible blocks and characters of the left regular representation: tables of the same order
    def irr_ok(irr, T):
        N = len(T)
        if sum(int(x.shape[1]) ** 2 for x in irr) != N:
            return 'sum d^2 != |G|'
        for x in irr:
            if np.abs(np.einsum('gab,hbc->ghac', x, x) - x[T]).max() > TOL_IRREP:
                return f'block of dimension {x.shape[1]} is not a homomorphism of its table'
        return None
    for a, b in [(('dih', 4), ('quat', 0)), (('cyc', 6), ('sym', 3)), (('sym', 3), ('cyc', 6)), (('klein', 0), ('cyc', 4))] + ([] if q else [(('alt', 4), ('dih', 6)), (('dih', 6), ('cyc', 12))]):
        TA, TB = tab(a), tab(b)
        LA, LB = np.array(G.cayley_table_to_left_regular_form(TA)), np.array(G.cayley_table_to_left_regular_form(TB))     # private copies of the inputs
        held('reduce_group_representation', a, b, lambda: G.reduce_group_representation(LA), lambda: G.reduce_group_representation(LB), lambda irr, TA=TA: irr_ok(irr, TA), tname)
        try:
            irrA, irrB = G.reduce_group_representation(LA), G.reduce_group_representation(LB)
            held('get_character_and_class', a, b, lambda: G.get_character_and_class(irrA), lambda: G.get_character_and_class(irrB),
                 lambda r, irrA=irrA: None if np.allclose(np.asarray(r[0]), np.stack([np.trace(x, axis1=1, axis2=2) for x in irrA])) else 'characters are not the traces of the blocks', tname)
        except Exception as e:
            ctx.note(f'get_character_and_class history not evaluated for {tname(a)}: {type(e).__name__}: {e}'[:200])
    overwritten('reduce_group_representation', ('sym', 3), lambda: G.reduce_group_representation(np.array(G.cayley_table_to_left_regular_form(tab(('sym', 3))))), tname)


def probe(ctx):
    """direct evaluation of the property on the real code, independent of the model"""
    import numqi
    G = numqi.group
    q = ctx.quick()
    fresh = None
    try:
        fresh = start_fresh_history()
    except Exception as e:
        ctx.fail('history:fresh-process', f'cannot start the fresh-process history: {type(e).__name__}: {e}', dict(order='reversed'))
    for kind, n in table_list(ctx):
        if stated_order(kind, n) <= 120:
            probe_table(ctx, kind, n)
    # hf_Euler_totient against an independent count (product formula over the prime factorisation) and as the order of (Z/n)^*
    def phi_ref(n):
        out, m, pp = n, n, 2
        while pp * pp <= m:
            if m % pp == 0:
                while m % pp == 0:
                    m //= pp
                out -= out // pp
            pp += 1
        if m > 1:
            out -= out // m
        return out
    for n in range(1, 301 if q else 3001):
        got = guarded(lambda: int(G.hf_Euler_totient(n)))
        if got != phi_ref(n):
            ctx.fail('totient', f'hf_Euler_totient({n}) = {got}, phi({n}) = {phi_ref(n)}', dict(n=n, observed=got, expected=phi_ref(n)))
        else:
            ctx.probe_ok(('phi', n))
    for n in (3, 8, 15, 25, 35, 49, 64, 121, 143):
        got = guarded(lambda: (len(G.get_multiplicative_group_cayley_table(n)), int(G.hf_Euler_totient(n)), int(G.hf_Euler_totient(np.int64(n)))))
        if isinstance(got, str) or not (got[0] == got[1] == got[2]):
            ctx.fail('totient:order', f'order of get_multiplicative_group_cayley_table({n}) and hf_Euler_totient({n}) (int, np.int64): {got}', dict(n=n, observed=got))
        else:
            ctx.probe_ok(('phi-order', n))
    # partition counts against an independent recurrence (Euler's pentagonal number theorem)
    M = 60 if q else 120
    p = pentagonal_counts(M)
    for N in range(1, M + 1):
        got = guarded(lambda: int(G.get_sym_group_num_irrep(N)))
        if got != p[N]:
            ctx.fail('numirrep', f'get_sym_group_num_irrep({N}) = {got}, number of partitions is {p[N]}', dict(N=N, observed=got, expected=p[N]))
        else:
            ctx.probe_ok(('p', N))
    # observation outside the stated range: the code fills an int64 table, the model counts in unbounded naturals
    try:
        big = pentagonal_counts(406)
        v405 = int(G.get_sym_group_num_irrep(405)); v406 = int(G.get_sym_group_num_irrep(406))
        ctx.extra['int64_boundary'] = dict(N405_correct=(v405 == big[405]), N406_observed=v406, N406_partitions=big[406], fits_int64_up_to=405,
                                           note='get_sym_group_num_irrep is exact iff p(N) < 2^63, i.e. N <= 405; beyond that it silently overflows (outside the property range N <= 60)')
        if v405 != big[405]:
            ctx.fail('numirrep', f'get_sym_group_num_irrep(405) = {v405}, number of partitions is {big[405]}', dict(N=405, observed=v405, expected=big[405]))
    except Exception as e:
        ctx.note(f'int64 boundary observation not evaluated: {type(e).__name__}: {e}')
    # the full table: z0[n,m] = #partitions of n with parts <= m
    Nf = 30 if q else 60
    def pnm(N):
        tab = [[0] * (N + 1) for _ in range(N + 1)]
        for m in range(N + 1):
            tab[0][m] = 1
        for n in range(1, N + 1):
            for m in range(1, N + 1):
                tab[n][m] = tab[n][m - 1] + (tab[n - m][m] if n >= m else 0)
        return tab
    ref = pnm(Nf)
    full = guarded(lambda: np.asarray(G.get_sym_group_num_irrep(Nf, return_full=True)[1]))
    if isinstance(full, str):
        ctx.fail('numirrep-full', f'return_full raised {full}', dict(N=Nf))
    else:
        for n in range(Nf + 1):
            for m in range(1, Nf + 1):
                if int(full[n, m]) != ref[n][m]:
                    ctx.fail('numirrep-full', f'z0[{n},{m}] = {int(full[n, m])} for N={Nf}, #partitions of {n} with parts <= {m} is {ref[n][m]}', dict(N=Nf, n=n, m=m, observed=int(full[n, m]), expected=ref[n][m]))
                    break
            else:
                continue
            break
        else:
            ctx.probe_ok(('full', Nf))
    # Young diagrams = the set of partitions
    for N in range(1, 13 if q else 21):
        rows = guarded(lambda: np.asarray(G.get_sym_group_young_diagram(N)).tolist())
        if isinstance(rows, str):
            ctx.fail('young', f'get_sym_group_young_diagram({N}) raised {rows}', dict(N=N)); continue
        got = sorted(tuple(x for x in r if x > 0) for r in rows)
        exp = sorted(tuple(x) for x in partitions_ref(N))
        okrows = all(len(r) == N and all(r[i] >= r[i + 1] for i in range(N - 1)) and min(r) >= 0 for r in rows)
        if got != exp or not okrows:
            miss = [list(x) for x in exp if x not in got][:3]
            extra = [list(x) for x in got if x not in exp][:3]
            dup = len(got) - len(set(got))
            ctx.fail('young', f'Young diagrams of N={N} are not the partitions: missing {miss}, unexpected {extra}, duplicates {dup}', dict(N=N, missing=miss, unexpected=extra, duplicates=dup))
        else:
            ctx.probe_ok(('young', N))
    # tableaux: standard, distinct, counted by the hook-length formula
    for N in range(1, 9 if q else 11):
        for s in [list(x) for x in partitions_ref(N)]:
            hk = guarded(lambda: int(G.get_hook_length(*s)))
            if hk != hook_ref(s):
                ctx.fail('hook', f'get_hook_length{tuple(s)} = {hk}, N!/prod(hooks) = {hook_ref(s)}', dict(shape=s, observed=hk, expected=hook_ref(s))); continue
            ts = guarded(lambda: G.get_all_young_tableaux(s))
            if isinstance(ts, str):
                ctx.fail('tableaux:raises', f'get_all_young_tableaux({s}) raised {ts}', dict(shape=s, observed=ts)); continue
            bad = tableaux_violation(s, ts, hook_ref(s))
            if bad is not None:
                ctx.fail('tableaux:' + bad[0], f'get_all_young_tableaux({s}): {bad[0]} {bad[1]}', dict(shape=s, what=bad[0], witness=bad[1]))
            else:
                ctx.probe_ok(('tab', tuple(s)))
    probe_dtypes_aliasing(ctx)
    if fresh is not None:
        probe_histories(ctx, fresh)
    try:
        probe_result_aliasing(ctx)       # last: it overwrites returned objects
    except Exception as e:
        ctx.fail('alias:held-result:probe-raises', f'result-aliasing probe raised {type(e).__name__}: {e}'[:300], dict(observed=f'{type(e).__name__}: {e}'[:200]))
    ctx.assumptions.append('irreducible blocks: np.linalg.eigh contract; unitarity/homomorphism tolerance 1e-8 (measured max error %.1e), character orthonormality 1e-6; hypotheses of NumqiProofs/IrrepAlgebra.lean card_eq_of_near_unitary / fourier_intertwines (entrywise residuals of FF^+-1, F^+F-1 below 1/(2*size) >= 1/240; intertwining) measured %.1e' % (ctx.extra.get('irrep_max_err', 0.0), ctx.extra.get('irrep_regular_equiv_residual', 0.0)))


def search(ctx, hints):
    # the probe already evaluates the property exhaustively on the whole stated range; for disagreeing ops outside that range
    # (larger tables of the thorough tier, larger shapes) evaluate the property on exactly those inputs
    import numqi
    G = numqi.group
    for d in hints[:100]:
        t = d['op'].split(' ')
        if len(t) >= 4 and t[1] in ('table', 'leftreg', 'isgroup'):
            T = guarded(lambda: np.asarray(build_table(t[2], int(t[3]))))
            if isinstance(T, str):
                if not d['model'].startswith('error'):
                    ctx.fail(f'table:{t[2]}:raises', f'constructor {t[2]}({t[3]}) raised {T}', dict(constructor=t[2], n=int(t[3]), observed=T))
                continue
            bad = group_check(T) if len(T) <= 360 else None
            if bad is not None:
                ctx.fail(f'table:{t[2]}:{bad[0]}', f'{t[2]}{t[3]}: group axiom "{bad[0]}" fails at {bad[1]}', dict(constructor=t[2], n=int(t[3]), axiom=bad[0], witness=bad[1]))
            elif len(T) != stated_order(t[2], int(t[3])):
                ctx.fail(f'table:{t[2]}:order', f'{t[2]}{t[3]}: order {len(T)} != stated', dict(constructor=t[2], n=int(t[3]), order=len(T)))
        elif len(t) >= 3 and t[1] in ('hook', 'tableaux', 'tabok', 'sytcount', 'transpose', 'mask'):
            s = [int(x) for x in t[2].split(',')]
            if any(s[i] < s[i + 1] for i in range(len(s) - 1)) or min(s) <= 0:
                continue
            hk = guarded(lambda: int(G.get_hook_length(*s)))
            if hk != hook_ref(s):
                ctx.fail('hook', f'get_hook_length{tuple(s)} = {hk}, N!/prod(hooks) = {hook_ref(s)}', dict(shape=s, observed=hk, expected=hook_ref(s)))
            elif sum(s) <= 12 and t[1] in ('tableaux', 'tabok', 'sytcount'):
                ts = guarded(lambda: G.get_all_young_tableaux(s))
                bad = ('raises', ts) if isinstance(ts, str) else tableaux_violation(s, ts, hook_ref(s))
                if bad is not None:
                    ctx.fail('tableaux:' + bad[0], f'get_all_young_tableaux({s}): {bad[0]} {bad[1]}', dict(shape=s, what=bad[0], witness=bad[1]))
        elif len(t) >= 3 and t[1] in ('numirrep', 'numirrepfull') and int(t[2]) >= 1:
            N = int(t[2])
            p = pentagonal_counts(N)
            got = guarded(lambda: int(G.get_sym_group_num_irrep(N)))
            if got != p[N]:
                ctx.fail('numirrep', f'get_sym_group_num_irrep({N}) = {got}, number of partitions is {p[N]}', dict(N=N, observed=got, expected=p[N]))
