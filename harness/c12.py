"""C12 — channel representations are equivalent and channels are contractive.

Model: lean/NumqiModel/Channel.lean.  Theorems: lean/NumqiProps/C12.lean.
Correspondence: exact on Gaussian-integer Kraus sets / operators (numpy real + complex, torch where a torch branch
exists), `choi_op_to_kraus_op` with an intercepted `eigh` returning integer data, noise channels on exact dyadic
rationals.  Probe: float evaluation of the property statement on random channels and states (equivalence of all
representations incl. Kraus-from-Choi and the Bloch map; CPTP of the noise channels; data-processing inequalities,
fidelity and entropy ranges — the named gap of the theorems).
"""
import struct, contextlib
import numpy as np
from . import common

THEOREM_FILES = ['NumqiProps/C12.lean']
LEVEL = 'proof'
RULE = ('conversions and apply_* routines on Gaussian-integer data for (dim_in, dim_out) in 1..5 x 1..5 (quick: every pair once, thorough: '
        'every pair with 1, 2 and dim_in*dim_out terms + random), real and complex dtype, numpy and torch branches; general (non-Kraus) '
        'operators through choi<->super; choi_op_to_kraus_op with integer eigen-data incl. non-positive eigenvalues; noise channels at '
        'rates 0, 1 and random rates. Non-trivial: dim_in*dim_out > 1; distinct = distinct op lines.')
TRUSTED = ['Lean 4.33 kernel', 'axioms: propext, Classical.choice, Quot.sound', 'Lean compiler for the driver executable',
           'harness/c12.py canonicalisation (integers as re,im; binary64 values of the noise-channel Kraus entries as exact rationals); '
           'interception of np.linalg.eigh inside choi_op_to_kraus_op for the exact tie of its reshape/transpose/cut',
           'modelled, not verified: the numqi.channel conversion / apply functions and the metric functions of numqi.utils; contracts: np.linalg.eigh (its output is data in c2kf, '
           'chosen integers in c2k/s2k/hf2k; probed with tolerance 1e-9) and np.linalg.eigvalsh (the spectrum of rho resp. rho - sigma is data: spec ent/renyi on diagonal states, spec tdev), '
           'BLAS matmul on integers exact',
           'scope: the contractivity theorems hold for commuting states under classical (column-stochastic) channels only; non-commuting data processing is probe-only']


def guarded(f):
    try:
        return f()
    except AssertionError:
        return 'error:assert'
    except Exception as e:      # any other exception becomes a value that is compared with the model: a disagreement with its input, never exit 2
        return 'error:' + type(e).__name__


def gl(a):
    a = np.asarray(a).reshape(-1)
    out = []
    for v in a:
        v = complex(v)
        if not (np.isfinite(v.real) and np.isfinite(v.imag)):
            return 'nonfinite'
        r, i = round(v.real), round(v.imag)
        if v.real != r or v.imag != i:
            return 'nonintegral'
        out.append(f'{int(r)},{int(i)}')
    return ';'.join(out)


def rg(rng, shape, m=3, cplx=True):
    a = rng.integers(-m, m + 1, size=shape)
    if cplx:
        return (a + 1j * rng.integers(-m, m + 1, size=shape)).astype(np.complex128)
    return a.astype(np.float64)


def bits(x):
    return struct.unpack('<Q', struct.pack('<d', float(x)))[0]


def frac_str(x):
    from fractions import Fraction
    f = Fraction(float(x))
    return f'{f.numerator}/{f.denominator}'


def qi_list(a):
    return ';'.join(f'{frac_str(complex(v).real)},{frac_str(complex(v).imag)}' for v in np.asarray(a).reshape(-1))


# ---------------------------------------------------------------------------
# hardening helpers (input classes: aliasing, dtype, histories, boundaries)
# ---------------------------------------------------------------------------
def _snap(x):
    if hasattr(x, 'detach'):
        return x.detach().clone()
    if isinstance(x, np.ndarray):
        return x.copy()
    if isinstance(x, (list, tuple)):
        return type(x)(_snap(y) for y in x)
    return x


def _same(a, b):
    if hasattr(a, 'detach'):
        import torch
        return a.shape == b.shape and a.dtype == b.dtype and bool(torch.equal(a, b))
    if isinstance(a, np.ndarray):
        return a.shape == b.shape and a.dtype == b.dtype and np.array_equal(a, b, equal_nan=True)
    if isinstance(a, (list, tuple)):
        return len(a) == len(b) and all(_same(x, y) for x, y in zip(a, b))
    return True


def _desc(x):
    if hasattr(x, 'detach'):
        return dict(torch=str(x.dtype), shape=list(x.shape), values=np.asarray(x.detach().numpy()).reshape(-1)[:64].tolist().__repr__()[:600])
    if isinstance(x, np.ndarray):
        return dict(dtype=str(x.dtype), shape=list(x.shape), c_contiguous=bool(x.flags.c_contiguous), f_contiguous=bool(x.flags.f_contiguous), owns_data=bool(x.flags.owndata), values=repr(x.reshape(-1)[:64].tolist())[:600])
    return repr(x)[:200]


def _tview(a):
    """the same values as `a`, as the transposed view of a C-ordered array (Fortran-ordered, does not own its data)"""
    a = np.asarray(a)
    return np.ascontiguousarray(a.transpose(*range(a.ndim)[::-1])).transpose(*range(a.ndim)[::-1])


LAYOUTS = (('F-order', lambda a: np.asfortranarray(a)), ('T-view', _tview))


def checked(ctx, name, fn, *args):
    """call `fn(*args)` twice on the very same argument objects: no argument may be modified, both results must be identical"""
    before = [_snap(a) for a in args]
    descs = [_desc(a) for a in args]          # taken before the call: values and memory layout of the objects actually passed
    key = name.split('[')[0]                  # stable key per function; the variant (layout / torch) is part of the message
    r1 = fn(*args)
    for i, (a, b) in enumerate(zip(args, before)):
        if not _same(a, b):
            ctx.fail('mutates-input:' + key, f'{name} modified its argument #{i} in place', dict(op=name, argument=i, args=descs))
            return r1
    r2 = fn(*args)
    if not _same(np.asarray(r1) if not isinstance(r1, tuple) else tuple(np.asarray(x) for x in r1),
                 np.asarray(r2) if not isinstance(r2, tuple) else tuple(np.asarray(x) for x in r2)):
        ctx.fail('not-repeatable:' + key, f'{name} returned different results for two identical calls on the same objects', dict(op=name, args=descs))
    return r1


def _leaves(x):
    if isinstance(x, (list, tuple)):
        for y in x:
            yield from _leaves(y)
    elif isinstance(x, dict):
        for y in x.values():
            yield from _leaves(y)
    elif isinstance(x, np.ndarray) or hasattr(x, 'detach'):
        yield x


def _shares(a, b):
    """do two results (arrays / tensors / nested lists of them) share memory?"""
    for x in _leaves(a):
        for y in _leaves(b):
            if isinstance(x, np.ndarray) and isinstance(y, np.ndarray):
                if x.size and y.size and np.shares_memory(x, y):
                    return True
            elif hasattr(x, 'detach') and hasattr(y, 'detach'):
                if x.numel() and y.numel() and x.untyped_storage().data_ptr() == y.untyped_storage().data_ptr():
                    return True
    return False


def _vandalise(x):
    for y in _leaves(x):
        try:
            if isinstance(y, np.ndarray):
                if y.flags.writeable:
                    y[...] = 77
            else:
                with __import__('torch').no_grad():
                    y.fill_(77)
        except Exception:
            pass


def reuse_check(ctx, name, f, A, B, describe=None):
    """input class "buffer reuse across calls": `r1 = f(*A)`, copy it, `r2 = f(*B)` with a DIFFERENT input of the same size (so that a
    size-keyed cache / workspace would be shared); then r1 must be unchanged bit for bit and must not share memory with r2; then r1 is
    overwritten in place and `f(*B)`, `f(*A)` are called again: both must still give their first answers.  Deterministic, quick tier."""
    key = name.split('[')[0] + ':result-overwritten-by-next-call'
    hist = dict(op=name, history=[f'f(A)', f'f(B)'], A=[_desc(x) for x in A], B=[_desc(x) for x in B]) if describe is None else dict(op=name, history=['f(A)', 'f(B)'], **describe)
    try:
        # every call gets fresh copies of its arguments: a result that is a view of its own input (reshape / transpose of a 1x1 operator) is a
        # different matter (aliasing class); here only a LATER call may not change an EARLIER result
        A0, B0 = A, B
        r1 = f(*_snap(A0)); c1 = _snap(r1)
        r2 = f(*_snap(B0)); c2 = _snap(r2)
        if not _same(r1, c1):
            ctx.fail(key, f'{name}: the result of the first call was changed by a second call with a different input of the same size', hist); return False
        if r1 is r2 or _shares(r1, r2):
            ctx.fail(key, f'{name}: the results of two calls with different inputs of the same size share memory', hist); return False
        _vandalise(r1)
        r3 = f(*_snap(B0)); r4 = f(*_snap(A0))
        if not _same(r3, c2) or not _same(r4, c1):
            ctx.fail(key, f'{name}: after the first result was overwritten in place by the caller, {"f(B)" if not _same(r3, c2) else "f(A)"} no longer returns its first answer '
                     '(a cached / reused buffer is handed out)', dict(hist, history=['f(A)', 'f(B)', 'overwrite result of f(A) in place', 'f(B)', 'f(A)'])); return False
    except Exception as e:
        ctx.fail(name.split('[')[0] + ':reuse-check-raises', f'{name}: {type(e).__name__}: {e}', hist); return False
    ctx.probe_ok(('reuse', name)); ctx.count('reuse-check')
    return True


def module_constants():
    """every module-level ndarray of the loaded modules `numqi.gate*` / `numqi.channel*` (shared stacks such as the Pauli matrices), and of the
    modules that define the public channel functions — found through `sys.modules` / `fn.__module__`, no private module is named"""
    import sys, numqi
    names = {n for n in list(sys.modules) if n == 'numqi.gate' or n.startswith('numqi.gate.') or n == 'numqi.channel' or n.startswith('numqi.channel.')}
    names |= {getattr(f, '__module__', None) for f in vars(numqi.channel).values() if callable(f)} - {None}
    out = {}
    for modname in sorted(n for n in names if n.startswith('numqi')):
        mod = sys.modules.get(modname)
        if mod is None:
            continue
        for k, v in list(vars(mod).items()):
            if isinstance(v, np.ndarray) and not any(v is w[0] for w in out.values()):
                out[f'{modname}.{k}'] = (v, v.copy())
    return out


def check_module_constants(ctx, consts, where):
    for k, (live, orig) in consts.items():
        if live.shape != orig.shape or live.dtype != orig.dtype or not np.array_equal(live, orig):
            ctx.fail('module-constant-modified', f'{k} (a module-level constant) was modified in place during {where}',
                     dict(constant=k, original=repr(orig.tolist())[:300], now=repr(live.tolist())[:300]))
            live[...] = orig       # restore so that the remaining checks see a sane module


@contextlib.contextmanager
def fake_eigh(evl, evc):
    """make the next np.linalg.eigh call (the one inside choi_op_to_kraus_op) return chosen integer data"""
    orig = np.linalg.eigh
    np.linalg.eigh = lambda a, *k, **kw: (np.array(evl, dtype=np.float64), np.array(evc))
    try:
        yield
    finally:
        np.linalg.eigh = orig


class EighSpy:
    """`np.linalg.eigh` replaced for the duration of one call of the implementation: records the matrix it is handed; returns either
    chosen integer data (`fake=(evl, evc)`) or the real decomposition, which is recorded as well.  `calls` stays empty if the
    implementation obtains its decomposition some other way (then the tie that needs it is skipped with a note)."""
    def __init__(self, fake=None):
        self.fake = fake; self.calls = []

    def __enter__(self):
        self.orig = np.linalg.eigh

        def spy(a, *k, **kw):
            inp = np.array(a, copy=True)
            if self.fake is not None:
                out = (np.array(self.fake[0], dtype=np.float64), np.array(self.fake[1]))
            else:
                out = self.orig(a, *k, **kw)
            self.calls.append((inp, np.array(out[0], copy=True), np.array(out[1], copy=True)))
            return out
        np.linalg.eigh = spy
        return self

    def __exit__(self, *exc):
        np.linalg.eigh = self.orig
        return False


def bits_c(z):
    z = complex(z)
    return f'{bits(z.real + 0.0)},{bits(z.imag + 0.0)}'


def eigh_composition_ops(ctx, rng, add):
    """ties that contain an eigen-decomposition, with the decomposition treated as data:
    * `s2k` / `hf2k`: `super_op_to_kraus_op` / `hf_channel_to_kraus_op` end to end on Gaussian-integer data, `eigh` answering with
      chosen integer data; the matrix handed to `eigh` is part of the compared answer (model: `superToChoi`, resp. of `superOfMap`);
    * `c2kf`: `choi_op_to_kraus_op(C, dim_in, zero_eps)` on real floating-point Choi operators (full rank and rank deficient) with the
      REAL `eigh`: its output `(EVL, EVC)` is passed to the model as binary64 data and everything after it (cut at `zero_eps`, scaling by
      `sqrt`, reshape/transpose) must agree bit for bit (`-0.0` = `0.0`), for the default and for non-default `zero_eps`"""
    import numqi
    ch = numqi.channel
    skipped = []
    for rep in range(12 if ctx.quick() else 80):
        din = int(rng.integers(1, 4)); dout = int(rng.integers(1, 4)); m = din * dout
        n0 = int(rng.integers(0, m + 1))
        evl = sorted([-int(x) for x in rng.integers(0, 3, size=n0)]) + sorted(int(x) ** 2 for x in rng.integers(1, 5, size=m - n0))
        evc = rg(rng, (m, m), 3, True)
        S = rg(rng, (dout * dout, din * din), 3, True)
        G = rg(rng, (m, m), 3, True)
        zero_eps = [None, 0.5, 1.0, 1e-3][rep % 4]          # any threshold in (0,1] cuts the same integers (theorem cutCount_eq_below)
        kw = {} if zero_eps is None else dict(zero_eps=zero_eps)
        for opname, arg, call in (('s2k', S, lambda: ch.super_op_to_kraus_op(S, **kw)),
                                  ('hf2k', G, lambda: ch.hf_channel_to_kraus_op(lambda r: ch.apply_choi_op(G, r), din, **kw) if kw else
                                   ch.hf_channel_to_kraus_op(lambda r: ch.apply_choi_op(G, r), din))):
            if opname == 'hf2k' and kw:
                import inspect
                if 'zero_eps' not in inspect.signature(ch.hf_channel_to_kraus_op).parameters:
                    call = lambda: ch.hf_channel_to_kraus_op(lambda r: ch.apply_choi_op(G, r), din)
            with EighSpy(fake=(evl, evc)) as spy:
                r = guarded(call)
            if isinstance(r, str):
                add(f'C12 {opname} {din} {dout} {gl(arg)} {";".join(map(str, evl)) or "-"} {gl(evc)}', lambda r=r: r); continue
            if len(spy.calls) != 1:
                skipped.append(opname); continue
            ans = f'{gl(spy.calls[0][0])}|{r.shape[0]}|{gl(r)}' if r.shape[1:] == (dout, din) else f'shape{r.shape}'
            add(f'C12 {opname} {din} {dout} {gl(arg)} {";".join(map(str, evl)) or "-"} {gl(evc)}', lambda ans=ans: ans)
            ctx.count(f'{opname}-zero_eps-{zero_eps}')
    for rep in range(16 if ctx.quick() else 120):
        din = int(rng.integers(1, 4)); dout = int(rng.integers(1, 4)); m = din * dout
        nk = max([1, max(1, m // 2), m][rep % 3], -(-din // dout))        # a trace-preserving set needs nk*dout >= din
        C = guarded(lambda: ch.kraus_op_to_choi_op(numqi.random.rand_kraus_op(nk, din, dout, tag_complex=bool(rep % 2), seed=int(rng.integers(1 << 30)))))
        if isinstance(C, str):
            skipped.append('c2kf (input could not be generated: ' + C + ')'); continue
        zero_eps = [None, 1e-10, 1e-3, 0.2, 0.0, 1e-17][rep % 6]
        eps = 1e-10 if zero_eps is None else zero_eps
        real_eigh = np.linalg.eigh
        with EighSpy() as spy:
            r = guarded(lambda: ch.choi_op_to_kraus_op(C, din) if zero_eps is None else ch.choi_op_to_kraus_op(C, din, zero_eps))
        if isinstance(r, str):
            # an exception of the implementation is an answer of its own (`error`), with the decomposition of C as the op's data
            EVL, EVC = (spy.calls[0][1], spy.calls[0][2]) if len(spy.calls) == 1 else real_eigh(C)
            add(f'C12 c2kf {din} {dout} {bits(eps)} {";".join(str(bits(x)) for x in EVL)} {";".join(bits_c(z) for z in np.asarray(EVC).reshape(-1))}', lambda r=r: r)
            continue
        if len(spy.calls) != 1:
            skipped.append('c2kf'); continue
        _, EVL, EVC = spy.calls[0]
        op = f'C12 c2kf {din} {dout} {bits(eps)} {";".join(str(bits(x)) for x in EVL)} {";".join(bits_c(z) for z in EVC.reshape(-1))}'
        ans = guarded(lambda: f'{r.shape[0]}|' + ';'.join(bits_c(z) for z in np.asarray(r).reshape(-1)))
        add(op, lambda ans=ans: ans)
        ctx.count(f'c2kf-rank{nk}of{m}-zero_eps-{zero_eps}')
    if skipped:
        ctx.note(f'eigh composition ties skipped ({sorted(set(skipped))}): the implementation did not call np.linalg.eigh exactly once; the probes decide')


def classical_channel_ops(ctx, rng, add):
    """the instance of theorem `applyKraus_classical_channel` executed on the real code: the measure-and-prepare Kraus set
    `K_(i,j) = k_ij |i><j|` (integers `k_ij`, i.e. `M_ij = k_ij^2` up to the common column sum) applied with `apply_kraus_op` to a diagonal
    integer state gives exactly the diagonal state `diag(M p)`; the same op goes to the model (`applyKraus`, op `apk`)"""
    import numqi
    ch = numqi.channel
    for rep in range(6 if ctx.quick() else 40):
        d = int(rng.integers(1, 5)); e = int(rng.integers(1, 5))
        k = rng.integers(0, 4, size=(e, d))
        K = np.zeros((e * d, e, d), dtype=np.complex128)
        for i in range(e):
            for j in range(d):
                K[i * d + j, i, j] = k[i, j]
        p = rng.integers(0, 6, size=d)
        rho = np.diag(p).astype(np.complex128)

        def f(K=K, rho=rho, k=k, p=p):
            out = ch.apply_kraus_op(K, rho)
            if not np.array_equal(out, np.diag((k ** 2) @ p)):
                return 'not-diag(Mp)'
            return gl(out)
        add(f'C12 apk {e * d} {e} {d} {gl(K)} {gl(rho)}', f)
        ctx.count('classical-channel')


def function_channel_ops(ctx, rng, add):
    """channels GIVEN AS FUNCTIONS on Gaussian-integer data, exact: `hf_channel_to_choi_op(fn, din)` against the model's `choiOfMap` (op `hf2c`),
    `hf_channel_to_kraus_op(fn, din)` end to end with a recording `eigh` (op `hf2k`); the function is a fresh-result / in-place / pass-through
    wrapper of the identity, an integer unitary or a random integer Kraus channel; the Choi operator sent to the model is that of the channel"""
    import numqi
    ch = numqi.channel
    for label, din, dout, phi, flavours in function_channels(rng, [1, 2, 3], integer=True):
        m = din * dout
        # Choi operator of the channel, from the map itself on fresh matrix units (exact integers)
        G = np.zeros((m, m), dtype=np.complex128)
        for i in range(din):
            for j in range(din):
                E = np.zeros((din, din)); E[i, j] = 1
                out = phi(E)
                for a in range(dout):
                    for b in range(dout):
                        G[i * dout + a, j * dout + b] = out[a, b]
        n0 = 0
        evl = sorted(int(x) ** 2 for x in rng.integers(1, 4, size=m)); evc = rg(rng, (m, m), 2, True)
        for flav, fn in flavours:
            r_c = guarded(lambda: gl(ch.hf_channel_to_choi_op(fn, din)))
            if flav != 'fresh' and r_c != gl(G) and not r_c.startswith('error'):
                # a wrong answer for a pass-through / in-place function goes through the finding channel with its concrete input
                ctx.fail(FNCH_KEY, f'hf_channel_to_choi_op(<{flav} function of the {label} channel>, {din}) = {r_c[:80]} but the Choi operator of that channel is {gl(G)[:80]}',
                         dict(op='hf_channel_to_choi_op', channel=label, function_kind=flav, dim_in=din, dim_out=dout, expected=gl(G), got=r_c))
            else:
                add(f'C12 hf2c {din} {dout} {gl(G)}', lambda r_c=r_c: r_c)
            with EighSpy(fake=(evl, evc)) as spy:
                r_k = guarded(lambda: ch.hf_channel_to_kraus_op(fn, din))
            if isinstance(r_k, str):
                add(f'C12 hf2k {din} {dout} {gl(G)} {";".join(map(str, evl))} {gl(evc)}', lambda r_k=r_k: r_k)
            elif len(spy.calls) == 1:
                ans = f'{gl(spy.calls[0][0])}|{r_k.shape[0]}|{gl(r_k)}' if r_k.shape[1:] == (dout, din) else f'shape{r_k.shape}'
                add(f'C12 hf2k {din} {dout} {gl(G)} {";".join(map(str, evl))} {gl(evc)}', lambda ans=ans: ans)
            ctx.count('function-channel-tie-' + flav)


def purity_ops(ctx, rng, add):
    """`get_purity` on Gaussian-integer matrices (exact): complex128, int64 (real), torch"""
    import numqi, torch
    U = numqi.utils
    for rep in range(8 if ctx.quick() else 60):
        n = int(rng.integers(1, 5))
        rho = rg(rng, (n, n), 4, True); rho = rho + rho.conj().T        # Hermitian (the documented domain: on it vdot(rho,rho) = tr(rho rho))
        fmt = lambda v: f'{int(round(float(v)))},0' if float(v) == round(float(v)) else 'nonintegral'
        add(f'C12 pur {n} {gl(rho)}', lambda rho=rho: fmt(checked(ctx, 'get_purity', U.get_purity, rho)))
        add(f'C12 pur {n} {gl(rho)}', lambda rho=rho: fmt(U.get_purity(torch.tensor(rho))))
        rre = rho.real.copy()                                          # real symmetric
        add(f'C12 pur {n} {gl(rre)}', lambda rre=rre: fmt(U.get_purity(rre.astype(np.int64))))
        add(f'C12 pur {n} {gl(rre)}', lambda rre=rre: fmt(U.get_purity(np.asfortranarray(rre))))


def bloch_tie(ctx, rng):
    """choi_op_to_bloch_map against the exact rational model value (scalars = the binary64 square roots taken exactly,
    everything else exact): the only inexact side is the implementation; tolerance 1e-12 relative to the largest entry"""
    import numqi
    from fractions import Fraction
    ch = numqi.channel
    ops, vals = [], []
    dims = [(a, b) for a in range(1, 5) for b in range(1, 5)]
    if ctx.quick():
        dims = [dims[i] for i in rng.permutation(len(dims))[:8]]
    for din, dout in dims:
        for herm in (True, False):
            if herm:
                K = rg(rng, (int(rng.integers(1, 4)), dout, din), 2, True)
                C = ch.kraus_op_to_choi_op(K)
            else:
                C = rg(rng, (din * dout, din * dout), 4, True)
            ops.append(f'C12 bloch {din} {dout} {gl(C)}')
            try:
                A, b = ch.choi_op_to_bloch_map(C.reshape(din, dout, din, dout))
                vals.append((np.asarray(A), np.asarray(b)))
            except Exception as e:
                vals.append('error:' + type(e).__name__)
    model = common.run_model(ops)
    worst = 0.0
    for op, got, mo in zip(ops, vals, model):
        ctx.count('bloch')
        if isinstance(got, str) or '|' not in mo:
            ctx.disagree(op, mo[:200], str(got)[:200]); continue
        pa, pb = mo.split('|')
        ex = lambda txt: np.array([float(Fraction(e.split(',')[0])) for e in txt.split(';')]) if txt else np.zeros(0)
        eim = lambda txt: max([abs(Fraction(e.split(',')[1])) for e in txt.split(';')], default=0) if txt else 0
        EA, Eb = ex(pa), ex(pb)
        A, b = got
        if EA.size != A.size or Eb.size != b.size or eim(pa) != 0 or eim(pb) != 0:
            ctx.disagree(op, f'sizes {EA.size},{Eb.size}', f'sizes {A.size},{b.size}'); continue
        scale = max(1.0, float(np.max(np.abs(EA))) if EA.size else 1.0, float(np.max(np.abs(Eb))) if Eb.size else 1.0)
        err = max(float(np.max(np.abs(A.reshape(-1) - EA))) if EA.size else 0.0, float(np.max(np.abs(b.reshape(-1) - Eb))) if Eb.size else 0.0) / scale
        worst = max(worst, err)
        if err <= 1e-12 and not np.iscomplexobj(A) and not np.iscomplexobj(b):
            ctx.agree(op, op)
        else:
            ctx.disagree(op, mo[:160], f'max rel diff {err:.3e}')
    ctx.extra['bloch_worst_rel_err'] = worst
    ctx.assumptions.append('Bloch-map tie: tolerance 1e-12 relative (entries are sums of at most 16 products of integers <= 40 with binary64 square roots; '
                           'a few dozen roundings of 1.1e-16 each); worst observed recorded as bloch_worst_rel_err')


def spectral_tie(ctx, rng):
    """get_von_neumann_entropy / get_fidelity / get_relative_entropy / get_trace_distance / get_Renyi_entropy on commuting (diagonal) states
    against the spectral model executed in binary64 (same formula, libm log / pow): tolerance 1e-12.  Every call into numqi is guarded: an
    exception becomes the value `error`, reported as a disagreement of that op (the op line carries the spectrum)."""
    import numqi, torch
    U = numqi.utils
    eps = float(np.finfo(np.float64).eps)
    unbits = lambda s: struct.unpack('<d', struct.pack('<Q', int(s)))[0]
    fl = lambda v: ';'.join(str(bits(x)) for x in v)
    ops, vals = [], []

    def emit(op, *thunks):
        ops.append(op); vals.append([guarded(lambda t=t: float(t())) for t in thunks])
    tdev_skipped = 0
    for rep in range(10 if ctx.quick() else 100):
        d = int(rng.integers(1, 6))
        p = rng.uniform(0.05, 1, size=d); p /= p.sum()
        q = rng.uniform(0.05, 1, size=d); q /= q.sum()
        if rep % 3 == 0 and d >= 2:
            p[0] = 0.0; p /= p.sum()                # rank-deficient first argument
        ps = np.sort(p)
        P, Q = np.diag(p), np.diag(q)
        emit(f'C12 spec ent {bits(eps)} {fl(ps)}', lambda: U.get_von_neumann_entropy(P), lambda: U.get_von_neumann_entropy(torch.tensor(P)),
             lambda: U.get_von_neumann_entropy(P.astype(np.complex128)))
        emit(f'C12 spec fid {fl(p)} {fl(q)}', lambda: U.get_fidelity(P, Q), lambda: U.get_fidelity(torch.tensor(P), torch.tensor(Q)))
        pe = np.maximum(p, eps); trl = float(np.dot(pe, np.log(pe)))        # tr rho log rho as the default call computes it
        emit(f'C12 spec rel {bits(eps)} {fl(p)} {fl(q)}', lambda: U.get_relative_entropy(P, Q), lambda: U.get_relative_entropy(torch.tensor(P), torch.tensor(Q)),
             lambda: U.get_relative_entropy(P, Q, tr_rho_log_rho=trl), lambda: U.get_relative_entropy(torch.tensor(P), torch.tensor(Q), tr_rho_log_rho=trl),
             lambda: U.get_relative_entropy(torch.tensor(P), torch.tensor(Q), _torch_logm='eigen'), lambda: U.get_relative_entropy(P, Q, trl, ('pade', 6, 8)))
        # trace distance of commuting states (eigvalsh of a diagonal matrix is exact; the order of summation differs)
        emit(f'C12 spec td {fl(p)} {fl(q)}', lambda: U.get_trace_distance(P, Q), lambda: U.get_trace_distance(Q.astype(np.complex128), P.astype(np.complex128)))
        # trace distance of general states: the eigenvalues of rho - sigma as returned by the real eigvalsh are passed as data; if the
        # implementation does not call np.linalg.eigvalsh exactly once, the spectrum computed here (public path) is used instead, with a note
        if d >= 2:
            ra, rb = rand_state(rng, d, 'full'), rand_state(rng, d, 'low')
            rec = []
            orig = np.linalg.eigvalsh
            np.linalg.eigvalsh = lambda a, *k, **kw: (rec.append(orig(a, *k, **kw)), rec[-1])[1]
            try:
                tdv = guarded(lambda: float(U.get_trace_distance(ra, rb)))
            finally:
                np.linalg.eigvalsh = orig
            if len(rec) != 1:
                tdev_skipped += 1
            evl_data = rec[0] if len(rec) == 1 else orig(ra - rb)
            ops.append(f'C12 spec tdev {fl(evl_data)}'); vals.append([tdv])
        # Renyi entropy (numpy, torch) for orders on both sides of 1
        alpha = float([0.5, 2.0, 3.0, 0.3, 1.5, 7.0][rep % 6]) if rep % 2 else float(rng.uniform(0.05, 4.0))
        if alpha != 1.0:
            emit(f'C12 spec renyi {bits(alpha)} {fl(ps)}', lambda: U.get_Renyi_entropy(P, alpha), lambda: U.get_Renyi_entropy(torch.tensor(P), alpha))
        # batched entropy: a (2,3,d,d) stack of diagonal states, numpy and torch; element [i,j] must be the entropy of state [i,j]
        if rep % 3 == 1:
            stack_p = rng.uniform(0.05, 1, size=(2, 3, d)); stack_p /= stack_p.sum(axis=-1, keepdims=True)
            big = np.zeros((2, 3, d, d)); big[..., np.arange(d), np.arange(d)] = stack_p
            rn = guarded(lambda: np.asarray(U.get_von_neumann_entropy(big))); rt = guarded(lambda: U.get_von_neumann_entropy(torch.tensor(big)).numpy())
            bad_shape = isinstance(rn, str) or isinstance(rt, str) or rn.shape != (2, 3) or rt.shape != (2, 3)
            for i in range(2):
                for j in range(3):
                    ops.append(f'C12 spec ent {bits(eps)} {fl(np.sort(stack_p[i, j]))}')
                    vals.append(['error:batched-call' if bad_shape else float(rn[i, j]), 'error:batched-call' if bad_shape else float(rt[i, j]),
                                 guarded(lambda i=i, j=j: float(U.get_von_neumann_entropy(big[i, j])))])
            ctx.count('spectral-ent-batched')
    if tdev_skipped:
        ctx.note(f'spec tdev: get_trace_distance did not call np.linalg.eigvalsh exactly once in {tdev_skipped} cases; the spectrum of rho - sigma computed by the harness was used as data instead')
        ctx.count('spectral-tdev-public-path', tdev_skipped)
    model = common.run_model(ops)
    worst = 0.0
    for op, got, mo in zip(ops, vals, model):
        ctx.count('spectral-' + op.split(' ')[2])
        try:
            ex = unbits(mo)
        except Exception:
            ctx.disagree(op, mo, str(got)); continue
        if any(isinstance(g, str) for g in got) or not all(np.isfinite(float(g)) for g in got):
            ctx.disagree(op, repr(ex), repr(['error' if isinstance(g, str) else float(g) for g in got])); continue
        err = max(abs(float(g) - ex) for g in got) / max(1.0, abs(ex))
        worst = max(worst, err)
        if err <= 1e-12:
            ctx.agree(op, op)
        else:
            ctx.disagree(op, repr(ex), repr([float(g) for g in got]))
    ctx.extra['spectral_worst_rel_err'] = worst
    ctx.assumptions.append('spectral tie (diagonal states): tolerance 1e-12; both sides evaluate the same binary64 formula, differences come from the summation order '
                           'and from sqrt of products; the eigen-decomposition of a diagonal matrix is exact; `spec tdev`: the spectrum of rho - sigma (np.linalg.eigvalsh) is data')
    ctx.assumptions.append('scope of the contractivity obligations: the theorems trace_distance_classical_contractive / fidelity_classical_monotone / relative_entropy_classical_monotone / '
                           'classical_channel_preserves_simplex hold for COMMUTING states under classical (column-stochastic) channels only (bridge to the Kraus model: applyKraus_classical); '
                           'data processing for non-commuting states and general channels is probe-only (keys contractivity:*)')


def correspondence(ctx):
    import numqi, torch
    ch = numqi.channel
    rng = np.random.default_rng(ctx.np_seed)
    ops, impl = [], []
    consts = module_constants()

    def add(op, f):
        ops.append(op); impl.append(guarded(f))

    cases = []
    for din in range(1, 6):
        for dout in range(1, 6):
            if ctx.quick():
                cases.append((din, dout, int(rng.integers(1, din * dout + 1))))
            else:
                for n in sorted({1, 2, din * dout, int(rng.integers(1, din * dout + 1))}):
                    cases.append((din, dout, n))
    for din, dout, n in cases:
        for cplx in (True, False):
            K = rg(rng, (n, dout, din), 3, cplx)
            rho = rg(rng, (din, din), 4, cplx)
            ks = gl(K); rs = gl(rho)
            C = ch.kraus_op_to_choi_op(K)
            S = ch.kraus_op_to_super_op(K)
            add(f'C12 k2c {n} {dout} {din} {ks}', lambda: gl(ch.kraus_op_to_choi_op(K)))
            add(f'C12 k2c {n} {dout} {din} {ks}', lambda: gl(ch.kraus_op_to_choi_op(torch.tensor(K)).numpy()))
            add(f'C12 k2s {n} {dout} {din} {ks}', lambda: gl(ch.kraus_op_to_super_op(K)))
            add(f'C12 apk {n} {dout} {din} {ks} {rs}', lambda: gl(ch.apply_kraus_op(K, rho)))
            add(f'C12 apc {din} {dout} {gl(C)} {rs}', lambda: gl(ch.apply_choi_op(C, rho)))
            add(f'C12 apc {din} {dout} {gl(C)} {rs}', lambda: gl(ch.apply_choi_op(torch.tensor(C), torch.tensor(rho)).numpy()))
            add(f'C12 aps {din} {dout} {gl(S)} {rs}', lambda: gl(ch.apply_super_op(S, rho)))
            # general operators (not of Kraus form) through the pure index conversions
            G = rg(rng, (din * dout, din * dout), 9, cplx)
            H = rg(rng, (dout * dout, din * din), 9, cplx)
            add(f'C12 c2s {din} {dout} {gl(G)}', lambda: gl(ch.choi_op_to_super_op(G, din)))
            add(f'C12 s2c {din} {dout} {gl(H)}', lambda: gl(ch.super_op_to_choi_op(H)))
            add(f'C12 apc {din} {dout} {gl(G)} {rs}', lambda: gl(ch.apply_choi_op(G, rho)))
            add(f'C12 aps {din} {dout} {gl(H)} {rs}', lambda: gl(ch.apply_super_op(H, rho)))
            add(f'C12 hf2c {din} {dout} {gl(G)}', lambda: gl(ch.hf_channel_to_choi_op(lambda r: ch.apply_choi_op(G, r), din)))

            # hf_channel_to_kraus_op up to its inner call of super_op_to_kraus_op (intercepted in the namespace the public function itself
            # uses: returns its argument).  If that name is not there the op is skipped with a note; `hf2k` ties the function end to end.
            ns = getattr(ch.hf_channel_to_kraus_op, '__globals__', {})
            if callable(ns.get('super_op_to_kraus_op')):
                def hf2s(ns=ns):
                    orig = ns['super_op_to_kraus_op']
                    seen = []
                    ns['super_op_to_kraus_op'] = lambda S, *a, **k: (seen.append(1), S)[1]
                    try:
                        r = ch.hf_channel_to_kraus_op(lambda r: ch.apply_choi_op(G, r), din)
                    finally:
                        ns['super_op_to_kraus_op'] = orig
                    return gl(r) if seen else None
                r_hf2s = guarded(hf2s)
                if r_hf2s is None:
                    ctx.count('hf2s-skipped')
                else:
                    add(f'C12 hf2s {din} {dout} {gl(G)}', lambda r_hf2s=r_hf2s: r_hf2s)
            else:
                ctx.count('hf2s-skipped')
            # input classes: the same integer data as int64 / float32 (real case) / complex64, Fortran-ordered and strided views; every
            # call through `checked` (arguments bit-identical afterwards, two calls agree)
            variants = [('c-f-order', np.asfortranarray(K), np.asfortranarray(rho))]
            big = np.zeros((n, dout, 2 * din), dtype=K.dtype); big[:, :, ::2] = K
            variants.append(('strided-view', big[:, :, ::2], rho[::-1, ::-1][::-1, ::-1]))
            if cplx:
                variants.append(('complex64', K.astype(np.complex64), rho.astype(np.complex64)))
            else:
                variants += [('int64', K.astype(np.int64), rho.astype(np.int64)), ('float32', K.astype(np.float32), rho.astype(np.float32))]
            for tag, Kv, rv in variants:
                Cv = ch.kraus_op_to_choi_op(Kv); Sv = ch.kraus_op_to_super_op(Kv)
                add(f'C12 k2c {n} {dout} {din} {ks}', lambda Kv=Kv: gl(checked(ctx, 'kraus_op_to_choi_op', ch.kraus_op_to_choi_op, Kv)))
                add(f'C12 k2s {n} {dout} {din} {ks}', lambda Kv=Kv: gl(checked(ctx, 'kraus_op_to_super_op', ch.kraus_op_to_super_op, Kv)))
                add(f'C12 apk {n} {dout} {din} {ks} {rs}', lambda Kv=Kv, rv=rv: gl(checked(ctx, 'apply_kraus_op', ch.apply_kraus_op, Kv, rv)))
                add(f'C12 apc {din} {dout} {gl(C)} {rs}', lambda Cv=Cv, rv=rv: gl(checked(ctx, 'apply_choi_op', ch.apply_choi_op, Cv, rv)))
                add(f'C12 aps {din} {dout} {gl(S)} {rs}', lambda Sv=Sv, rv=rv: gl(checked(ctx, 'apply_super_op', ch.apply_super_op, Sv, rv)))
                add(f'C12 c2s {din} {dout} {gl(C)}', lambda Cv=Cv: gl(checked(ctx, 'choi_op_to_super_op', ch.choi_op_to_super_op, Cv, din)))
                add(f'C12 s2c {din} {dout} {gl(S)}', lambda Sv=Sv: gl(checked(ctx, 'super_op_to_choi_op', ch.super_op_to_choi_op, Sv)))
                ctx.count('variant-' + tag)
            ctx.count(f'dims-{din}x{dout}')
        # choi_op_to_kraus_op with intercepted eigh: ascending integer eigenvalues (some <= 0, the rest perfect squares)
        m = din * dout
        n0 = int(rng.integers(0, m + 1))
        evl = sorted([-int(x) for x in rng.integers(0, 3, size=n0)]) + sorted(int(x) ** 2 for x in rng.integers(1, 5, size=m - n0))
        evc = rg(rng, (m, m), 3, True)

        with EighSpy(fake=(evl, evc)) as spy:
            r_c2k = guarded(lambda: (lambda r: f'{r.shape[0]}|' + gl(r) if r.shape[1:] == (dout, din) else f'shape{r.shape}')(ch.choi_op_to_kraus_op(np.eye(m, dtype=np.complex128), din)))
        if len(spy.calls) == 1 or r_c2k.startswith('error'):
            add(f'C12 c2k {din} {dout} {";".join(map(str, evl)) or "-"} {gl(evc)}', lambda r_c2k=r_c2k: r_c2k)
            ctx.count('c2k-cut-%s' % ('none' if n0 == 0 else 'all' if n0 == m else 'some'))
        else:
            # the implementation obtained its decomposition some other way (e.g. scipy.linalg.eigh): the chosen data was not used
            ctx.count('c2k-skipped')
    # noise channels: entries must be exactly c0/c1 times the Pauli entries
    rates = [0.0, 1.0, 0.5, 0.25] + [float(x) for x in rng.uniform(0, 1, size=6 if ctx.quick() else 60)]
    for p in rates:
        add(f'C12 deph {bits(np.sqrt(1 - p))} {bits(np.sqrt(p))}', lambda: qi_list(ch.hf_dephasing_kraus_op(p)))
        add(f'C12 depol {bits(np.sqrt(1 - 3 * p / 4))} {bits(np.sqrt(p / 4))}', lambda: qi_list(ch.hf_depolarizing_kraus_op(p)))
        add(f'C12 ampd {bits(np.sqrt(1 - p))} {bits(np.sqrt(p))}', lambda: qi_list(ch.hf_amplitude_damping_kraus_op(p)))
        ctx.count('noise-rate')
    eigh_composition_ops(ctx, rng, add)
    purity_ops(ctx, rng, add)
    classical_channel_ops(ctx, rng, add)
    function_channel_ops(ctx, rng, add)
    check_module_constants(ctx, consts, 'the conversion / apply calls of the exact tie')
    for key, what in (('c2k-skipped', 'c2k (np.linalg.eigh not called exactly once by choi_op_to_kraus_op)'), ('hf2s-skipped', 'hf2s (inner super_op_to_kraus_op call not interceptable)')):
        if ctx.hist.get(key):
            ctx.note(f'tie skipped: {what}; the end-to-end ties / probes decide')
    model = common.run_model(ops)

    def nontrivial(op, out):
        t = op.split(' ')
        if t[1] in ('k2c', 'k2s', 'apk'):
            return int(t[3]) * int(t[4]) > 1
        if t[1] in ('c2s', 's2c', 'apc', 'aps', 'hf2c', 'hf2s', 'c2k', 's2k', 'hf2k', 'c2kf'):
            return int(t[2]) * int(t[3]) > 1
        return True
    # a rejection is a rejection: which exception class / message the implementation (or the model's label) uses must not matter
    canon = lambda x: 'error' if isinstance(x, str) and x.startswith('error') else x
    impl = [canon(x) for x in impl]; model = [canon(x) for x in model]
    common.compare(ctx, ops, impl, model, nontrivial=nontrivial)
    bloch_tie(ctx, rng)
    spectral_tie(ctx, rng)
    ctx.extra['exhaustive'] = False
    ctx.extra['exhaustive_domain'] = 'every (dim_in, dim_out) in 1..5 x 1..5 (not exhaustive in the entries)'


# ---------------------------------------------------------------------------
# probe
# ---------------------------------------------------------------------------
def rand_state(rng, d, kind):
    import numqi
    if kind == 'pure':
        v = rng.normal(size=d) + 1j * rng.normal(size=d)
        v /= np.linalg.norm(v)
        return np.outer(v, v.conj())
    if kind == 'low':
        r = max(1, d // 2)
        a = rng.normal(size=(d, r)) + 1j * rng.normal(size=(d, r))
        m = a @ a.conj().T
        return m / np.trace(m).real
    a = rng.normal(size=(d, d)) + 1j * rng.normal(size=(d, d))
    m = a @ a.conj().T + 0.05 * np.eye(d)
    return m / np.trace(m).real


def rand_channel(rng, din, dout, kind, seed):
    """returns Kraus operators (N, dout, din)"""
    import numqi
    if kind == 'unitary' and din == dout:
        return numqi.random.rand_haar_unitary(din, seed=seed)[None]
    if kind == 'isometry' and dout >= din:
        u = numqi.random.rand_haar_unitary(dout, seed=seed)
        return u[None, :, :din]
    if kind == 'lowrank':
        n = int(rng.integers(1, 3))
        if n * dout < din:
            n = -(-din // dout)
        return numqi.random.rand_kraus_op(n, din, dout, seed=seed)
    if kind == 'real':
        return numqi.random.rand_kraus_op(max(1, -(-din // dout), int(rng.integers(1, din * dout + 1))), din, dout, tag_complex=False, seed=seed).astype(np.complex128)
    n = max(-(-din // dout), int(rng.integers(1, din * dout + 1)))
    return numqi.random.rand_kraus_op(n, din, dout, seed=seed)


def maxdiff(a, b):
    a = np.asarray(a); b = np.asarray(b)
    if a.shape != b.shape:
        return float('inf')
    return float(np.max(np.abs(a - b))) if a.size else 0.0


TOL = 1e-9          # equivalence of representations, inequalities on full-rank states
TOL_SQRT = 1e-6     # quantities that take the square root of an eigenvalue that is zero up to rounding (rank-deficient inputs)


def probe(ctx):
    import numqi, torch
    corpus_replay(ctx)
    ch = numqi.channel
    U = numqi.utils
    rng = np.random.default_rng(ctx.np_seed + 1)
    nrep = 1 if ctx.quick() else 6
    kinds = ['generic', 'lowrank', 'real', 'isometry', 'unitary']
    worst = dict(equiv=0.0, ineq=0.0)
    for din in range(1, 6):
        for dout in range(1, 6):
            for kind in kinds:
                if (kind == 'unitary' and din != dout) or (kind == 'isometry' and dout < din):
                    continue
                for rep in range(nrep):
                    seed = int(rng.integers(0, 2 ** 31))
                    info = dict(op='channel', din=din, dout=dout, kind=kind, seed=seed)
                    try:
                        K = rand_channel(rng, din, dout, kind, seed)
                        N = K.shape[0]
                        C = ch.kraus_op_to_choi_op(K)
                        S = ch.kraus_op_to_super_op(K)
                        gram = sum(k.conj().T @ k for k in K)
                        if maxdiff(gram, np.eye(din)) > TOL:
                            ctx.fail('rand-channel-not-tp', f'random channel generator returned a non-trace-preserving Kraus set ({kind}, {din}->{dout})', info); continue
                        K2 = ch.choi_op_to_kraus_op(C, din)
                        K3 = ch.super_op_to_kraus_op(S)
                        K4 = ch.hf_channel_to_kraus_op(lambda r: ch.apply_kraus_op(K, r), din)
                        C_t = ch.kraus_op_to_choi_op(torch.tensor(K)).numpy()
                        checks = [
                            ('kraus->choi-torch', maxdiff(C_t, C)),
                            ('choi->super', maxdiff(ch.choi_op_to_super_op(C, din), S)),
                            ('super->choi', maxdiff(ch.super_op_to_choi_op(S), C)),
                            ('choi->kraus->choi', maxdiff(ch.kraus_op_to_choi_op(K2), C)),
                            ('super->kraus->super', maxdiff(ch.kraus_op_to_super_op(K3), S)),
                            ('hf_channel_to_kraus_op', maxdiff(ch.kraus_op_to_choi_op(K4), C)),
                            ('hf_channel_to_choi_op', maxdiff(ch.hf_channel_to_choi_op(lambda r: ch.apply_kraus_op(K, r), din).reshape(din * dout, din * dout), C)),
                            ('kraus-count', 0.0 if K2.shape[0] <= din * dout else float('inf')),
                        ]
                        if din >= 2 and dout >= 2:
                            matA, vecb = ch.choi_op_to_bloch_map(C.reshape(din, dout, din, dout))
                        states = []
                        for skind in ('full', 'low', 'pure'):
                            rho = rand_state(rng, din, skind)
                            out = ch.apply_kraus_op(K, rho)
                            checks += [
                                (f'apply_choi/{skind}', maxdiff(ch.apply_choi_op(C, rho), out)),
                                (f'apply_choi-torch/{skind}', maxdiff(ch.apply_choi_op(torch.tensor(C), torch.tensor(rho)).numpy(), out)),
                                (f'apply_super/{skind}', maxdiff(ch.apply_super_op(S, rho), out)),
                                (f'apply_choi(kraus->choi-torch)/{skind}', maxdiff(ch.apply_choi_op(C_t, rho), out)),
                                (f'apply_kraus(choi->kraus)/{skind}', maxdiff(ch.apply_kraus_op(K2, rho), out)),
                                (f'trace/{skind}', abs(np.trace(out) - 1)),
                                (f'hermitian/{skind}', maxdiff(out, out.conj().T)),
                                (f'positive/{skind}', max(0.0, -float(np.linalg.eigvalsh((out + out.conj().T) / 2).min()))),
                            ]
                            if din >= 2 and dout >= 2:
                                r_out = matA @ numqi.gellmann.dm_to_gellmann_basis(rho) + vecb
                                checks.append((f'bloch-map/{skind}', maxdiff(numqi.gellmann.gellmann_basis_to_dm(r_out), out)))
                                checks.append((f'bloch-map-real/{skind}', float(np.max(np.abs(np.imag(r_out)))) if np.iscomplexobj(r_out) else 0.0))
                            states.append((skind, rho, out))
                    except Exception as e:
                        ctx.fail('channel-raises', f'{type(e).__name__}: {e} ({kind}, {din}->{dout})', info); continue
                    bad = [(n, v) for n, v in checks if not v <= TOL]
                    worst['equiv'] = max([worst['equiv']] + [v for _, v in checks if np.isfinite(v)])
                    if bad:
                        ctx.fail('channel-equivalence:' + bad[0][0].split('/')[0], f'{bad[0][0]} differs by {bad[0][1]:.3e} for a {kind} channel {din}->{dout} with {N} Kraus terms',
                                 dict(info, failed=[(n, float(v)) for n, v in bad[:6]]))
                    else:
                        ctx.probe_ok(('equiv', din, dout, kind, rep))
                    # contractivity / ranges (the named gap of the theorems)
                    try:
                        msgs = []
                        mineig = {id(x): float(np.linalg.eigvalsh(x).min()) for _, a, b in states for x in (a, b)}
                        for i in range(len(states)):
                            for j in range(len(states)):
                                ki, r0, o0 = states[i]; kj, r1, o1 = states[j]
                                # rank-deficient states (also outputs of isometries / few-term channels): sqrt of rounding-level eigenvalues
                                fullrank = min(mineig[id(x)] for x in (r0, r1, o0, o1)) > 1e-6
                                tol = TOL if fullrank else TOL_SQRT
                                td_in, td_out = U.get_trace_distance(r0, r1), U.get_trace_distance(o0, o1)
                                if td_out > td_in + TOL:
                                    msgs.append((f'trace-distance increases {td_in:.12g} -> {td_out:.12g} ({ki},{kj})', td_out - td_in))
                                f_in, f_out = U.get_fidelity(r0, r1), U.get_fidelity(o0, o1)
                                f_rev = U.get_fidelity(r1, r0)
                                worst['ineq'] = max(worst['ineq'], abs(f_in - f_rev), f_in - 1, f_out - 1)
                                if f_out < f_in - tol:
                                    msgs.append((f'fidelity decreases {f_in:.12g} -> {f_out:.12g} ({ki},{kj})', f_in - f_out))
                                if abs(f_in - f_rev) > tol:
                                    msgs.append((f'fidelity not symmetric {f_in:.12g} vs {f_rev:.12g} ({ki},{kj})', abs(f_in - f_rev)))
                                if not (-tol <= f_in <= 1 + tol and -tol <= f_out <= 1 + tol):
                                    msgs.append((f'fidelity outside [0,1]: {f_in:.12g}, {f_out:.12g} ({ki},{kj})', max(f_in, f_out) - 1))
                                ft = float(U.get_fidelity(torch.tensor(r0), torch.tensor(r1)))
                                if abs(ft - f_in) > tol:
                                    msgs.append((f'fidelity numpy/torch differ {f_in:.12g} vs {ft:.12g} ({ki},{kj})', abs(ft - f_in)))
                                if np.linalg.eigvalsh(o1).min() > 1e-6:
                                    # second argument r1 may be rank-deficient (the code clips log at machine eps, i.e. evaluates
                                    # S(r0 || max(r1,eps))); with a full-rank image o1 monotonicity still holds up to eps*d/lambda_min(o1) < 1e-8
                                    s_in, s_out = U.get_relative_entropy(r0, r1), U.get_relative_entropy(o0, o1)
                                    rtol = TOL if (kj == 'full' and mineig[id(r1)] > 1e-6) else 1e-7
                                    if s_out > s_in + rtol * max(1, abs(s_in)):
                                        msgs.append((f'relative entropy increases {s_in:.12g} -> {s_out:.12g} ({ki},{kj})', s_out - s_in))
                                    if s_in < -TOL:
                                        msgs.append((f'relative entropy negative {s_in:.12g} ({ki},{kj})', -s_in))
                                    st = float(U.get_relative_entropy(torch.tensor(r0), torch.tensor(r1)))
                                    # (for a rank-deficient r1 the value is a clipped stand-in for +inf and the two backends clip differently)
                                    if rtol == TOL and abs(st - s_in) > TOL * max(1, abs(s_in)):
                                        msgs.append((f'relative entropy numpy/torch differ {s_in:.12g} vs {st:.12g}', abs(st - s_in)))
                            ki, r0, o0 = states[i]
                            # anchors that pin the normalisation of the four quantities
                            for kj, r1, _ in states:
                                f01 = U.get_fidelity(r0, r1); t01 = U.get_trace_distance(r0, r1)
                                fullrank = min(mineig[id(r0)], mineig[id(r1)]) > 1e-6
                                # independent oracle for two mixed, non-commuting states (a different route than the implementation's):
                                # F = (sum of the singular values of sqrt(r0) sqrt(r1))^2;  S(r0||r1) = sum p log p - sum |<u_i|v_j>|^2 p_i log q_j
                                w0, v0 = np.linalg.eigh(r0); w1, v1 = np.linalg.eigh(r1)
                                sq0 = (v0 * np.sqrt(np.clip(w0, 0, None))) @ v0.conj().T; sq1 = (v1 * np.sqrt(np.clip(w1, 0, None))) @ v1.conj().T
                                f_star = float(np.linalg.svd(sq0 @ sq1, compute_uv=False).sum() ** 2)
                                if abs(f01 - f_star) > (TOL if fullrank else TOL_SQRT):
                                    msgs.append((f'fidelity {f01:.12g} != (tr|sqrt(rho) sqrt(sigma)|)^2 = {f_star:.12g} ({ki},{kj})', abs(f01 - f_star)))
                                if fullrank:
                                    ov = np.abs(v0.conj().T @ v1) ** 2
                                    s_star = float((w0 * np.log(w0)).sum() - (ov * np.outer(w0, np.log(w1))).sum())
                                    s01 = U.get_relative_entropy(r0, r1)
                                    if abs(s01 - s_star) > 1e-9 * max(1.0, abs(s_star)):
                                        msgs.append((f'relative entropy {s01:.12g} != spectral formula {s_star:.12g} ({ki},{kj})', abs(s01 - s_star)))
                                tol = TOL if fullrank else 4e-4     # sqrt(1-F) near F=1 turns the 1e-7 fidelity error of rank-deficient states into 3e-4
                                if not (1 - np.sqrt(max(f01, 0)) - tol <= t01 <= np.sqrt(max(0, 1 - f01)) + tol):
                                    msgs.append((f'Fuchs-van-de-Graaf violated: T={t01:.12g}, F={f01:.12g} ({ki},{kj})', 1.0))
                            if abs(U.get_trace_distance(r0, r0)) > TOL or abs(U.get_relative_entropy(r0, r0)) > 1e-7:
                                msgs.append((f'distance of a state to itself not 0 ({ki})', 1.0))
                            mm = np.eye(din) / din
                            if abs(U.get_von_neumann_entropy(mm) - np.log(din)) > TOL:
                                msgs.append((f'entropy of the maximally mixed state != log d', 1.0))
                            if ki == 'full':
                                s0 = U.get_von_neumann_entropy(r0)
                                if abs(U.get_relative_entropy(r0, mm) - (np.log(din) - s0)) > TOL:
                                    msgs.append((f'S(rho||1/d) != log d - S(rho)', 1.0))
                            if ki == 'pure' and abs(U.get_von_neumann_entropy(r0)) > 1e-12 * 40 + 1e-9:
                                msgs.append((f'entropy of a pure state != 0', 1.0))
                            for lab, r, d in (('in', r0, din), ('out', o0, dout)):
                                s = U.get_von_neumann_entropy(r)
                                if not (-TOL <= s <= np.log(d) + TOL):
                                    msgs.append((f'von Neumann entropy {s:.12g} outside [0, log {d}] ({ki},{lab})', max(-s, s - np.log(d))))
                                st = float(U.get_von_neumann_entropy(torch.tensor(r)))
                                if abs(st - s) > TOL:
                                    msgs.append((f'entropy numpy/torch differ {s:.12g} vs {st:.12g}', abs(st - s)))
                            # pure states given as vectors: all four get_fidelity branches agree
                            if ki == 'pure':
                                w, v = np.linalg.eigh(r0); psi = v[:, -1]
                                for kj, r1, _ in states:
                                    a = U.get_fidelity(psi, r1); b = U.get_fidelity(r1, psi); c = U.get_fidelity(r0, r1)
                                    tol = TOL_SQRT
                                    if abs(a - b) > TOL or abs(a - c) > tol:
                                        msgs.append((f'fidelity vector/matrix branches differ: {a:.12g}, {b:.12g}, {c:.12g} ({kj})', max(abs(a - b), abs(a - c))))
                                    # the same 1-D branches in the torch backend (vector x matrix, matrix x vector, vector x vector)
                                    tp, t1 = torch.tensor(psi), torch.tensor(r1)
                                    at = float(U.get_fidelity(tp, t1)); bt = float(U.get_fidelity(t1, tp))
                                    want_vm = float((psi.conj() @ r1 @ psi).real)
                                    if max(abs(at - want_vm), abs(bt - want_vm), abs(a - want_vm)) > TOL:
                                        msgs.append((f'fidelity of a vector with a matrix: numpy {a:.12g}, torch {at:.12g} / {bt:.12g}, <psi|rho|psi> = {want_vm:.12g} ({kj})', max(abs(at - want_vm), abs(bt - want_vm))))
                                    w1_, v1_ = np.linalg.eigh(r1); phi = v1_[:, -1]
                                    want_vv = float(abs(np.vdot(psi, phi)) ** 2)
                                    vv_n = float(U.get_fidelity(psi, phi)); vv_t = float(U.get_fidelity(tp, torch.tensor(phi)))
                                    if max(abs(vv_n - want_vv), abs(vv_t - want_vv)) > TOL:
                                        msgs.append((f'fidelity of two vectors: numpy {vv_n:.12g}, torch {vv_t:.12g}, |<psi|phi>|^2 = {want_vv:.12g}', max(abs(vv_n - want_vv), abs(vv_t - want_vv))))
                                if abs(U.get_fidelity(psi, psi) - 1) > TOL:
                                    msgs.append(('fidelity(psi,psi) != 1', abs(U.get_fidelity(psi, psi) - 1)))
                    except Exception as e:
                        ctx.fail('contractivity-raises', f'{type(e).__name__}: {e} ({kind}, {din}->{dout})', info); continue
                    if msgs:
                        key = 'contractivity:' + msgs[0][0].split(' ')[0] + '-' + msgs[0][0].split(' ')[1]
                        ctx.fail(key, msgs[0][0] + f' for a {kind} channel {din}->{dout}', dict(info, failed=[(m, float(v)) for m, v in msgs[:6]]))
                    else:
                        ctx.probe_ok(('contract', din, dout, kind, rep))
    # fixed point through the Bloch map (as tests/test_channel.py does): the solution of (A-1) r = -b is a fixed point of the channel
    for rep in range(6 if ctx.quick() else 40):
        d = int(rng.integers(2, 5)); seed = int(rng.integers(0, 2 ** 31))
        info = dict(op='channel-fixed-point', dim=d, seed=seed)
        try:
            K = numqi.random.rand_kraus_op(d * d, d, d, seed=seed)
            C = ch.kraus_op_to_choi_op(K)
            A, b = ch.choi_op_to_bloch_map(C.reshape(d, d, d, d))
            M = A - np.eye(d * d - 1)
            if np.linalg.cond(M) > 1e6:
                continue
            rho = numqi.gellmann.gellmann_basis_to_dm(np.linalg.solve(M, -b))
            err = max(maxdiff(ch.apply_choi_op(C, rho), rho), maxdiff(ch.apply_kraus_op(K, rho), rho), abs(np.trace(rho) - 1))
        except Exception as e:
            ctx.fail('fixed-point-raises', f'{type(e).__name__}: {e}', info); continue
        if err > 1e-8:
            ctx.fail('channel-fixed-point', f'the Bloch-map fixed point is not fixed by the channel (error {err:.3e}, dim {d})', info)
        else:
            ctx.probe_ok(('fix', d, seed))
    # noise channels: CPTP for every rate
    for p in [0.0, 1.0] + [float(x) for x in rng.uniform(0, 1, size=20 if ctx.quick() else 300)]:
        for name, f in (('dephasing', ch.hf_dephasing_kraus_op), ('depolarizing', ch.hf_depolarizing_kraus_op), ('amplitude_damping', ch.hf_amplitude_damping_kraus_op)):
            info = dict(op=name, rate=p)
            try:
                K = np.asarray(f(p)).astype(np.complex128)
                gram = sum(k.conj().T @ k for k in K)
                C = ch.kraus_op_to_choi_op(K)
                ok = maxdiff(gram, np.eye(2)) <= 1e-14 and np.linalg.eigvalsh(C).min() >= -1e-14 and K.shape[1:] == (2, 2)
                ok = ok and bool(np.all(np.isfinite(K)))
            except Exception as e:
                ctx.fail('noise-raises', f'{name}({p}): {type(e).__name__}: {e}', info); continue
            if not ok:
                ctx.fail('noise-cptp:' + name, f'{name} channel at rate {p} is not CPTP (|sum K^dag K - 1| = {maxdiff(gram, np.eye(2)):.3e})', info)
            else:
                ctx.probe_ok(('noise', name, p))
    probe_hardening(ctx, rng)
    probe_renyi(ctx, np.random.default_rng(ctx.np_seed + 31))
    probe_values(ctx, np.random.default_rng(ctx.np_seed + 32))
    probe_classical(ctx, np.random.default_rng(ctx.np_seed + 33))
    probe_function_channels(ctx, np.random.default_rng(ctx.np_seed + 34))
    probe_optional_args(ctx, np.random.default_rng(ctx.np_seed + 35))
    probe_reuse(ctx)
    ctx.extra['probe_worst'] = {k: float(v) for k, v in worst.items()}
    ctx.assumptions.append('probe tolerances: 1e-9 for equivalence of representations and for the inequalities on full-rank states; 1e-6 where a '
                           'square root of a rounding-level eigenvalue enters (fidelity with a rank-deficient input or output state: sqrt(2.2e-16*d) ~ 3e-8 per zero eigenvalue, up to 5 of them, doubled by the final squaring; worst observed 3e-8); '
                           'relative entropy monotonicity asserted whenever the image of the second argument is full rank (min eigenvalue > 1e-6); for a rank-deficient second argument the code evaluates S(rho||max(sigma,eps)), for which monotonicity holds up to eps*d/lambda_min < 1e-8 (tolerance 1e-7 relative)')


def probe_hardening(ctx, rng):
    """aliasing of every public function, module-level constants, constructor histories, boundary spectra for the metrics"""
    import numqi, torch
    ch = numqi.channel; U = numqi.utils
    consts = module_constants()
    # (1) every conversion / apply / metric call leaves its arguments untouched and is repeatable (numpy, torch, views)
    for rep in range(4 if ctx.quick() else 24):
        din = int(rng.integers(1, 4)); dout = int(rng.integers(1, 4)); seed = int(rng.integers(1 << 30))
        try:
            K = numqi.random.rand_kraus_op(max(1, -(-din // dout), int(rng.integers(1, 4))), din, dout, seed=seed)
            rho = rand_state(rng, din, 'full'); sig = rand_state(rng, din, 'low')
            C = checked(ctx, 'kraus_op_to_choi_op', ch.kraus_op_to_choi_op, K)
            S = checked(ctx, 'kraus_op_to_super_op', ch.kraus_op_to_super_op, K)
            # memory layouts: LAPACK-style routines overwrite Fortran-ordered input only (seeded C12-m6), so every matrix argument is
            # also passed Fortran-ordered (owning its data) and as the transposed view of a C-ordered array (same values, has a base)
            for lay, conv in LAYOUTS:
                for nm, fn, args in (('kraus_op_to_choi_op', ch.kraus_op_to_choi_op, (K,)), ('kraus_op_to_super_op', ch.kraus_op_to_super_op, (K,)),
                                     ('choi_op_to_kraus_op', ch.choi_op_to_kraus_op, (C, din)), ('super_op_to_kraus_op', ch.super_op_to_kraus_op, (S,)),
                                     ('choi_op_to_super_op', ch.choi_op_to_super_op, (C, din)), ('super_op_to_choi_op', ch.super_op_to_choi_op, (S,)),
                                     ('apply_kraus_op', ch.apply_kraus_op, (K, rho)), ('apply_choi_op', ch.apply_choi_op, (C, rho)),
                                     ('apply_super_op', ch.apply_super_op, (S, rho))):
                    a2 = tuple(conv(a) if isinstance(a, np.ndarray) else a for a in args)
                    r_ref = fn(*[a.copy() if isinstance(a, np.ndarray) else a for a in args])
                    r_lay = checked(ctx, f'{nm}[{lay}]', fn, *a2)
                    if nm not in ('choi_op_to_kraus_op', 'super_op_to_kraus_op') and maxdiff(r_ref, r_lay) > TOL:      # a Kraus set is unique only up to a unitary mixing
                        ctx.fail('layout-dependent:' + nm, f'{nm} gives a different result for a {lay} argument', dict(op=nm, layout=lay, din=din, dout=dout, seed=seed, args=[_desc(x) for x in a2]))
                    ctx.count('layout-' + lay)
            checked(ctx, 'kraus_op_to_choi_op[torch]', ch.kraus_op_to_choi_op, torch.tensor(K))
            checked(ctx, 'choi_op_to_kraus_op', ch.choi_op_to_kraus_op, C, din)
            checked(ctx, 'super_op_to_kraus_op', ch.super_op_to_kraus_op, S)
            checked(ctx, 'choi_op_to_super_op', ch.choi_op_to_super_op, C, din)
            checked(ctx, 'super_op_to_choi_op', ch.super_op_to_choi_op, S)
            checked(ctx, 'apply_kraus_op', ch.apply_kraus_op, K, rho)
            checked(ctx, 'apply_choi_op', ch.apply_choi_op, C, rho)
            checked(ctx, 'apply_choi_op[torch]', ch.apply_choi_op, torch.tensor(C), torch.tensor(rho))
            checked(ctx, 'apply_super_op', ch.apply_super_op, S, rho)
            checked(ctx, 'hf_channel_to_choi_op', lambda KK: ch.hf_channel_to_choi_op(lambda r: ch.apply_kraus_op(KK, r), din), K)
            checked(ctx, 'hf_channel_to_kraus_op', lambda KK: ch.hf_channel_to_kraus_op(lambda r: ch.apply_kraus_op(KK, r), din), K)
            if din >= 2 and dout >= 2:
                checked(ctx, 'choi_op_to_bloch_map', ch.choi_op_to_bloch_map, C.reshape(din, dout, din, dout))
            for nm, fn, args in (('get_fidelity', U.get_fidelity, (rho, sig)), ('get_trace_distance', U.get_trace_distance, (rho, sig)),
                                 ('get_relative_entropy', U.get_relative_entropy, (sig, rho)), ('get_von_neumann_entropy', U.get_von_neumann_entropy, (rho,)),
                                 ('get_purity', U.get_purity, (rho,))):
                checked(ctx, nm, fn, *args)
                checked(ctx, nm + '[F-order]', fn, *[np.asfortranarray(a) for a in args])
                if nm != 'get_trace_distance':
                    checked(ctx, nm + '[torch]', fn, *[torch.tensor(a) for a in args])
            # an object returned by one call is the input of the next
            out = ch.apply_kraus_op(K, rho)
            out2 = checked(ctx, 'apply_choi_op(output of kraus_op_to_choi_op)', ch.apply_choi_op, C, rho)
            if maxdiff(out, out2) > TOL:
                ctx.fail('channel-equivalence:reuse', 'apply_choi_op on the object returned by kraus_op_to_choi_op differs from apply_kraus_op', dict(din=din, dout=dout, seed=seed))
            ctx.probe_ok(('alias', din, dout, seed))
        except Exception as e:
            ctx.fail('hardening-raises', f'{type(e).__name__}: {e}', dict(op='aliasing-sweep', din=din, dout=dout, seed=seed))
    check_module_constants(ctx, consts, 'conversion / apply / metric calls')
    # (2) histories: noise-channel constructors called repeatedly, in different orders, results vandalised in between
    ref = {}
    order = [('deph', 0.3), ('depol', 0.3), ('ampd', 0.3), ('depol', 0.9), ('deph', 0.3), ('ampd', 0.0), ('depol', 0.3), ('ampd', 0.3), ('deph', 1.0), ('depol', 0.9), ('deph', 0.3)]
    fns = dict(deph=ch.hf_dephasing_kraus_op, depol=ch.hf_depolarizing_kraus_op, ampd=ch.hf_amplitude_damping_kraus_op)
    for step, (nm, p) in enumerate(order):
        try:
            K = np.asarray(fns[nm](p))
            if (nm, p) in ref and not (K.shape == ref[(nm, p)].shape and np.array_equal(K, ref[(nm, p)])):
                ctx.fail('noise-history', f'{nm} channel at rate {p} returned different Kraus operators at call #{step} of a history of constructor calls',
                         dict(op='constructor-history', sequence=order, failing_step=step))
                break
            ref.setdefault((nm, p), K.copy())
            gram = sum(k.conj().T @ k for k in K.astype(np.complex128))
            if maxdiff(gram, np.eye(2)) > 1e-14:
                ctx.fail('noise-cptp:' + nm, f'{nm} channel at rate {p} is not trace preserving at call #{step} of a history', dict(op='constructor-history', sequence=order, failing_step=step)); break
            K *= 7.0            # vandalise what was returned (a shared module-level stack would be corrupted by this)
            K += 1.0
            check_module_constants(ctx, consts, f'{nm}({p}) (call #{step}) / in-place modification of its return value')
        except Exception as e:
            ctx.fail('noise-raises', f'{nm}({p}): {type(e).__name__}: {e}', dict(op='constructor-history', sequence=order, failing_step=step)); break
    else:
        ctx.probe_ok(('noise-history',))
    # (3) boundaries: near-degenerate spectra (gaps 0, 1e-12, 1e-8), points close to the maximally mixed state, rank-deficient states
    for d in (2, 3, 4):
        Q = numqi.random.rand_haar_unitary(d, seed=int(rng.integers(1 << 30)))
        mm = np.eye(d) / d
        cases = []
        for gap in (0.0, 1e-12, 1e-8):
            ev = np.linspace(1, 2, d); ev[1] = ev[0] + gap; ev /= ev.sum()
            cases.append((f'gap={gap:g}', (Q * ev) @ Q.conj().T))
        for eps in (1e-6, 1e-9, 1e-12):
            H = rng.normal(size=(d, d)); H = H + H.T; H -= np.trace(H) / d * np.eye(d)
            cases.append((f'mm+{eps:g}', mm + eps * H / np.linalg.norm(H)))
        ev = np.zeros(d); ev[0] = 1.0
        cases.append(('pure', (Q * ev) @ Q.conj().T))
        ev = np.ones(d); ev[-1] = 0.0; ev /= ev.sum()
        cases.append(('rank d-1', (Q * ev) @ Q.conj().T))
        for tag, r in cases:
            r = (r + r.conj().T) / 2
            info = dict(op='metric-boundary', dim=d, case=tag, rho=repr(np.round(r, 14).tolist())[:500])
            try:
                s_ = U.get_von_neumann_entropy(r); st = float(U.get_von_neumann_entropy(torch.tensor(r)))
                f_ = U.get_fidelity(r, r); t_ = U.get_trace_distance(r, r); fm = U.get_fidelity(r, mm); fm2 = U.get_fidelity(mm, r)
                rel = U.get_relative_entropy(r, mm)
                bad = []
                if not (-TOL <= s_ <= np.log(d) + TOL) or abs(s_ - st) > TOL: bad.append(f'entropy {s_:.12g} (torch {st:.12g}) outside [0, log {d}]')
                if abs(f_ - 1) > TOL_SQRT: bad.append(f'F(rho,rho) = {f_:.12g}')
                if abs(t_) > TOL: bad.append(f'T(rho,rho) = {t_:.3g}')
                if abs(fm - fm2) > TOL_SQRT or not (-TOL <= fm <= 1 + TOL_SQRT): bad.append(f'F(rho,1/d) = {fm:.12g} vs {fm2:.12g}')
                if abs(rel - (np.log(d) - s_)) > 1e-8: bad.append(f'S(rho||1/d) = {rel:.12g} != log d - S = {np.log(d) - s_:.12g}')
                if not all(np.isfinite([s_, st, f_, t_, fm, rel])): bad.append('non-finite value')
            except Exception as e:
                ctx.fail('metric-boundary-raises', f'{type(e).__name__}: {e} ({tag}, d={d})', info); continue
            if bad:
                ctx.fail('metric-boundary', f'{bad[0]} for a state with {tag} (d={d})', dict(info, failed=bad))
            else:
                ctx.probe_ok(('boundary', d, tag))
    check_module_constants(ctx, consts, 'the metric calls')


RENYI_KEY = 'renyi-entropy-nan'
FNCH_KEY = 'hf_channel_to_choi_op:probe-buffer-aliased'


def function_flavours(phi, square):
    """a linear map `phi` (returns a fresh array) wrapped as the kinds of python function a user may hand to hf_channel_to_*:
    fresh result, the result written back into the argument (in place) and returned"""
    out = [('fresh', phi)]
    if square:
        def inplace(r):
            v = phi(r)
            if np.iscomplexobj(v) and not np.iscomplexobj(r):
                return v
            r[...] = v
            return r
        out.append(('in-place', inplace))
    return out


def function_channels(rng, d_list, integer):
    """(label, dim_in, dim_out, phi, [(flavour, function)]) — channels GIVEN AS FUNCTIONS: identity (incl. pass-through functions that return
    the argument itself or a view of it), unitary, the built-in noise channels with the `if rate == 0: return rho` shortcut at rates 0 / 0.3 / 1,
    random Kraus channels"""
    import numqi
    ch = numqi.channel
    out = []
    for d in d_list:
        ident = lambda r: np.array(r, copy=True)
        out.append((f'identity d={d}', d, d, ident, [('fresh', ident), ('returns-argument', lambda r: r), ('returns-view', lambda r, d=d: r.reshape(d, d)),
                                                      ('returns-transposed-twice', lambda r: r.T.T), ('np.asarray', lambda r: np.asarray(r))]))
        if integer:
            perm = rng.permutation(d); ph = np.array([1, 1j, -1, -1j])[rng.integers(0, 4, size=d)]
            Umat = np.zeros((d, d), dtype=np.complex128); Umat[np.arange(d), perm] = ph
        else:
            Umat = numqi.random.rand_haar_unitary(d, seed=int(rng.integers(1 << 30)))
        uphi = lambda r, Umat=Umat: Umat @ r @ Umat.conj().T
        out.append((f'unitary d={d}', d, d, uphi, function_flavours(uphi, True)))
    if not integer:
        for nm, mk in (('dephasing', ch.hf_dephasing_kraus_op), ('depolarizing', ch.hf_depolarizing_kraus_op), ('amplitude-damping', ch.hf_amplitude_damping_kraus_op)):
            for rate in (0.0, 0.3, 1.0):
                K = mk(rate)
                phi = lambda r, K=K: ch.apply_kraus_op(K, r)

                def shortcut(r, K=K, rate=rate):          # a hand-written noisy channel: nothing to do at rate 0
                    if rate == 0:
                        return r
                    return ch.apply_kraus_op(K, r)
                out.append((f'{nm} rate={rate}', 2, 2, phi, [('fresh', phi), ('rate-0-shortcut', shortcut)]))
    for rep in range(2):
        din = int(rng.integers(1, 4)); dout = int(rng.integers(1, 4)); n = int(rng.integers(max(1, -(-din // dout)), din * dout + 1))
        K = rg(rng, (n, dout, din), 2, True) if integer else numqi.random.rand_kraus_op(n, din, dout, seed=int(rng.integers(1 << 30)))
        phi = lambda r, K=K: ch.apply_kraus_op(K, r)
        out.append((f'kraus {din}->{dout} ({n} terms)', din, dout, phi, function_flavours(phi, din == dout and not np.iscomplexobj(K))))
    return out


def probe_function_channels(ctx, rng):
    """channels given as python FUNCTIONS to hf_channel_to_choi_op / hf_channel_to_kraus_op: the returned Choi operator / Kraus set must implement
    the function (apply_choi_op / apply_kraus_op on random states = the function on a copy of the state), be trace preserving when the channel is,
    and must not share memory with any array the function was handed"""
    import numqi
    ch = numqi.channel
    for label, din, dout, phi, flavours in function_channels(rng, [1, 2, 3], integer=False):
        for flav, fn in flavours:
            info = dict(op='hf_channel_to_choi_op / hf_channel_to_kraus_op', channel=label, function_kind=flav, dim_in=din, dim_out=dout)
            seen = []

            def spy(r, fn=fn):
                seen.append(r)
                return fn(r)
            try:
                C4 = ch.hf_channel_to_choi_op(spy, din); C = np.asarray(C4).reshape(din * dout, din * dout)
                alias_c = any(np.shares_memory(C4, x) for x in seen if isinstance(x, np.ndarray))
                seen_k = []

                def spy_k(r, fn=fn):
                    seen_k.append(r)
                    return fn(r)
                K = ch.hf_channel_to_kraus_op(spy_k, din)
                r2 = np.random.default_rng(7 + din)
                rho = r2.normal(size=(din, din)) + 1j * r2.normal(size=(din, din)); rho = rho @ rho.conj().T; rho /= np.trace(rho).real
                want = phi(rho.copy())
                e_c = maxdiff(ch.apply_choi_op(C, rho), want)
                e_k = maxdiff(ch.apply_kraus_op(K, rho), want) if K.shape[0] else float(np.abs(want).max())
            except Exception as e:
                ctx.fail('function-channel-raises', f'{type(e).__name__}: {e} ({label}, {flav})', info); continue
            if e_c > 1e-12 or alias_c:
                ctx.fail(FNCH_KEY, f'hf_channel_to_choi_op(<{flav} function of the {label} channel>, {din}) does not implement the function: '
                         f'|apply_choi_op(C, rho) - f(rho)| = {e_c:.3e}, {int(np.count_nonzero(C))} non-zero entries of {C.size} '
                         f'(result shares memory with a probe: {alias_c})', dict(info, choi=[[repr(complex(x)) for x in row] for row in C][:4]))
            if e_k > 1e-9:
                ctx.fail('hf_channel_to_kraus_op:function-channel', f'hf_channel_to_kraus_op(<{flav} function of the {label} channel>, {din}) returned {K.shape[0]} Kraus operators that do not '
                         f'implement the function: |apply_kraus_op(K, rho) - f(rho)| = {e_k:.3e}', dict(info, kraus_shape=list(K.shape)))
            if not (e_c > 1e-12 or alias_c or e_k > 1e-9):
                ctx.probe_ok(('function-channel', label, flav)); ctx.count('function-channel-' + flav)


def probe_optional_args(ctx, rng):
    """every optional argument of the metric functions supplied explicitly must reproduce the default call: `tr_rho_log_rho` of
    get_relative_entropy (= tr rho log rho = -S(rho), numpy and torch; this is how PureBosonicExt / the boundary solvers call it),
    `_torch_logm` in {'eigen', ('pade',6,8), ('pade',4,6)} with and without requires_grad, for get_relative_entropy and get_von_neumann_entropy;
    monotonicity under a channel evaluated through the optional-argument path"""
    import numqi, torch
    U = numqi.utils; ch = numqi.channel
    for rep in range(8 if ctx.quick() else 60):
        d = int(rng.integers(2, 5)); seed = int(rng.integers(1 << 30)); r2 = np.random.default_rng(seed)
        kind = ['full', 'low', 'pure'][rep % 3]
        rho, sig = rand_state(r2, d, kind), rand_state(r2, d, 'full')
        info = dict(op='get_relative_entropy(rho, sigma, tr_rho_log_rho=-S(rho))', d=d, rho_kind=kind, state_seed=seed)
        try:
            trl = -float(U.get_von_neumann_entropy(rho))
            base = float(U.get_relative_entropy(rho, sig)); rt, st = torch.tensor(rho), torch.tensor(sig)
            vals = dict(numpy_supplied=float(U.get_relative_entropy(rho, sig, tr_rho_log_rho=trl)), numpy_positional=float(U.get_relative_entropy(rho, sig, trl)),
                        torch_default=float(U.get_relative_entropy(rt, st)), torch_supplied=float(U.get_relative_entropy(rt, st, tr_rho_log_rho=trl)),
                        torch_eigen=float(U.get_relative_entropy(rt, st, _torch_logm='eigen')))
            sg = torch.tensor(sig, requires_grad=True)
            pade = {k: float(U.get_relative_entropy(rt, sg, tr_rho_log_rho=trl, _torch_logm=v)) for k, v in (('pade68', ('pade', 6, 8)), ('pade46', ('pade', 4, 6)), ('eigen-grad', 'eigen'))}
            ent = dict(default=float(U.get_von_neumann_entropy(rho)), torch_pade_nograd=float(U.get_von_neumann_entropy(rt, _torch_logm=('pade', 6, 8))),
                       torch_eigen=float(U.get_von_neumann_entropy(rt, _torch_logm='eigen')))
            rg_ = torch.tensor(sig, requires_grad=True)
            ent['torch_pade_grad(sigma)'] = float(U.get_von_neumann_entropy(rg_, _torch_logm=('pade', 6, 8))); ent['sigma_default'] = float(U.get_von_neumann_entropy(sig))
            # monotonicity through the optional-argument path
            K = numqi.random.rand_kraus_op(int(r2.integers(1, 4)) + 1, d, d, seed=int(r2.integers(1 << 30)))
            o0, o1 = ch.apply_kraus_op(K, rho), ch.apply_kraus_op(K, sig)
            s_out = float(U.get_relative_entropy(o0, o1, tr_rho_log_rho=-float(U.get_von_neumann_entropy(o0)))) if np.linalg.eigvalsh(o1).min() > 1e-6 else None
        except Exception as e:
            ctx.fail('relative-entropy-optional-arg-raises', f'{type(e).__name__}: {e}', info); continue
        tol = 1e-10 * max(1.0, abs(base))
        bad = {k: v for k, v in vals.items() if abs(v - base) > tol}
        bad.update({k: v for k, v in pade.items() if abs(v - base) > 1e-7 * max(1.0, abs(base))})
        bad_e = {k: v for k, v in ent.items() if k not in ('default', 'sigma_default', 'torch_pade_grad(sigma)') and abs(v - ent['default']) > 1e-10}
        if abs(ent['torch_pade_grad(sigma)'] - ent['sigma_default']) > 1e-7:
            bad_e['torch_pade_grad(sigma)'] = ent['torch_pade_grad(sigma)']
        if bad:
            k0 = sorted(bad)[0]
            ctx.fail('relative-entropy-optional-arg', f'get_relative_entropy with an optional argument supplied differs from the default call {base!r}: {bad} '
                     f'(tr_rho_log_rho = -S(rho) = {trl!r}; first: {k0})', dict(info, default=base, with_optional=dict(vals, **pade), tr_rho_log_rho=trl))
        elif bad_e:
            ctx.fail('entropy-optional-arg', f'get_von_neumann_entropy with _torch_logm supplied differs from the default {ent["default"]!r}: {bad_e}', dict(info, values=ent))
        elif s_out is not None and kind == 'full' and s_out > base + 1e-9 * max(1.0, abs(base)):
            ctx.fail('contractivity:relative-entropy-optional-arg', f'relative entropy (tr_rho_log_rho supplied) increases under a channel: {base} -> {s_out}', info)
        else:
            ctx.probe_ok(('optional-args', d, kind, seed)); ctx.count('optional-args')


def probe_reuse(ctx):
    """input class "buffer reuse across calls" for every returning public function of numqi.channel (numpy, and torch where offered) and the
    noise-channel constructors: two different inputs of the same size, see `reuse_check`"""
    import numqi, torch
    ch = numqi.channel
    r = np.random.default_rng(12345)
    for din, dout, n in ((1, 1, 1), (2, 2, 2), (2, 3, 3)):
        KA, KB = (numqi.random.rand_kraus_op(n, din, dout, seed=s_) for s_ in (1, 2))
        CA, CB = ch.kraus_op_to_choi_op(KA).copy(), ch.kraus_op_to_choi_op(KB).copy()
        SA, SB = ch.kraus_op_to_super_op(KA).copy(), ch.kraus_op_to_super_op(KB).copy()
        mk = lambda: (lambda a: a @ a.conj().T / np.trace(a @ a.conj().T).real)(r.normal(size=(din, din)) + 1j * r.normal(size=(din, din)))
        rA, rB = mk(), mk()
        tag = f'[{din}->{dout}]'
        reuse_check(ctx, 'kraus_op_to_choi_op' + tag, ch.kraus_op_to_choi_op, (KA,), (KB,))
        reuse_check(ctx, 'kraus_op_to_choi_op[torch]' + tag, ch.kraus_op_to_choi_op, (torch.tensor(KA),), (torch.tensor(KB),))
        reuse_check(ctx, 'kraus_op_to_super_op' + tag, ch.kraus_op_to_super_op, (KA,), (KB,))
        reuse_check(ctx, 'choi_op_to_kraus_op' + tag, lambda C: ch.choi_op_to_kraus_op(C, din), (CA,), (CB,))
        reuse_check(ctx, 'super_op_to_kraus_op' + tag, ch.super_op_to_kraus_op, (SA,), (SB,))
        reuse_check(ctx, 'choi_op_to_super_op' + tag, lambda C: ch.choi_op_to_super_op(C, din), (CA,), (CB,))
        reuse_check(ctx, 'super_op_to_choi_op' + tag, ch.super_op_to_choi_op, (SA,), (SB,))
        reuse_check(ctx, 'apply_kraus_op' + tag, ch.apply_kraus_op, (KA, rA), (KB, rB))
        reuse_check(ctx, 'apply_choi_op' + tag, ch.apply_choi_op, (CA, rA), (CB, rB))
        reuse_check(ctx, 'apply_choi_op[torch]' + tag, ch.apply_choi_op, (torch.tensor(CA), torch.tensor(rA)), (torch.tensor(CB), torch.tensor(rB)))
        reuse_check(ctx, 'apply_super_op' + tag, ch.apply_super_op, (SA, rA), (SB, rB))
        reuse_check(ctx, 'hf_channel_to_choi_op' + tag, lambda K: ch.hf_channel_to_choi_op(lambda x: ch.apply_kraus_op(K, x), din), (KA,), (KB,))
        reuse_check(ctx, 'hf_channel_to_kraus_op' + tag, lambda K: ch.hf_channel_to_kraus_op(lambda x: ch.apply_kraus_op(K, x), din), (KA,), (KB,))
        if din >= 2 and dout >= 2:
            reuse_check(ctx, 'choi_op_to_bloch_map' + tag, lambda C: ch.choi_op_to_bloch_map(C.reshape(din, dout, din, dout)), (CA,), (CB,))
    for nm, fn in (('hf_dephasing_kraus_op', ch.hf_dephasing_kraus_op), ('hf_depolarizing_kraus_op', ch.hf_depolarizing_kraus_op), ('hf_amplitude_damping_kraus_op', ch.hf_amplitude_damping_kraus_op)):
        reuse_check(ctx, nm, fn, (0.3,), (0.7,), describe=dict(A='rate 0.3', B='rate 0.7'))


def probe_classical(ctx, rng):
    """a classical channel through the real code: random column-stochastic M with dyadic perfect-square entries, Kraus set sqrt(M_ij)|i><j| (exact),
    `apply_kraus_op` on diag(p), diag(q): outputs are diag(Mp), diag(Mq); then trace distance does not increase, fidelity does not decrease,
    relative entropy does not increase (the three theorems `*_classical_*`), evaluated with the real metric functions"""
    import numqi
    ch = numqi.channel; U = numqi.utils
    cols = [(16,), (4, 4, 4, 4), (9, 4, 1, 1, 1), (9, 1, 1, 1, 4), (4, 4, 4, 1, 1, 1, 1), (1,) * 16, (9, 4, 1, 1, 1), (4, 9, 1, 1, 1)]
    for rep in range(8 if ctx.quick() else 60):
        d = int(rng.integers(2, 5)); e = int(rng.integers(2, 6)); seed = int(rng.integers(1 << 30)); r2 = np.random.default_rng(seed)
        M = np.zeros((e, d))
        for j in range(d):
            # a column of sixteenths that are perfect squares (so that sqrt(M_ij) and its square are exact), padded / replaced to length e
            c = list(cols[int(r2.integers(len(cols)))])
            c = c + [0] * (e - len(c)) if len(c) <= e else [16] + [0] * (e - 1)
            M[:, j] = np.array(r2.permutation(c)) / 16.0
        p = r2.uniform(0.05, 1, size=d); p /= p.sum(); q = r2.uniform(0.05, 1, size=d); q /= q.sum()
        info = dict(op='apply_kraus_op with K_(i,j) = sqrt(M_ij)|i><j| on diag(p), diag(q)', M=M.tolist(), p=p.tolist(), q=q.tolist(), seed=seed)
        try:
            K = np.zeros((e * d, e, d))
            for i in range(e):
                for j in range(d):
                    K[i * d + j, i, j] = np.sqrt(M[i, j])
            o0 = ch.apply_kraus_op(K, np.diag(p)); o1 = ch.apply_kraus_op(K, np.diag(q))
            ok_diag = (np.abs(o0 - np.diag(np.diag(o0))).max() == 0 and np.abs(np.diag(o0).real - M @ p).max() < 1e-15 and abs(np.trace(o0).real - 1) < 1e-14
                       and np.abs(np.diag(o1).real - M @ q).max() < 1e-15)
            t_in, t_out = U.get_trace_distance(np.diag(p), np.diag(q)), U.get_trace_distance(o0, o1)
            f_in, f_out = U.get_fidelity(np.diag(p), np.diag(q)), U.get_fidelity(o0, o1)
            oo1 = o1 if np.diag(o1).real.min() > 1e-9 else None
            s_in = U.get_relative_entropy(np.diag(p), np.diag(q)); s_out = U.get_relative_entropy(o0, oo1) if oo1 is not None else None
        except Exception as ex:
            ctx.fail('classical-channel-raises', f'{type(ex).__name__}: {ex}', info); continue
        msgs = []
        if not ok_diag:
            msgs.append('output is not diag(M p)')
        if t_out > t_in + 1e-14:
            msgs.append(f'trace distance increases {t_in} -> {t_out}')
        if f_out < f_in - 1e-12:
            msgs.append(f'fidelity decreases {f_in} -> {f_out}')
        if s_out is not None and s_out > s_in + 1e-12:
            msgs.append(f'relative entropy increases {s_in} -> {s_out}')
        if msgs:
            ctx.fail('contractivity:classical-channel', '; '.join(msgs), info)
        else:
            ctx.probe_ok(('classical', d, e, seed)); ctx.count('classical-channel-probe')


def probe_values(ctx, rng):
    """independent oracles for the functions whose exact tie treats a LAPACK call as data: purity (= tr rho^2 = sum |rho_ij|^2), trace
    distance (= half the nuclear norm, via SVD), the `zero_eps` cut of choi_op_to_kraus_op (number of Kraus operators = number of
    eigenvalues >= zero_eps, and the kept ones reproduce the Choi operator up to the discarded weight), batched von Neumann entropy"""
    import numqi, torch
    U = numqi.utils; ch = numqi.channel
    for rep in range(10 if ctx.quick() else 80):
        d = int(rng.integers(1, 6)); seed = int(rng.integers(1 << 30)); r2 = np.random.default_rng(seed)
        kind = ['full', 'low', 'pure'][rep % 3]
        rho, sig = rand_state(r2, d, kind), rand_state(r2, d, 'full')
        info = dict(d=d, state_kind=kind, state_seed=seed)
        try:
            pu = float(U.get_purity(rho)); put = float(U.get_purity(torch.tensor(rho)))
            A = r2.normal(size=(d, d)) + 1j * r2.normal(size=(d, d)); A = A + A.conj().T      # Hermitian, not normalised
            pa = float(U.get_purity(A))
            td = float(U.get_trace_distance(rho, sig))
        except Exception as e:
            ctx.fail('metric-value-raises', f'{type(e).__name__}: {e}', dict(info, op='get_purity / get_trace_distance')); continue
        want = float(np.trace(rho @ rho).real)
        if abs(pu - want) > 1e-12 or abs(put - want) > 1e-12 or not (1 / d - 1e-12 <= pu <= 1 + 1e-12) or abs(pa - float((np.abs(A) ** 2).sum())) > 1e-10 * max(1.0, pa):
            ctx.fail('purity-value', f'get_purity(rho) = {pu} (torch {put}) but tr(rho^2) = {want}; Hermitian matrix: {pa} vs sum|a_ij|^2 = {float((np.abs(A) ** 2).sum())}',
                     dict(info, op='get_purity', rho=[[repr(complex(x)) for x in row] for row in rho]))
        elif abs(td - 0.5 * float(np.linalg.svd(rho - sig, compute_uv=False).sum())) > 1e-12:
            ctx.fail('trace-distance-value', f'get_trace_distance = {td} but half the nuclear norm of rho - sigma is {0.5 * float(np.linalg.svd(rho - sig, compute_uv=False).sum())}',
                     dict(info, op='get_trace_distance'))
        else:
            ctx.probe_ok(('values', d, kind, seed))
    for rep in range(9 if ctx.quick() else 60):
        din = int(rng.integers(1, 4)); dout = int(rng.integers(1, 4)); m = din * dout; seed = int(rng.integers(1 << 30))
        nk = max([1, max(1, m // 2), m][rep % 3], -(-din // dout))
        eps = [0.2, 1e-3, 1e-10][rep % 3]
        info = dict(op='choi_op_to_kraus_op(C, dim_in, zero_eps)', din=din, dout=dout, kraus_terms=nk, kraus_seed=seed, zero_eps=eps)
        try:
            C = ch.kraus_op_to_choi_op(numqi.random.rand_kraus_op(nk, din, dout, seed=seed))
            evl, evc = np.linalg.eigh(C)
            # every other case: a threshold strictly inside the positive spectrum (between two adjacent eigenvalues)
            gaps = [j for j in range(m - 1) if evl[j + 1] - evl[j] > 1e-6 and evl[j + 1] > 1e-6]
            if rep % 2 == 0 and gaps:
                j = gaps[int(rng.integers(len(gaps)))]
                eps = float(max(evl[j], 0.0) + evl[j + 1]) / 2
                info['zero_eps'] = eps
            K = ch.choi_op_to_kraus_op(C, din, eps)
            K_s = ch.super_op_to_kraus_op(ch.choi_op_to_super_op(C, din), zero_eps=eps)
            keep = evl >= eps
            C_keep = (evc[:, keep] * evl[keep]) @ evc[:, keep].conj().T
            err = maxdiff(ch.kraus_op_to_choi_op(K), C_keep) if K.shape[0] else float(np.abs(C_keep).max(initial=0.0))
        except Exception as e:
            ctx.fail('choi-to-kraus-raises', f'{type(e).__name__}: {e}', info); continue
        if K_s.shape[0] != int(keep.sum()) or (K_s.shape[0] and maxdiff(ch.kraus_op_to_choi_op(K_s), C_keep) > 1e-10):
            ctx.fail('super-to-kraus-zero-eps', f'super_op_to_kraus_op(zero_eps={eps}) returned {K_s.shape[0]} Kraus operators, the Choi operator has {int(keep.sum())} eigenvalues >= zero_eps '
                     f'(spectrum {evl.tolist()})', dict(info, op='super_op_to_kraus_op(choi_op_to_super_op(C, dim_in), zero_eps)'))
        elif K.shape[0] != int(keep.sum()) or err > 1e-10:
            ctx.fail('choi-to-kraus-zero-eps', f'choi_op_to_kraus_op(zero_eps={eps}) returned {K.shape[0]} Kraus operators, the Choi operator has {int(keep.sum())} eigenvalues >= zero_eps '
                     f'(spectrum {evl.tolist()}); distance of their Choi operator from the truncated one: {err:.3e}', info)
        else:
            ctx.probe_ok(('zero-eps', din, dout, nk, eps))
    for rep in range(6 if ctx.quick() else 24):
        d = int(rng.integers(2, 5)); seed = int(rng.integers(1 << 30)); r2 = np.random.default_rng(seed)      # d >= 2: d = 1 has entropy 0 everywhere
        shape = [(2, 3), (4,), (2, 1, 2)][rep % 3]
        big = np.stack([rand_state(r2, d, ['full', 'low'][i % 2]) for i in range(int(np.prod(shape)))]).reshape(*shape, d, d)
        info = dict(op='get_von_neumann_entropy (batched)', batch_shape=list(shape), d=d, state_seed=seed)
        try:
            rn = np.asarray(U.get_von_neumann_entropy(big)); rt = U.get_von_neumann_entropy(torch.tensor(big)).numpy()
            single = np.array([float(U.get_von_neumann_entropy(x)) for x in big.reshape(-1, d, d)]).reshape(shape)
        except Exception as e:
            ctx.fail('entropy-batched-raises', f'{type(e).__name__}: {e}', info); continue
        if rn.shape != tuple(shape) or rt.shape != tuple(shape) or np.abs(rn - single).max() > 1e-12 or np.abs(rt - single).max() > 1e-12:
            ctx.fail('entropy-batched', f'batched get_von_neumann_entropy {rn.tolist()} (torch {rt.tolist()}) differs from the entropies of the individual states {single.tolist()}', info)
        else:
            ctx.probe_ok(('entropy-batched', shape, d))


def corpus_replay(ctx):
    """/verif/corpus/C12/*.json: the recorded failing inputs of every repaired defect, replayed first on every run (both tiers)"""
    import glob, json, os, numqi, torch, warnings
    U = numqi.utils
    for path in sorted(glob.glob(os.path.join(common.VERIF, 'corpus', 'C12', '*.json'))):
        tag = os.path.basename(path)[:-5]
        for j, e in enumerate(json.load(open(path))['entries']):
            if e.get('kind') == 'function_channel':
                d = e['dim']; ch = numqi.channel
                fn = {'returns-argument': lambda r: r, 'returns-view': lambda r: r.reshape(d, d), 'returns-transposed-view': lambda r: r.T,
                      'rate-0-shortcut': (lambda r, p=0.0: r if p == 0 else ch.apply_kraus_op(ch.hf_dephasing_kraus_op(p), r))}[e['function']]
                want = np.zeros((d * d, d * d))
                for a in range(d):
                    for b in range(d):
                        if e['function'] == 'returns-transposed-view':
                            want[a * d + b, b * d + a] = 1          # the transpose map
                        else:
                            want[a * d + a, b * d + b] = 1          # the identity channel
                rep = dict(op='hf_channel_to_choi_op', corpus=f'{tag}#{j}', dim_in=d, function_kind=e['function'])
                got = guarded(lambda: np.asarray(ch.hf_channel_to_choi_op(fn, d)).reshape(d * d, d * d))
                if isinstance(got, str) or not np.array_equal(got, want):
                    ctx.fail(FNCH_KEY, f'[corpus {tag}] hf_channel_to_choi_op(<{e["function"]} function>, {d}) has {0 if isinstance(got, str) else int(np.count_nonzero(got))} non-zero entries, '
                             f'the Choi operator of that map has {int(want.sum())}', rep)
                else:
                    ctx.probe_ok(('corpus', tag, j))
                continue
            if e.get('kind') != 'renyi':
                continue
            states = []
            if e['state'] == 'pure':
                v = np.array([complex(x) for x in e['vector']]); v = v / np.linalg.norm(v)
                states.append(('vector ' + repr(e['vector']), np.outer(v, v.conj())))
            else:
                for sd in e['seeds']:
                    states.append((f'{e["state"]} seed {sd}', rand_state(np.random.default_rng(sd), e['d'], 'pure' if e['state'].startswith('pure') else 'low')))
            for desc, rho in states:
                d = rho.shape[0]
                for a in e['alphas']:
                    rep = dict(op='get_Renyi_entropy', corpus=f'{tag}#{j}', state=desc, alpha=a, d=d)
                    try:
                        with warnings.catch_warnings():
                            warnings.simplefilter('ignore')
                            v = float(U.get_Renyi_entropy(rho, a)); t = float(U.get_Renyi_entropy(torch.tensor(rho), a))
                    except Exception as ex:
                        ctx.fail(RENYI_KEY, f'[corpus {tag}] get_Renyi_entropy raises {type(ex).__name__}', rep); continue
                    tol = 1e-12 * d
                    if not (np.isfinite(v) and np.isfinite(t)) or not (-tol <= v <= np.log(d) + tol) or not (-tol <= t <= np.log(d) + tol):
                        ctx.fail(RENYI_KEY, f'[corpus {tag}] get_Renyi_entropy(rho, alpha={a}) = {v} (numpy) / {t} (torch) for {desc} (d={d}); must lie in [0, log d]', rep)
                    else:
                        ctx.probe_ok(('corpus', tag, j, desc, a))


def probe_renyi(ctx, rng):
    """`get_Renyi_entropy` on full-rank / low-rank / pure states, numpy and torch: finite, in [0, log d], non-increasing in the order,
    von Neumann entropy between the orders below and above 1, equal to log d on the maximally mixed state"""
    import numqi, torch, warnings
    U = numqi.utils
    alphas = [0.3, 0.5, 0.9, 1.5, 2.0, 3.0]
    for rep in range(12 if ctx.quick() else 90):
        d = int(rng.integers(2, 6)); kind = ['full', 'low', 'pure'][rep % 3]; seed = int(rng.integers(1 << 30))
        rho = rand_state(np.random.default_rng(seed), d, kind)
        info = dict(op='get_Renyi_entropy', d=d, state_kind=kind, state_seed=seed, rho=[[repr(complex(x)) for x in row] for row in rho])
        try:
            with warnings.catch_warnings():
                warnings.simplefilter('ignore')
                vals = [float(U.get_Renyi_entropy(rho, a)) for a in alphas]
                valt = [float(U.get_Renyi_entropy(torch.tensor(rho), a)) for a in alphas]
                vn = float(U.get_von_neumann_entropy(rho))
        except Exception as e:
            ctx.fail('renyi-entropy-raises', f'{type(e).__name__}: {e}', info); continue
        nan = [(a, v, t) for a, v, t in zip(alphas, vals, valt) if not (np.isfinite(v) and np.isfinite(t))]
        if nan:
            a, v, t = nan[0]
            ctx.fail(RENYI_KEY, f'get_Renyi_entropy(rho, alpha={a}) = {v} (numpy) / {t} (torch) for a {kind} state of dimension {d} whose eigvalsh is '
                     f'{np.linalg.eigvalsh(rho).tolist()}: a slightly negative eigenvalue raised to a fractional power is NaN (no clipping as in '
                     f'get_von_neumann_entropy); the value must lie in [0, log d] = [0, {np.log(d):.6f}]', dict(info, alpha=a, orders_with_nan=[x[0] for x in nan]))
            continue
        tol = 1e-12 * d          # round-off: a few ulp per eigenvalue, amplified by 1/|1-alpha| <= 10 (the repaired code returns -4.4e-16 for pure states)
        msgs = []
        if any(not (-tol <= v <= np.log(d) + tol) for v in vals + valt):
            msgs.append(f'out of [0, log d]: {vals}')
        # conditioning: for a rank-deficient state the d - r null eigenvalues come back as noise of size ~1e-16 whose alpha-th power enters the
        # sum, so S_alpha is determined only up to d * (1e-14)^min(alpha,1) / |1 - alpha| (5e-4 at alpha = 0.3, round-off for alpha >= 1)
        noise = [1e-9 if kind == 'full' else d * (1e-14) ** min(a, 1.0) / abs(1 - a) + 1e-9 for a in alphas]
        if any(abs(a - b) > nz for a, b, nz in zip(vals, valt, noise)):
            msgs.append(f'numpy {vals} != torch {valt}')
        if any(vals[i] < vals[i + 1] - noise[i] for i in range(len(vals) - 1)):
            msgs.append(f'not non-increasing in alpha: {vals}')
        if not (vals[3] - 1e-7 <= vn <= vals[2] + 1e-7 + noise[2]):
            msgs.append(f'von Neumann entropy {vn} not between S_1.5={vals[3]} and S_0.9={vals[2]}')
        if msgs:
            ctx.fail('renyi-entropy-range', '; '.join(msgs), dict(info, alphas=alphas))
        else:
            ctx.probe_ok(('renyi', d, kind, seed))
    for d in (1, 2, 5):
        v = guarded(lambda: float(U.get_Renyi_entropy(np.eye(d) / d, 2.0)))
        if isinstance(v, str):
            ctx.fail('renyi-entropy-raises', f'get_Renyi_entropy(1/d, 2.0) raises ({v})', dict(op='get_Renyi_entropy', d=d, alpha=2.0, rho='maximally mixed')); continue
        if abs(v - np.log(d)) > 1e-12:
            ctx.fail('renyi-entropy-range', f'S_2(1/d) = {v} != log {d}', dict(op='get_Renyi_entropy', d=d, alpha=2.0, rho='maximally mixed'))
        else:
            ctx.probe_ok(('renyi-mixed', d))


def search(ctx, hints):
    """replay disagreeing conversion ops directly against the defining sums"""
    import numqi
    ch = numqi.channel
    for d in hints[:50]:
        t = d['op'].split(' ')
        try:
            if t[1] in ('k2c', 'k2s', 'apk'):
                n, dout, din = int(t[2]), int(t[3]), int(t[4])
                K = np.array([complex(*map(int, e.split(','))) for e in t[5].split(';')]).reshape(n, dout, din)
                rng = np.random.default_rng(0)
                rho = rg(rng, (din, din), 3, True)
                want = sum(k @ rho @ k.conj().T for k in K)
                for nm, got in (('apply_choi', ch.apply_choi_op(ch.kraus_op_to_choi_op(K), rho)), ('apply_super', ch.apply_super_op(ch.kraus_op_to_super_op(K), rho)),
                                ('apply_kraus', ch.apply_kraus_op(K, rho))):
                    if not np.array_equal(got, want):
                        ctx.fail('channel-equivalence:' + nm, f'{nm} != sum K rho K^dag on integer data ({din}->{dout}, {n} terms)',
                                 dict(op=nm, K=t[5], rho=gl(rho), din=din, dout=dout))
            if t[1] == 'c2k':
                # the interception of the eigen-decomposition did not give the modelled answer: replay on the real code, all memory layouts
                din, dout = int(t[2]), int(t[3]); m = din * dout
                A = np.array([complex(*map(int, e.split(','))) for e in t[5].split(';')]).reshape(m, m)
                C = A @ A.conj().T
                rng = np.random.default_rng(0)
                rho = rg(rng, (din, din), 3, True)
                want = ch.apply_choi_op(C.copy(), rho)
                for lay, conv in (('C-order', np.ascontiguousarray),) + LAYOUTS:
                    Cx = conv(C.copy()); keep = Cx.copy()
                    K = ch.choi_op_to_kraus_op(Cx, din)
                    info = dict(op='choi_op_to_kraus_op', layout=lay, dim_in=din, dim_out=dout, choi=gl(C))
                    if not np.array_equal(Cx, keep):
                        ctx.fail('mutates-input:choi_op_to_kraus_op', f'choi_op_to_kraus_op modified its {lay} Choi argument in place', info); break
                    got = ch.apply_kraus_op(K, rho)
                    if maxdiff(got, want) > 1e-9 * max(1.0, float(np.abs(want).max())):
                        ctx.fail('channel-equivalence:choi_to_kraus', f'the Kraus set returned for a {lay} Choi operator is not the same channel', info); break
        except Exception:
            continue
