"""C04 — hand-written backward passes return the true gradient.

Model: lean/NumqiModel/Backward.lean (+ Sim.lean for gate application).  Theorems: lean/NumqiProps/C04.lean.
Correspondence: the numpy backward rules (`apply_gate_grad`, `apply_control_n_gate_grad`), the whole
`_CircuitFunction.backward` sweep with the real index maps of `CircuitTorchWrapper._setup`, the Knill-Laflamme custom
Function and the flat-parameter bridge are executed on Gaussian-integer data and must equal the model bit for bit; the
Sylvester rule of the PSD square root is compared with the exact rational model value (tolerance 1e-11 relative).
Probe: central finite differences and a pure-autograd re-implementation on the real torch objects.
"""
import itertools, math, struct
from fractions import Fraction
import numpy as np
from . import common

THEOREM_FILES = ['NumqiProps/C04.lean', 'NumqiProps/C04Params.lean']
LEVEL = 'proof'
RULE = ('gate rules: n in 1..5, gate size 1..3, random target tuples in any order, random control sets, Gaussian-integer unitary (signed '
        'permutation x phase) and non-unitary matrices, tag_op_grad on/off; sweeps: random circuits built through the real Circuit / '
        'CircuitTorchWrapper (fixed, trainable, shared, controlled-parametrised and placeholder gates) with integer gate tensors; KL: '
        'random operator sequences, L in {1,2,4}; Sylvester rule: sizes 1..4, repeat 1..3, incl. one zero root; flat bridge: random '
        "parameter names/shapes. Round 7: circuits with kind='custom' gates (FractionalGroverOracle trainable/frozen/shared, GroverOracle) "
        'on 2 and 4 qubits; stacked-tensor rows of forward/setP; inner_product_grad. Non-trivial = at least 2 qubits / 2 gates; distinct = distinct op lines.')
TRUSTED = ['Lean 4.33 kernel', 'axioms: propext, Classical.choice, Quot.sound', 'Lean compiler for the driver executable',
           'carriers: GInt/QI are proved to be CommRing/StarRing resp. Field instances (NumqiProofs/BackwardCarrier.lean); the theorems are instantiated at them by elaboration, not re-proved per carrier',
           'harness/c04.py canonicalisation; integer data enters through public attributes (gate.array / set_args before the wrapper is built) and through the tensor positions of the call that CircuitTorchWrapper.forward itself makes (captured, non-tensor arguments untouched)',
           'Driver/C04.lean evaluates the sweep step by step through flat arrays (same step functions `PGate.apply`/`PGate.back` as the theorem)',
           'modelled, not verified: sim/state.py, sim/_torch_utils.py, qec/_internal.py, _torch_op.py, optimize/_internal.py; torch autograd and the gate '
           'constructors hf0(theta) are not modelled (probed by finite differences)']


INT_INDEX_KEY = 'apply_gate_grad-int-index'
SWEEP_CTX = {}     # sweep op line -> (info, tensors, psi, gout, names) for the failing-input search


MUTATION_KEY = 'backward-mutates-input'


def check_unmutated(ctx, fn, replay, triples):
    """a hand-written backward rule must not write into the arrays it is given (autograd hands it zero-copy views of tensors that
    other consumers of the graph also read): `triples` = (name, array that was passed, pristine copy)"""
    for name, passed, pristine in triples:
        a = passed.detach().numpy() if hasattr(passed, 'detach') else np.asarray(passed)
        b = pristine.detach().numpy() if hasattr(pristine, 'detach') else np.asarray(pristine)
        if a.shape != b.shape or not np.array_equal(a, b, equal_nan=True):
            ctx.fail(MUTATION_KEY + ':' + fn, f'{fn} wrote into its input `{name}` (in-place modification of a buffer owned by the caller / by autograd)',
                     dict(replay, op=fn, mutated=name))
            return False
    return True


def guarded(f):
    try:
        return f()
    except AssertionError:
        return 'error'
    except Exception as e:      # any other exception becomes a value that is compared with the model: a disagreement with its input, never exit 2
        return 'error:' + type(e).__name__


def gl(a):
    a = np.asarray(a).reshape(-1)
    if a.size == 0:
        return '-'
    out = []
    for v in a:
        v = complex(v)
        r, i = round(v.real), round(v.imag)
        if v.real != r or v.imag != i:
            return 'nonintegral'
        out.append(f'{int(r)},{int(i)}')
    return ';'.join(out)


def bits(x):
    return struct.unpack('<Q', struct.pack('<d', float(x)))[0]


def il(a):
    a = list(a)
    return ';'.join(str(int(x)) for x in a) if a else '-'


def rg(rng, shape, m=2):
    return (rng.integers(-m, m + 1, size=shape) + 1j * rng.integers(-m, m + 1, size=shape)).astype(np.complex128)


def rand_unitary_gint(rng, d):
    """signed permutation matrix with phases in {1, i, -1, -i}: a Gaussian-integer unitary"""
    p = rng.permutation(d)
    u = np.zeros((d, d), dtype=np.complex128)
    u[np.arange(d), p] = np.array([1, 1j, -1, -1j])[rng.integers(0, 4, size=d)]
    return u


def rand_mat(rng, d, unitary):
    return rand_unitary_gint(rng, d) if unitary else rg(rng, (d, d), 2)


# ---------------------------------------------------------------------------
# correspondence
# ---------------------------------------------------------------------------
def gate_ops(ctx, rng, add):
    import numqi
    st = numqi.sim.state
    nrep = 40 if ctx.quick() else 400
    for rep in range(nrep):
        n = int(rng.integers(1, 6))
        k = int(rng.integers(1, min(3, n) + 1))
        t = [int(x) for x in rng.permutation(n)[:k]]
        unitary = bool(rep % 2)
        U = rand_mat(rng, 2 ** k, unitary)
        qc = rg(rng, 2 ** n, 3); g = rg(rng, 2 ** n, 3)
        idx = t if len(t) > 1 or rep % 3 else t[0]          # bare int index path

        def f(qc=qc, g=g, U=U, idx=idx, n=n, t=t):
            qc_in, g_in, U_in = qc.copy(), g.copy(), U.copy()
            a, b, c = st.apply_gate_grad(qc_in, g_in, U_in, idx)
            check_unmutated(ctx, 'apply_gate_grad', dict(n=n, index=t, U=gl(U), q0_conj=gl(qc), q0_grad=gl(g)),
                            [('q0_conj', qc_in, qc), ('q0_grad', g_in, g), ('op', U_in, U)])
            return f'{gl(a)}|{gl(b)}|{gl(c)}'
        add(f'C04 gg {n} {il(t)} {gl(U)} {gl(qc)} {gl(g)}', f,
            finding=(INT_INDEX_KEY, f'apply_gate_grad(q0_conj, q0_grad, op, index={idx!r}) raises for a bare int index although apply_gate accepts it',
                     dict(op='apply_gate_grad', n=n, index=idx, U=gl(U), q0_conj=gl(qc), q0_grad=gl(g))) if isinstance(idx, int) else None)
        if rep % 5 == 0:
            def f2():
                a, b, c = st.apply_gate_grad(qc.copy(), g.copy(), U, idx, tag_op_grad=False)
                return f'{gl(a)}|{gl(b)}|none' if c is None else 'op_grad-not-None'
            ops_line = f'C04 gg {n} {il(t)} {gl(U)} {gl(qc)} {gl(g)}'
            add(ops_line, f2, post=lambda m: '|'.join(m.split('|')[:2]) + '|none')
        if rep % 2 == 0:
            Ur = np.rint(U.real + U.imag); qr = qc.real.copy(); grr = g.real.copy()          # real integer data
            for tag, dt in (('int64', np.int64), ('float32', np.float32), ('float64', np.float64), ('complex64', np.complex64)):
                def fr(dt=dt, tag=tag, Ur=Ur, qr=qr, grr=grr, idx=idx, n=n, t=t):
                    qc_in, g_in, U_in = qr.astype(dt), grr.astype(dt), Ur.astype(dt)
                    a, b, c = st.apply_gate_grad(qc_in, g_in, U_in, idx)
                    check_unmutated(ctx, f'apply_gate_grad[{tag}]', dict(n=n, index=t, dtype=tag, U=gl(Ur), q0_conj=gl(qr), q0_grad=gl(grr)),
                                    [('q0_conj', qc_in, qr.astype(dt)), ('q0_grad', g_in, grr.astype(dt)), ('op', U_in, Ur.astype(dt))])
                    return f'{gl(a)}|{gl(b)}|{gl(c)}'
                add(f'C04 gg {n} {il(t)} {gl(Ur)} {gl(qr)} {gl(grr)}', fr)
                ctx.count('gate-dtype-' + tag)

            def fview(U=U, qc=qc, g=g, idx=idx, n=n, t=t):
                bigq = np.zeros(2 * len(qc), dtype=qc.dtype); bigq[::2] = qc
                bigg = np.zeros(2 * len(g), dtype=g.dtype); bigg[1::2] = g
                Uv = np.ascontiguousarray(U.T).T
                a, b, c = st.apply_gate_grad(bigq[::2], bigg[1::2], Uv, idx)
                ok = np.array_equal(bigq[::2], qc) and np.array_equal(bigg[1::2], g) and np.array_equal(Uv, U) and not bigq[1::2].any() and not bigg[::2].any()
                if not ok:
                    ctx.fail(MUTATION_KEY + ':apply_gate_grad[view]', 'apply_gate_grad wrote into a strided view it was given (or next to it)',
                             dict(n=n, index=t, U=gl(U), q0_conj=gl(qc), q0_grad=gl(g)))
                return f'{gl(a)}|{gl(b)}|{gl(c)}'
            add(f'C04 gg {n} {il(t)} {gl(U)} {gl(qc)} {gl(g)}', fview)
        ctx.count(f'gate-n{n}-k{k}-{"unitary" if unitary else "general"}')
        # controlled
        if n >= 2:
            nc = int(rng.integers(1, n))
            perm = [int(x) for x in rng.permutation(n)]
            c = sorted(perm[:nc])
            kk = int(rng.integers(1, min(2, n - nc) + 1))
            tt = perm[nc:nc + kk]
            Uc = rand_mat(rng, 2 ** kk, unitary)
            cset = set(c) if rep % 2 else (c[0] if len(c) == 1 else tuple(c))

            def fc(qc=qc, g=g, Uc=Uc, cset=cset, tt=tt, c=c, n=n):
                qc_in, g_in, U_in = qc.copy(), g.copy(), Uc.copy()
                a, b, cc = st.apply_control_n_gate_grad(qc_in, g_in, U_in, cset, tuple(tt) if len(tt) > 1 else tt[0])
                check_unmutated(ctx, 'apply_control_n_gate_grad', dict(n=n, controls=c, index=tt, U=gl(Uc), q0_conj=gl(qc), q0_grad=gl(g)),
                                [('q0_conj', qc_in, qc), ('q0_grad', g_in, g), ('op', U_in, Uc)])
                return f'{gl(a)}|{gl(b)}|{gl(cc)}'
            add(f'C04 cg {n} {il(c)} {il(tt)} {gl(Uc)} {gl(qc)} {gl(g)}', fc)
            ctx.count(f'ctrl-n{n}-c{nc}-k{kk}')
    # rejected index tuples
    add(f'C04 gg 2 0;0 {gl(np.eye(4))} {gl(np.ones(4))} {gl(np.ones(4))}', lambda: gl(st.apply_gate_grad(np.ones(4, dtype=complex), np.ones(4, dtype=complex), np.eye(4), (0, 0))[0]))
    add(f'C04 cg 2 0 0 {gl(np.eye(2))} {gl(np.ones(4))} {gl(np.ones(4))}', lambda: gl(st.apply_control_n_gate_grad(np.ones(4, dtype=complex), np.ones(4, dtype=complex), np.eye(2), {0}, 0)[0]))


def random_circuit(rng, n, ngate, with_placeholder=True):
    """a circuit built through the public Circuit API: fixed / trainable / shared / controlled-parametrised / placeholder gates,
    random wiring, non-ascending target tuples"""
    import numqi
    circ = numqi.sim.Circuit(default_requires_grad=True)
    shared = []
    nph = 0
    for _ in range(ngate):
        kind = rng.choice(['fix1', 'fix2', 'fixc', 'p1', 'p2', 'pc', 'share', 'ph', 'pnograd'] if n >= 2 else ['fix1', 'p1', 'share', 'ph', 'pnograd'])
        q = [int(x) for x in rng.permutation(n)]
        ang = lambda m: tuple(float(x) for x in rng.uniform(0, 2 * np.pi, size=m))
        if kind == 'fix1':
            circ.single_qubit_gate(numqi.random.rand_haar_unitary(2, seed=int(rng.integers(1 << 30))), q[0])
        elif kind == 'fix2':
            circ.double_qubit_gate(numqi.random.rand_haar_unitary(4, seed=int(rng.integers(1 << 30))), q[0], q[1])
        elif kind == 'fixc':
            if n >= 3 and rng.integers(2):
                circ.controlled_single_qubit_gate(numqi.random.rand_haar_unitary(2, seed=int(rng.integers(1 << 30))), {q[0], q[1]}, q[2])
            else:
                circ.cnot(q[0], q[1])
        elif kind == 'p1':
            nm = rng.choice(['rx', 'ry', 'rz', 'u3'])
            g = getattr(circ, nm)(q[0], ang(3 if nm == 'u3' else 1))
            shared.append((g, 1))
        elif kind == 'p2':
            g = circ.rzz((q[0], q[1]), ang(1))
            shared.append((g, 2))
        elif kind == 'pc':
            nm = rng.choice(['crx', 'cry', 'crz', 'cu3'])
            g = getattr(circ, nm)(q[0], q[1], ang(3 if nm == 'cu3' else 1))
            shared.append((g, 'c'))
        elif kind == 'share' and shared:
            g, ar = shared[int(rng.integers(len(shared)))]
            if ar == 'c':
                if n >= 2:
                    circ.append_gate(g, ({q[0]}, (q[1],)))
            elif ar == 2:
                if n >= 2:
                    circ.append_gate(g, (q[0], q[1]))
            else:
                circ.append_gate(g, (q[0],))
        elif kind == 'ph' and with_placeholder:
            nm = rng.choice(['rx', 'rz'])
            getattr(circ, nm)(q[0], circ.P['a'][nph])
            nph += 1
        elif kind == 'pnograd':
            circ.ry(q[0], ang(1), requires_grad=False)
    if not circ.gate_index_list:
        circ.rx(0, 0.3)
    return circ, nph


CUSTOM_KEY = 'circuit-grad:custom-gate'


def random_custom_circuit(rng, nq, ngate, with_placeholder=True):
    """a circuit on 2*nq qubits with `kind='custom'` gates registered through `register_custom_gate`: trainable / frozen
    `numqi.query.FractionalGroverOracle` (all carry the same name), the non-trainable `GroverOracle`, shared oracle objects re-appended,
    interleaved with fixed / trainable / shared / controlled / placeholder gates"""
    import numqi
    n = 2 * nq
    circ = numqi.sim.Circuit(default_requires_grad=True)
    circ.register_custom_gate('fgo', numqi.query.FractionalGroverOracle)
    circ.register_custom_gate('go', numqi.query.GroverOracle)
    ang = lambda m: tuple(float(x) for x in rng.uniform(0, 2 * np.pi, size=m))
    circ.ry(n - 1, ang(1))                       # the register size is read off the ordinary gates (custom gates have index ())
    oracles, shared, nph = [], [], 0
    kinds = ['xf', 'xf', 'xg', 'xz', 'xshare', 'p1', 'p1', 'fix1', 'fixc', 'pc', 'share', 'ph']
    for _ in range(ngate):
        kind = rng.choice(kinds)
        q = [int(x) for x in rng.permutation(n)]
        if kind == 'xf':
            oracles.append(circ.fgo(nq, float(rng.uniform(0, 2))))
        elif kind == 'xz':
            circ.fgo(nq, float(rng.uniform(0, 2)), requires_grad=False)
        elif kind == 'xg':
            circ.go(nq)
        elif kind == 'xshare' and oracles:
            circ.append_gate(oracles[int(rng.integers(len(oracles)))], ())
        elif kind == 'p1':
            nm = rng.choice(['rx', 'ry', 'rz', 'u3'])
            shared.append(getattr(circ, nm)(q[0], ang(3 if nm == 'u3' else 1)))
        elif kind == 'fix1':
            circ.single_qubit_gate(numqi.random.rand_haar_unitary(2, seed=int(rng.integers(1 << 30))), q[0])
        elif kind == 'fixc':
            circ.cnot(q[0], q[1])
        elif kind == 'pc':
            circ.crx(q[0], q[1], ang(1))
        elif kind == 'share' and shared:
            circ.append_gate(shared[int(rng.integers(len(shared)))], (q[0],))
        elif kind == 'ph' and with_placeholder:
            circ.rz(q[0], circ.P['a'][nph]); nph += 1
    if not oracles:
        oracles.append(circ.fgo(nq, float(rng.uniform(0, 2))))
    return circ, nph


def circuit_descs(circ):
    from numqi.sim._internal import _ParameterHolder
    ids = {}
    out = []
    for g, _ in circ.gate_index_list:
        oid = ids.setdefault(id(g), len(ids))
        ph = hasattr(g, 'args') and isinstance(g.args, _ParameterHolder)
        out.append(f'{g.name}:{oid}:{int(bool(g.requires_grad))}:{int(ph)}')
    return '|'.join(out)


def rand_scalar(rng, unitary):
    """the scalar of a diagonal-phase gate on Gaussian-integer data (unit modulus: one of 1, i, -1, -i)"""
    if unitary:
        return np.complex128([1, 1j, -1, -1j][int(rng.integers(4))])
    while True:
        z = complex(int(rng.integers(-2, 3)), int(rng.integers(-2, 3)))
        if z != 0:
            return np.complex128(z)


def stack_ops(ctx, circ, nph, add):
    """`CircuitTorchWrapper.forward` / `setP` with the gate constructors replaced by the identity on the parameter rows and
    `_CircuitFunction` replaced by a recorder: every row of every stacked tensor is then the parameter tuple of exactly one gate object
    (trainable: `t<objId>`, placeholder: `p<position>`), compared with the model's `stackTags` / `placeholderPositions`"""
    import numqi, torch
    import numqi.sim._torch_utils as TU
    from numqi.sim._internal import _ParameterHolder
    descs = circuit_descs(circ)

    def run():
        wrapper = numqi.sim.CircuitTorchWrapper(circ)
        ids, tags = {}, {}
        for pos, (g, _) in enumerate(circ.gate_index_list):
            oid = ids.setdefault(id(g), len(ids))
            if hasattr(g, 'args') and isinstance(g.args, _ParameterHolder):
                tags[('p', pos)] = None
            elif getattr(g, 'requires_grad', False):
                tags.setdefault(tuple(float(x) for x in g.args) + (g.name,), f't{oid}')
        wrapper.hf0_dict = {k: (lambda *cols: torch.stack(cols, dim=1)) for k in wrapper.hf0_dict}
        pvals = torch.tensor(np.arange(1, max(nph, 1) + 1) * 1000.0 + 0.5, dtype=torch.float64)
        phrows = '-'
        if nph:
            wrapper.setP(a=pvals)
            hold = {}
            for pos, (g, _) in enumerate(circ.gate_index_list):
                if hasattr(g, 'args') and isinstance(g.args, _ParameterHolder):
                    hold[tuple(float(x) for x in g.args.resolve().reshape(-1)) + (g.name,)] = f'p{pos}'
            phrows = '|'.join(f'{nm}=' + ','.join(hold[tuple(float(x) for x in row) + (nm,)][1:] for row in wrapper.hgate_torch_dict[nm])
                              for nm in sorted(wrapper.hgate_torch_dict))
            tags.update({k: v for k, v in hold.items()})
        rec = {}
        saved = {id(g): (g.args, getattr(g, 'array', None)) for g, _ in circ.gate_index_list if getattr(g, 'kind', '') == 'custom' and hasattr(g, 'set_args')}
        fn = getattr(TU, '_CircuitFunction', None)
        if fn is None or not hasattr(fn, 'apply'):
            raise LookupError('no interceptable autograd Function')
        q_in = torch.zeros(2 ** circ.num_qubit, dtype=torch.complex128)

        def recorder(*args):
            # the stacked tensors are the tensor arguments before the state; nothing else of the argument layout is used
            ts = [a for a in args if isinstance(a, torch.Tensor)]
            rec['tensors'] = [t for t in ts if t is not q_in]
            return q_in
        try:
            fn.apply = staticmethod(recorder)
            wrapper(q_in)
            rec['names'] = tensor_names(wrapper)
            if len(rec['names']) != len(rec.get('tensors', [None])):
                raise LookupError('unexpected tensor arguments')
            # what `forward` handed to every trainable custom gate object through `set_args` (identity constructor: array row = theta row)
            bound = []
            for pos, (g, _) in enumerate(circ.gate_index_list):
                if getattr(g, 'kind', '') == 'custom':
                    bound.append(tags.get(tuple(float(x) for x in np.asarray(g.array).reshape(-1)) + (g.name,), 'unbound') if (hasattr(g, 'set_args') and g.requires_grad) else '-')
        finally:
            try:
                del fn.apply
            except Exception:
                pass
            for g, _ in circ.gate_index_list:
                if id(g) in saved:
                    g.args, g.array = saved[id(g)]
        stack = '|'.join(f'{nm}=' + ','.join(tags[tuple(float(x) for x in row.reshape(-1)) + (nm,)] for row in t.detach())
                         for nm, t in zip(rec['names'], rec['tensors']))
        return stack, phrows, ','.join(bound)
    cache = {}
    try:
        cache['r'] = run()
    except LookupError as e:
        ctx.note(f'stack tie skipped ({e}); the public-path probes decide'); ctx.count('stack-capture-unavailable')
        return

    def get(j):
        return cache['r'][j]
    add(f'C04 stack {descs}', lambda: get(0) or '')
    if nph:
        add(f'C04 phrows {descs}', lambda: get(1))
    xpos = [pos for pos, (g, _) in enumerate(circ.gate_index_list) if getattr(g, 'kind', '') == 'custom']
    if xpos:
        add(f'C04 xbind {descs} {";".join(map(str, xpos))}', lambda: get(2))


def ipg_ops(ctx, rng, add):
    """`numqi.sim.state.inner_product_grad` on Gaussian-integer data, all four `tag_grad` settings, default `c_grad`"""
    import numqi
    from numqi.sim.state import inner_product_grad
    for rep in range(8 if ctx.quick() else 60):
        n = int(rng.integers(0, 4))
        q0 = rg(rng, 2 ** n, 3); q1 = rg(rng, 2 ** n, 3); c = rg(rng, 1, 3)[0]
        for tag in ((True, False), (False, True), (True, True), (False, False)):
            def f(q0=q0, q1=q1, c=c, tag=tag):
                a0, a1 = q0.copy(), q1.copy()
                r = inner_product_grad(a0, a1, c, tag_grad=tag)
                check_unmutated(ctx, 'inner_product_grad', dict(n=n), [('q0', a0, q0), ('q1', a1, q1)])
                return '|'.join('-' if x is None else gl(x) for x in r)
            add(f'C04 ipg {n} {gl(q0)} {gl(q1)} {gl(c)} {int(tag[0])}{int(tag[1])}', f)
        # default arguments: c_grad = 1, tag_grad = (True, False)
        add(f'C04 ipg {n} {gl(q0)} {gl(q1)} 1,0 10', lambda q0=q0, q1=q1: '|'.join('-' if x is None else gl(x) for x in inner_product_grad(q0, q1)))


def circuit_classes(circ):
    """the program classes the sweep theorems distinguish: plain / placeholder / shared parameter object / custom gate"""
    from numqi.sim._internal import _ParameterHolder
    gs = [g for g, _ in circ.gate_index_list]
    cl = set()
    if any(hasattr(g, 'args') and isinstance(g.args, _ParameterHolder) for g in gs):
        cl.add('placeholder')
    tr = [id(g) for g in gs if getattr(g, 'requires_grad', False)]
    if len(tr) != len(set(tr)):
        cl.add('shared')
    if any(getattr(g, 'kind', None) == 'custom' for g in gs):
        cl.add('custom')
    return sorted(cl) or ['plain']


SWEEP_CLASSES = ('plain', 'placeholder', 'shared', 'custom')


def probe_reuse(ctx):
    """input class "buffer reuse across calls" (harness/c12.py `reuse_check`) for the hand-written backward rules and the objects built on them:
    apply_gate_grad, apply_control_n_gate_grad, inner_product_grad, CircuitTorchWrapper.forward (one wrapper, two input states; two wrappers of the
    same circuit shape interleaved), the gradients returned for two different cotangents, knill_laflamme_inner_product, PSDMatrixSqrtm,
    PSDMatrixLogm, get_model_flat_parameter"""
    import numqi, torch
    from .c12 import reuse_check, _shares
    st = numqi.sim.state
    r = np.random.default_rng(1357)
    cv = lambda n: r.normal(size=n) + 1j * r.normal(size=n)
    U1 = numqi.random.rand_haar_unitary(2, seed=3); U2 = numqi.random.rand_haar_unitary(4, seed=4)
    for n, idx, U in ((2, (1,), U1), (3, (2, 0), U2)):
        reuse_check(ctx, f'apply_gate_grad[n={n}]', lambda qc, g: list(st.apply_gate_grad(qc, g, U, idx)), (cv(2 ** n), cv(2 ** n)), (cv(2 ** n), cv(2 ** n)))
    reuse_check(ctx, 'apply_control_n_gate_grad', lambda qc, g: list(st.apply_control_n_gate_grad(qc, g, U1, {0}, (2,))), (cv(8), cv(8)), (cv(8), cv(8)))
    reuse_check(ctx, 'inner_product_grad', lambda a, b: list(st.inner_product_grad(a, b, 0.3 - 0.2j, tag_grad=(True, True))), (cv(4), cv(4)), (cv(4), cv(4)))

    def mk(seed):
        rr = np.random.default_rng(seed)
        c = numqi.sim.Circuit(default_requires_grad=True)
        c.ry(0, float(rr.uniform(0, 6))); c.rx(1, float(rr.uniform(0, 6))); c.cnot(0, 1); c.rz(1, float(rr.uniform(0, 6))); c.cnot(1, 0)
        return numqi.sim.CircuitTorchWrapper(c)
    w1, w2 = mk(1), mk(2)
    qA, qB = (torch.tensor(cv(4) / 2) for _ in range(2))
    reuse_check(ctx, 'CircuitTorchWrapper.forward', lambda q: w1(q).detach(), (qA,), (qB,))
    reuse_check(ctx, 'CircuitTorchWrapper.forward[two wrappers]', lambda w, q: w(q).detach(), (w1, qA), (w2, qA), describe=dict(A='wrapper 1, state A', B='wrapper 2 (same circuit shape, other angles), state A'))

    def grads(w, q, g):
        q = q.clone().requires_grad_(True)
        out = w(q)
        return list(torch.autograd.grad(out, [q] + [w.theta[k] for k in sorted(w.theta.keys())], grad_outputs=g))
    gA, gB = (torch.tensor(cv(4)) for _ in range(2))
    reuse_check(ctx, 'CircuitTorchWrapper.backward', lambda g: grads(w1, qA, g), (gA,), (gB,))
    L, m = 2, 2
    ops = [[((0,), numqi.gate.X)], [((1,), numqi.gate.Z)], [((0,), numqi.gate.X), ((1,), numqi.gate.Z)]]
    cA, cB = (torch.tensor(cv(L * 2 ** m).reshape(L, 2 ** m)) for _ in range(2))
    reuse_check(ctx, 'knill_laflamme_inner_product', lambda q: numqi.qec.knill_laflamme_inner_product(q, ops).detach(), (cA,), (cB,))
    psd = lambda: (lambda a: torch.tensor(a @ a.conj().T + 0.3 * np.eye(3)))(r.normal(size=(3, 3)) + 1j * r.normal(size=(3, 3)))
    XA, XB = psd(), psd()
    reuse_check(ctx, 'PSDMatrixSqrtm', lambda X: numqi._torch_op.PSDMatrixSqrtm.apply(X), (XA,), (XB,))
    reuse_check(ctx, 'PSDMatrixLogm', lambda X: numqi._torch_op.get_PSDMatrixLogm(3, 4)(X), (XA,), (XB,))
    reuse_check(ctx, 'get_model_flat_parameter', numqi.optimize.get_model_flat_parameter, (w1,), (w2,), describe=dict(A='wrapper 1', B='wrapper 2'))


def coverage_check(ctx):
    """a tie that was skipped because a private hook is unavailable must be covered by the public-path probes: for every program class either
    the exact sweep tie or the finite-difference / autograd probe has to have run; the counts go into the evidence"""
    cov = {c: dict(sweep_tied=ctx.hist.get('sweep-tied-' + c, 0), sweep_untied=ctx.hist.get('sweep-untied-' + c, 0),
                   probed=ctx.hist.get('probe-circuit-' + c, 0)) for c in SWEEP_CLASSES}
    cov['stack'] = dict(tied=ctx.hist.get('stack', 0), untied=ctx.hist.get('stack-capture-unavailable', 0))
    ctx.extra['sweep_coverage'] = cov
    for c in SWEEP_CLASSES:
        if cov[c]['sweep_tied'] == 0 and cov[c]['probed'] == 0:
            ctx.fail('coverage-gap:sweep-' + c, f'program class `{c}`: neither the exact sweep tie ({cov[c]["sweep_untied"]} skipped: call not capturable) nor the '
                     f'finite-difference / autograd probe ran on it — the reverse sweep is unchecked for this class', dict(op='coverage', coverage=cov))
    if sum(cov[c]['sweep_tied'] for c in SWEEP_CLASSES) == 0:
        ctx.note(f'NO exact sweep tie ran ({sum(cov[c]["sweep_untied"] for c in SWEEP_CLASSES)} skipped); the reverse sweep is covered by the probes only: {cov}')


def capture_function_call(wrapper, q0):
    """one real `wrapper(q0)` with the `apply` of the autograd Function it uses intercepted: returns (apply, args) — the callable the
    wrapper invoked and the argument tuple exactly as `CircuitTorchWrapper.forward` passed it — or None if no such call is observed.
    Nothing is assumed about the layout of the non-tensor arguments."""
    import torch
    import numqi.sim._torch_utils as TU
    fn = getattr(TU, '_CircuitFunction', None)
    if fn is None or not hasattr(fn, 'apply'):
        return None
    rec = []
    orig = fn.apply

    def spy(*args, **kwargs):
        rec.append((args, kwargs))
        return orig(*args, **kwargs)
    try:
        fn.apply = staticmethod(spy)
        wrapper(q0)
    finally:
        try:
            del fn.apply            # back to the inherited classmethod
        except Exception:
            fn.apply = orig
    if len(rec) != 1 or rec[0][1]:
        return None
    return fn.apply, rec[0][0]


def tensor_names(wrapper):
    """names of the stacked gate tensors in the order `forward` passes them (public attribute `ind_gate_to_ind_torch`)"""
    return sorted({v[0] for v in wrapper.ind_gate_to_ind_torch.values()})


def integerise_fixed_gates(circ, rng, unitary):
    """every gate that is not differentiated gets Gaussian-integer data through its public attributes *before* the wrapper is built
    (`gate.array`, resp. `set_args` for a frozen oracle), so the arguments the wrapper later passes on need not be touched"""
    from numqi.sim._internal import _ParameterHolder
    done = set()
    for g, _ in circ.gate_index_list:
        if id(g) in done:
            continue
        done.add(id(g))
        ph = hasattr(g, 'args') and isinstance(g.args, _ParameterHolder)
        if ph or getattr(g, 'requires_grad', False):
            continue
        if getattr(g, 'kind', None) == 'custom':
            if hasattr(g, 'set_args'):
                g.set_args(g.args, rand_scalar(rng, unitary))
        elif hasattr(g, 'array'):
            g.array = rand_mat(rng, np.asarray(g.array).shape[0], unitary)


def sweep_ops(ctx, rng, add):
    import numqi, torch
    from numqi.sim._internal import _ParameterHolder
    nrep = 25 if ctx.quick() else 250
    for rep in range(nrep):
        n = int(rng.integers(1, 5))
        if rep == 0:
            # fixed corner: trainable and placeholder gates of the same name, a shared object, a controlled parametrised gate
            circ = numqi.sim.Circuit(default_requires_grad=True)
            g0 = circ.rx(1, 0.3); circ.rx(0, circ.P['a'][0]); circ.rx(0, 0.5); circ.append_gate(g0, (0,)); circ.rx(1, circ.P['a'][1])
            circ.crx(1, 0, 0.2); circ.rz(0, circ.P['a'][2]); circ.cnot(0, 1); circ.rx(1, 0.9, requires_grad=False)
            nph = 3
        elif rep == 1:
            # fixed corner (repaired defect 3270353): two trainable oracles of the same name, one of them re-appended, a frozen one, -1
            circ = numqi.sim.Circuit(default_requires_grad=True)
            circ.register_custom_gate('fgo', numqi.query.FractionalGroverOracle); circ.register_custom_gate('go', numqi.query.GroverOracle)
            circ.ry(3, 0.3); g1 = circ.fgo(2, 0.3); circ.cnot(0, 2); circ.rx(1, 0.7); circ.fgo(2, 1.1); circ.go(2)
            circ.fgo(2, 0.4, requires_grad=False); circ.append_gate(g1, ()); circ.ry(0, 0.2)
            nph = 0
        elif rep % 3 == 2:
            circ, nph = random_custom_circuit(rng, int(rng.integers(1, 3)), int(rng.integers(1, 8)))
        else:
            circ, nph = random_circuit(rng, n, int(rng.integers(1, 9)))
        n = circ.num_qubit
        unitary = bool(rep % 2)
        # (0) the rows of the tensors that `forward` stacks, and the rows of `hgate_torch_dict` after `setP`
        stack_ops(ctx, circ, nph, add)
        integerise_fixed_gates(circ, rng, unitary)
        wrapper = numqi.sim.CircuitTorchWrapper(circ)
        # (1) the index maps of _setup
        add(f'C04 slots {circuit_descs(circ)}',
            lambda wrapper=wrapper, circ=circ: '|'.join((lambda v: f'{v[0]}:{v[1]}' if v else '-')(wrapper.ind_gate_to_ind_torch.get(i)) for i in range(len(circ.gate_index_list))))
        # (2) the sweep itself on integer tensors.  The op line carries only public data: the gate list of the Circuit (kind, index, name,
        #     object identity, requires_grad, placeholder, constant array) and the stacked tensors; which row a gate reads is derived by
        #     the model (`slotOf`/`repSlot`/`nameList`/`rowCount`).  The implementation side re-issues the very call that
        #     `CircuitTorchWrapper.forward` makes (captured during one real forward), with the integer tensors substituted at the tensor
        #     positions and every other argument left exactly as the code passed it.
        if nph:
            wrapper.setP(a=torch.tensor(np.linspace(0.1, 1.7, nph), dtype=torch.float64))
        q_probe = torch.zeros(2 ** n, dtype=torch.complex128); q_probe[0] = 1
        try:
            cap = capture_function_call(wrapper, q_probe)
        except Exception as e:
            cap = None
            ctx.note(f'sweep tie: capturing the call of CircuitTorchWrapper.forward raised {type(e).__name__}')
        names = tensor_names(wrapper)
        tpos = [j for j, a in enumerate(cap[1]) if isinstance(a, torch.Tensor)] if cap else []
        if cap is None or len(tpos) != len(names) + 1 or cap[1][tpos[-1]] is not q_probe:
            ctx.note('sweep tie skipped: the autograd Function call of CircuitTorchWrapper.forward could not be captured in the expected form '
                     '(tensors of the sorted names, then the state); the public-path probes decide')
            ctx.count('sweep-capture-unavailable')
            for c in circuit_classes(circ):
                ctx.count('sweep-untied-' + c)
            continue
        apply_fn, cargs = cap
        shapes = [tuple(cargs[j].shape) for j in tpos[:-1]]
        dims = {nm: (0 if len(sh) == 1 else int(round(math.log2(sh[-1])))) for nm, sh in zip(names, shapes)}
        rows = {nm: sh[0] for nm, sh in zip(names, shapes)}
        tens = [(np.array([rand_scalar(rng, unitary) for _ in range(rows[nm])]) if dims[nm] == 0 else
                 np.stack([rand_mat(rng, 2 ** dims[nm], unitary) for _ in range(rows[nm])])) for nm in names]
        prog, ids, binds = [], {}, []
        for i, (g, index) in enumerate(circ.gate_index_list):
            oid = ids.setdefault(id(g), len(ids))
            ph = int(hasattr(g, 'args') and isinstance(g.args, _ParameterHolder))
            tr = bool(getattr(g, 'requires_grad', False))
            desc = f'{g.name}:{oid}:{int(tr)}:{ph}'
            live = bool(ph or tr)
            if g.kind == 'custom':
                head = f'x:{int(g.num_qubit)}'
                if live:
                    slot = wrapper.ind_gate_to_ind_torch.get(i)
                    if slot is not None:
                        binds.append((g, slot[0], slot[1]))
                    prog.append(f'{head}:{desc}:-')
                else:
                    prog.append(f'{head}:{desc}:' + (gl(np.asarray(g.array).reshape(-1)) if hasattr(g, 'array') else '-1,0'))
                continue
            if g.kind == 'unitary':
                head = f'u:{il(list(index))}'
            else:
                head = f'c:{il(sorted(index[0]))}:{il(list(index[1]))}'
            prog.append(f'{head}:{desc}:' + ('-' if live else gl(np.asarray(g.array))))
        # what `forward` does before the sweep: every trainable custom gate object is handed its row of the stacked tensor
        for g, nm, row in binds:
            if nm in names:
                g.set_args(g.args, tens[names.index(nm)][row])
        params = [f'{nm}:{dims[nm]}:{rows[nm]}:{gl(tens[j])}' for j, nm in enumerate(names)]
        psi = rg(rng, 2 ** n, 2); gout = rg(rng, 2 ** n, 2)

        def call(tens_, psi_, grad=True, apply_fn=apply_fn, cargs=cargs, tpos=tpos):
            tt = [torch.tensor(x, dtype=torch.complex128, requires_grad=grad) for x in tens_]
            q0 = torch.tensor(psi_, dtype=torch.complex128, requires_grad=grad)
            args = list(cargs)
            for j, t in zip(tpos, tt + [q0]):
                args[j] = t
            return apply_fn(*args), tt, q0

        def f(tens=tens, psi=psi, gout=gout, names=names, rows=rows, call=call):
            out, tt, q0 = call(tens, psi)
            gout_t = torch.tensor(gout, dtype=torch.complex128)
            grads = torch.autograd.grad(out, tt + [q0], grad_outputs=gout_t, allow_unused=True)
            grads = [torch.zeros_like(t) if g_ is None else g_ for g_, t in zip(grads, tt + [q0])]
            check_unmutated(ctx, '_CircuitFunction.backward', dict(n=int(np.log2(len(psi))), gates=[str(x) for x in names]),
                            [('grad_output', gout_t, torch.tensor(gout, dtype=torch.complex128))] + [(f'gate tensor {nm}', a, torch.tensor(b, dtype=torch.complex128)) for nm, a, b in zip(names, tt, tens)])
            gs = [gl(grads[j][r].numpy()) for j, nm in enumerate(names) for r in range(rows[nm])]
            return f'{gl(out.detach().numpy())}|{gl(grads[-1].numpy())}|{"/".join(gs)}'
        op_line = f'C04 sweep {n} {"|".join(prog)} {"|".join(params) or "-"} {gl(psi)} {gl(gout)}'
        SWEEP_CTX[op_line] = (call, tens, psi, gout, names, prog)
        add(op_line, f)
        nshared = sum(rows.values()) < sum(1 for x in prog if x.endswith(':-'))
        ctx.count('sweep-' + ('unitary' if unitary else 'general') + ('-shared' if nshared else '') + ('-placeholder' if nph else '')
                  + ('-custom' if any(x.startswith('x:') for x in prog) else ''))
        for c in circuit_classes(circ):
            ctx.count('sweep-tied-' + c)


def kl_ops(ctx, rng, add):
    import numqi, torch
    for rep in range(12 if ctx.quick() else 120):
        L = int(rng.choice([1, 2, 4])); m = int(rng.integers(1, 4))
        nseq = int(rng.integers(1, 4))
        op_list, seqs = [], []
        for _ in range(nseq):
            seq, txt = [], []
            for _ in range(int(rng.integers(0, 4))):
                k = int(rng.integers(1, min(2, m) + 1))
                t = [int(x) for x in rng.permutation(m)[:k]]
                U = rand_mat(rng, 2 ** k, bool(rng.integers(2)))
                seq.append((t, U)); txt.append(f'u:{il(t)}:{gl(U)}')
            op_list.append(seq); seqs.append('|'.join(txt) or '-')
        q = rg(rng, (L, 2 ** m), 2)
        G = rg(rng, (nseq, L, L), 2)

        def f():
            q0 = torch.tensor(q, dtype=torch.complex128, requires_grad=True)
            y = numqi.qec.knill_laflamme_inner_product(q0, op_list)
            (gr,) = torch.autograd.grad(y, [q0], grad_outputs=torch.tensor(G, dtype=torch.complex128))
            ynp = numqi.qec.knill_laflamme_inner_product(q, op_list)
            if not np.array_equal(np.asarray(ynp), y.detach().numpy()):
                return 'numpy-and-torch-forward-differ'
            return '/'.join(gl(y[i].detach().numpy()) for i in range(nseq)) + '|' + gl(gr.numpy())
        add(f'C04 kl {L} {m} {"/".join(seqs)} {gl(q)} {"/".join(gl(G[i]) for i in range(nseq))}', f)
        ctx.count(f'kl-L{L}-m{m}')


def flat_ops(ctx, rng, add):
    import numqi, torch
    pool = ['theta', 'a', 'b.weight', 'Z', 'manifold.theta', 'theta.rx', 'theta.ry', 'aa', 'a0', 'B', 'circuit_torch.theta.u3', '_x']
    for rep in range(6 if ctx.quick() else 60):
        names = [str(x) for x in rng.choice(pool, size=int(rng.integers(1, 6)), replace=False)]
        names = [a for a in names if not any(b.startswith(a + '.') for b in names)]     # a parameter cannot share its name with a sub-module
        shapes = [tuple(int(x) for x in rng.integers(1, 4, size=int(rng.integers(1, 3)))) for _ in names]
        total = sum(int(np.prod(s)) for s in shapes)
        theta = rng.integers(-50, 50, size=total)

        class M(torch.nn.Module):
            def __init__(self):
                super().__init__()
                self.p = torch.nn.ParameterDict()
            def forward(self):
                return sum((w * torch.arange(1, w.numel() + 1, dtype=torch.float64).reshape(w.shape)).sum() for w in self.parameters())

        def f():
            mod = torch.nn.Module()
            for nm, sh in zip(names, shapes):
                # nested names via sub-modules
                parts = nm.split('.')
                cur = mod
                for p in parts[:-1]:
                    if not hasattr(cur, p):
                        cur.add_module(p, torch.nn.Module())
                    cur = getattr(cur, p)
                cur.register_parameter(parts[-1], torch.nn.Parameter(torch.zeros(sh, dtype=torch.float64)))
            numqi.optimize.set_model_flat_parameter(mod, theta.astype(np.float64))
            named = sorted(((k, v) for k, v in mod.named_parameters()), key=lambda x: x[0])
            back = numqi.optimize.get_model_flat_parameter(mod)
            return '|'.join(f'{k}={il(v.detach().numpy().reshape(-1))}' for k, v in named) + ' ' + il(back)
        add(f'C04 flat {"|".join(f"{nm}:{int(np.prod(s))}" for nm, s in zip(names, shapes))} {il(theta)}', f)
        ctx.count('flat')


def sylv_tie(ctx, rng):
    """Sylvester rule against the exact rational model value (the only inexact side is the implementation)"""
    import numqi, torch
    ops, vals = [], []
    for rep in range(20 if ctx.quick() else 200):
        m = int(rng.integers(1, 5)); r = int(rng.integers(1, 4))
        s = rng.integers(1, 5, size=m)
        if rep % 4 == 0:
            s[int(rng.integers(m))] = 0                      # one zero root: the diagonal rule tmp1[i,i] = 0
        if rep % 10 == 9 and m >= 2:
            s[:2] = 0                                        # two zero roots: division by zero
        V = rg(rng, (m, m), 2); G = rg(rng, (m, m), 3)
        ops.append(f'C04 sylv {m} {r} {il(s)} {gl(V)} {gl(G)}')
        try:
            got = numqi._torch_op._torch_psd_sqrtm_backward_repeat(torch.tensor(G), (torch.tensor(s, dtype=torch.float64).reshape(1, m), torch.tensor(V).reshape(1, m, m)), repeat=r)
            vals.append(got.numpy())
        except Exception as e:
            vals.append('error:' + type(e).__name__)
    model = common.run_model(ops)
    worst = 0.0
    for op, got, mo in zip(ops, vals, model):
        ctx.count('sylv')
        if isinstance(got, str):
            ctx.disagree(op, mo, got); continue
        if mo == 'nan':
            if np.all(np.isfinite(got)):
                ctx.disagree(op, mo, 'finite values although two roots are zero')
            else:
                ctx.agree(op, op); ctx.count('sylv-two-zero-roots:non-finite')
            continue
        exact = np.array([complex(float(Fraction(a)), float(Fraction(b))) for a, b in (e.split(',') for e in mo.split(';'))]).reshape(got.shape)
        scale = max(1.0, float(np.max(np.abs(exact))))
        err = float(np.max(np.abs(got - exact))) / scale if np.all(np.isfinite(got)) else float('inf')
        worst = max(worst, err if np.isfinite(err) else 0)
        if err <= 1e-11:
            ctx.agree(op, op)
        else:
            ctx.disagree(op, mo[:200], f'max rel diff {err:.3e}: ' + np.array2string(np.asarray(got).reshape(-1)[:6], precision=6))
    ctx.extra['sylvester_worst_rel_err'] = worst
    ctx.assumptions.append('Sylvester tie tolerance 1e-11 relative to the largest exact entry (integers <= 4 in absolute value, sizes <= 4, at most 3 passes: '
                           'a handful of roundings of magnitude 1e-16 each; worst observed recorded as sylvester_worst_rel_err)')


def handoff_ops(ctx, rng, add):
    """hf_model_wrapper / minimize: the vector handed to the optimiser is the concatenation of the .grad's of the trainable
    parameters in sorted-name order, float64; frozen parameters are skipped by get/set/grad alike.  Toy models with integer data
    (polynomial loss with integer coefficients: every gradient is an exact integer)."""
    import numqi, torch, scipy.optimize
    pool = ['w', 'alpha', 'zeta', 'sub.m', 'sub.k', 'b0', 'Beta', '_h', 'theta']
    for rep in range(6 if ctx.quick() else 60):
        names = [str(x) for x in rng.choice(pool, size=int(rng.integers(2, 6)), replace=False)]
        shapes = [tuple(int(x) for x in rng.integers(1, 3, size=int(rng.integers(1, 3)))) for _ in names]
        frozen = [bool(rng.integers(4) == 0) for _ in names]
        if all(frozen):
            frozen[0] = False
        init = [rng.integers(-4, 5, size=sh) for sh in shapes]
        coef = [rng.integers(-3, 4, size=sh) for sh in shapes]
        total = sum(int(np.prod(sh)) for sh, fz in zip(shapes, frozen) if not fz)
        theta = rng.integers(-5, 6, size=total)
        use_minimize = bool(rep % 2)

        def f():
            mod = torch.nn.Module()
            for nm, sh, fz, v0 in zip(names, shapes, frozen, init):
                parts = nm.split('.'); cur = mod
                for p_ in parts[:-1]:
                    if not hasattr(cur, p_):
                        cur.add_module(p_, torch.nn.Module())
                    cur = getattr(cur, p_)
                cur.register_parameter(parts[-1], torch.nn.Parameter(torch.tensor(v0, dtype=torch.float64), requires_grad=not fz))
            named = dict(mod.named_parameters())
            first = named[names[[i for i, fz in enumerate(frozen) if not fz][0]]]

            def forward():
                # integer polynomial; the first trainable parameter is used twice (shared), frozen ones enter the value only
                out = sum((torch.tensor(c, dtype=torch.float64) * named[nm] * named[nm]).sum() + (2.0 * named[nm]).sum() for nm, c in zip(names, coef))
                return out + (first * first * first).sum() + first.sum()
            mod.forward = forward
            if use_minimize:
                cap = {}

                class Res:
                    pass

                def fake_minimize(fun, x0, callback=None, **kw):
                    cap['x0'] = np.array(x0); cap['kw'] = kw
                    cap['out'] = fun(theta.astype(np.float64))
                    r = Res(); r.x = theta.astype(np.float64); r.fun = cap['out'][0]
                    return r
                orig = scipy.optimize.minimize
                scipy.optimize.minimize = fake_minimize
                try:
                    numqi.optimize.minimize(mod, theta0='uniform', num_repeat=1, print_every_round=0, seed=1)
                finally:
                    scipy.optimize.minimize = orig
                fval, grad = cap['out']
                if cap['kw'].get('jac') is not True or cap['x0'].shape != (total,) or cap['x0'].dtype != np.float64:
                    return 'optimiser-called-with-wrong-x0-or-jac'
            else:
                fval, grad = numqi.optimize.hf_model_wrapper(mod)(theta.astype(np.float64))
            if not isinstance(grad, np.ndarray) or grad.dtype != np.float64 or grad.ndim != 1:
                return f'grad-not-float64-vector:{getattr(grad, "dtype", type(grad))}'
            back = numqi.optimize.get_model_flat_parameter(mod)
            gflat = numqi.optimize.get_model_flat_grad(mod)
            if not np.array_equal(gflat, grad):
                return 'get_model_flat_grad-differs-from-the-vector-handed-to-the-optimiser'
            cur = dict(mod.named_parameters())
            order = sorted(nm for nm, fz in zip(names, frozen) if not fz) + [nm for nm, fz in zip(names, frozen) if fz]
            vals = '|'.join(f'{nm}={il(cur[nm].detach().numpy().reshape(-1))}' for nm in order)
            grads = '|'.join(f'{nm}={il(cur[nm].grad.numpy().reshape(-1))}' for nm, fz in zip(names, frozen) if not fz)
            return vals + ' ' + il(grad) + ' ' + il(back), grads
        r = guarded(f)
        shapes_txt = '|'.join(f'{nm}:{int(not fz)}:{int(np.prod(sh))}' for nm, sh, fz in zip(names, shapes, frozen))
        init_txt = '|'.join(f'{nm}={il(v.reshape(-1))}' for nm, v in zip(names, init))
        if isinstance(r, str):
            add(f'C04 handoff {shapes_txt} {init_txt} {il(theta)} -', lambda r=r: r)
        else:
            add(f'C04 handoff {shapes_txt} {init_txt} {il(theta)} {r[1]}', lambda r=r: r[0])
        ctx.count('handoff-minimize' if use_minimize else 'handoff-wrapper')


def logm_inner_tie(ctx, rng):
    """the only hand-written part of PSDMatrixLogm is the repeated-sqrtm op: record what its backward receives and returns while the
    real PSDMatrixLogm is differentiated, and compare with the exact rational value of the model on the recorded (binary64) data"""
    import numqi, torch
    TO = numqi._torch_op
    fb = lambda z: f'{bits(complex(z).real)},{bits(complex(z).imag)}'
    ops, vals = [], []
    for rep in range(4 if ctx.quick() else 24):
        d = int(rng.integers(1, 4)); ns = int(rng.integers(1, 4))
        Bm = rng.normal(size=(d, d)) + 1j * rng.normal(size=(d, d))
        A0 = Bm @ Bm.conj().T + 0.5 * np.eye(d)
        rec = []
        orig = TO._torch_psd_sqrtm_backward_repeat

        def recorder(grad_output, ctx_tensor, repeat=1):
            out = orig(grad_output, ctx_tensor, repeat=repeat)
            rec.append((grad_output.detach().clone().numpy(), [t.detach().clone().numpy() for t in ctx_tensor], int(repeat), out.detach().clone().numpy()))
            return out
        TO._torch_psd_sqrtm_backward_repeat = recorder
        try:
            X = torch.tensor(A0, requires_grad=True)
            Y = TO.PSDMatrixLogm(ns, 4)(X)
            C = torch.tensor(rng.normal(size=(d, d)) + 1j * rng.normal(size=(d, d)))
            (C * Y).real.sum().backward()
        except Exception as e:
            ctx.disagree(f'C04 sylvf {d} {ns} logm', '', 'error:' + type(e).__name__); continue
        finally:
            TO._torch_psd_sqrtm_backward_repeat = orig
        if len(rec) != 1 or rec[0][2] != ns:
            ctx.disagree(f'C04 sylvf {d} {ns} logm', 'one call of the repeated-sqrtm backward with repeat=num_sqrtm', f'{len(rec)} calls, repeat={[r[2] for r in rec]}'); continue
        G, (sv, V), r, out = rec[0]
        ops.append(f'C04 sylvf {d} {r} {";".join(fb(x) for x in sv.reshape(-1))} {";".join(fb(x) for x in V.reshape(-1))} {";".join(fb(x) for x in G.reshape(-1))}')
        vals.append(out.reshape(d, d))
    if not ops:
        return
    model = common.run_model(ops)
    worst = 0.0
    for op, got, mo in zip(ops, vals, model):
        ctx.count('logm-inner-sqrtm-backward')
        if mo in ('nan', 'bad-op'):
            ctx.disagree(op[:120], mo, 'finite'); continue
        exact = np.array([complex(float(Fraction(a)), float(Fraction(b))) for a, b in (e.split(',') for e in mo.split(';'))]).reshape(got.shape)
        err = float(np.max(np.abs(got - exact))) / max(1.0, float(np.max(np.abs(exact))))
        worst = max(worst, err)
        if err <= 1e-10:
            ctx.agree(op, op)
        else:
            ctx.disagree(op[:160], mo[:160], f'max rel diff {err:.3e}')
    ctx.extra['logm_inner_worst_rel_err'] = worst
    ctx.assumptions.append('PSDMatrixLogm: hand-written = _PSDMatrixSqrtmRepeat (eigh forward, Sylvester backward); autograd = the Gauss-Legendre/Pade part '
                           '(torch.linalg.solve, sums). The hand-written backward is recorded inside a real logm backward and compared with the exact rational model '
                           'value on the recorded binary64 inputs, tolerance 1e-10 relative (up to 3 passes of 3x3 products with a computed eigenbasis)')


def sqrtm_forward_ops(ctx, rng, add):
    """forward map of the PSD square root: torch.linalg.eigh intercepted to return integer eigen-data (some eigenvalues negative ->
    clamped; the others perfect 2^r-th powers), so clamp, repeated sqrt, `(EVC*sqrt_EVL) @ EVC^H` and the saved roots are exact"""
    import numqi, torch
    TO = numqi._torch_op
    for rep in range(6 if ctx.quick() else 40):
        m = int(rng.integers(1, 5)); r = int(rng.integers(1, 4))
        base = rng.integers(0, 4, size=m)
        evl = np.array([int(b) ** (2 ** r) for b in base], dtype=np.int64)
        neg = rng.integers(0, 3, size=m) == 0
        evl = np.where(neg, -rng.integers(1, 5, size=m), evl)
        V = rg(rng, (m, m), 2)

        def f(evl=evl, V=V, m=m, r=r):
            orig = torch.linalg.eigh
            torch.linalg.eigh = lambda A, *a, **k: (torch.tensor(evl, dtype=torch.float64).reshape(1, m), torch.tensor(V).reshape(1, m, m))
            try:
                ret, (sq, evc) = TO._torch_psd_sqrtm_forward_repeat(torch.eye(m, dtype=torch.complex128), repeat=r)
            finally:
                torch.linalg.eigh = orig
            if not np.array_equal(evc.numpy().reshape(m, m), V):
                return 'saved-EVC-differs'
            frac = lambda a: ';'.join(f'{int(round(complex(x).real))}/1,{int(round(complex(x).imag))}/1' for x in np.asarray(a).reshape(-1))
            if np.any(np.asarray(sq.numpy()) != np.round(sq.numpy())) or np.any(ret.numpy() != np.round(ret.numpy().real) + 1j * np.round(ret.numpy().imag)):
                return 'nonintegral'
            return frac(sq.numpy()) + '|' + frac(ret.numpy())
        add(f'C04 sqrtmfwd {m} {r} {il(evl)} {gl(V)}', f)
        ctx.count('sqrtm-forward')


def correspondence(ctx):
    rng = np.random.default_rng(ctx.np_seed)
    ops, impl, posts, findings = [], [], [], []

    def add(op, f, post=None, finding=None):
        ops.append(op); impl.append(guarded(f)); posts.append(post); findings.append(finding)
    gate_ops(ctx, rng, add)
    sweep_ops(ctx, rng, add)
    ipg_ops(ctx, rng, add)
    kl_ops(ctx, rng, add)
    flat_ops(ctx, rng, add)
    handoff_ops(ctx, rng, add)
    sqrtm_forward_ops(ctx, rng, add)
    model = common.run_model(ops)
    model = [p(m) if (p is not None and '|' in m) else m for p, m in zip(posts, model)]
    # a crash of the implementation on an input the model accepts, for which a stable finding key is registered, goes through the
    # finding channel with its concrete input instead of being an anonymous correspondence difference
    keep = []
    for op, a, b, fd in zip(ops, impl, model, findings):
        if fd is not None and a.startswith('error') and not b.startswith('error'):
            ctx.fail(fd[0], fd[1] + f' ({a})', fd[2])
        else:
            keep.append((op, a, b))
    ops, impl, model = [k[0] for k in keep], [k[1] for k in keep], [k[2] for k in keep]

    def nontrivial(op, out):
        t = op.split(' ')
        if t[1] in ('gg', 'cg'):
            return int(t[2]) >= 2
        if t[1] == 'sweep':
            return t[3].count('|') >= 1
        return True
    # a rejection is a rejection: which exception class / message the implementation (or the model's label) uses must not matter
    canon = lambda x: 'error' if isinstance(x, str) and x.startswith('error') else x
    impl = [canon(x) for x in impl]; model = [canon(x) for x in model]
    common.compare(ctx, ops, impl, model, nontrivial=nontrivial)
    sylv_tie(ctx, rng)
    logm_inner_tie(ctx, rng)
    ctx.extra['exhaustive'] = False


# ---------------------------------------------------------------------------
# probe: finite differences and pure-autograd re-implementation on the real torch objects
# ---------------------------------------------------------------------------
def fd_grad(f, x, h=1e-5):
    x = np.array(x, dtype=np.float64)
    g = np.zeros_like(x)
    for i in range(x.size):
        e = np.zeros_like(x); e.reshape(-1)[i] = h
        g.reshape(-1)[i] = (f(x + e) - f(x - e)) / (2 * h)
    return g


def rel_err(a, b):
    a = np.asarray(a, dtype=np.float64); b = np.asarray(b, dtype=np.float64)
    return float(np.max(np.abs(a - b)) / max(1.0, float(np.max(np.abs(b))))) if a.size else 0.0


def torch_apply_gate(psi, U, index, n):
    import torch
    k = len(index)
    t = psi.reshape([2] * n)
    t = torch.movedim(t, list(index), list(range(k)))
    sh = t.shape
    t = (U @ t.reshape(2 ** k, -1)).reshape(sh)
    t = torch.movedim(t, list(range(k)), list(index))
    return t.reshape(-1)


def torch_apply_control(psi, U, cset, target, n):
    import torch
    # projector form: psi + P1 (E(U) - 1) psi, P1 = all controls are 1
    mask = torch.ones([2] * n, dtype=torch.float64)
    for c in cset:
        sl = [slice(None)] * n; sl[c] = 0
        mask[tuple(sl)] = 0
    mask = mask.reshape(-1)
    return psi + mask * (torch_apply_gate(psi, U, target, n) - psi)


def reimplement(circ, wrapper, q0, placeholder_params):
    """pure-autograd forward of the same circuit (gate matrices through hf0 of the same parameters)"""
    import torch
    from numqi.sim._internal import _ParameterHolder
    n = circ.num_qubit
    psi = q0
    for i, (g, index) in enumerate(circ.gate_index_list):
        if getattr(g, 'kind', None) == 'custom':
            # diagonal-phase oracle: the state reshaped to a square matrix, its diagonal times the gate's scalar
            if i in wrapper.ind_gate_to_ind_theta:
                nm, r = wrapper.ind_gate_to_ind_theta[i]
                a = g.hf0(*wrapper.theta[nm][r]).reshape(())
            elif hasattr(g, 'array'):
                a = torch.tensor(complex(np.asarray(g.array).reshape(())), dtype=torch.complex128)
            else:
                a = torch.tensor(-1.0 + 0j, dtype=torch.complex128)
            d = 2 ** int(g.num_qubit)
            m = psi.reshape(d, -1)
            psi = (m + torch.diag(torch.diagonal(m) * (a - 1))).reshape(-1)
            continue
        if hasattr(g, 'args') and isinstance(g.args, _ParameterHolder):
            a = g.args.resolve()
            U = g.hf0(*(a.reshape(-1) if a.ndim else a.reshape(1)))
        elif i in wrapper.ind_gate_to_ind_theta:
            nm, r = wrapper.ind_gate_to_ind_theta[i]
            U = g.hf0(*wrapper.theta[nm][r])
        else:
            U = torch.tensor(np.asarray(g.array), dtype=torch.complex128)
        U = U.to(torch.complex128)
        if g.kind == 'unitary':
            psi = torch_apply_gate(psi, U, list(index), n)
        else:
            psi = torch_apply_control(psi, U, sorted(index[0]), list(index[1]), n)
    return psi


def circuit_ending_in(r2, n, kind):
    """random prefix (no placeholders) followed by a prescribed last gate"""
    import numqi
    circ, _ = random_circuit(r2, n, int(r2.integers(1, 6)), with_placeholder=False)
    q = [int(x) for x in r2.permutation(n)]
    ang = lambda m: tuple(float(x) for x in r2.uniform(0, 2 * np.pi, size=m))
    if kind == 'cnot':
        circ.cnot(q[0], q[1])
    elif kind == 'cz':
        circ.cz(q[0], q[1])
    elif kind == 'crx':
        circ.crx(q[0], q[1], ang(1))
    elif kind == 'cu3':
        circ.cu3(q[0], q[1], ang(3))
    elif kind == 'toffoli':
        circ.toffoli((q[0], q[1]), q[2])
    elif kind == 'ccustom':
        circ.controlled_single_qubit_gate(numqi.random.rand_haar_unitary(2, seed=int(r2.integers(1 << 30))), {q[0]}, q[1])
    elif kind == 'rx':
        circ.rx(q[0], ang(1))
    elif kind == 'u3':
        circ.u3(q[0], ang(3))
    elif kind == 'rzz':
        circ.rzz((q[1], q[0]), ang(1))
    elif kind == 'fixed':
        circ.single_qubit_gate(numqi.random.rand_haar_unitary(2, seed=int(r2.integers(1 << 30))), q[0])
    # a trainable first gate on the last qubit: every branch has the full register and something to differentiate
    circ.gate_index_list.insert(0, (numqi.sim.Circuit(default_requires_grad=True).ry(0, ang(1)), (n - 1,)))
    return circ


LAST_KINDS = ['cnot', 'cz', 'crx', 'cu3', 'toffoli', 'ccustom', 'rx', 'u3', 'rzz', 'fixed']
GRAPHS = ['add2', 'sub2', 'mul2', 'add3', 'twice', 'add-then-twice']


def probe_graphs(ctx, rng, worst):
    """CircuitTorchWrapper outputs combined in one autograd graph: the gradient tensor autograd hands to one backward is shared with the
    other consumers, so a rule that un-applies a gate in place on `grad_output` corrupts the branch that is swept later"""
    import numqi, torch
    todo = [(k, g) for k in LAST_KINDS for g in GRAPHS]
    if ctx.quick():
        # every last-gate kind with two graph shapes each (rotating), every graph shape at least once
        todo = [(k, GRAPHS[(i + j) % len(GRAPHS)]) for i, k in enumerate(LAST_KINDS) for j in (0, 3)]
    for kind, graph in todo:
        seed = int(rng.integers(1 << 30)); r2 = np.random.default_rng(seed)
        n = 3
        nb = 3 if graph == 'add3' else (1 if graph == 'twice' else 2)
        info = dict(op='CircuitTorchWrapper-graph', graph=graph, last_gate=kind, seed=seed, num_qubit=n)
        try:
            circs = [circuit_ending_in(r2, n, kind) for _ in range(nb)]
            wraps = [numqi.sim.CircuitTorchWrapper(c) for c in circs]
            n = max(c.num_qubit for c in circs)
            if any(c.num_qubit != n for c in circs):
                continue
            a = torch.tensor(r2.normal(size=2 ** n) + 1j * r2.normal(size=2 ** n))
            b = torch.tensor(r2.normal(size=2 ** n) + 1j * r2.normal(size=2 ** n))
            q0np = r2.normal(size=2 ** n) + 1j * r2.normal(size=2 ** n); q0np /= np.linalg.norm(q0np)
            plist = [w.theta[k] for w in wraps for k in sorted(w.theta.keys())]
            sizes = [p.numel() for p in plist]
            snaps = []

            def combine(psis):
                if graph == 'add2':
                    out = psis[0] + psis[1]
                elif graph == 'sub2':
                    out = psis[0] - 0.7 * psis[1]
                elif graph == 'mul2':
                    out = psis[0] * psis[1]
                elif graph == 'add3':
                    out = psis[0] + psis[1] * psis[2]
                elif graph == 'twice':
                    out = psis[0] * psis[0].conj() + 0.5 * psis[0]
                else:
                    t = psis[0] + psis[1]
                    out = t * t.conj() + psis[1]
                v = torch.vdot(a, out)
                return (v * v.conj()).real + torch.vdot(b, out).real + 0.3 * torch.vdot(b, out).imag

            def run(kindf, hook=False):
                q0 = torch.tensor(q0np)
                psis = []
                for c, w in zip(circs, wraps):
                    psi = w(q0) if kindf == 'custom' else reimplement(c, w, q0, None)
                    if hook and psi.requires_grad:
                        psi.register_hook(lambda g: snaps.append((g, g.clone())))
                    psis.append(psi)
                return combine(psis)

            def set_flat(x):
                off = 0
                with torch.no_grad():
                    for p, sz in zip(plist, sizes):
                        p.copy_(torch.tensor(x[off:off + sz]).reshape(p.shape)); off += sz
            x0 = np.concatenate([p.detach().numpy().reshape(-1) for p in plist])
            grads = {}
            for kindf in ('custom', 'autograd'):
                for p in plist:
                    p.grad = None
                run(kindf, hook=(kindf == 'custom')).backward()
                grads[kindf] = np.concatenate([(p.grad if p.grad is not None else torch.zeros_like(p)).numpy().reshape(-1) for p in plist])
            aliased = [i for i, (g, c) in enumerate(snaps) if not torch.equal(g, c)]
            fd = fd_grad(lambda x: (set_flat(x), float(run('custom').detach()))[1], x0)
            set_flat(x0)
            e_ag, e_fd = rel_err(grads['custom'], grads['autograd']), rel_err(grads['custom'], fd)
            worst['graph_autograd'] = max(worst.get('graph_autograd', 0.0), e_ag); worst['graph_fd'] = max(worst.get('graph_fd', 0.0), e_fd)
        except Exception as e:
            ctx.fail('graph-grad-raises', f'{type(e).__name__}: {e} (graph {graph}, last gate {kind})', info); continue
        info = dict(info, gates=[[(g.name, str(ix)) for g, ix in c.gate_index_list] for c in circs], theta=x0.tolist())
        if aliased:
            ctx.fail(MUTATION_KEY + ':_CircuitFunction.backward', f'_CircuitFunction.backward modified the grad_output tensor handed to it by autograd '
                     f'(graph {graph}, circuits ending in {kind}; branch #{aliased[0]})', dict(info, grad=grads['custom'].tolist(), autograd=grads['autograd'].tolist()))
        elif e_ag > 1e-9:
            ctx.fail('graph-grad-vs-autograd', f'gradient of a graph with {nb} CircuitTorchWrapper branch(es) ({graph}, last gate {kind}) differs from the '
                     f'pure-autograd re-implementation by {e_ag:.3e}', dict(info, grad=grads['custom'].tolist(), autograd=grads['autograd'].tolist()))
        elif e_fd > 1e-5:
            ctx.fail('graph-grad-vs-fd', f'gradient of graph {graph} (last gate {kind}) differs from finite differences by {e_fd:.3e}',
                     dict(info, grad=grads['custom'].tolist(), finite_difference=fd.tolist()))
        else:
            ctx.probe_ok(('graph', graph, kind, seed))
        ctx.count(f'graph-{graph}'); ctx.count(f'last-{kind}')


PREFIXES = ['none', 'H', 'cnot', 'cz', 'mixed']
INPUT_GRAPHS = ['state-param', 'state-expr', 'chain2', 'chain3', 'state-param-chain2']


def circuit_with_prefix(r2, n, prefix):
    """fixed (non-trainable) gates first, then a random trainable part; the first trainable gate comes after the prefix"""
    import numqi
    circ = numqi.sim.Circuit(default_requires_grad=True)
    if prefix in ('H', 'mixed'):
        for q in range(n):
            circ.H(q)
    if prefix in ('cnot', 'mixed'):
        for q in range(n - 1):
            circ.cnot(q, q + 1)
    if prefix in ('cz', 'mixed'):
        for q in range(n - 1):
            circ.cz(q + 1, q)
    if prefix == 'mixed':
        circ.single_qubit_gate(numqi.random.rand_haar_unitary(2, seed=int(r2.integers(1 << 30))), int(r2.integers(n)))
    circ.ry(n - 1, float(r2.uniform(0, 6)))                      # trainable, touches the last qubit
    tail, _ = random_circuit(r2, n, int(r2.integers(1, 6)), with_placeholder=False)
    circ.extend_circuit(tail)
    return circ


def probe_inputs(ctx, rng, worst):
    """the input state of a CircuitTorchWrapper is itself differentiable: a trainable state, a state produced by an autograd
    expression, or the output of another circuit (chained circuits).  The gradient must be pulled back through *all* gates,
    including the fixed gates in front of the first trainable one."""
    import numqi, torch
    todo = [(g, pf) for g in INPUT_GRAPHS for pf in PREFIXES]
    if ctx.quick():
        todo = [(g, PREFIXES[(i + j) % len(PREFIXES)]) for i, g in enumerate(INPUT_GRAPHS) for j in (0, 1, 3)]
    for graph, prefix in todo:
        seed = int(rng.integers(1 << 30)); r2 = np.random.default_rng(seed)
        n = 3
        nc = 3 if graph == 'chain3' else (2 if 'chain2' in graph else 1)
        info = dict(op='CircuitTorchWrapper-input-graph', graph=graph, prefix=prefix, seed=seed, num_qubit=n)
        try:
            # the first circuit of a pure chain sees a constant input; every circuit that sees a differentiable input gets the prefix
            circs = []
            for i in range(nc):
                sees_grad = (i > 0) or graph.startswith('state')
                circs.append(circuit_with_prefix(r2, n, prefix if sees_grad else 'none'))
            if any(c.num_qubit != n for c in circs):
                continue
            wraps = [numqi.sim.CircuitTorchWrapper(c) for c in circs]
            a = torch.tensor(r2.normal(size=2 ** n) + 1j * r2.normal(size=2 ** n))
            b = torch.tensor(r2.normal(size=2 ** n) + 1j * r2.normal(size=2 ** n))
            q0np = r2.normal(size=2 ** n) + 1j * r2.normal(size=2 ** n); q0np /= np.linalg.norm(q0np)
            sre = torch.nn.Parameter(torch.tensor(r2.normal(size=2 ** n)))
            sim_ = torch.nn.Parameter(torch.tensor(r2.normal(size=2 ** n)))
            plist = [w.theta[k] for w in wraps for k in sorted(w.theta.keys())]
            if graph.startswith('state'):
                plist = [sre, sim_] + plist
            sizes = [p.numel() for p in plist]
            snaps = []

            def input_state():
                if graph.startswith('state-param'):
                    return torch.complex(sre, sim_)
                if graph == 'state-expr':
                    z = torch.complex(sre, sim_) * torch.tensor(q0np) + 0.3 * torch.complex(sim_, sre) ** 2
                    return z / torch.linalg.norm(z)
                return torch.tensor(q0np)

            def run(kindf, hook=False):
                psi = input_state()
                for c, w in zip(circs, wraps):
                    psi = w(psi) if kindf == 'custom' else reimplement(c, w, psi, None)
                    if hook and psi.requires_grad:
                        psi.register_hook(lambda g: snaps.append((g, g.clone())))
                v = torch.vdot(a, psi)
                return (v * v.conj()).real + torch.vdot(b, psi).real + 0.3 * torch.vdot(b, psi).imag

            def set_flat(x):
                off = 0
                with torch.no_grad():
                    for p, sz in zip(plist, sizes):
                        p.copy_(torch.tensor(x[off:off + sz]).reshape(p.shape)); off += sz
            x0 = np.concatenate([p.detach().numpy().reshape(-1) for p in plist])
            grads = {}
            for kindf in ('custom', 'autograd'):
                for p in plist:
                    p.grad = None
                run(kindf, hook=(kindf == 'custom')).backward()
                grads[kindf] = np.concatenate([(p.grad if p.grad is not None else torch.zeros_like(p)).numpy().reshape(-1) for p in plist])
            aliased = [i for i, (g, c) in enumerate(snaps) if not torch.equal(g, c)]
            fd = fd_grad(lambda x: (set_flat(x), float(run('custom').detach()))[1], x0)
            set_flat(x0)
            e_ag, e_fd = rel_err(grads['custom'], grads['autograd']), rel_err(grads['custom'], fd)
            worst['input_autograd'] = max(worst.get('input_autograd', 0.0), e_ag); worst['input_fd'] = max(worst.get('input_fd', 0.0), e_fd)
        except Exception as e:
            ctx.fail('input-grad-raises', f'{type(e).__name__}: {e} (graph {graph}, prefix {prefix})', info); continue
        info = dict(info, gates=[[(g.name, str(ix)) for g, ix in c.gate_index_list] for c in circs], theta=x0.tolist())
        if aliased:
            ctx.fail(MUTATION_KEY + ':_CircuitFunction.backward', f'_CircuitFunction.backward modified the grad_output tensor handed to it by autograd '
                     f'(input graph {graph}, prefix {prefix})', info)
        elif e_ag > 1e-9:
            ctx.fail('input-grad-vs-autograd', f'differentiable input state ({graph}, fixed prefix "{prefix}"): gradient differs from the pure-autograd '
                     f're-implementation by {e_ag:.3e} — the gradient of the input state was not pulled back through all gates',
                     dict(info, grad=grads['custom'].tolist(), autograd=grads['autograd'].tolist()))
        elif e_fd > 1e-5:
            ctx.fail('input-grad-vs-fd', f'differentiable input state ({graph}, prefix "{prefix}"): gradient differs from finite differences by {e_fd:.3e}',
                     dict(info, grad=grads['custom'].tolist(), finite_difference=fd.tolist()))
        else:
            ctx.probe_ok(('input-graph', graph, prefix, seed))
        ctx.count(f'input-{graph}'); ctx.count(f'prefix-{prefix}')


def build_custom_program(nq, program):
    """a circuit from a recorded program: ["H",q] ["rx"|"ry"|"rz",q,theta] ["cnot",c,t] ["fgo",theta[,requires_grad]] ["go"] ["share",k]
    (`share` re-appends the k-th FractionalGroverOracle object)"""
    import numqi
    circ = numqi.sim.Circuit(default_requires_grad=True)
    circ.register_custom_gate('fgo', numqi.query.FractionalGroverOracle)
    circ.register_custom_gate('go', numqi.query.GroverOracle)
    oracles = []
    for st in program:
        if st[0] == 'H':
            circ.H(st[1])
        elif st[0] in ('rx', 'ry', 'rz'):
            getattr(circ, st[0])(st[1], st[2])
        elif st[0] == 'cnot':
            circ.cnot(st[1], st[2])
        elif st[0] == 'fgo':
            oracles.append(circ.fgo(nq, st[1], requires_grad=(st[2] if len(st) > 2 else True)))
        elif st[0] == 'go':
            circ.go(nq)
        elif st[0] == 'share':
            circ.append_gate(oracles[st[1]], ())
    return circ


def custom_program_check(ctx, tag, nq, program, target):
    """gradient of |<t|C(theta)|0>|^2 through CircuitTorchWrapper against central finite differences, per parameter"""
    import numqi, torch
    N = 2 ** (2 * nq)
    rep = dict(op='CircuitTorchWrapper with custom gates', source=tag, num_qubit=2 * nq, program=program, target=target, loss='|<t|psi>|^2, psi = circuit(|0..0>)')
    try:
        circ = build_custom_program(nq, program)
        w = numqi.sim.CircuitTorchWrapper(circ)
        t = np.arange(1, N + 1) * (np.exp(1j * np.arange(N)) if target == 'ramp-phase' else 1.0)
        tt = torch.tensor(t / np.linalg.norm(t), dtype=torch.complex128)
        q0 = torch.zeros(N, dtype=torch.complex128); q0[0] = 1
        loss = lambda: torch.abs(torch.vdot(tt, w(q0))) ** 2
        for v in w.theta.values():
            v.grad = None
        loss().backward()
        rows = []
        for k in sorted(w.theta.keys()):
            v = w.theta[k]
            for i in range(v.numel()):
                h = 1e-6
                with torch.no_grad():
                    v.view(-1)[i] += h; lp = float(loss()); v.view(-1)[i] -= 2 * h; lm = float(loss()); v.view(-1)[i] += h
                rows.append((k, i, float(v.grad.view(-1)[i]) if v.grad is not None else 0.0, (lp - lm) / (2 * h)))
    except Exception as ex:
        ctx.fail(CUSTOM_KEY, f'[{tag}] CircuitTorchWrapper with a custom gate raises {type(ex).__name__}: {ex}', rep); return False
    bad = [r for r in rows if abs(r[2] - r[3]) > 1e-6 * max(1.0, abs(r[3]))]
    if bad:
        k, i, g, fd = max(bad, key=lambda r: abs(r[2] - r[3]))
        ctx.fail(CUSTOM_KEY, f'[{tag}] parameter {k}[{i}] of a circuit with kind=custom gates receives .grad {g:.6g} while central finite differences give {fd:.6g} '
                 f'({len(bad)} of {len(rows)} parameters wrong; custom-gate parameters: {[r[:2] for r in bad if "oracle" in r[0]]})',
                 dict(rep, gradients=[dict(parameter=f'{k}[{i}]', grad=g, finite_difference=fd) for k, i, g, fd in rows]))
        return False
    ctx.probe_ok(('custom-program', tag, nq, len(program)))
    return True


def corpus_replay(ctx):
    """/verif/corpus/C04/*.json: the recorded failing input of every repaired defect, replayed first on every run (both tiers)"""
    import glob, json, os, numqi
    st = numqi.sim.state
    cv = lambda x: complex(x) if isinstance(x, str) else x
    for path in sorted(glob.glob(os.path.join(common.VERIF, 'corpus', 'C04', '*.json'))):
        tag = os.path.basename(path)[:-5]
        for j, e in enumerate(json.load(open(path))['entries']):
            if e.get('kind') == 'custom_circuit':
                custom_program_check(ctx, f'corpus {tag}#{j}', e['nq'], e['program'], e['target'])
                continue
            if e.get('kind') != 'apply_gate_grad':
                continue
            idx = e['index']
            idx = np.int64(int(idx[9:-1])) if isinstance(idx, str) else idx
            U = np.array([[cv(x) for x in row] for row in e['U']], dtype=np.complex128)
            qc = np.array([cv(x) for x in e['q0_conj']], dtype=np.complex128); g = np.array([cv(x) for x in e['q0_grad']], dtype=np.complex128)
            rep = dict(op='apply_gate_grad', corpus=tag, n=e['n'], index=repr(idx), U=gl(U), q0_conj=gl(qc), q0_grad=gl(g))
            try:
                a, b, c = st.apply_gate_grad(qc.copy(), g.copy(), U, idx)
                a2, b2, c2 = st.apply_gate_grad(qc.copy(), g.copy(), U, (int(idx),))
                ok = np.array_equal(a, a2) and np.array_equal(b, b2) and np.array_equal(c, c2)
            except Exception as ex:
                ctx.fail(INT_INDEX_KEY, f'[corpus {tag}] apply_gate_grad(q0_conj, q0_grad, op, index={idx!r}) raises {type(ex).__name__}', rep); continue
            if not ok:
                ctx.fail(INT_INDEX_KEY, f'[corpus {tag}] apply_gate_grad with the bare index {idx!r} differs from the tuple form', rep)
            else:
                ctx.probe_ok(('corpus', tag, repr(idx)))


def circuit_grad_triple(circ, nph, r2, snaps=None):
    """(theta, gradient through CircuitTorchWrapper, gradient of the pure-autograd re-implementation, central finite differences) for a
    generic real loss (quadratic + linear part) and a random normalised input state given as a torch tensor"""
    import numqi, torch
    n = circ.num_qubit
    wrapper = numqi.sim.CircuitTorchWrapper(circ)
    a = r2.normal(size=2 ** n) + 1j * r2.normal(size=2 ** n)
    b = r2.normal(size=2 ** n) + 1j * r2.normal(size=2 ** n)
    q0np = r2.normal(size=2 ** n) + 1j * r2.normal(size=2 ** n); q0np /= np.linalg.norm(q0np)
    at, bt = torch.tensor(a), torch.tensor(b)
    ph = torch.nn.Parameter(torch.tensor(r2.uniform(0, 2 * np.pi, size=max(nph, 1)), dtype=torch.float64))
    names = ['placeholder'] + sorted(wrapper.theta.keys())
    plist = [ph] + [wrapper.theta[k] for k in names[1:]]
    sizes = [p.numel() for p in plist]
    labels = [f'{nm}[{i}]' for nm, sz in zip(names, sizes) for i in range(sz)]

    def loss_of(psi):
        v = torch.vdot(at, psi)
        return (v * v.conj()).real + torch.vdot(bt, psi).real + 0.3 * torch.vdot(bt, psi).imag

    def set_flat(x):
        off = 0
        with torch.no_grad():
            for p, sz in zip(plist, sizes):
                p.copy_(torch.tensor(x[off:off + sz]).reshape(p.shape)); off += sz

    def run(kind):
        if nph:
            wrapper.setP(a=ph)
        q0 = torch.tensor(q0np)
        return loss_of(wrapper(q0) if kind == 'custom' else reimplement(circ, wrapper, q0, ph))
    x0 = np.concatenate([p.detach().numpy().reshape(-1) for p in plist])
    grads = {}
    for kind in ('custom', 'autograd'):
        for p in plist:
            p.grad = None
        run(kind).backward()
        grads[kind] = np.concatenate([(p.grad if p.grad is not None else torch.zeros_like(p)).numpy().reshape(-1) for p in plist])
    fd = fd_grad(lambda x: (set_flat(x), float(run('custom').detach()))[1], x0)
    set_flat(x0)
    return x0, grads['custom'], grads['autograd'], fd, labels


def grover_query_circuit(num_qubit, num_layer, num_query, use_fractional):
    """the circuit of tests/test_query.py::_QueryGroverQuantumModel_build_circuit"""
    import numqi
    circ = numqi.sim.Circuit(default_requires_grad=True)
    circ.register_custom_gate('oracle', numqi.query.FractionalGroverOracle if use_fractional else numqi.query.GroverOracle)

    def block():
        for _ in range(num_layer):
            for q in list(range(0, num_qubit - 1, 2)) + list(range(1, num_qubit - 1, 2)):
                circ.ry(q); circ.rx(q); circ.ry(q + 1); circ.rx(q + 1); circ.cnot(q, q + 1)
    for _ in range(num_query):
        block()
        circ.oracle(num_qubit)
    block()
    return circ


def probe_custom(ctx, rng, worst):
    """`circuit-grad-vs-fd:custom` — circuits that contain `kind='custom'` gates (registered through `register_custom_gate`):
    (a) random circuits with trainable / frozen / shared FractionalGroverOracle and GroverOracle objects: gradient through
        CircuitTorchWrapper against central finite differences and a pure-autograd re-implementation, per parameter;
    (b) numqi.query.QueryGroverQuantumModel (use_fractional on/off) through numqi.optimize.hf_model_wrapper(model)(theta) -> (fval, grad)"""
    import numqi, torch
    worst.setdefault('custom_fd', 0.0); worst.setdefault('custom_autograd', 0.0); worst.setdefault('query_model_fd', 0.0)
    for rep in range(8 if ctx.quick() else 48):
        seed = int(rng.integers(1 << 30))
        r2 = np.random.default_rng(seed)
        nq = 1 + rep % 2
        circ, nph = random_custom_circuit(r2, nq, int(r2.integers(2, 9)))
        info = dict(op='CircuitTorchWrapper with custom gates', circuit_seed=seed, nq=nq, num_qubit=2 * nq,
                    gates=[(g.name, g.kind, str(ix), bool(getattr(g, 'requires_grad', False)), id(g) % 9973) for g, ix in circ.gate_index_list])
        try:
            x0, gc, ga, fd, labels = circuit_grad_triple(circ, nph, r2)
            e_fd, e_ag = rel_err(gc, fd), rel_err(gc, ga)
            worst['custom_fd'] = max(worst['custom_fd'], e_fd); worst['custom_autograd'] = max(worst['custom_autograd'], e_ag)
        except Exception as e:
            ctx.fail('custom-grad-raises', f'{type(e).__name__}: {e}', info); continue
        if e_ag > 1e-9 or e_fd > 1e-5:
            j = int(np.argmax(np.abs(gc - ga)))
            ctx.fail(CUSTOM_KEY, f'circuit with kind=custom gates: parameter {labels[j]} receives .grad {gc[j]:.6g}, the pure-autograd re-implementation gives {ga[j]:.6g}, '
                     f'central finite differences {fd[j]:.6g} (relative error {max(e_ag, e_fd):.3e})',
                     dict(info, parameters=labels, theta=x0.tolist(), grad=gc.tolist(), autograd=ga.tolist(), finite_difference=fd.tolist()))
        else:
            ctx.probe_ok(('custom-circuit', seed)); ctx.count('circuit-grad-vs-fd:custom')
            for c in circuit_classes(circ):
                ctx.count('probe-circuit-' + c)
    cases = [(2, 1, 1, True), (2, 1, 2, True), (2, 2, 1, False)] if ctx.quick() else [(2, 1, 1, True), (2, 1, 2, True), (2, 2, 2, True), (3, 1, 1, True), (3, 1, 2, True), (2, 2, 1, False), (3, 1, 1, False)]
    for num_qubit, num_layer, num_query, frac in cases:
        seed = int(rng.integers(1 << 30))
        info = dict(op='numqi.optimize.hf_model_wrapper(QueryGroverQuantumModel(circuit))(theta)', num_qubit=num_qubit, num_layer=num_layer, num_query=num_query, use_fractional=frac, theta_seed=seed)
        try:
            model = numqi.query.QueryGroverQuantumModel(grover_query_circuit(num_qubit, num_layer, num_query, frac))
            hf = numqi.optimize.hf_model_wrapper(model)
            names = [k for k, _ in sorted(model.named_parameters(), key=lambda kv: kv[0])]
            sizes = [dict(model.named_parameters())[k].numel() for k in names]
            labels = [f'{nm}[{i}]' for nm, sz in zip(names, sizes) for i in range(sz)]
            theta = np.random.default_rng(seed).uniform(0, 2 * np.pi, size=sum(sizes))
            f0, g0 = hf(theta.copy())
            fd = fd_grad(lambda x: hf(x, tag_grad=False), theta)
            f1, g1 = hf(theta.copy())
            e = rel_err(g0, fd)
            worst['query_model_fd'] = max(worst['query_model_fd'], e)
        except Exception as ex:
            ctx.fail('custom-grad-raises', f'{type(ex).__name__}: {ex}', info); continue
        if e > 1e-5 or not np.array_equal(g0, g1) or f0 != f1:
            j = int(np.argmax(np.abs(g0 - fd)))
            ctx.fail(CUSTOM_KEY, f'QueryGroverQuantumModel through hf_model_wrapper: d loss / d {labels[j]} = {g0[j]:.6g} but central finite differences give {fd[j]:.6g} '
                     f'(relative error {e:.3e}; repeated call identical: {bool(np.array_equal(g0, g1) and f0 == f1)})',
                     dict(info, parameters=labels, theta=theta.tolist(), grad=np.asarray(g0).tolist(), finite_difference=fd.tolist()))
        else:
            ctx.probe_ok(('query-model', num_qubit, num_layer, num_query, frac)); ctx.count('query-model-grad-vs-fd')


def probe_class_representatives(ctx, worst):
    """one fixed circuit per program class (plain / placeholder / shared / custom) through the public path: gradient of CircuitTorchWrapper
    against the autograd re-implementation and finite differences — so that every class is covered even when an exact tie is unavailable"""
    import numqi
    def build(cls):
        circ = numqi.sim.Circuit(default_requires_grad=True)
        circ.ry(1, 0.3); circ.rx(0, 0.7); circ.cnot(0, 1); circ.rz(1, 1.1)
        nph = 0
        if cls == 'placeholder':
            circ.rx(0, circ.P['a'][0]); circ.rz(1, circ.P['a'][1]); nph = 2
        elif cls == 'shared':
            g = circ.u3(0, (0.2, 0.5, 0.9)); circ.cnot(1, 0); circ.append_gate(g, (1,))
        elif cls == 'custom':
            circ.register_custom_gate('fgo', numqi.query.FractionalGroverOracle); circ.register_custom_gate('go', numqi.query.GroverOracle)
            g = circ.fgo(1, 0.4); circ.ry(0, 0.6); circ.go(1); circ.append_gate(g, ())
        circ.ry(0, 1.3)
        return circ, nph
    for cls in SWEEP_CLASSES:
        info = dict(op='CircuitTorchWrapper (class representative)', program_class=cls)
        try:
            circ, nph = build(cls)
            x0, gc, ga, fd, labels = circuit_grad_triple(circ, nph, np.random.default_rng(ctx.np_seed + 41))
            e_fd, e_ag = rel_err(gc, fd), rel_err(gc, ga)
        except Exception as e:
            ctx.fail('circuit-grad-raises', f'{type(e).__name__}: {e}', info); continue
        if e_ag > 1e-9 or e_fd > 1e-5:
            j = int(np.argmax(np.abs(gc - ga)))
            ctx.fail(CUSTOM_KEY if cls == 'custom' else 'circuit-grad-vs-autograd', f'{cls} circuit: parameter {labels[j]} receives .grad {gc[j]:.6g}, autograd {ga[j]:.6g}, finite differences {fd[j]:.6g}',
                     dict(info, gates=[(g.name, str(ix)) for g, ix in circ.gate_index_list], parameters=labels, theta=x0.tolist(), grad=gc.tolist(), autograd=ga.tolist(), finite_difference=fd.tolist()))
        else:
            ctx.probe_ok(('class-representative', cls))
            for c in circuit_classes(circ):
                ctx.count('probe-circuit-' + c)
            if cls == 'plain':
                ctx.count('probe-circuit-plain', 0)


def probe_relative_entropy(ctx, rng, worst):
    """`numqi.utils.get_relative_entropy` with its default `_torch_logm=('pade',6,8)`: for a differentiable argument the loss is built on
    `PSDMatrixLogm` (repeated PSD square root + Pade); gradient against the eigen-decomposition path (autograd) and finite differences"""
    import numqi, torch
    worst.setdefault('relative_entropy_pade', 0.0)
    for rep in range(6 if ctx.quick() else 40):
        d = int(rng.integers(2, 5)); seed = int(rng.integers(1 << 30))
        r2 = np.random.default_rng(seed)
        info = dict(op='get_relative_entropy(rho, sigma(theta))  [default _torch_logm]', dim=d, seed=seed)
        try:
            A0 = r2.normal(size=(d, d)) + 1j * r2.normal(size=(d, d))
            rho = numqi.random.rand_density_matrix(d, seed=int(r2.integers(1 << 30)))
            rho_t = torch.tensor(rho, dtype=torch.complex128)

            def sigma_of(x):
                A = torch.complex(x[:d * d], x[d * d:]).reshape(d, d)
                S = A @ A.conj().T + 0.2 * torch.eye(d, dtype=torch.complex128)
                return S / torch.trace(S).real

            x0 = np.concatenate([A0.real.reshape(-1), A0.imag.reshape(-1)])
            grads = {}
            vals = {}
            for mode in ('default', 'eigen'):
                x = torch.tensor(x0, dtype=torch.float64, requires_grad=True)
                sig = sigma_of(x)
                keep = sig.detach().clone()
                val = numqi.utils.get_relative_entropy(rho_t, sig) if mode == 'default' else numqi.utils.get_relative_entropy(rho_t, sig, _torch_logm='eigen')
                val.backward()
                grads[mode] = x.grad.numpy().copy(); vals[mode] = float(val.detach())
                if not torch.equal(sig.detach(), keep):
                    ctx.fail(MUTATION_KEY + ':get_relative_entropy', 'get_relative_entropy modified its sigma argument in place', info)
            fd = fd_grad(lambda x: float(numqi.utils.get_relative_entropy(rho, sigma_of(torch.tensor(x, dtype=torch.float64)).numpy())), x0)
            e_ag, e_fd = rel_err(grads['default'], grads['eigen']), rel_err(grads['default'], fd)
            worst['relative_entropy_pade'] = max(worst['relative_entropy_pade'], e_ag, e_fd, abs(vals['default'] - vals['eigen']))
        except Exception as ex:
            ctx.fail('relative-entropy-grad-raises', f'{type(ex).__name__}: {ex}', info); continue
        if e_ag > 1e-6 or e_fd > 1e-5 or abs(vals['default'] - vals['eigen']) > 1e-7 * max(1.0, abs(vals['eigen'])):
            ctx.fail('relative-entropy-grad', f'get_relative_entropy (default Pade logm path): gradient differs from the eigen path by {e_ag:.3e} and from finite differences by {e_fd:.3e}; '
                     f'value {vals["default"]!r} vs {vals["eigen"]!r}', dict(info, theta=x0.tolist(), grad=grads['default'].tolist(), eigen=grads['eigen'].tolist(), finite_difference=fd.tolist()))
        else:
            ctx.probe_ok(('relative-entropy', d, seed)); ctx.count('relative-entropy-pade')


def probe_histories(ctx, rng, worst):
    """objects with state driven through histories: the same wrapper called repeatedly (forward/backward), two circuits of different
    size interleaved, placeholders re-bound, parameters overwritten in place through the flat bridge; exact-zero angles"""
    import numqi, torch
    for rep in range(3 if ctx.quick() else 12):
        seed = int(rng.integers(1 << 30)); r2 = np.random.default_rng(seed)
        info = dict(op='CircuitTorchWrapper-history', seed=seed)
        try:
            items = []
            for n in (2, 3):
                circ, nph = random_circuit(r2, n, int(r2.integers(3, 8)))
                circ.ry(circ.num_qubit - 1 if circ.num_qubit else 0, float(r2.uniform(0, 6)))
                w = numqi.sim.CircuitTorchWrapper(circ)
                ph = torch.nn.Parameter(torch.tensor(r2.uniform(0, 6, size=max(nph, 1)), dtype=torch.float64))
                a = torch.tensor(r2.normal(size=2 ** circ.num_qubit) + 1j * r2.normal(size=2 ** circ.num_qubit))
                items.append((circ, w, nph, ph, a))

            def grad_of(item, kindf='custom'):
                circ, w, nph, ph, a = item
                ps = [ph] + [w.theta[k] for k in sorted(w.theta.keys())]
                for p_ in ps:
                    p_.grad = None
                if nph:
                    w.setP(a=ph)
                q0 = torch.zeros(2 ** circ.num_qubit, dtype=torch.complex128); q0[0] = 1
                psi = w(q0) if kindf == 'custom' else reimplement(circ, w, q0, ph)
                v = torch.vdot(a, psi); loss = (v * v.conj()).real + torch.vdot(a, psi).imag
                loss.backward()
                return np.concatenate([(p_.grad if p_.grad is not None else torch.zeros_like(p_)).numpy().reshape(-1) for p_ in ps])
            steps = []
            first = {}
            for step, which in enumerate([0, 1, 0, 0, 1, 0, 1, 1, 0]):
                g = grad_of(items[which]); steps.append(which)
                if which in first and not np.array_equal(g, first[which]):
                    ctx.fail('wrapper-history', f'the same CircuitTorchWrapper returned a different gradient at call #{step} of an interleaved history '
                             f'(max diff {np.max(np.abs(g - first[which])):.3e})', dict(info, history=steps)); break
                first.setdefault(which, g)
            else:
                # in-place overwrite through the flat bridge, exact zeros included, then compare with autograd
                for item in items:
                    circ, w, nph, ph, a = item
                    x = numqi.optimize.get_model_flat_parameter(w)
                    x2 = x.copy(); x2[::2] = 0.0
                    numqi.optimize.set_model_flat_parameter(w, x2)
                    e = rel_err(grad_of(item, 'custom'), grad_of(item, 'autograd'))
                    worst['history_autograd'] = max(worst.get('history_autograd', 0.0), e)
                    if e > 1e-9:
                        ctx.fail('wrapper-history', f'gradient after an in-place parameter overwrite (with exact zeros) differs from autograd by {e:.3e}', dict(info, theta=x2.tolist())); break
                else:
                    ctx.probe_ok(('history', seed))
        except Exception as e:
            ctx.fail('history-raises', f'{type(e).__name__}: {e}', info)


def probe_aliasing_ops(ctx, rng):
    """the other hand-written backward passes must leave grad_output, their inputs and their saved tensors untouched"""
    import numqi, torch
    for rep in range(4 if ctx.quick() else 24):
        seed = int(rng.integers(1 << 30)); r2 = np.random.default_rng(seed)
        # Knill-Laflamme op, output consumed twice
        L = int(r2.choice([1, 2, 4])); m = int(r2.integers(1, 4))
        info = dict(op='knill_laflamme_inner_product', seed=seed, L=L, m=m)
        try:
            def rand_factor():
                k = int(r2.integers(1, min(2, m) + 1))
                return ([int(x) for x in r2.permutation(m)[:k]], numqi.random.rand_haar_unitary(2 ** k, seed=int(r2.integers(1 << 30))))
            op_list = [[rand_factor() for _ in range(int(r2.integers(1, 4)))] for _ in range(2)]
            ops0 = [[(list(i), u.copy()) for i, u in seq] for seq in op_list]
            qn = r2.normal(size=(L, 2 ** m)) + 1j * r2.normal(size=(L, 2 ** m))
            q = torch.tensor(qn, requires_grad=True)
            qq = q * 1.0
            snaps = []
            y = numqi.qec.knill_laflamme_inner_product(qq, op_list)
            y.register_hook(lambda g: snaps.append((g, g.clone())))
            ((y * y.conj()).real.sum() + y.real.sum() + (y.abs() ** 2).sum()).backward()
            ok = all(torch.equal(g, c) for g, c in snaps)
            ok_in = np.array_equal(q.detach().numpy(), qn) and all(np.array_equal(u, u0) and list(i) == i0 for seq, seq0 in zip(op_list, ops0) for (i, u), (i0, u0) in zip(seq, seq0))
        except Exception as e:
            ctx.fail('aliasing-raises', f'{type(e).__name__}: {e}', info); continue
        if not ok:
            ctx.fail(MUTATION_KEY + ':KnillLaflamme.backward', 'the Knill-Laflamme backward modified the grad_output tensor handed to it by autograd', info)
        elif not ok_in:
            ctx.fail(MUTATION_KEY + ':KnillLaflamme.inputs', 'the Knill-Laflamme op modified its input code / operator list', info)
        else:
            ctx.probe_ok(('alias-kl', seed))
        # PSD square root / logm: grad_output, input and saved tensors
        d = int(r2.integers(1, 5))
        for name, fn in (('PSDMatrixSqrtm', lambda X: numqi._torch_op.PSDMatrixSqrtm.apply(X)),
                         ('_PSDMatrixSqrtmRepeat', lambda X: numqi._torch_op._PSDMatrixSqrtmRepeat.apply(X, 2)),
                         ('PSDMatrixLogm', lambda X: numqi._torch_op.get_PSDMatrixLogm(3, 4)(X))):
            info = dict(op=name, seed=seed, dim=d)
            try:
                Bm = r2.normal(size=(d, d)) + 1j * r2.normal(size=(d, d))
                A0 = Bm @ Bm.conj().T + 0.3 * np.eye(d)
                X = torch.tensor(A0, requires_grad=True)
                Xc = X * 1.0
                snaps, saved = [], []
                Y = fn(Xc)
                node = Y.grad_fn
                seen = set()
                stack = [node]
                while stack:            # saved tensors of every custom Function in the graph of Y
                    nd = stack.pop()
                    if nd is None or id(nd) in seen:
                        continue
                    seen.add(id(nd))
                    if hasattr(nd, 'saved_tensors'):
                        try:
                            saved += [(t, t.clone()) for t in nd.saved_tensors]
                        except Exception:
                            pass
                    stack += [f for f, _ in nd.next_functions]
                Y.register_hook(lambda g: snaps.append((g, g.clone())))
                C = torch.tensor(r2.normal(size=(d, d)) + 1j * r2.normal(size=(d, d)))
                ((C * Y).real.sum() + (Y * Y.conj()).real.sum()).backward()
                ok = all(torch.equal(g, c) for g, c in snaps)
                ok_in = np.array_equal(X.detach().numpy(), A0) and all(torch.equal(t, c) for t, c in saved)
            except Exception as e:
                ctx.fail('aliasing-raises', f'{name}: {type(e).__name__}: {e}', info); continue
            if not ok:
                ctx.fail(MUTATION_KEY + ':' + name + '.backward', f'{name} backward modified the grad_output tensor handed to it by autograd', info)
            elif not ok_in:
                ctx.fail(MUTATION_KEY + ':' + name + '.saved', f'{name} backward modified its input or its saved tensors', info)
            else:
                ctx.probe_ok(('alias', name, seed))


def probe(ctx):
    import numqi, torch
    corpus_replay(ctx)
    rng = np.random.default_rng(ctx.np_seed + 5)
    worst = dict(circuit_fd=0.0, circuit_autograd=0.0, sqrtm=0.0, logm=0.0, varqec=0.0)
    # (1) CircuitTorchWrapper on random circuits
    for rep in range(12 if ctx.quick() else 80):
        n = int(rng.integers(1, 5))
        seed = int(rng.integers(1 << 30))
        r2 = np.random.default_rng(seed)
        circ, nph = random_circuit(r2, n, int(r2.integers(2, 10)))
        n = circ.num_qubit
        info = dict(op='CircuitTorchWrapper', circuit_seed=seed, num_qubit=n, gates=[(g.name, str(ix)) for g, ix in circ.gate_index_list])
        try:
            if not any(getattr(g, 'requires_grad', False) or hasattr(g, 'hf0') and not isinstance(g.args, tuple) for g, _ in circ.gate_index_list):
                circ.u3(int(r2.integers(n)), tuple(r2.uniform(0, 6, size=3)))
            wrapper = numqi.sim.CircuitTorchWrapper(circ)
            a = r2.normal(size=2 ** n) + 1j * r2.normal(size=2 ** n)
            b = r2.normal(size=2 ** n) + 1j * r2.normal(size=2 ** n)
            q0np = r2.normal(size=2 ** n) + 1j * r2.normal(size=2 ** n); q0np /= np.linalg.norm(q0np)
            at, bt = torch.tensor(a), torch.tensor(b)
            ph = torch.nn.Parameter(torch.tensor(r2.uniform(0, 2 * np.pi, size=max(nph, 1)), dtype=torch.float64))
            plist = [ph] + [wrapper.theta[k] for k in sorted(wrapper.theta.keys())]
            sizes = [p.numel() for p in plist]

            def loss_of(psi):
                # a generic real loss: quadratic + linear part (not only |<a|psi>|^2)
                v = torch.vdot(at, psi)
                return (v * v.conj()).real + torch.vdot(bt, psi).real + 0.3 * torch.vdot(bt, psi).imag

            def set_flat(x):
                off = 0
                with torch.no_grad():
                    for p, s in zip(plist, sizes):
                        p.copy_(torch.tensor(x[off:off + s]).reshape(p.shape)); off += s

            def run(kind):
                if nph:
                    wrapper.setP(a=ph)
                q0 = torch.tensor(q0np)
                psi = wrapper(q0) if kind == 'custom' else reimplement(circ, wrapper, q0, ph)
                if kind == 'custom' and psi.requires_grad:
                    psi.register_hook(lambda g: snaps1.append((g, g.clone())))
                return loss_of(psi)
            x0 = np.concatenate([p.detach().numpy().reshape(-1) for p in plist])
            grads = {}
            snaps1 = []
            for kind in ('custom', 'autograd'):
                for p in plist:
                    p.grad = None
                run(kind).backward()
                grads[kind] = np.concatenate([(p.grad if p.grad is not None else torch.zeros_like(p)).numpy().reshape(-1) for p in plist])
            f = lambda x: (set_flat(x), float(run('custom').detach()))[1]
            fd = fd_grad(f, x0)
            set_flat(x0)
            e_fd, e_ag = rel_err(grads['custom'], fd), rel_err(grads['custom'], grads['autograd'])
            worst['circuit_fd'] = max(worst['circuit_fd'], e_fd); worst['circuit_autograd'] = max(worst['circuit_autograd'], e_ag)
        except Exception as e:
            ctx.fail('circuit-grad-raises', f'{type(e).__name__}: {e}', info); continue
        if any(not torch.equal(g_, c_) for g_, c_ in snaps1[:1]):
            ctx.fail(MUTATION_KEY + ':_CircuitFunction.backward', '_CircuitFunction.backward modified the grad_output tensor handed to it by autograd', info)
        elif e_ag > 1e-9:
            ctx.fail('circuit-grad-vs-autograd', f'CircuitTorchWrapper gradient differs from a pure-autograd re-implementation by {e_ag:.3e} (relative)',
                     dict(info, theta=x0.tolist(), grad=grads['custom'].tolist(), autograd=grads['autograd'].tolist()))
        elif e_fd > 1e-5:
            ctx.fail('circuit-grad-vs-fd', f'CircuitTorchWrapper gradient differs from central finite differences by {e_fd:.3e} (relative)',
                     dict(info, theta=x0.tolist(), grad=grads['custom'].tolist(), finite_difference=fd.tolist()))
        else:
            ctx.probe_ok(('circuit', seed))
            for c in circuit_classes(circ):
                ctx.count('probe-circuit-' + c)
    # (1b) several circuit branches in one graph, outputs consumed twice, every kind of last gate; aliasing of grad_output
    probe_graphs(ctx, rng, worst)
    probe_inputs(ctx, rng, worst)
    probe_histories(ctx, rng, worst)
    probe_aliasing_ops(ctx, rng)
    probe_custom(ctx, np.random.default_rng(ctx.np_seed + 11), worst)
    probe_relative_entropy(ctx, np.random.default_rng(ctx.np_seed + 12), worst)
    # (2) Knill-Laflamme op and the VarQEC loss through the flat-parameter bridge
    for rep in range(2 if ctx.quick() else 8):
        seed = int(rng.integers(1 << 30))
        r2 = np.random.default_rng(seed)
        nq = int(r2.integers(3, 5)); L = 2
        info = dict(op='VarQEC', seed=seed, num_qubit=nq)
        try:
            circ = numqi.sim.Circuit(default_requires_grad=True)
            for layer in range(2):
                for x in range(nq):
                    circ.u3(x)
                for x in range(nq):
                    circ.cu3(x, (x + 1 + layer) % nq)
            model = numqi.qec.VarQEC(circ, L, numqi.qec.make_error_list(nq, 2), loss_type='L2' if rep % 2 == 0 else 'L1')
            hf = numqi.optimize.hf_model_wrapper(model)
            x0 = r2.uniform(0, 2 * np.pi, size=numqi.optimize.get_model_flat_parameter(model).size)
            fval, grad = hf(x0)
            fd = fd_grad(lambda x: hf(x, tag_grad=False), x0)
            e = rel_err(grad, fd)
            worst['varqec'] = max(worst['varqec'], e)
        except Exception as e:
            ctx.fail('varqec-grad-raises', f'{type(e).__name__}: {e}', info); continue
        if e > 1e-5:
            ctx.fail('varqec-grad-vs-fd', f'VarQEC loss gradient (hf_model_wrapper) differs from finite differences by {e:.3e}', dict(info, theta=x0.tolist()))
        else:
            ctx.probe_ok(('varqec', seed))
    for rep in range(6 if ctx.quick() else 40):
        seed = int(rng.integers(1 << 30)); r2 = np.random.default_rng(seed)
        L = int(r2.choice([1, 2, 4])); m = int(r2.integers(1, 4))
        info = dict(op='knill_laflamme_inner_product', seed=seed, L=L, m=m)
        try:
            def rand_factor():
                k = int(r2.integers(1, min(2, m) + 1))
                return ([int(x) for x in r2.permutation(m)[:k]], numqi.random.rand_haar_unitary(2 ** k, seed=int(r2.integers(1 << 30))))
            # factors may act on the same qubits (they do not commute): the order of the adjoint sequence matters
            op_list = [[rand_factor() for _ in range(int(r2.integers(0, 4)))] for _ in range(3)]
            W = r2.normal(size=(3, L, L)) + 1j * r2.normal(size=(3, L, L))
            q = r2.normal(size=(L, 2 ** m, 2))
            Wt = torch.tensor(W)

            def f(x):
                qq = torch.tensor(x[..., 0] + 1j * x[..., 1])
                y = numqi.qec.knill_laflamme_inner_product(qq, op_list)
                return float((Wt * y).real.sum() + (y.abs() ** 2).sum())
            qr = torch.tensor(q, requires_grad=True)
            qq = torch.complex(qr[..., 0], qr[..., 1])
            y = numqi.qec.knill_laflamme_inner_product(qq, op_list)
            ((Wt * y).real.sum() + (y.abs() ** 2).sum()).backward()
            e = rel_err(qr.grad.numpy(), fd_grad(f, q))
        except Exception as ex:
            ctx.fail('kl-grad-raises', f'{type(ex).__name__}: {ex}', info); continue
        if e > 1e-5:
            ctx.fail('kl-grad-vs-fd', f'Knill-Laflamme backward differs from finite differences by {e:.3e}', info)
        else:
            ctx.probe_ok(('kl', seed))
    # (2b) flat-parameter bridge: get_model_flat_grad is the gradient w.r.t. the vector written by set_model_flat_parameter
    for rep in range(3 if ctx.quick() else 12):
        seed = int(rng.integers(1 << 30)); r2 = np.random.default_rng(seed)
        info = dict(op='flat-parameter-bridge', seed=seed)
        try:
            class M(torch.nn.Module):
                def __init__(self):
                    super().__init__()
                    self.zeta = torch.nn.Parameter(torch.tensor(r2.normal(size=(2, 2))))
                    self.alpha = torch.nn.Parameter(torch.tensor(r2.normal(size=3)))
                    self.sub = torch.nn.Module(); self.sub.m = torch.nn.Parameter(torch.tensor(r2.normal(size=(1, 2))))
                    self.frozen = torch.nn.Parameter(torch.tensor(r2.normal(size=2)), requires_grad=False)
                    self.w = torch.tensor(r2.normal(size=9))
                def forward(self):
                    v = torch.cat([self.zeta.reshape(-1), self.alpha, self.sub.m.reshape(-1)])
                    return (self.w * v).sum() + (v[0] * v[5] * v[8]) + torch.sin(v).sum() + self.frozen.sum()
            model = M()
            x0 = numqi.optimize.get_model_flat_parameter(model)
            numqi.optimize.set_model_flat_parameter(model, x0 + 0.1)
            back = numqi.optimize.get_model_flat_parameter(model)
            model().backward()
            g1 = numqi.optimize.get_model_flat_grad(model)
            fval, g2 = numqi.optimize.hf_model_wrapper(model)(x0 + 0.1)

            def f(x):
                numqi.optimize.set_model_flat_parameter(model, x)
                with torch.no_grad():
                    return float(model())
            fd = fd_grad(f, x0 + 0.1)
            e = max(rel_err(g1, fd), rel_err(g2, fd), float(np.max(np.abs(back - (x0 + 0.1)))))
        except Exception as ex:
            ctx.fail('flat-bridge-raises', f'{type(ex).__name__}: {ex}', info); continue
        if e > 1e-5:
            ctx.fail('flat-bridge-order', f'flat gradient / parameter vectors are not in the same order (error {e:.3e})', info)
        else:
            ctx.probe_ok(('flat', seed))
    # (3) PSDMatrixSqrtm / PSDMatrixLogm incl. degenerate spectra
    notes = {}
    for rep in range(18 if ctx.quick() else 120):
        seed = int(rng.integers(1 << 30)); r2 = np.random.default_rng(seed)
        d = int(r2.integers(1, 5))
        spec_kind = ['generic', 'degenerate', 'near-degenerate', 'rank-deficient', 'gap-1e-12', 'gap-1e-8'][rep % 6]
        batch = bool(rep % 8 >= 4)
        info = dict(op='PSDMatrixSqrtm/Logm', seed=seed, dim=d, spectrum=spec_kind, batched=batch)
        try:
            Q = numqi.random.rand_haar_unitary(d, seed=int(r2.integers(1 << 30)))
            ev = r2.uniform(0.3, 2.0, size=d)
            if spec_kind == 'degenerate' and d >= 2:
                ev[1] = ev[0]
            if spec_kind == 'near-degenerate' and d >= 2:
                ev[1] = ev[0] * (1 + 1e-9)
            if spec_kind == 'gap-1e-12' and d >= 2:
                ev[1] = ev[0] + 1e-12
            if spec_kind == 'gap-1e-8' and d >= 2:
                ev[1] = ev[0] + 1e-8
            if spec_kind == 'rank-deficient':
                ev[0] = 0.0
            A0 = (Q * ev) @ Q.conj().T
            A0 = (A0 + A0.conj().T) / 2
            if batch:
                A0 = np.stack([A0, A0.T.copy()])
            C = r2.normal(size=A0.shape) + 1j * r2.normal(size=A0.shape)
            C = C + np.swapaxes(C.conj(), -1, -2)
            Ct = torch.tensor(C)
            H = r2.normal(size=A0.shape) + 1j * r2.normal(size=A0.shape)
            H = H + np.swapaxes(H.conj(), -1, -2)            # Hermitian direction
            for name, fn in (('sqrtm', lambda X: numqi._torch_op.PSDMatrixSqrtm.apply(X)),
                             ('sqrtm-repeat2', lambda X: numqi._torch_op._PSDMatrixSqrtmRepeat.apply(X, 2)),
                             ('logm', lambda X: numqi._torch_op.get_PSDMatrixLogm(6, 8)(X))):
                if spec_kind == 'rank-deficient' and name == 'logm':
                    continue
                X = torch.tensor(A0, requires_grad=True)
                val = (Ct * fn(X)).real.sum()
                val.backward()
                G = X.grad.numpy()
                if spec_kind == 'rank-deficient':
                    # outside the differentiable domain (sqrt is not differentiable at a zero eigenvalue): record, do not judge
                    notes[f'{name}:rank-deficient:' + ('finite' if np.all(np.isfinite(G)) else 'non-finite')] = notes.get(f'{name}:rank-deficient:' + ('finite' if np.all(np.isfinite(G)) else 'non-finite'), 0) + 1
                    continue
                # directional derivative along a Hermitian direction, central differences
                h = 1e-5
                fp = float((Ct * fn(torch.tensor(A0 + h * H))).real.sum()); fm = float((Ct * fn(torch.tensor(A0 - h * H))).real.sum())
                dd_fd = (fp - fm) / (2 * h)
                dd = float(np.real(np.sum(np.conj(G) * H)))
                e = abs(dd - dd_fd) / max(1.0, abs(dd_fd))
                worst['sqrtm' if name != 'logm' else 'logm'] = max(worst['sqrtm' if name != 'logm' else 'logm'], e)
                if not np.all(np.isfinite(G)) or e > 1e-5:
                    ctx.fail(f'{name}-grad-vs-fd', f'{name} backward: directional derivative {dd:.10g} vs finite differences {dd_fd:.10g} ({spec_kind} spectrum, dim {d})',
                             dict(info, function=name))
                else:
                    ctx.probe_ok((name, seed))
        except Exception as ex:
            ctx.fail('sqrtm-grad-raises', f'{type(ex).__name__}: {ex}', info); continue
    for k, v in sorted(notes.items()):
        ctx.note(f'excluded point (not a differentiable input), behaviour recorded: {k} x{v}')
    # (4) a non-unitary custom gate array: the sweep's un-apply step is then wrong (the property speaks of unitary gates): record only
    try:
        circ = numqi.sim.Circuit(default_requires_grad=True)
        circ.rx(0, 0.7); circ.single_qubit_gate(np.array([[1, 0.5], [0, 1]], dtype=np.complex128), 0); circ.ry(0, 0.2)
        wrapper = numqi.sim.CircuitTorchWrapper(circ)
        tgt = torch.tensor(np.array([0.6, 0.8j]))
        ps = [wrapper.theta[k] for k in sorted(wrapper.theta.keys())]

        def lossf():
            psi = wrapper(torch.tensor(np.array([1, 0], dtype=np.complex128)))
            v = torch.vdot(tgt, psi); return (v * v.conj()).real
        for p in ps:
            p.grad = None
        lossf().backward()
        g = np.concatenate([p.grad.numpy().reshape(-1) for p in ps])
        x0 = np.concatenate([p.detach().numpy().reshape(-1) for p in ps])

        def f(x):
            off = 0
            with torch.no_grad():
                for p in ps:
                    p.copy_(torch.tensor(x[off:off + p.numel()]).reshape(p.shape)); off += p.numel()
            return float(lossf().detach())
        fd = fd_grad(f, x0)
        ctx.note(f'excluded point recorded: circuit containing a NON-unitary constant gate: sweep gradient vs finite differences differ by {rel_err(g, fd):.3e} (expected: un-apply needs unitarity, see theorem unapply_needs_unitarity)')
    except Exception as ex:
        ctx.note(f'non-unitary gate experiment raised {type(ex).__name__}')
    ctx.extra['probe_worst_rel_err'] = {k: float(v) for k, v in worst.items()}
    probe_class_representatives(ctx, worst)
    probe_reuse(ctx)
    coverage_check(ctx)
    ctx.assumptions.append('probe: central finite differences h=1e-5, relative tolerance 1e-5 (truncation error h^2*|f\'\'\'|/6 ~ 1e-10, rounding 1e-16/h ~ 1e-11 for O(1) losses); '
                           'pure-autograd re-implementation tolerance 1e-9; rank-deficient PSD inputs are outside "differentiable input" and only recorded')


def search(ctx, hints):
    """the probe already differentiates the real objects; additionally evaluate the adjoint identity of the gate rules
    (theorem applyGate_vjp / applyControlled_vjp) directly in numpy on the index tuples of the disagreeing ops, with unitary gates"""
    import numqi
    st = numqi.sim.state
    rng = np.random.default_rng(0)
    import torch
    if any(d['op'].startswith('C04 sweep') and ':x:' in ('|' + d['op'].split(' ')[3]).replace('|x:', '|:x:') for d in hints):
        # a sweep that contains custom gates disagrees with the model: differentiate real circuits with custom gates (recorded programs of
        # the repaired defect 3270353 and fresh random ones) against finite differences
        import glob, json, os
        for path in sorted(glob.glob(os.path.join(common.VERIF, 'corpus', 'C04', '*.json'))):
            for j, e in enumerate(json.load(open(path))['entries']):
                if e.get('kind') == 'custom_circuit':
                    custom_program_check(ctx, f'search {os.path.basename(path)[:-5]}#{j}', e['nq'], e['program'], e['target'])
        probe_custom(ctx, np.random.default_rng(ctx.np_seed + 21), {})
    for d in hints[:40]:
        # the q0_grad half of the sweep: F is linear in the input state, so <q0_grad, dpsi> = <g_out, F(dpsi)> for every dpsi;
        # evaluated on the real _CircuitFunction with the integer gate data of the disagreeing op (exact arithmetic)
        if d['op'] in SWEEP_CTX:
            call, tens, psi, gout, names, prog = SWEEP_CTX[d['op']]
            try:
                for trial in range(3):
                    dpsi = rg(rng, psi.shape, 2)
                    out, tt, q0 = call(tens, psi)
                    grads = torch.autograd.grad(out, [q0], grad_outputs=torch.tensor(gout, dtype=torch.complex128))
                    q0_grad = grads[0].numpy()
                    with torch.no_grad():
                        Fd = call(tens, dpsi, grad=False)[0].numpy()
                    lhs = np.vdot(q0_grad, dpsi); rhs = np.vdot(gout, Fd)
                    if lhs != rhs:
                        gates = [(e.split(':')[0], e.split(':')[-5], e.split(':')[1], 'fixed' if not e.endswith(':-') else 'trainable') for e in prog]
                        ctx.fail('sweep-input-state-gradient', f'_CircuitFunction.backward: gradient of the input state is not the adjoint of the circuit: '
                                 f'<q0_grad,dpsi>={lhs} but <g_out,F(dpsi)>={rhs} (first trainable gate is #{next((i for i, g in enumerate(gates) if g[3] == "trainable"), None)} of {len(gates)})',
                                 dict(op='_CircuitFunction', gates=gates, psi=gl(psi), g_out=gl(gout), dpsi=gl(dpsi), q0_grad=gl(q0_grad),
                                      tensors={nm: gl(x) for nm, x in zip(names, tens)}, program=prog))
                        break
            except Exception:
                pass
            continue
        t = d['op'].split(' ')
        if t[1] == 'ipg':
            # the adjoint identity of theorem innerProductGrad_vjp on the real function, integer data (exact)
            try:
                pv = lambda z: np.array([complex(*map(int, e.split(','))) for e in z.split(';')])
                q0, q1, c = pv(t[3]), pv(t[4]), pv(t[5])[0]
                dq0, dq1 = rg(rng, q0.shape, 2), rg(rng, q1.shape, 2)
                g0, g1 = st.inner_product_grad(q0, q1, c, tag_grad=(True, True))
                lhs = (np.conj(c) * (np.vdot(dq0, q1) + np.vdot(q0, dq1))).real
                rhs = (np.vdot(g0, dq0) + np.vdot(g1, dq1)).real
                if lhs != rhs:
                    ctx.fail('inner-product-grad-adjoint', f'inner_product_grad is not the adjoint of c = vdot(q0, q1): Re<c_grad, dc> = {lhs} but Re<q0_grad,dq0> + Re<q1_grad,dq1> = {rhs}',
                             dict(op='inner_product_grad', q0=gl(q0), q1=gl(q1), c_grad=gl(c), dq0=gl(dq0), dq1=gl(dq1), q0_grad=gl(g0), q1_grad=gl(g1)))
            except Exception:
                pass
            continue
        try:
            if t[1] == 'gg':
                n = int(t[2]); idx = tuple(int(x) for x in t[3].split(';')); ctrl = None
            elif t[1] == 'cg':
                n = int(t[2]); ctrl = set(int(x) for x in t[3].split(';')); idx = tuple(int(x) for x in t[4].split(';'))
            else:
                continue
            U = rand_unitary_gint(rng, 2 ** len(idx))
            psi = rg(rng, 2 ** n, 2); g = rg(rng, 2 ** n, 2); dU = rg(rng, U.shape, 2); dpsi = rg(rng, 2 ** n, 2)
            if ctrl is None:
                F = lambda q, M: st.apply_gate(q, M, idx)
                qc, g_in, opg = st.apply_gate_grad(F(psi, U).conj(), g, U, idx)
                dF = F(psi, dU) + F(dpsi, U)
            else:
                F = lambda q, M: st.apply_control_n_gate(q, M, ctrl, idx)
                qc, g_in, opg = st.apply_control_n_gate_grad(F(psi, U).conj(), g, U, ctrl, idx)
                dF = (F(psi, U + dU) - F(psi, U)) + F(dpsi, U)
            lhs = np.vdot(g, dF); rhs = np.vdot(opg, dU) + np.vdot(g_in, dpsi)
            if lhs != rhs or not np.array_equal(qc, psi.conj()):
                ctx.fail('gate-rule-adjoint', f'backward rule is not the adjoint of the gate: <g,dF>={lhs} vs <op_grad,dU>+<q0_grad,dpsi>={rhs} (n={n}, controls={ctrl}, index={idx})',
                         dict(op=t[1], n=n, controls=sorted(ctrl) if ctrl else None, index=list(idx), U=gl(U), psi=gl(psi), g=gl(g), dU=gl(dU), dpsi=gl(dpsi)))
        except Exception:
            continue
