"""C06 — boundaries are exact thresholds and the detection hierarchy is nested.

Model: lean/NumqiModel/Boundary.lean.  Theorems: lean/NumqiProps/C06.lean.
Correspondence: closed-form boundaries in binary64 (model and implementation perform the same IEEE operations: expected
bit-identical, accepted within 1e-9 relative), exact for the partial-transpose index map (Gaussian-integer input), exact rationals
vs float (1e-12) for the Gell-Mann norm / interpolation / LP rows, solver tolerance 1e-6 for the LP point = mixture identity.
Probe: two-sided threshold test on the real code, interpolation distance, inner-model states through the outer tests, ordering of
the computed boundary lengths.
"""
import io, contextlib, math
from fractions import Fraction
import numpy as np
from . import common

THEOREM_FILES = ['NumqiProps/C06.lean', 'NumqiProps/C06Sdp.lean', 'NumqiProps/C17.lean']     # C17.lean: dicke_reduction_eq etc., used by pureb_has_extension
LEVEL = 'proof'
RULE = ('random density matrices and random Hermitian (non-positive) directions in dims (2,2),(2,3),(3,3),(2,4), single / batched / '
        'explicit dm_norm code paths; Gaussian-integer Hermitian matrices for the exact index-map tie; LP rows for integer kets; real LP '
        'solutions for the mixture identity; Gaussian-integer coefficients / tables / blocks for the Dicke reduction and the SDP index layer, '
        'dyadic data for the bisection and the affine ray expression. An op is non-trivial when its input is not a multiple of the identity; distinct = distinct op lines.')
TRUSTED = ['Lean 4.33 kernel', 'axioms: propext, Classical.choice, Quot.sound', 'Lean compiler for the driver executable (IEEE binary64 Float ops)',
           'harness/c06.py canonicalisation (bit patterns, exact rationals)',
           'modelled, not verified: numqi/entangle/_misc.py (hf_interpolate_dm, get_density_matrix_boundary), ppt.py (get_ppt_boundary), '
           'cha.py (_cvxpy_solve data), gellmann.py (dm_to_gellmann_norm, get_density_matrix_distance2), dicke.py (index table, '
           'partial_trace_ABk_to_AB), pureb.py (forward), entangle/symext.py (realignment, affine ray expression, 0213 gather, cvx_rdm / trace '
           'constraint of _ABk_symmetric_extension_setup), _ree_bisection_solve',
           'tolerances of the round-6 ties: exact everywhere except extray for dA*dB not a power of two (4e-16 absolute: fl(1/N) and one '
           'more rounding) and irreprdm (model exact, cvxpy evaluates in doubles: 1e-11 relative)',
           'contracts (hypotheses of the theorems, probed only): np.linalg.eigvalsh, the LP/SDP solvers behind cvxpy, '
           'the converse of the irrep-block encoding (k-extendible => feasible) and the non-bosonic irrep blocks for dimB >= 3, optimiser convergence']

DIMS = [(2, 2), (2, 3), (3, 3), (2, 4)]
# residual allowed for quantities that come out of the LP solver (CLARABEL via cvxpy, short iteration counts): observed on the unchanged
# tree over ~400 solves: |sum(lambda)-1| up to 5.5e-5 (quick seed 5), LP-point deviation up to 1.7e-5; 1e-6 and 5e-5 both gave a false
# alarm.  A modelling error (wrong rows, conjugated certificate, wrong normalisation) is O(1e-1).
LP_TOL = 5e-4
# residual allowed for the SDP boundary lengths: the installed solver's error, measured on quantities whose exact value is known
# (beta_1ext = beta_DM, beta_1ext+PPT = beta_PPT), has median 1e-7 but a tail up to 1.8e-5 (~400 solves, dims (2,2),(2,3),(3,3)); the 1e-5
# of the design gave false alarms on the unchanged tree (quick seed 2, thorough seeds 2,4,5).  A nesting bug is O(1e-2).
SDP_TOL = 2e-4


def fbits(x):
    return str(int(np.array(float(x), dtype=np.float64).view(np.uint64)))


def unbits(s):
    return float(np.array(int(s), dtype=np.uint64).view(np.float64))


def frac(s):
    p, q = s.split('/')
    return Fraction(int(p), int(q))


def qi(s):
    a, b = s.split(',')
    return complex(float(frac(a)), float(frac(b)))


def gints(a):
    return ';'.join(f'{int(round(z.real))},{int(round(z.imag))}' for z in np.asarray(a, dtype=np.complex128).reshape(-1))


def guarded(f):
    try:
        return f()
    except AssertionError:
        return 'error:assert'
    except (ValueError, TypeError, IndexError, KeyError) as e:
        return 'error:' + type(e).__name__


class patched:
    def __init__(self, *triples):
        self.triples = triples; self.old = []

    def __enter__(self):
        for obj, name, new in self.triples:
            self.old.append((obj, name, getattr(obj, name))); setattr(obj, name, new)
        return self

    def __exit__(self, *a):
        for obj, name, old in reversed(self.old):
            setattr(obj, name, old)
        return False


def rand_herm_int(rng, n, lo=-3, hi=4):
    a = rng.integers(lo, hi, size=(n, n)) + 1j * rng.integers(lo, hi, size=(n, n))
    return a + a.conj().T


def rand_dm(rng, n, rank=None):
    k = n if rank is None else rank
    a = rng.normal(size=(n, k)) + 1j * rng.normal(size=(n, k))
    r = a @ a.conj().T
    return r / np.trace(r).real


def rand_direction_state(rng, n):
    """trace-one Hermitian, not necessarily positive (only the direction matters for the boundaries)"""
    a = rng.normal(size=(n, n)) + 1j * rng.normal(size=(n, n))
    h = a + a.conj().T
    h -= np.trace(h).real / n * np.eye(n)
    return np.eye(n) / n + h / np.linalg.norm(h)


def pt_independent(rho, dA, dB):
    """partial transpose on B by explicit loops (independent of the reshape/transposes of the implementation)"""
    out = np.zeros_like(rho)
    for a in range(dA):
        for b in range(dB):
            for a2 in range(dA):
                for b2 in range(dB):
                    out[a * dB + b, a2 * dB + b2] = rho[a * dB + b2, a2 * dB + b]
    return out


# ---------------------------------------------------------------------------
# correspondence
# ---------------------------------------------------------------------------
def _close(ctx, op, got, want, tol, key, scale=1.0):
    ctx.count(key)
    d = abs(got - want)
    ctx.extra['max_abs_diff_' + key] = max(ctx.extra.get('max_abs_diff_' + key, 0.0), float(d))
    if d <= tol * max(1.0, scale) and not (math.isnan(got) or math.isnan(want)):
        ctx.agree(op, op)
    else:
        ctx.disagree(op, repr(want), repr(got))


_TIE_INPUTS = {}   # op line -> the call (function, batch, dims, dm_norm argument, within_dm) it came from; used by search()


def tie_boundaries(ctx):
    import numqi
    _TIE_INPUTS.clear()
    from numqi.entangle import ppt as PPT
    rng = np.random.default_rng(ctx.np_seed)
    reps = 3 if ctx.quick() else 12
    for dA, dB in DIMS:
        N = dA * dB
        for rep in range(reps):
            for kind in ('dm', 'direction', 'lowrank'):
                shp = [(), (3,), (2, 2)][rep % 3]
                cnt = int(np.prod(shp)) if shp else 1
                mk = {'dm': lambda: rand_dm(rng, N), 'direction': lambda: rand_direction_state(rng, N), 'lowrank': lambda: rand_dm(rng, N, rank=1 + rep % 2)}[kind]
                dms = np.stack([mk() for _ in range(cnt)]).reshape(shp + (N, N))
                flat = dms.reshape(-1, N, N)
                norms = numqi.gellmann.dm_to_gellmann_norm(flat)
                eig = np.linalg.eigvalsh(flat)
                # three ways of passing dm_norm
                # dm_norm computed internally / passed explicitly (scaled by 1.25 so that an ignored argument shows; array, scalar, 0-d)
                variants = [(None, norms), ((1.25 * norms).reshape(shp) if shp else float(1.25 * norms[0]), 1.25 * norms)]
                if shp:
                    variants.append((2.5, np.full(cnt, 2.5)))
                for dm_norm, used in variants:
                    res = guarded(lambda: numqi.entangle.get_density_matrix_boundary(dms, dm_norm=dm_norm))
                    ops = [f'C06 dmb {fbits(N)} {fbits(eig[i, 0])} {fbits(eig[i, -1])} {fbits(used[i])}' for i in range(cnt)]
                    for o in ops:
                        _TIE_INPUTS[o] = dict(fn='dm', dms=dms, dim=(dA, dB), dm_norm=dm_norm, within=None)
                    mo = common.run_model(ops)
                    if isinstance(res, str):
                        ctx.disagree(ops[0], mo[0], res); continue
                    bl = np.asarray(res[0]).reshape(-1); bu = np.asarray(res[1]).reshape(-1)
                    if np.asarray(res[0]).shape != shp:
                        ctx.disagree(ops[0] + ' (shape)', str(shp), str(np.asarray(res[0]).shape)); continue
                    for i in range(cnt):
                        ml, mu = [unbits(x) for x in mo[i].split(' ')]
                        _close(ctx, ops[i], float(bl[i]), ml, 1e-9, 'dmb', abs(ml))
                        _close(ctx, ops[i], float(bu[i]), mu, 1e-9, 'dmb', abs(mu))
                # PPT boundary: capture the partially transposed batch handed to get_density_matrix_boundary
                for within, scale in ((True, None), (False, None), (True, 0.75)):
                    cap = []
                    orig = PPT.get_density_matrix_boundary

                    def rec(x, dm_norm=None):
                        cap.append(np.array(x)); return orig(x, dm_norm=dm_norm)
                    normarg = None if scale is None else ((scale * norms).reshape(shp) if shp else float(scale * norms[0]))
                    usedn = norms if scale is None else scale * norms
                    with patched((PPT, 'get_density_matrix_boundary', rec)):
                        res = guarded(lambda: numqi.entangle.get_ppt_boundary(dms, (dA, dB), dm_norm=normarg, within_dm=within))
                    if isinstance(res, str) or not cap:
                        ctx.disagree(f'C06 pptb {int(within)} ({dA},{dB})', 'a pair of arrays', str(res)); continue
                    ptm = cap[0].reshape(-1, N, N)
                    eigpt = np.linalg.eigvalsh(ptm)
                    ops1 = [f'C06 dmb {fbits(N)} {fbits(eig[i, 0])} {fbits(eig[i, -1])} {fbits(usedn[i])}' for i in range(cnt)]
                    ops2 = [f'C06 dmb {fbits(N)} {fbits(eigpt[i, 0])} {fbits(eigpt[i, -1])} {fbits(usedn[i])}' for i in range(cnt)]
                    m1 = common.run_model(ops1); m2 = common.run_model(ops2)
                    ops3 = [f'C06 pptb {int(within)} {m1[i]} {m2[i]}' for i in range(cnt)]
                    for o in ops3:
                        _TIE_INPUTS[o] = dict(fn='ppt', dms=dms, dim=(dA, dB), dm_norm=normarg, within=within)
                    m3 = common.run_model(ops3)
                    bl = np.asarray(res[0]).reshape(-1); bu = np.asarray(res[1]).reshape(-1)
                    for i in range(cnt):
                        ml, mu = [unbits(x) for x in m3[i].split(' ')]
                        _close(ctx, ops3[i], float(bl[i]), ml, 1e-9, 'pptb', abs(ml))
                        _close(ctx, ops3[i], float(bu[i]), mu, 1e-9, 'pptb', abs(mu))
    # exact tie of the partial-transpose index map on Gaussian-integer Hermitian input (single item and batch)
    ops, impl = [], []
    for dA, dB in DIMS + [(3, 2), (4, 2), (1, 3), (3, 1)]:
        N = dA * dB
        for shp in ((), (2,)):
            cnt = int(np.prod(shp)) if shp else 1
            hs = np.stack([rand_herm_int(rng, N) + 7 * np.eye(N) for _ in range(cnt)]).reshape(shp + (N, N))
            cap = []
            orig = PPT.get_density_matrix_boundary

            def rec(x, dm_norm=None):
                cap.append(np.array(x)); return orig(x, dm_norm=dm_norm)
            with patched((PPT, 'get_density_matrix_boundary', rec)):
                res = guarded(lambda: numqi.entangle.get_ppt_boundary(hs, (dA, dB)))
            for i in range(cnt):
                ops.append(f'C06 pt {dA} {dB} {gints(hs.reshape(-1, N, N)[i])}')
                impl.append(res if isinstance(res, str) else gints(cap[0].reshape(-1, N, N)[i]))
    model = common.run_model(ops)
    common.compare(ctx, ops, impl, model)


def tie_interpolation(ctx):
    import numqi
    rng = np.random.default_rng(ctx.np_seed + 1)
    for n in (2, 3, 4, 6, 8, 9):
        for rep in range(2 if ctx.quick() else 6):
            h = rand_herm_int(rng, n) if rep % 2 == 0 else (rng.integers(-3, 4, size=(n, n)) + 1j * rng.integers(-3, 4, size=(n, n)))
            if rep % 2 == 0:
                h = h + (rep % 3) * np.eye(n)
            # squared Gell-Mann norm
            op = f'C06 gmnorm2 {n} {gints(h)}'
            mo = common.run_model([op])[0]
            want = qi(mo).real
            got = guarded(lambda: float(numqi.gellmann.dm_to_gellmann_norm(h.astype(np.complex128))) ** 2)
            if isinstance(got, str):
                ctx.disagree(op, mo, got)
            else:
                _close(ctx, op, got, want, 1e-12, 'gmnorm2', abs(want))
            # interpolation with alpha, with beta (norm computed by the implementation), with beta and explicit norm
            alpha = float(rng.uniform(-1, 2))
            beta = float(rng.uniform(0.05, 1.5))
            norm = float(numqi.gellmann.dm_to_gellmann_norm(h.astype(np.complex128)))
            if norm == 0:
                continue
            cases = [(f'C06 interp {n} {fbits(alpha)} {gints(h)}', lambda: numqi.entangle.hf_interpolate_dm(h.astype(np.complex128), alpha=alpha)),
                     (f'C06 interpb {n} {fbits(beta)} {fbits(norm)} {gints(h)}', lambda: numqi.entangle.hf_interpolate_dm(h.astype(np.complex128), beta=beta)),
                     (f'C06 interpb {n} {fbits(beta)} {fbits(2.5)} {gints(h)}', lambda: numqi.entangle.hf_interpolate_dm(h.astype(np.complex128), beta=beta, dm_norm=2.5)),
                     # alpha is ignored when beta is given
                     (f'C06 interpb {n} {fbits(beta)} {fbits(norm)} {gints(h)}', lambda: numqi.entangle.hf_interpolate_dm(h.astype(np.complex128), alpha=0.3, beta=beta))]
            for op, f in cases:
                mo = common.run_model([op])[0]
                want = np.array([qi(x) for x in mo.split(';')]).reshape(n, n)
                got = guarded(f)
                ctx.count('interp')
                if isinstance(got, str) or got.shape != want.shape or np.abs(got - want).max() > 1e-12 * max(1.0, np.abs(want).max()):
                    ctx.disagree(op, mo[:200], got if isinstance(got, str) else repr(np.asarray(got).tolist())[:200])
                else:
                    ctx.agree(op, op)

    # dm_to_gellmann_norm with one and two leading batch axes (documented "support batch"), non-contiguous layout included
    for n, lead in ((2, (3,)), (3, (2, 2)), (4, (2, 1, 2))):
        hs = np.stack([rand_herm_int(rng, n) + (i % 3) * np.eye(n) for i in range(int(np.prod(lead)))]).reshape(*lead, n, n).astype(np.complex128)
        for tag, arr in (('c', hs), ('t', np.ascontiguousarray(np.swapaxes(hs, -1, -2)).swapaxes(-1, -2))):
            got = guarded(lambda: np.asarray(numqi.gellmann.dm_to_gellmann_norm(arr)))
            flat = hs.reshape(-1, n, n)
            opsb = [f'C06 gmnorm2 {n} {gints(h)}' for h in flat]
            mob = common.run_model(opsb)
            for i, (op, mo) in enumerate(zip(opsb, mob)):
                if isinstance(got, str) or got.shape != lead:
                    ctx.count('gmnorm2'); ctx.disagree(op + f' [batch {lead} {tag}]', mo, got if isinstance(got, str) else f'shape {got.shape}')
                else:
                    _close(ctx, op, float(got.reshape(-1)[i]) ** 2, qi(mo).real, 1e-12, 'gmnorm2', abs(qi(mo).real))


def tie_cha(ctx):
    """the LP data of CHABoundaryBagging for integer kets; the LP point of real solutions against the model's mixture"""
    import numqi
    rng = np.random.default_rng(ctx.np_seed + 2)
    for dA, dB in DIMS[:3]:
        N = dA * dB
        K = 3
        m = numqi.entangle.CHABoundaryBagging((dA, dB), num_state=K)
        ka = rng.integers(-2, 3, size=(K, dA)) + 1j * rng.integers(-2, 3, size=(K, dA))
        kb = rng.integers(-2, 3, size=(K, dB)) + 1j * rng.integers(-2, 3, size=(K, dB))
        m.ketA, m.ketB = ka.astype(np.complex128), kb.astype(np.complex128)

        class Dummy:
            def solve(self, **kw):
                return None
        m.cvx_problem = Dummy()
        res = guarded(lambda: m._cvxpy_solve())
        for i in range(K):
            op = f'C06 charow {dA} {dB} {gints(ka[i])} {gints(kb[i])}'
            mo = common.run_model([op])[0]
            want = np.array([qi(x) for x in mo.split(';')])
            ctx.count('charow')
            if isinstance(res, str):
                ctx.disagree(op, mo[:200], res); continue
            got = m.cvx_A_r.value[i] + 1j * m.cvx_A_i.value[i]
            if got.shape == want.shape and np.abs(got - want).max() <= 1e-13 * max(1.0, np.abs(want).max()):
                ctx.agree(op, op)
            else:
                ctx.disagree(op, mo[:200], repr(got.tolist())[:200])
    # real LP solutions: 1/N + beta*vhat = sum_i lambda_i P_i (solver tolerance), lambda >= 0, sum = 1, unit kets
    n_ok = 0
    for trial in range(12 if ctx.quick() else 40):
        if n_ok >= (3 if ctx.quick() else 10):
            break
        dA, dB = DIMS[trial % 2]
        N = dA * dB
        dm = rand_dm(rng, N)
        m = numqi.entangle.CHABoundaryBagging((dA, dB))
        try:
            with contextlib.redirect_stdout(io.StringIO()), contextlib.redirect_stderr(io.StringIO()):
                beta, (ka, kb, lam, hist) = m.solve(dm, maxiter=(0 if trial % 2 else 8), seed=int(rng.integers(1 << 30)), return_info=True)
        except Exception as e:
            ctx.count('cha-solver-raised-' + type(e).__name__)
            continue
        n_ok += 1
        op = (f'C06 mixture {dA} {dB} {len(lam)} ' + ';'.join(fbits(x) for x in lam) + ' '
              + ';'.join(f'{fbits(z.real)},{fbits(z.imag)}' for z in ka.reshape(-1)) + ' '
              + ';'.join(f'{fbits(z.real)},{fbits(z.imag)}' for z in kb.reshape(-1)))
        mo = common.run_model([op])[0]
        mix = np.array([qi(x) for x in mo.split(';')]).reshape(N, N)
        point = numqi.entangle.hf_interpolate_dm(dm, beta=beta)
        ctx.count('cha-lp-point')
        ok = (np.abs(point - mix).max() <= LP_TOL and lam.min() >= 0 and abs(lam.sum() - 1) <= LP_TOL
              and np.abs(np.linalg.norm(ka, axis=1) - 1).max() <= 1e-9 and np.abs(np.linalg.norm(kb, axis=1) - 1).max() <= 1e-9)
        if ok:
            ctx.agree('cha-lp-point', ('cha-lp-point', trial))
        else:
            ctx.disagree(f'C06 mixture {dA} {dB} (LP point of a real solution, seed trial {trial})', f'sum_i lambda_i P_i within {LP_TOL} of 1/N+beta*vhat, lambda>=0, |sum-1|<={LP_TOL}, unit kets',
                         f'max dev {np.abs(point - mix).max():.3g}, min lambda {lam.min():.3g}, sum {lam.sum()!r}')



def _rat_sq(v, den):
    x = float(v) ** 2 * den
    n = round(x)
    if abs(x - n) > 1e-9 or v < 0:
        return 'nonrational'
    fr = Fraction(n, den)
    return f'{fr.numerator}/{fr.denominator}'


def tie_dicke(ctx):
    """the Dicke-basis reduction behind PureBosonicExt (dicke.py): index table, assembly of the reduced matrix (numpy and torch
    branch), PureBosonicExt.forward on integer coefficients, and the Gell-Mann distance used as its loss — all exact"""
    import numqi, torch
    D = numqi.dicke
    rng = np.random.default_rng(ctx.np_seed + 3)
    ops, impl = [], []
    grid = [(1, 2), (2, 2), (3, 2), (2, 3), (3, 3), (1, 3)] + ([] if ctx.quick() else [(4, 2), (5, 2), (4, 3), (2, 4), (3, 4)])
    for n, d in grid:
        ops.append(f'C06 dnum {n} {d}'); impl.append(guarded(lambda: str(int(D.get_dicke_number(n, d)))))
        def f():
            out = []
            for i0, i1, val in D.get_partial_trace_ABk_to_AB_index(n, d):
                out.append(';'.join(f'{int(i)}:{int(j)}:{_rat_sq(v, n * n)}' for i, j, v in zip(i0, i1, val)))
            return '|'.join(out)
        ops.append(f'C06 bij {n} {d}'); impl.append(guarded(f))
    # the coefficient tensor the irrep-block SDP uses for qubit B (group/symext.py:222) is this table (theorem sdp_boson_block_psd_in_kext
    # assumes exactly that): every entry of coeffB[i,j,r,s], squared, against the model's table for (r,s); zero elsewhere
    for n in ((1, 2, 3) if ctx.quick() else (1, 2, 3, 4, 5, 6)):
        def ft(n=n):
            cf, ml = numqi.group.symext.get_symmetric_extension_irrep_coeff(2, n)
            if len(cf) != 1 or tuple(ml) != (1,) or cf[0].shape != (n + 1, n + 1, 2, 2):
                return f'error:blocks {[c.shape for c in cf]} multiplicities {ml}'
            c = np.asarray(cf[0])
            if np.abs(c.imag).max() != 0 or c.real.min() < 0:
                return 'error:not real non-negative'
            out = []
            for r in range(2):
                for s_ in range(2):
                    m = c[:, :, r, s_].real
                    if r == s_:
                        if np.count_nonzero(m - np.diag(np.diag(m))):
                            return 'error:off-diagonal entry in a diagonal table'
                        out.append(';'.join(f'{i}:{i}:{_rat_sq(m[i, i], n * n)}' for i in range(n + 1)))
                    else:
                        out.append(';'.join(f'{i}:{j}:{_rat_sq(m[i, j], n * n)}' for i in range(n + 1) for j in range(n + 1) if m[i, j] != 0))
            return '|'.join(out)
        ops.append(f'C06 bij {n} 2'); impl.append(guarded(ft))
    # for dimB = 3 the bosonic block's coefficient tensor comes from the numerically derived irrep basis (get_sud_symmetric_irrep_basis):
    # it must be the same table expressed in that basis, c' = (V (x) conj V) c with the unitary V = <library basis | Dicke basis> — V
    # unitary to 1e-12, and the tensor transformed back to the Dicke basis is compared with the model's table entry by entry
    G_ = numqi.group.symext
    #   ((4,3) and (3,4): the symmetric irrep shares its dimension with a mixed-symmetry one — block 0 must still be the symmetric one)
    for n, d in ([(2, 3), (3, 3), (4, 3), (3, 4)] if ctx.quick() else [(2, 3), (3, 3), (4, 3), (2, 4), (3, 4), (5, 3)]):
        def fv(n=n, d=d):
            fb, fd = getattr(G_, 'get_sud_symmetric_irrep_basis', None), getattr(D, 'get_dicke_basis', None)
            if fb is None or fd is None:
                return None
            cf, ml = G_.get_symmetric_extension_irrep_coeff(d, n)
            L = D.get_dicke_number(n, d)
            bs = np.asarray(fb(d, n)[0][0]).reshape(L, -1)
            Dk = np.asarray(fd(n, d)).reshape(L, -1)
            V = bs @ Dk.conj().T
            if np.abs(V @ V.conj().T - np.eye(L)).max() > 1e-12 or cf[0].shape != (L, L, d, d) or ml[0] != 1:
                return 'error:the bosonic irrep basis is not a unitary image of the Dicke basis'
            c = np.einsum('ia,jb,ijrs->abrs', V.conj(), V, np.asarray(cf[0]), optimize=True)
            if np.abs(c.imag).max() > 1e-12 or c.real.min() < -1e-12:
                return 'error:not real non-negative in the Dicke basis'
            c = np.where(np.abs(c.real) < 1e-12, 0.0, c.real)
            out = []
            for r in range(d):
                for s_ in range(d):
                    m = c[:, :, r, s_]
                    if r == s_:
                        if np.count_nonzero(m - np.diag(np.diag(m))):
                            return 'error:off-diagonal entry in a diagonal table'
                        out.append(';'.join(f'{i}:{i}:{_rat_sq(m[i, i], n * n)}' for i in range(L)))
                    else:
                        out.append(';'.join(f'{i}:{j}:{_rat_sq(m[i, j], n * n)}' for i in range(L) for j in range(L) if m[i, j] != 0))
            return '|'.join(out)
        try:
            r_ = guarded(fv)
        except AttributeError:
            r_ = None
        if r_ is None:
            ctx.count('bij-irrep-basis-skipped'); continue
        ops.append(f'C06 bij {n} {d}'); impl.append(r_)
    for n, d in [(0, 2), (2, 1)]:
        ops.append(f'C06 bij {n} {d}'); impl.append(guarded(lambda: str(D.get_partial_trace_ABk_to_AB_index(n, d))))
    gl = lambda a: ';'.join(f'{int(round(z.real))},{int(round(z.imag))}' for z in np.asarray(a, dtype=np.complex128).reshape(-1))
    rg = lambda shape: rng.integers(-4, 5, size=shape) + 1j * rng.integers(-4, 5, size=shape)
    for dimA, dimB, k in ([(2, 2, 2), (3, 2, 3), (2, 3, 2), (2, 2, 1)] if ctx.quick() else [(a, b, k) for a in (1, 2, 3) for b in (2, 3) for k in (1, 2, 3)]):
        L = D.get_dicke_number(k, dimB)
        # the real index lists with integer weights: numpy and torch branch of partial_trace_ABk_to_AB
        Bij = D.get_partial_trace_ABk_to_AB_index(k, dimB)
        wts = [rg((len(x[0]),)) for x in Bij]
        tline = '|'.join(';'.join(f'{int(i)}:{int(j)}:{int(w.real)},{int(w.imag)}' for i, j, w in zip(x[0], x[1], ww)) or '-' for x, ww in zip(Bij, wts))
        psi = rg((dimA, L))
        tabs = [(x[0], x[1], ww) for x, ww in zip(Bij, wts)]
        op = f'C06 asm {dimA} {dimB} {L} {tline} {gl(psi)}'
        ops.append(op); impl.append(guarded(lambda: gl(D.partial_trace_ABk_to_AB(psi, tabs))))
        ttabs = [(torch.tensor(a, dtype=torch.int64), torch.tensor(b, dtype=torch.int64), torch.tensor(v, dtype=torch.complex128)) for a, b, v in tabs]
        ops.append(op); impl.append(guarded(lambda: gl(D.partial_trace_ABk_to_AB(torch.tensor(psi, dtype=torch.complex128), ttabs).numpy())))
        # PureBosonicExt.forward: the real object, its parameter vector and table values replaced by integers
        v = rg((dimA * L,))

        def g():
            model = numqi.entangle.PureBosonicExt(dimA, dimB, k)
            ints = [rg((len(x[0]),)) for x in model.Bij]
            model.Bij = [[x[0], x[1], torch.tensor(w, dtype=torch.complex128)] for x, w in zip(model.Bij, ints)]

            class Stub(torch.nn.Module):
                def forward(self_):
                    return torch.tensor(v, dtype=torch.complex128)
            model.manifold = Stub()
            model.set_expectation_op(np.eye(dimA * dimB))
            with torch.no_grad():
                model()
            tl = '|'.join(';'.join(f'{int(i)}:{int(j)}:{int(w.real)},{int(w.imag)}' for i, j, w in zip(x[0].tolist(), x[1].tolist(), ww)) or '-' for x, ww in zip(model.Bij, ints))
            return tl, gl(model.dm_torch.numpy())
        try:
            r = guarded(g)
        except AttributeError as e:
            ctx.count('purebred-skipped'); ctx.note(f'PureBosonicExt internals (Bij / manifold / dm_torch) not as expected ({e}): purebred tie skipped, asm ties decide'); continue
        if isinstance(r, str):
            ops.append(f'C06 purebred {dimA} {dimB} {L} - {gl(v)}'); impl.append(r)
        else:
            ops.append(f'C06 purebred {dimA} {dimB} {L} {r[0]} {gl(v)}'); impl.append(r[1])
    # Gell-Mann distance (loss of both inner models), numpy and torch branch; exact halves of integers
    for n in (2, 3, 4, 6):
        A, Bm = rg((n, n)), rg((n, n))
        op = f'C06 dist2 {n} {gl(A)} {gl(Bm)}'
        for tag, f in (('numpy', lambda: numqi.gellmann.get_density_matrix_distance2(A.astype(np.complex128), Bm.astype(np.complex128))),
                       ('torch', lambda: numqi.gellmann.get_density_matrix_distance2(torch.tensor(A, dtype=torch.complex128), torch.tensor(Bm, dtype=torch.complex128)).item())):
            def h(f=f):
                fr = Fraction(float(f()))
                return f'{fr.numerator}/{fr.denominator},0/1'
            ops.append(op); impl.append(guarded(h))
    # bisection bookkeeping of get_boundary: step function hf(x) = [x >= t], dyadic data (all midpoints exact)
    # (private helper: looked up by name; when it is gone or its call form changed the direct tie is skipped with a note — the public path
    #  `get_boundary(return_info=True)` is checked against the same model op by probe_get_boundary_info)
    _ree_bisection_solve = getattr(__import__('numqi.entangle._misc', fromlist=['x']), '_ree_bisection_solve', None)
    bis_ok = _ree_bisection_solve is not None
    if bis_ok:
        try:
            _ree_bisection_solve(lambda x: 1.0 if x >= 0.3 else 0.0, 0.0, 1.0, 0.25, 0.5, False)
        except TypeError:
            bis_ok = False
    if not bis_ok:
        ctx.count('bisect-direct-tie-skipped'); ctx.note('numqi.entangle._misc._ree_bisection_solve not callable as (hf0, x0, x1, xtol, threshold, use_tqdm): direct bisection tie skipped')
    for _ in range((12 if ctx.quick() else 60) if bis_ok else 0):
        x0 = float(rng.integers(0, 4)) / 4
        x1 = x0 + float(rng.integers(1, 9)) / 4
        j = int(rng.integers(1, 12)); cden = int(rng.choice([1, 3, 5, 7]))
        xtol = cden / 2.0 ** j
        t = x0 + (x1 - x0) * float(rng.integers(0, 1025)) / 1024
        ratio = Fraction(x1 - x0) / Fraction(xtol)
        if abs(math.log2(max(2, ratio)) - round(math.log2(max(2, ratio)))) < 1e-9 and ratio.denominator != 1:
            continue
        def b():
            xi, hist = _ree_bisection_solve(lambda x: 1.0 if x >= t else 0.0, x0, x1, xtol, 0.5, False)
            fr = Fraction(float(xi))
            return f'{len(hist)} {fr.numerator}/{fr.denominator}'
        ops.append(f'C06 bisect {fbits(x0)} {fbits(x1)} {ratio.numerator} {ratio.denominator} {fbits(t)}'); impl.append(guarded(b))
    model = common.run_model(ops)
    common.compare(ctx, ops, impl, model)


class _solve_recorder:
    """replace `cvxpy.Problem.solve` (public cvxpy interface) by a recorder while the block runs: no programme is solved; every call stores
    the problem and the value of its parameter of shape `shape`, gives every variable the value zero and reports the value 1 (feasible).
    Nothing of numqi is replaced, so the ties built on it do not depend on private names or call forms of the library."""
    def __init__(self, shape):
        self.shape = tuple(shape)
        self.log, self.problems = [], []

    def __enter__(self):
        import cvxpy
        self.orig = cvxpy.Problem.solve
        rec = self

        def solve(self_, *a, **k):
            rec.problems.append(self_)
            vals = [np.array(p.value, copy=True) for p in self_.parameters() if tuple(p.shape) == rec.shape and p.value is not None]
            rec.log.append(vals[0] if len(vals) == 1 else None)
            for v in self_.variables():
                try:
                    v.value = np.zeros(v.shape)
                except Exception:
                    pass
            try:
                self_._value = 1.0
            except Exception:
                pass
            return 1.0
        cvxpy.Problem.solve = solve
        return self

    def __exit__(self, *a):
        import cvxpy
        cvxpy.Problem.solve = self.orig
        return False

    def affine_side(self):
        """(expression, scalar variable, parameter): the side of an equality constraint of the last recorded problem that contains the
        parameter of shape `shape` and exactly one scalar variable"""
        for prob in reversed(self.problems):
            for c in prob.constraints:
                for a in getattr(c, 'args', []):
                    try:
                        ps = [p for p in a.parameters() if tuple(p.shape) == self.shape]
                        vs = a.variables()
                    except Exception:
                        continue
                    if len(ps) == 1 and len(vs) == 1 and tuple(vs[0].shape) == ():
                        return a, vs[0], ps[0]
        return None


def _herm_int_dominant(rng, n, total=1 << 16):
    """Gaussian-integer Hermitian, positive definite (diagonally dominant), all entries pairwise distinct, trace = `total` (a power of
    two: `M/total` and every entry of it are exact doubles)"""
    while True:
        off = rng.permutation(np.arange(1, 4 * n * n))[: n * (n - 1)]
        m = np.zeros((n, n), dtype=np.complex128)
        k = 0
        for i in range(n):
            for j in range(i + 1, n):
                m[i, j] = complex(int(off[k]), -int(off[k + 1])); m[j, i] = m[i, j].conjugate(); k += 2
        d = rng.permutation(np.arange(-40, 41))[:n]
        d = d - d.sum() // n
        diag = total // n + d
        diag[0] += total - diag.sum()
        if len(set(diag.tolist())) == n:
            for i in range(n):
                m[i, i] = diag[i]
            return m


def _qilist(s):
    out = []
    for e in s.split(';'):
        a, b = e.split(',')
        out.append((frac(a), frac(b)))
    return out


def tie_symext(ctx):
    """the index layer of the two SDP routines of the hierarchy (entangle/symext.py: is_ABk_symmetric_ext,
    get_ABk_symmetric_extension_boundary, _ABk_symmetric_extension_setup, get_cvxpy_transpose0213_indexing) against NumqiModel/SymExt.lean
    (shared ops of Driver/SymExtOps.lean).  The SDP itself is replaced by a stub where the data entering it is to be captured; the
    expressions handed to the solver are evaluated at chosen integer / dyadic points."""
    import numqi, cvxpy
    S = numqi.entangle.symext
    rng = np.random.default_rng(ctx.np_seed + 5)
    ops, impl = [], []
    # (a) get_cvxpy_transpose0213_indexing, both call forms
    for n0, n1, n2, n3 in [(2, 3, None, None), (3, 1, None, None), (2, 3, 2, 3), (2, 2, 3, 4), (3, 4, 2, 1), (1, 1, 1, 1)] + \
            ([] if ctx.quick() else [(3, 6, None, None), (2, 10, None, None), (4, 3, 2, 5)]):
        a = (n0, n1) if n2 is None else (n0, n1, n2, n3)
        ops.append(f'C06 idx0213 {n0} {n1} {n0 if n2 is None else n2} {n1 if n3 is None else n3}')
        impl.append(guarded(lambda: ','.join(str(int(x)) for x in S.get_cvxpy_transpose0213_indexing(*a))))
    # (b) the realignment of the input state(s) of is_ABk_symmetric_ext: single 2-d, 3-d array, list; exact (entries k/2^16).
    #     Only public interfaces are touched: `cvxpy.Problem.solve` is replaced by a recorder (no SDP is solved), which stores the value
    #     of the problem's (dA^2, dB^2) parameter at every solve — the library's private set-up routine runs as it is.
    T = 1 << 16
    for dA, dB in (DIMS if ctx.quick() else DIMS + [(3, 2), (4, 2)]):
        N = dA * dB
        ms = [_herm_int_dominant(rng, N, T) for _ in range(3)]
        for form, arg in (('single', ms[0] / T), ('array', np.stack(ms) / T), ('list', [m / T for m in ms[:2]])):
            with _solve_recorder((dA * dA, dB * dB)) as rec:
                r = guarded(lambda: S.is_ABk_symmetric_ext(arg, (dA, dB), 2))
            log = [x for x in rec.log if x is not None]
            want = {'single': 1, 'array': 3, 'list': 2}[form]
            shape_ok = (not isinstance(r, str)) and ((np.ndim(r) == 0) if form == 'single' else (np.shape(r) == (want,)))
            for i in range(want):
                ops.append(f'C06 sxrealign {dA} {dB} {gints(ms[i])}')
                if isinstance(r, str):
                    impl.append(r)
                elif not shape_ok:
                    impl.append(f'error:result shape {np.shape(r)}')
                else:
                    # the state must have been handed to the solver (realigned) at some solve; a repeated solve is harmless
                    cand = [v * T for v in log]
                    cand = [v for v in cand if np.array_equal(v, np.round(v.real) + 1j * np.round(v.imag)) and sorted(np.abs(v).reshape(-1).tolist()) == sorted(np.abs(ms[i]).reshape(-1).tolist())]
                    impl.append(gints(cand[0]) if cand else f'error:state {i} not found among the {len(log)} parameter values handed to the solver')
    # (c) get_ABk_symmetric_extension_boundary: the direction handed to the SDP is the realigned normalised traceless part (permutation
    #     from the model, float arithmetic as in the source), and the affine expression `eye/(dA dB) + beta*R` at dyadic beta (the side of
    #     the SDP's equality constraint that contains the parameter and one scalar variable)
    close_items = []
    for dA, dB in (DIMS if ctx.quick() else DIMS + [(3, 2), (4, 2)]):
        N = dA * dB
        hs = []
        for _ in range(2):
            h = rng.normal(size=(N, N)) + 1j * rng.normal(size=(N, N)); h = h + h.conj().T
            hs.append(h / np.trace(h).real if abs(np.trace(h).real) > 0.3 else h + np.eye(N) * (1 - np.trace(h).real) / N)
        hs = [h - np.eye(N) * (np.trace(h).real - 1) / N if abs(np.trace(h).real - 1) > 1e-12 else h for h in hs]
        for form, arg in (('single', hs[0]), ('array', np.stack(hs)), ('list', hs)):
            with _solve_recorder((dA * dA, dB * dB)) as rec:
                r = guarded(lambda: S.get_ABk_symmetric_extension_boundary(arg, (dA, dB), 2))
            log = [x for x in rec.log if x is not None]
            sig = rec.affine_side()
            items = [hs[0]] if form == 'single' else hs
            nrm = numqi.gellmann.dm_to_gellmann_norm(np.asarray(arg))
            for i, h in enumerate(items):
                posmat = np.arange(N * N).reshape(N, N)
                op = f'C06 sxrealign {dA} {dB} {gints(posmat)}'
                ops.append(op)
                if isinstance(r, str):
                    impl.append(r); continue
                t = ((np.asarray(arg).reshape(-1, N, N) - np.eye(N) / N) / np.reshape(nrm, (-1, 1, 1)))[i]
                where = {}
                for pos, z in enumerate(t.reshape(-1)):
                    where.setdefault((fbits(z.real), fbits(z.imag)), pos)
                got = None
                for v in log:
                    g_ = [where.get((fbits(z.real), fbits(z.imag)), -1) for z in v.reshape(-1)]
                    if -1 not in g_:
                        got = g_; R = v; break
                if got is None:
                    impl.append(f'error:direction {i} not found among the {len(log)} parameter values handed to the solver'); continue
                impl.append(';'.join(f'{g},0' for g in got))
                # the affine expression at beta = ±2^k
                if sig is None:
                    ctx.count('extray-expression-not-found'); continue
                for beta in ((0.5, -2.0) if ctx.quick() else (0.5, -2.0, 1.0, 0.03125)):
                    sig[1].value = beta; sig[2].value = R
                    val = np.asarray(sig[0].value, dtype=np.complex128)
                    line = f'C06 extray {dA} {dB} {fbits(beta)} ' + ';'.join(f'{fbits(z.real)},{fbits(z.imag)}' for z in R.reshape(-1))
                    close_items.append((line, val.reshape(-1), N))
            if not isinstance(r, str):
                ok = (np.ndim(r) == 0) if form == 'single' else (np.shape(r) == (len(items),))
                ops.append(f'C06 idx0213 1 1 1 1'); impl.append('0' if ok else f'error:result shape {np.shape(r)}')
    if not close_items:
        ctx.count('extray'); ctx.disagree('C06 extray (all)', 'the affine expression of the boundary SDP', 'no equality constraint with the (dA^2,dB^2) parameter and one scalar variable was found')
    model = common.run_model(ops)
    common.compare(ctx, ops, impl, model)
    # extray: exact where 1/(dA dB) is a double (the only rounding is the final one, and float(Fraction) rounds correctly);
    # otherwise fl(1/N) differs from 1/N by at most 2^-54, the sum is rounded once more: 4e-16 absolute (entries are O(1))
    out = common.run_model([x[0] for x in close_items])
    for (line, val, N), o in zip(close_items, out):
        ctx.count('extray')
        try:
            ex = _qilist(o)
        except Exception:
            ctx.disagree(line[:200], o[:200], 'a list of rationals'); continue
        if len(ex) != len(val):
            ctx.disagree(line[:200], f'{len(ex)} entries', f'{len(val)} entries'); continue
        if N & (N - 1) == 0:
            bad = [k for k, (e, z) in enumerate(zip(ex, val)) if float(e[0]) != z.real or float(e[1]) != z.imag]
        else:
            bad = [k for k, (e, z) in enumerate(zip(ex, val)) if abs(float(e[0]) - z.real) > 4e-16 or abs(float(e[1]) - z.imag) > 4e-16]
        if bad:
            k = bad[0]
            ctx.disagree(line[:300] + '…', f'entry {k}: {float(ex[k][0])!r},{float(ex[k][1])!r}', f'entry {k}: {val[k]!r}')
        else:
            ctx.agree(line[:120], line[:120])
    # (d) _ABk_symmetric_extension_setup: the reduced-state expression and the trace constraint at Gaussian-integer blocks; the
    #     coefficient tensors (numerically derived, C05/C12 territory) enter the model as exact rationals of their doubles, the
    #     model sums exactly, cvxpy in doubles: relative 1e-12
    #     ((2,3,3): multiplicities (1,2,1) — the trace constraint with a multiplicity > 1 is in the quick tier)
    cases = [(2, 2, 2, False, False), (2, 2, 3, False, True), (2, 3, 2, False, False), (2, 3, 2, True, False), (2, 3, 3, False, False)] + \
        ([] if ctx.quick() else [(3, 2, 2, False, True), (3, 3, 2, False, False), (2, 4, 2, True, True), (2, 3, 3, False, True)])
    lines, vals = [], []
    setup = getattr(S, '_ABk_symmetric_extension_setup', None)
    for dA, dB, k, boson, ppt in cases:
        if setup is None:
            ctx.count('irreprdm-skipped'); continue

        def g():
            try:
                cvxP, cons, rdm = setup(dA, dB, k, use_boson=boson, use_ppt=ppt)
            except TypeError:
                return None
            cf, ml = numqi.group.symext.get_symmetric_extension_irrep_coeff(dB, k)
            if boson:
                cf, ml = cf[:1], ml[:1]
            blocks = []
            if len(cvxP) != len(cf):
                raise ValueError('block count')
            for P, c, m in zip(cvxP, cf, ml):
                x = c.shape[0]
                if P.shape != (x * dA, x * dA):
                    raise ValueError('block shape')
                a = rng.integers(-3, 4, size=P.shape) + 1j * rng.integers(-3, 4, size=P.shape)
                a = a + a.conj().T
                P.value = a
                cc = np.asarray(c, dtype=np.complex128).reshape(-1)
                blocks.append(f'{x}:{gints(a)}:' + ';'.join(f'{fbits(z.real)},{fbits(z.imag)}' for z in cc) + f':{fbits(float(m))}')
            return '|'.join(blocks), np.asarray(rdm.value, dtype=np.complex128).reshape(-1), complex(cons[-1].args[0].value)
        r = guarded(g)
        if r is None:
            ctx.count('irreprdm-skipped'); continue
        if isinstance(r, str):
            ctx.count('irreprdm'); ctx.disagree(f'C06 irreprdm {dA} {dB} (kext={k}, boson={boson}, ppt={ppt})', 'a value', r); continue
        lines.append(f'C06 irreprdm {dA} {dB} {r[0]}'); vals.append(r[1:])
    if setup is None or ctx.hist.get('irreprdm-skipped'):
        ctx.note('numqi.entangle.symext._ABk_symmetric_extension_setup(dimA, dimB, kext, use_boson=, use_ppt=) not available in that form: irreprdm tie skipped (the SDP probes decide)')
    out = common.run_model(lines) if lines else []
    for line, (rv, tr), o in zip(lines, vals, out):
        ctx.count('irreprdm')
        try:
            a, b = o.split('#'); ex = _qilist(a); et = _qilist(b)[0]
        except Exception:
            ctx.disagree(line[:200], o[:200], 'rdm#trace'); continue
        scale = max(1.0, float(np.abs(rv).max()))
        d = max([abs(complex(float(e[0]), float(e[1])) - z) for e, z in zip(ex, rv)] + [abs(complex(float(et[0]), float(et[1])) - tr)]) if len(ex) == len(rv) else float('inf')
        ctx.extra['max_abs_diff_irreprdm'] = max(ctx.extra.get('max_abs_diff_irreprdm', 0.0), float(d))
        if d <= 1e-12 * scale * 10:
            ctx.agree(line[:120], line[:120])
        else:
            ctx.disagree(line[:300] + '…', f'model (exact) differs by {d:.3e}', f'scale {scale}')


def _guarded_part(ctx, part, tie):
    """robustness of the check: an exception escaping a tie / probe part (signature change, missing attribute, shape error in the
    implementation …) is reported as a broken correspondence resp. as a failure with the traceback — the check never aborts (exit 2)"""
    import traceback
    try:
        part(ctx)
    except Exception as e:
        tb = traceback.format_exc()[-1500:]
        if tie:
            ctx.disagree(f'%s %s (whole part)' % (ctx.pid, part.__name__), 'completes', f'raised {type(e).__name__}: {e}')
            ctx.note(f'{part.__name__} raised: ' + tb)
        else:
            ctx.fail('probe-exception', f'{part.__name__} raised {type(e).__name__}: {e}', dict(op=part.__name__, traceback=tb))


def correspondence(ctx):
    for part in (tie_boundaries, tie_interpolation, tie_cha, tie_dicke, tie_symext):
        _guarded_part(ctx, part, tie=True)


# ---------------------------------------------------------------------------
# probe
# ---------------------------------------------------------------------------
def _mat_replay(m):
    return dict(re=np.asarray(m).real.tolist(), im=np.asarray(m).imag.tolist())


def _item_norm(dm_norm, idx, shp):
    """the dm_norm that belongs to batch item `idx` (None / scalar / array of the batch shape)"""
    if dm_norm is None:
        return None
    a = np.asarray(dm_norm)
    return float(a) if a.size == 1 else float(a.reshape(-1)[idx])


def _threshold_problems(dm, dA, dB, given, bl, bu, mode, eps=1e-6):
    """two-sided threshold test of one (beta_l, beta_u) pair on the ray of `dm`; mode: 'dm' (PSD), 'ppt' (PSD and PPT), 'pt' (PT only).
    `given` = caller-supplied dm_norm (beta is measured in those units) or None."""
    import numqi
    rho = lambda b: numqi.entangle.hf_interpolate_dm(dm, beta=b, dm_norm=given)
    mineig = lambda m: np.linalg.eigvalsh((m + m.conj().T) / 2)[0]
    ptmin = lambda m: mineig(pt_independent(m, dA, dB))
    val = {'dm': mineig, 'pt': ptmin, 'ppt': lambda m: min(mineig(m), ptmin(m))}[mode]
    what = {'dm': 'PSD', 'pt': 'PT-positive', 'ppt': 'PSD and PPT'}[mode]
    bad = []
    if not (np.isfinite(bl) and np.isfinite(bu) and bl < 0 < bu):
        return [f'signs/finite: ({bl!r},{bu!r})']
    for b, name in ((bu, 'upper'), (bl, 'lower')):
        vin, vout = val(rho(b * (1 - eps))), val(rho(b * (1 + eps)))
        if vin < -1e-12:
            bad.append(f'{name} boundary {b!r}: just inside (beta*(1-1e-6)) is not {what}: min eigenvalue {vin:.3g}')
        if vout > -1e-10:
            bad.append(f'{name} boundary {b!r}: just outside (beta*(1+1e-6)) is still {what}: min eigenvalue {vout:.3g}')
    return bad


def _batched_oracle(ctx, fn, dms, dim, dm_norm, within, origin):
    """the property on one *batched* call: batched == item by item, every item is the exact two-sided threshold of its criterion,
    and beta_PPT <= beta_DM (+1e-12).  fn: 'dm' (get_density_matrix_boundary) or 'ppt' (get_ppt_boundary)."""
    import numqi
    dA, dB = dim
    N = dA * dB
    dms = np.asarray(dms)
    shp = dms.shape[:-2]
    flat = dms.reshape(-1, N, N)
    replay = dict(op='get_density_matrix_boundary' if fn == 'dm' else 'get_ppt_boundary', origin=origin, dim=[dA, dB], batch_shape=list(shp),
                  within_dm=within, dm_norm=(None if dm_norm is None else np.asarray(dm_norm).tolist()),
                  dm_batch_re=dms.real.tolist(), dm_batch_im=dms.imag.tolist())
    call = (lambda x, n: numqi.entangle.get_density_matrix_boundary(x, dm_norm=n)) if fn == 'dm' else \
           (lambda x, n: numqi.entangle.get_ppt_boundary(x, (dA, dB), dm_norm=n, within_dm=within))
    try:
        res = call(dms, dm_norm)
        bl = np.asarray(res[0]); bu = np.asarray(res[1])
    except Exception as e:
        ctx.fail('batched-boundary', f'{replay["op"]} raised {type(e).__name__}: {e} on a batch of shape {shp}', replay); return False
    bad = []
    if bl.shape != shp or bu.shape != shp:
        bad.append(f'result shapes {bl.shape},{bu.shape} for batch shape {shp}')
    else:
        bl = bl.reshape(-1); bu = bu.reshape(-1)
        bdl, bdu = [np.asarray(x).reshape(-1) for x in numqi.entangle.get_density_matrix_boundary(dms, dm_norm=dm_norm)] if fn == 'ppt' else (None, None)
        for i in range(flat.shape[0]):
            given = _item_norm(dm_norm, i, shp)
            try:
                sl, su = call(flat[i], given)
            except Exception as e:
                bad.append(f'item {i}: single call raised {type(e).__name__}'); continue
            if abs(sl - bl[i]) > 1e-12 * max(1, abs(sl)) or abs(su - bu[i]) > 1e-12 * max(1, abs(su)):
                bad.append(f'item {i}: batched ({bl[i]!r},{bu[i]!r}) != item-by-item ({float(sl)!r},{float(su)!r})')
            mode = 'dm' if fn == 'dm' else ('ppt' if within else 'pt')
            bad += [f'item {i}: ' + x for x in _threshold_problems(flat[i], dA, dB, given, float(bl[i]), float(bu[i]), mode)]
            if fn == 'ppt' and within and not (bu[i] <= bdu[i] + 1e-12 and bl[i] >= bdl[i] - 1e-12):
                bad.append(f'item {i}: beta_PPT ({bl[i]!r},{bu[i]!r}) not inside beta_DM ({bdl[i]!r},{bdu[i]!r})')
    if bad:
        ctx.fail('batched-boundary', f'{replay["op"]}(batch {shp}, dims ({dA},{dB}), within_dm={within}, dm_norm {"given" if dm_norm is not None else "None"}): '
                 + '; '.join(bad[:3]) + (f' (+{len(bad) - 3} more)' if len(bad) > 3 else ''), replay)
        return False
    return True


def probe_batched(ctx):
    """threshold semantics, batched == per item, beta_PPT <= beta_DM on batched inputs of both closed-form boundary functions"""
    import numqi
    rng = np.random.default_rng(ctx.np_seed + 14)
    shapes = [(2,), (4,), (2, 3)] if ctx.quick() else [(2,), (3,), (4,), (5,), (2, 2), (2, 3), (3, 2)]
    for dA, dB in DIMS:
        N = dA * dB
        for si, shp in enumerate(shapes):
            cnt = int(np.prod(shp))
            makers = [lambda: rand_dm(rng, N), lambda: rand_direction_state(rng, N), lambda: rand_dm(rng, N, rank=1)]
            dms = np.stack([makers[(i + si) % 3]() for i in range(cnt)]).reshape(shp + (N, N))
            norms = numqi.gellmann.dm_to_gellmann_norm(dms.reshape(-1, N, N)).reshape(shp)
            # dm_norm: computed internally / per-item array in other units / one scalar for the whole batch
            for dm_norm in (None, 0.5 * norms, 1.75):
                ok = _batched_oracle(ctx, 'dm', dms, (dA, dB), dm_norm, None, 'probe_batched')
                for within in (True, False):
                    ok = _batched_oracle(ctx, 'ppt', dms, (dA, dB), dm_norm, within, 'probe_batched') and ok
                if ok:
                    ctx.probe_ok(('batched', dA, dB, shp, dm_norm is None))
                ctx.count('batched-calls', 3)


def probe_ray_invariance(ctx):
    """the boundaries belong to the ray, not to the point naming it: the same ray given by points at Gell-Mann distance 10^-k from the
    maximally mixed state (k = 0..10) must give the same beta_l, beta_u (dm_norm not supplied), and each answer must be the two-sided
    threshold.  A point at distance 10^-k is stored with relative direction error eps*10^k (1/N + tiny), measured on the unchanged tree:
    max deviation 1.0..1.5 * 2.2e-16 * 10^k over 120 rays; allowed: 1e-12 + 20 * 2.2e-16 * 10^k."""
    import numqi
    rng = np.random.default_rng(ctx.np_seed + 15)
    eps = 2.2e-16
    reps = 2 if ctx.quick() else 8
    mineig = lambda m: np.linalg.eigvalsh((m + m.conj().T) / 2)[0]
    for dA, dB in DIMS:
        N = dA * dB
        for rep in range(reps):
            rho = rand_dm(rng, N) if rep % 2 == 0 else rand_direction_state(rng, N)
            bl, bu = numqi.entangle.get_density_matrix_boundary(rho)
            pl, pu = numqi.entangle.get_ppt_boundary(rho, (dA, dB))
            bad = []
            worst = None
            for k in range(0, 11):
                pt = numqi.entangle.hf_interpolate_dm(rho, beta=10.0 ** -k)
                tol = 1e-12 + 20 * eps * 10 ** k
                try:
                    l, u = numqi.entangle.get_density_matrix_boundary(pt)
                    l2, u2 = numqi.entangle.get_ppt_boundary(pt, (dA, dB))
                except Exception as e:
                    bad.append(f'distance 1e-{k}: raised {type(e).__name__}'); worst = worst or (k, pt); continue
                dev = max(abs(l / bl - 1), abs(u / bu - 1))
                devp = max(abs(l2 / pl - 1), abs(u2 / pu - 1))
                ctx.extra['ray_invariance_max_dev_over_eps10k'] = max(ctx.extra.get('ray_invariance_max_dev_over_eps10k', 0.0), float(max(dev, devp) / (eps * 10 ** k)))
                if dev > tol:
                    bad.append(f'distance 1e-{k}: get_density_matrix_boundary gives ({l!r},{u!r}) instead of ({bl!r},{bu!r}), relative deviation {dev:.2e} > {tol:.1e}'); worst = worst or (k, pt)
                if devp > tol:
                    bad.append(f'distance 1e-{k}: get_ppt_boundary gives ({l2!r},{u2!r}) instead of ({pl!r},{pu!r}), relative deviation {devp:.2e} > {tol:.1e}'); worst = worst or (k, pt)
                if k <= 8:
                    # two-sided threshold of the answer obtained from this point; offset large enough to dominate the cancellation
                    # noise of hf_interpolate_dm (alpha = beta/|pt| ~ 10^k)
                    delta = max(1e-6, 1e4 * eps * 10 ** k)
                    for b, name in ((u, 'beta_u'), (l, 'beta_l')):
                        vin = mineig(numqi.entangle.hf_interpolate_dm(pt, beta=b * (1 - delta)))
                        vout = mineig(numqi.entangle.hf_interpolate_dm(pt, beta=b * (1 + delta)))
                        if not (vin > 0.25 * delta / N and vout < -0.25 * delta / N):      # exact values: +delta/N, -delta/N
                            bad.append(f'distance 1e-{k}: {name}={b!r} is not the threshold (min eigenvalue just inside {vin:.3g}, just outside {vout:.3g}, offset {delta:.1e})'); worst = worst or (k, pt)
            if bad:
                k0, pt0 = worst
                ctx.fail('ray-invariance', f'({dA},{dB}): ' + '; '.join(bad[:2]) + (f' (+{len(bad) - 2} more)' if len(bad) > 2 else ''),
                         dict(op='get_density_matrix_boundary', dim=[dA, dB], distance=10.0 ** -k0, dm=_mat_replay(pt0), reference_dm=_mat_replay(rho)))
            else:
                ctx.probe_ok(('ray', dA, dB, rep))


def probe_thresholds(ctx):
    import numqi
    rng = np.random.default_rng(ctx.np_seed + 10)
    eps = 1e-6
    reps = 6 if ctx.quick() else 40
    for dA, dB in DIMS:
        N = dA * dB
        for rep in range(reps):
            dm = [rand_dm(rng, N), rand_direction_state(rng, N), rand_dm(rng, N, rank=1)][rep % 3]
            # every third input: the caller supplies dm_norm (half the true norm): beta is then measured in those units
            given = None if rep % 3 != 2 else 0.5 * float(numqi.gellmann.dm_to_gellmann_norm(dm))
            replay = dict(op='boundary-threshold', dim=[dA, dB], dm=_mat_replay(dm), dm_norm=given)
            try:
                bl, bu = numqi.entangle.get_density_matrix_boundary(dm, dm_norm=given)
                pl, pu = numqi.entangle.get_ppt_boundary(dm, (dA, dB), dm_norm=given)
                ql, qu = numqi.entangle.get_ppt_boundary(dm, (dA, dB), dm_norm=given, within_dm=False)
            except Exception as e:
                ctx.fail('boundary-exception', f'boundary function raised {type(e).__name__}: {e}', replay); continue
            rho = lambda b: numqi.entangle.hf_interpolate_dm(dm, beta=b, dm_norm=given)
            mineig = lambda m: np.linalg.eigvalsh((m + m.conj().T) / 2)[0]
            ptmin = lambda m: mineig(pt_independent(m, dA, dB))
            bad = []
            if not (bl < 0 < bu and pl < 0 < pu):
                bad.append(f'signs: dm ({bl},{bu}) ppt ({pl},{pu})')
            for b, name in ((bu, 'beta_u'), (bl, 'beta_l')):
                inside, outside = mineig(rho(b * (1 - eps))), mineig(rho(b * (1 + eps)))
                if inside < -1e-12:
                    bad.append(f'DM {name}: just inside (beta*(1-1e-6)) min eigenvalue {inside:.3g} < 0')
                if outside > -1e-10:
                    bad.append(f'DM {name}: just outside (beta*(1+1e-6)) min eigenvalue {outside:.3g} is not negative')
            for b, name in ((pu, 'beta_pt_u'), (pl, 'beta_pt_l')):
                r_in, r_out = rho(b * (1 - eps)), rho(b * (1 + eps))
                if min(mineig(r_in), ptmin(r_in)) < -1e-12:
                    bad.append(f'PPT {name}: just inside is not PSD+PPT ({mineig(r_in):.3g}, {ptmin(r_in):.3g})')
                if min(mineig(r_out), ptmin(r_out)) > -1e-10:
                    bad.append(f'PPT {name}: just outside is still PSD+PPT ({mineig(r_out):.3g}, {ptmin(r_out):.3g})')
                # the library's own PPT test agrees on both sides (states inside the DM set only)
                if mineig(r_in) > 1e-9 and not numqi.entangle.is_ppt(r_in, (dA, dB)):
                    bad.append(f'PPT {name}: is_ppt rejects the state just inside')
                if mineig(r_out) > 1e-9 and numqi.entangle.is_ppt(r_out, (dA, dB), eps=-1e-9):
                    bad.append(f'PPT {name}: is_ppt accepts the state just outside')
            for b, name in ((qu, 'beta_pt_u(within_dm=False)'), (ql, 'beta_pt_l(within_dm=False)')):
                if ptmin(rho(b * (1 - eps))) < -1e-12 or ptmin(rho(b * (1 + eps))) > -1e-10:
                    bad.append(f'PT {name}: not the threshold of the partial transpose ({ptmin(rho(b * (1 - eps))):.3g}, {ptmin(rho(b * (1 + eps))):.3g})')
            if not (pu <= bu + 1e-15 and pl >= bl - 1e-15):
                bad.append(f'PPT interval ({pl},{pu}) not inside DM interval ({bl},{bu})')
            if bad:
                ctx.fail('boundary-threshold', f'({dA},{dB}): ' + '; '.join(bad[:3]), replay)
            else:
                ctx.probe_ok(('thr', dA, dB, rep))
            # interpolation distance
            b = float(rng.uniform(0.01, 1.2)) * bu
            r = numqi.entangle.hf_interpolate_dm(dm, beta=b)
            dist = np.linalg.norm(r - np.eye(N) / N) / np.sqrt(2)
            dist2 = float(numqi.gellmann.dm_to_gellmann_norm(r))
            v0 = (dm - np.trace(dm) / N * np.eye(N)); v1 = r - np.eye(N) / N
            cosang = np.vdot(v0, v1).real / (np.linalg.norm(v0) * np.linalg.norm(v1))
            if abs(dist - b) > 1e-12 or abs(dist2 - b) > 1e-12 or cosang < 1 - 1e-12:
                ctx.fail('interpolate-distance', f'hf_interpolate_dm(beta={b!r}) lands at Gell-Mann distance {dist!r} (cos angle to the ray {cosang!r})', dict(replay, beta=b))
            else:
                ctx.probe_ok(('interp', dA, dB, rep))


def _pureb_state(dA, dB, k, rng):
    import numqi, torch
    p = numqi.entangle.PureBosonicExt(dA, dB, kext=k, distance_kind='gellmann')
    p.set_dm_target(np.eye(dA * dB) / (dA * dB))
    n = numqi.optimize.get_model_flat_parameter(p).shape
    theta = rng.normal(size=n) * float(rng.choice([0.1, 1.0, 5.0]))
    numqi.optimize.set_model_flat_parameter(p, theta)
    with torch.no_grad():
        p()
    return p.dm_torch.numpy().copy(), theta


def _cha_autodiff_state(dA, dB, rng):
    import numqi, torch
    m = numqi.entangle.AutodiffCHAREE((dA, dB), distance_kind='gellmann')
    m.set_dm_target(np.eye(dA * dB) / (dA * dB))
    n = numqi.optimize.get_model_flat_parameter(m).shape
    theta = rng.normal(size=n) * float(rng.choice([0.1, 1.0, 5.0]))
    numqi.optimize.set_model_flat_parameter(m, theta)
    with torch.no_grad():
        m()
    return m.dm_torch.numpy().copy(), theta


def probe_inner_models(ctx):
    import numqi
    rng = np.random.default_rng(ctx.np_seed + 11)
    quiet = lambda: contextlib.redirect_stdout(io.StringIO())

    def outer_tests(rho, dA, dB, kmax, want_ppt, tag, replay, boson_only):
        bad = []
        N = dA * dB
        if abs(np.trace(rho) - 1) > 1e-9 or np.abs(rho - rho.conj().T).max() > 1e-9:
            bad.append('not a trace-one Hermitian matrix')
        if np.linalg.eigvalsh((rho + rho.conj().T) / 2)[0] < -1e-9:
            bad.append(f'not positive (min eigenvalue {np.linalg.eigvalsh(rho)[0]:.3g})')
        if want_ppt and not numqi.entangle.is_ppt(rho, (dA, dB)):
            bad.append('rejected by is_ppt')
        for kk in range(1, kmax + 1):
            for boson in ((True,) if boson_only else (True, False)):
                try:
                    with quiet():
                        acc = bool(numqi.entangle.is_ABk_symmetric_ext(rho, (dA, dB), kk, use_boson=boson))
                except Exception as e:
                    ctx.count('sdp-raised-' + type(e).__name__); continue
                ctx.count('sdp-isext')
                if not acc:
                    bad.append(f'rejected by is_ABk_symmetric_ext(k={kk}, use_boson={boson})')
        if bad:
            ctx.fail('inner-model-rejected', f'{tag}: ' + '; '.join(bad[:3]), replay)
        else:
            ctx.probe_ok((tag, dA, dB))
    # pure bosonic extension at arbitrary parameters
    # (2,3,4) and (2,4,3): sizes where another irrep of S_k x SU(dB) has the dimension of the symmetric one (15 = 15, 20 = 20) — the
    # bosonic block of the outer test must still be the symmetric irrep
    cfg = [(2, 2, 1), (2, 2, 2), (2, 2, 3), (2, 3, 2), (3, 3, 2), (2, 3, 4), (2, 4, 3)] if ctx.quick() else \
        [(2, 2, 1), (2, 2, 2), (2, 2, 3), (2, 3, 1), (2, 3, 2), (2, 3, 3), (3, 3, 1), (3, 3, 2), (2, 4, 2), (2, 2, 4), (2, 3, 4), (2, 4, 3)]
    for dA, dB, k in cfg:
        for rep in range(2 if ctx.quick() else 4):
            rho, theta = _pureb_state(dA, dB, k, rng)
            replay = dict(op='PureBosonicExt', dim=[dA, dB], kext=k, theta=theta.tolist())
            # a k-bosonic-extendible state must be accepted by every k'-extension test, k' <= k (bosonic and plain)
            outer_tests(rho, dA, dB, k, False, f'PureBosonicExt(k={k})', replay, boson_only=ctx.quick() or (dB > 2 and k > 2) or dB > 3)
    # gradient CHA model at arbitrary parameters: separable by construction
    for dA, dB in DIMS[:3] if ctx.quick() else DIMS:
        for rep in range(2 if ctx.quick() else 4):
            rho, theta = _cha_autodiff_state(dA, dB, rng)
            replay = dict(op='AutodiffCHAREE', dim=[dA, dB], theta=theta.tolist())
            outer_tests(rho, dA, dB, (4 if (dA, dB) == (2, 3) else 0) if ctx.quick() else (4 if (dA, dB) == (2, 3) else 2), True, 'AutodiffCHAREE', replay, boson_only=True)
    # LP model: the extracted mixture
    n_ok = 0
    for trial in range(12 if ctx.quick() else 40):
        if n_ok >= (4 if ctx.quick() else 12):
            break
        dA, dB = DIMS[trial % 2] if ctx.quick() else DIMS[trial % 3]
        N = dA * dB
        dm = rand_dm(rng, N)
        seed = int(rng.integers(1 << 30))
        m = numqi.entangle.CHABoundaryBagging((dA, dB))
        mit = (0, 6, 1)[trial % 3]        # the certificate must be consistent after the initial LP alone (maxiter=0) as well as after bagging steps
        try:
            with contextlib.redirect_stdout(io.StringIO()), contextlib.redirect_stderr(io.StringIO()):
                beta, (ka, kb, lam, hist) = m.solve(dm, maxiter=mit, seed=seed, return_info=True)
        except Exception as e:
            ctx.count('cha-solver-raised-' + type(e).__name__); continue
        n_ok += 1
        # the returned (ketA, ketB, lambda) is a separability certificate of the state on the ray: sum_i lambda_i |a_i b_i><a_i b_i| must
        # reproduce hf_interpolate_dm(dm, beta) (complex target!), lambda >= 0, sum 1, unit kets (LP residual allowance LP_TOL)
        cert = np.einsum(lam, [0], ka, [0, 1], ka.conj(), [0, 3], kb, [0, 2], kb.conj(), [0, 4], [1, 2, 3, 4]).reshape(N, N)
        point = numqi.entangle.hf_interpolate_dm(dm, beta=beta)
        dev = np.abs(cert - point).max()
        if dev > LP_TOL or lam.min() < -LP_TOL or abs(lam.sum() - 1) > LP_TOL or np.abs(np.linalg.norm(ka, axis=1) - 1).max() > 1e-9 \
                or np.abs(np.linalg.norm(kb, axis=1) - 1).max() > 1e-9:
            ctx.fail('cha-certificate', f'CHABoundaryBagging.solve(return_info=True) on a complex {dA}x{dB} target: the returned product states and weights do not '
                     f'reconstruct the state at beta={beta!r} (max deviation {dev:.3g}; deviation from its complex conjugate {np.abs(cert - point.conj()).max():.3g}; '
                     f'min lambda {lam.min():.3g}, sum {lam.sum()!r}; maxiter={mit})', dict(op='CHABoundaryBagging.solve', dim=[dA, dB], dm=_mat_replay(dm), seed=seed, maxiter=mit))
        else:
            ctx.probe_ok(('cha-cert', trial))
        lam = np.maximum(lam, 0); lam = lam / lam.sum()
        mix = np.einsum(lam, [0], ka, [0, 1], ka.conj(), [0, 3], kb, [0, 2], kb.conj(), [0, 4], [1, 2, 3, 4]).reshape(N, N)
        replay = dict(op='CHABoundaryBagging.solve', dim=[dA, dB], dm=_mat_replay(dm), seed=seed, maxiter=mit)
        outer_tests(mix, dA, dB, 0 if ctx.quick() else 2, True, 'CHABoundaryBagging', replay, boson_only=True)
        bppt = numqi.entangle.get_ppt_boundary(dm, (dA, dB))[1]
        bdm = numqi.entangle.get_density_matrix_boundary(dm)[1]
        if not (beta <= bppt + LP_TOL and bppt <= bdm + 1e-12):
            ctx.fail('beta-order', f'beta_CHA={beta!r} beta_PPT={bppt!r} beta_DM={bdm!r} are not ordered', replay)
        else:
            ctx.probe_ok(('order-cha', trial))



def probe_histories(ctx):
    """objects with state must behave like fresh ones after any history of public calls: PureBosonicExt / AutodiffCHAREE used for an
    expectation task and then for a target state (and back), get_boundary on a used object, CHABoundaryBagging solved twice"""
    import numqi, torch
    rng = np.random.default_rng(ctx.np_seed + 17)

    def set_theta(m, theta):
        numqi.optimize.set_model_flat_parameter(m, theta)

    def fwd(m):
        with torch.no_grad():
            loss = m()
        return float(loss), m.dm_torch.numpy().copy()
    makers = [('PureBosonicExt(2,2,k=2)', lambda kind: numqi.entangle.PureBosonicExt(2, 2, kext=2, distance_kind=kind), 4),
              ('PureBosonicExt(2,3,k=2)', lambda kind: numqi.entangle.PureBosonicExt(2, 3, kext=2, distance_kind=kind), 6),
              ('AutodiffCHAREE(2,2)', lambda kind: numqi.entangle.AutodiffCHAREE((2, 2), distance_kind=kind), 4),
              ('AutodiffCHAREE(2,3)', lambda kind: numqi.entangle.AutodiffCHAREE((2, 3), distance_kind=kind), 6)]
    for name, mk, N in makers:
        for kind in ('gellmann', 'ree'):
            rho = rand_dm(rng, N)
            op = rand_direction_state(rng, N) - np.eye(N) / N
            replay = dict(op=name, distance_kind=kind, target=_mat_replay(rho), expectation_op=_mat_replay(op))
            try:
                fresh = mk(kind)
                nth = numqi.optimize.get_model_flat_parameter(fresh).shape
                theta = rng.normal(size=nth)
                replay['theta'] = theta.tolist()
                fresh.set_dm_target(rho); set_theta(fresh, theta)
                loss_f, dm_f = fwd(fresh)
                used = mk(kind)
                used.set_expectation_op(op); set_theta(used, theta)
                loss_e, dm_e = fwd(used)
                used.set_dm_target(rho)
                loss_u, dm_u = fwd(used)
                used.set_expectation_op(op)
                loss_e2, _ = fwd(used)
                used.set_dm_target(rho); used.set_dm_target(rho)
                loss_u2, _ = fwd(used)
            except Exception as e:
                ctx.fail('model-history', f'{name} ({kind}) raised {type(e).__name__}: {e} during expectation -> target -> expectation -> target', replay); continue
            bad = []
            want_e = float(np.trace(op @ dm_e).real)
            if abs(loss_e - want_e) > 1e-10 or abs(loss_e2 - want_e) > 1e-10:
                bad.append(f'expectation loss {loss_e!r}/{loss_e2!r} != Re tr(op rho) = {want_e!r}')
            if kind == 'gellmann':
                want = float(np.vdot(rho - dm_f, rho - dm_f).real / 2)
                if abs(loss_f - want) > 1e-10:
                    bad.append(f'fresh object: loss {loss_f!r} != Gell-Mann distance^2 {want!r}')
            if np.abs(dm_u - dm_f).max() > 1e-12 or abs(loss_u - loss_f) > 1e-10 * max(1, abs(loss_f)) or abs(loss_u2 - loss_f) > 1e-10 * max(1, abs(loss_f)):
                bad.append(f'after an expectation task the same parameters give loss {loss_u!r} / {loss_u2!r} instead of {loss_f!r} (fresh object)')
            if bad:
                ctx.fail('model-history', f'{name} ({kind}): ' + '; '.join(bad[:2]), replay)
            else:
                ctx.probe_ok(('hist', name, kind))
    # get_boundary on a used object = get_boundary on a fresh one (same seed)
    for name, mk, N, dims in [('PureBosonicExt(2,2,k=2)', lambda: numqi.entangle.PureBosonicExt(2, 2, kext=2, distance_kind='gellmann'), 4, (2, 2))] + \
            ([] if ctx.quick() else [('AutodiffCHAREE(2,2)', lambda: numqi.entangle.AutodiffCHAREE((2, 2), distance_kind='gellmann'), 4, (2, 2))]):
        rho = rand_dm(rng, N, rank=2)
        op = rand_direction_state(rng, N) - np.eye(N) / N
        replay = dict(op=name + '.get_boundary', target=_mat_replay(rho), expectation_op=_mat_replay(op), xtol=1e-2, seed=5)
        try:
            with contextlib.redirect_stdout(io.StringIO()):
                b_fresh = float(mk().get_boundary(rho, xtol=1e-2, use_tqdm=False, seed=5))
                used = mk()
                used.set_expectation_op(op)
                numqi.optimize.minimize(used, theta0='uniform', num_repeat=1, tol=1e-6, print_every_round=0, seed=3)
                b_used = float(used.get_boundary(rho, xtol=1e-2, use_tqdm=False, seed=5))
                b_again = float(used.get_boundary(rho, xtol=1e-2, use_tqdm=False, seed=5))
        except Exception as e:
            ctx.fail('model-history', f'{name}.get_boundary raised {type(e).__name__}: {e} (fresh / after an expectation task)', replay); continue
        if abs(b_used - b_fresh) > 1e-9 or abs(b_again - b_fresh) > 1e-9:
            ctx.fail('model-history', f'{name}.get_boundary: fresh object {b_fresh!r}, after set_expectation_op + minimize {b_used!r}, repeated {b_again!r}', replay)
        else:
            ctx.probe_ok(('hist-boundary', name))
    # the LP model solved twice: second answer = answer of a fresh object
    done = 0
    for trial in range(10):
        if done >= (1 if ctx.quick() else 3):
            break
        dm1, dm2 = rand_dm(rng, 4), rand_dm(rng, 4)
        seed = int(rng.integers(1 << 30))
        try:
            with contextlib.redirect_stdout(io.StringIO()), contextlib.redirect_stderr(io.StringIO()):
                b_fresh = float(numqi.entangle.CHABoundaryBagging((2, 2)).solve(dm2, maxiter=4, seed=seed))
                m = numqi.entangle.CHABoundaryBagging((2, 2))
                m.solve(dm1, maxiter=4, seed=seed + 1)
                b_used = float(m.solve(dm2, maxiter=4, seed=seed))
        except Exception as e:
            ctx.count('cha-solver-raised-' + type(e).__name__); continue
        done += 1
        if abs(b_used - b_fresh) > LP_TOL:
            ctx.fail('model-history', f'CHABoundaryBagging: second solve on a used object gives {b_used!r}, a fresh object {b_fresh!r}',
                     dict(op='CHABoundaryBagging.solve twice', dm1=_mat_replay(dm1), dm2=_mat_replay(dm2), seed=seed, maxiter=4))
        else:
            ctx.probe_ok(('hist-cha', trial))



# ---------------------------------------------------------------------------
# hardening: aliasing / repeatability / dtype / layout / boundary inputs
# ---------------------------------------------------------------------------
def _snap(x):
    if isinstance(x, np.ndarray):
        return ('a', x.shape, str(x.dtype), x.tobytes())
    if isinstance(x, (list, tuple)):
        return ('l', tuple(_snap(y) for y in x))
    return ('o', repr(x))


def _same(a, b, tol=0.0):
    if isinstance(a, (tuple, list)) and isinstance(b, (tuple, list)):
        return len(a) == len(b) and all(_same(x, y, tol) for x, y in zip(a, b))
    if isinstance(a, (str, bool, np.bool_)) or a is None:
        return a == b
    a, b = np.asarray(a), np.asarray(b)
    if a.shape != b.shape:
        return False
    if a.size == 0:
        return True
    if tol == 0.0:
        return bool(np.array_equal(a, b, equal_nan=True))
    return bool(np.abs(a.astype(np.complex128) - b.astype(np.complex128)).max() <= tol * max(1.0, float(np.abs(b).max())))


def hard_call(ctx, name, f, args, replay, kwargs=None, same=None):
    """call `f(*args)` twice on the very same argument objects: arguments must be bit-identical afterwards (no in-place edit of the
    caller's data), both results identical (`same`: comparison for routines built on ARPACK, whose start vector is random: equal up to 1e-9 /
    equal support values); an exception becomes a failure with the input, never an abort"""
    kwargs = kwargs or {}
    before = [_snap(a) for a in args]
    try:
        r1 = f(*args, **kwargs)
        mid = [_snap(a) for a in args]
        r2 = f(*args, **kwargs)
    except Exception as e:
        ctx.fail('hardening-exception', f'{name} raised {type(e).__name__}: {e}', replay); return None
    if mid != before or [_snap(a) for a in args] != before:
        ctx.fail('aliasing', f'{name} modified an argument of the caller in place', replay); return None
    if not (same or _same)(r1, r2):
        ctx.fail('repeat-call', f'{name}: two calls on the same arguments give different results', replay); return None
    ctx.probe_ok()
    return r1


def layouts(x):
    """the same values as C-contiguous, Fortran-ordered and as a non-contiguous strided view"""
    x = np.ascontiguousarray(x)
    big = np.zeros(tuple(2 * n for n in x.shape), dtype=x.dtype)
    big[tuple(slice(None, None, 2) for _ in x.shape)] = x
    return [('C', x), ('F', np.asfortranarray(x)), ('strided-view', big[tuple(slice(None, None, 2) for _ in x.shape)])]


def probe_hardening(ctx):
    import numqi, torch
    rng = np.random.default_rng(ctx.np_seed + 18)
    B = numqi.entangle.get_density_matrix_boundary
    P = numqi.entangle.get_ppt_boundary
    I = numqi.entangle.hf_interpolate_dm
    for dA, dB in DIMS[:2] if ctx.quick() else DIMS:
        N = dA * dB
        dm = rand_dm(rng, N)
        rep0 = dict(dim=[dA, dB], dm=_mat_replay(dm))
        base = hard_call(ctx, 'get_density_matrix_boundary', B, (dm,), dict(op='dmb', **rep0))
        basep = hard_call(ctx, 'get_ppt_boundary', lambda x: P(x, (dA, dB)), (dm,), dict(op='pptb', **rep0))
        basei = hard_call(ctx, 'hf_interpolate_dm', lambda x: I(x, beta=0.05), (dm,), dict(op='interp', **rep0))
        hard_call(ctx, 'is_ppt', lambda x: bool(numqi.entangle.is_ppt(x, (dA, dB))), (dm,), dict(op='is_ppt', **rep0))
        if base is None or basep is None or basei is None:
            continue
        for nm, a, tol in [(n_, x, 1e-12) for n_, x in layouts(dm)[1:]] + [('complex64', dm.astype(np.complex64), 1e-4), ('batch of one', dm[None], 1e-12)]:
            replay = dict(op='boundary-variant', variant=nm, **rep0)
            for fname, f, ref in (('get_density_matrix_boundary', B, base), ('get_ppt_boundary', lambda x: P(x, (dA, dB)), basep)):
                r = hard_call(ctx, f'{fname}[{nm}]', f, (a,), replay)
                if r is not None and not _same([np.asarray(x).reshape(-1) for x in r], [np.asarray(x).reshape(-1) for x in ref], tol):
                    ctx.fail('hardening-variant', f'{fname} on the same state given as {nm}: {r} instead of {ref}', replay)
            if nm != 'batch of one':
                r = hard_call(ctx, f'hf_interpolate_dm[{nm}]', lambda x: I(x, beta=0.05), (a,), replay)
                if r is not None and not _same(r, basei, tol):
                    ctx.fail('hardening-variant', f'hf_interpolate_dm on the same state given as {nm} differs by {np.abs(np.asarray(r) - basei).max():.3g}', replay)
        # real symmetric state as float64 / complex128 with zero imaginary part; integer pure state as int64 / float64
        rs = (lambda a: a @ a.T)(rng.normal(size=(N, N))); rs = rs / np.trace(rs)
        pure = np.zeros((N, N), dtype=np.int64); pure[0, 0] = 1
        for nm, a, b in (('real float64 vs complex128 zero imag', rs, rs.astype(np.complex128)), ('int64 vs float64 pure state', pure, pure.astype(np.float64))):
            replay = dict(op='boundary-dtype', variant=nm, dim=[dA, dB], dm=_mat_replay(np.asarray(a, dtype=float)))
            for fname, f in (('get_density_matrix_boundary', B), ('get_ppt_boundary', lambda x: P(x, (dA, dB))), ('hf_interpolate_dm', lambda x: I(x, beta=0.05))):
                ra = hard_call(ctx, f'{fname}[{nm}, first]', f, (a,), replay)
                rb = hard_call(ctx, f'{fname}[{nm}, second]', f, (b,), replay)
                if ra is not None and rb is not None and not _same(ra, rb, 1e-12):
                    ctx.fail('hardening-variant', f'{fname}: {nm} give {ra} and {rb}', replay)
        # near-degenerate spectra: two-sided threshold still exact
        for gap in (0.0, 1e-12, 1e-8):
            ev = np.array([0.4, 0.4 - gap] + [0.2 / (N - 2) + (gap if j == 0 else 0) for j in range(N - 2)]); ev = ev / ev.sum()
            U = np.linalg.qr(rng.normal(size=(N, N)) + 1j * rng.normal(size=(N, N)))[0]
            st = (U * ev) @ U.conj().T; st = (st + st.conj().T) / 2
            replay = dict(op='boundary-threshold', spectrum=f'top eigenvalue pair with gap {gap}', dim=[dA, dB], dm=_mat_replay(st))
            r = hard_call(ctx, f'get_density_matrix_boundary[gap {gap}]', B, (st,), replay)
            rp = hard_call(ctx, f'get_ppt_boundary[gap {gap}]', lambda x: P(x, (dA, dB)), (st,), replay)
            if r is None or rp is None:
                continue
            bad = _threshold_problems(st, dA, dB, None, float(r[0]), float(r[1]), 'dm') + _threshold_problems(st, dA, dB, None, float(rp[0]), float(rp[1]), 'ppt')
            if bad:
                ctx.fail('boundary-threshold', f'({dA},{dB}), near-degenerate spectrum (gap {gap}): ' + '; '.join(bad[:2]), replay)
            else:
                ctx.probe_ok(('degenerate', dA, dB, gap))
        # exact end points of the interpolation: beta = 0 is the maximally mixed state, alpha = 1 the state itself, alpha = 0 the centre
        for nm, got, want in (('beta=0', I(dm, beta=0.0), np.eye(N) / N), ('alpha=1', I(dm, alpha=1.0), dm), ('alpha=0', I(dm, alpha=0.0), np.eye(N) / N)):
            if np.abs(got - want).max() > 1e-15:
                ctx.fail('interpolate-distance', f'hf_interpolate_dm({nm}) is off by {np.abs(got - want).max():.3g}', dict(op='interp-endpoint', which=nm, **rep0))
            else:
                ctx.probe_ok(('endpoint', nm))
    # model objects copy the caller's target: editing the caller's array afterwards must not change the model
    for name, mk in (('PureBosonicExt', lambda: numqi.entangle.PureBosonicExt(2, 2, kext=2, distance_kind='gellmann')), ('AutodiffCHAREE', lambda: numqi.entangle.AutodiffCHAREE((2, 2), distance_kind='gellmann'))):
        rho = rand_dm(rng, 4)
        replay = dict(op=name + '.set_dm_target', target=_mat_replay(rho))
        try:
            m = mk(); snap = _snap(rho)
            m.set_dm_target(rho)
            theta = rng.normal(size=numqi.optimize.get_model_flat_parameter(m).shape)
            numqi.optimize.set_model_flat_parameter(m, theta)
            with torch.no_grad():
                l0 = float(m())
            if _snap(rho) != snap:
                ctx.fail('aliasing', f'{name}.set_dm_target / forward modified the caller\'s target in place', replay); continue
            rho2 = rho.copy(); rho *= 0
            with torch.no_grad():
                l1 = float(m())
            rho[...] = rho2
            if abs(l1 - l0) > 1e-14:
                ctx.fail('aliasing', f'{name}: editing the caller\'s array after set_dm_target changes the loss ({l0!r} -> {l1!r}): the model shares memory with its input', replay)
            else:
                ctx.probe_ok(('target-copy', name))
        except Exception as e:
            ctx.fail('hardening-exception', f'{name} raised {type(e).__name__}: {e}', replay)
    dm = rand_dm(rng, 4); snap = _snap(dm)
    try:
        with contextlib.redirect_stdout(io.StringIO()), contextlib.redirect_stderr(io.StringIO()):
            numqi.entangle.CHABoundaryBagging((2, 2)).solve(dm, maxiter=2, seed=1)
    except Exception as e:
        ctx.count('cha-solver-raised-' + type(e).__name__)
    if _snap(dm) != snap:
        ctx.fail('aliasing', 'CHABoundaryBagging.solve modified the target density matrix in place', dict(op='cha-alias', dm=_mat_replay(dm)))
    else:
        ctx.probe_ok(('cha-alias',))


def probe_cha_alive(ctx):
    """the LP model must deliver on at least one of many valid inputs (solver hiccups are tolerated, a systematic failure is not)"""
    import numqi
    rng = np.random.default_rng(ctx.np_seed + 13)
    errs = []
    for trial in range(16):
        dm = rand_dm(rng, 4)
        seed = int(rng.integers(1 << 30))
        try:
            with contextlib.redirect_stdout(io.StringIO()), contextlib.redirect_stderr(io.StringIO()):
                beta = numqi.entangle.CHABoundaryBagging((2, 2)).solve(dm, maxiter=3, seed=seed)
            if beta is not None and np.isfinite(beta) and beta > 0:
                ctx.probe_ok(('cha-alive',)); return
            errs.append(f'beta={beta!r}')
        except Exception as e:
            errs.append(type(e).__name__)
    ctx.fail('cha-never-solves', f'CHABoundaryBagging((2,2)).solve failed on 16 random full-rank two-qubit states: {sorted(set(errs))}',
             dict(op='CHABoundaryBagging.solve', dim=[2, 2], dm=_mat_replay(dm), seed=seed, maxiter=3))


def probe_ordering(ctx):
    """ordering of the computed boundary lengths, solver tolerance SDP_TOL (the solver error measured in this run is recorded)"""
    import numqi
    rng = np.random.default_rng(ctx.np_seed + 12)
    tol = SDP_TOL
    cfg = [((2, 2), 3, 3)] if ctx.quick() else [((2, 2), 3, 8), ((2, 3), 2, 4), ((3, 3), 2, 2)]
    for (dA, dB), kmax, reps in cfg:
        N = dA * dB
        for rep in range(reps):
            dm = rand_dm(rng, N) if rep % 2 == 0 else rand_direction_state(rng, N)
            replay = dict(op='boundary-ordering', dim=[dA, dB], dm=_mat_replay(dm))
            bdm = numqi.entangle.get_density_matrix_boundary(dm)[1]
            bppt = numqi.entangle.get_ppt_boundary(dm, (dA, dB))[1]
            ext, extp = {}, {}
            try:
                with contextlib.redirect_stdout(io.StringIO()):
                    for k in range(1, kmax + 1):
                        ext[k] = float(numqi.entangle.get_ABk_symmetric_extension_boundary(dm, (dA, dB), k, use_boson=(k > 1 and dB > 2)))
                        extp[k] = float(numqi.entangle.get_ABk_symmetric_extension_boundary(dm, (dA, dB), k, use_ppt=True, use_boson=(k > 1 and dB > 2)))
                        ctx.count('sdp-boundary', 2)
            except Exception as e:
                ctx.count('sdp-raised-' + type(e).__name__); continue
            bad = []
            ctx.extra['sdp_measured_error_max'] = max(ctx.extra.get('sdp_measured_error_max', 0.0), abs(ext[1] - bdm), abs(extp[1] - bppt))
            if abs(ext[1] - bdm) > tol:
                bad.append(f'beta_1ext={ext[1]!r} != beta_DM={bdm!r}')
            for k in range(1, kmax):
                if ext[k + 1] > ext[k] + tol:
                    bad.append(f'beta_{k + 1}ext={ext[k + 1]!r} > beta_{k}ext={ext[k]!r}')
            for k in range(1, kmax + 1):
                if extp[k] > bppt + tol:
                    bad.append(f'beta_{k}ext+PPT={extp[k]!r} > beta_PPT={bppt!r}')
                if extp[k] > ext[k] + tol:
                    bad.append(f'beta_{k}ext+PPT={extp[k]!r} > beta_{k}ext={ext[k]!r}')
            if bppt > bdm + 1e-12:
                bad.append(f'beta_PPT={bppt!r} > beta_DM={bdm!r}')
            # the LP inner approximation, when the solver delivers
            try:
                with contextlib.redirect_stdout(io.StringIO()), contextlib.redirect_stderr(io.StringIO()):
                    bcha = float(numqi.entangle.CHABoundaryBagging((dA, dB)).solve(dm if rep % 2 == 0 else numqi.entangle.hf_interpolate_dm(dm, beta=0.5 * bdm), maxiter=6, seed=rep))
                for k in range(1, kmax + 1):
                    if bcha > ext[k] + LP_TOL or bcha > extp[k] + LP_TOL:
                        bad.append(f'beta_CHA={bcha!r} > beta_{k}ext={ext[k]!r} / +PPT {extp[k]!r}')
            except Exception as e:
                ctx.count('cha-solver-raised-' + type(e).__name__)
            if bad:
                ctx.fail('beta-order', f'({dA},{dB}): ' + '; '.join(bad[:3]), replay)
            else:
                ctx.probe_ok(('order', dA, dB, rep))


def _bell_mix(dA, dB, p):
    d = min(dA, dB)
    v = np.zeros(dA * dB); v[[i * dB + i for i in range(d)]] = d ** -0.5
    return p * np.outer(v, v) + (1 - p) * np.eye(dA * dB) / (dA * dB)


class _solver_status:
    """record `Problem.status` after every cvxpy solve inside the block (the library itself never looks at it)"""
    def __enter__(self):
        import cvxpy
        self.log = []
        self.orig = cvxpy.Problem.solve
        rec = self

        def solve(self_, *a, **k):
            try:
                return rec.orig(self_, *a, **k)
            finally:
                rec.log.append(self_.status)
        cvxpy.Problem.solve = solve
        return self

    def __exit__(self, *a):
        import cvxpy
        cvxpy.Problem.solve = self.orig
        return False


def probe_sdp_shapes(ctx):
    """the two SDP routines of the hierarchy on every documented input shape (2-d, 3-d array, list) and with return_info=True, options
    use_ppt / use_boson:  batched == per item;  `vecA` is the boundary point (`beta` times the unit Gell-Mann vector of the direction),
    `vecN` a unit normal of a hyperplane that supports the set (no product state beyond it);  the decision agrees with the boundary on
    both sides;  the blocks returned with a positive decision are a certificate (positive, reduce to the state)."""
    import numqi
    E, S = numqi.entangle, numqi.entangle.symext
    rng = np.random.default_rng(ctx.np_seed + 14)
    cfg = [(2, 2, 2, False, False), (2, 2, 2, True, True), (2, 2, 3, False, False)] + \
        ([] if ctx.quick() else [(2, 3, 2, False, False), (2, 3, 2, True, True), (2, 2, 3, True, False), (3, 2, 2, False, False)])
    quiet = lambda: contextlib.redirect_stdout(io.StringIO())
    for dA, dB, k, ppt, boson in cfg:
        N = dA * dB
        kw = dict(use_ppt=ppt, use_boson=boson)
        dms = [rand_dm(rng, N), rand_direction_state(rng, N), _bell_mix(dA, dB, 0.9)]
        rep = dict(op='sdp-shapes', dim=[dA, dB], kext=k, use_ppt=ppt, use_boson=boson, dms=[_mat_replay(d) for d in dms])
        bad = []
        try:
            with quiet():
                b1 = np.array([float(E.get_ABk_symmetric_extension_boundary(d, (dA, dB), k, **kw)) for d in dms])
                b3 = E.get_ABk_symmetric_extension_boundary(np.stack(dms), (dA, dB), k, **kw)
                bl = E.get_ABk_symmetric_extension_boundary(list(dms[:2]), (dA, dB), k, **kw)
                bi, vA, vN = E.get_ABk_symmetric_extension_boundary(np.stack(dms), (dA, dB), k, return_info=True, **kw)
                si = E.get_ABk_symmetric_extension_boundary(dms[2], (dA, dB), k, return_info=True, **kw)
        except Exception as e:
            ctx.fail('sdp-shapes-raised', f'get_ABk_symmetric_extension_boundary raised {type(e).__name__}: {e} on a documented input shape', rep); continue
        ctx.count('sdp-boundary', 3 + 3 + 2 + 3 + 1)
        if np.shape(b3) != (3,) or np.shape(bl) != (2,) or np.shape(bi) != (3,) or np.shape(vA) != (3, N * N - 1) or np.shape(vN) != (3, N * N - 1):
            bad.append(f'shapes: array {np.shape(b3)}, list {np.shape(bl)}, info {np.shape(bi)} {np.shape(vA)} {np.shape(vN)}')
        elif not (isinstance(si, tuple) and len(si) == 3 and np.ndim(si[0]) == 0 and np.shape(si[1]) == (N * N - 1,) and np.shape(si[2]) == (N * N - 1,)):
            bad.append('single item with return_info: not (float, vector, vector)')
        else:
            d = max(np.abs(b3 - b1).max(), np.abs(bl - b1[:2]).max(), np.abs(bi - b1).max(), abs(float(si[0]) - b1[2]))
            ctx.extra['sdp_batched_vs_single_max'] = max(ctx.extra.get('sdp_batched_vs_single_max', 0.0), float(d))
            if d > SDP_TOL:
                bad.append(f'batched / list / return_info boundary differs from the per-item one by {d:.3e}')
            for i, dm in enumerate(dms):
                g = numqi.gellmann.dm_to_gellmann_basis(dm)
                want = bi[i] * g / np.linalg.norm(g)
                if np.abs(vA[i] - want).max() > 1e-12 * max(1.0, abs(bi[i])):
                    bad.append(f'item {i}: vecA is not beta times the unit Gell-Mann vector of the direction (max diff {np.abs(vA[i] - want).max():.3e})')
                if abs(np.linalg.norm(vN[i]) - 1) > 1e-9 or np.abs(np.imag(vN[i])).max() > 0:
                    bad.append(f'item {i}: vecN is not a real unit vector (norm {np.linalg.norm(vN[i])!r})')
                # supporting hyperplane: the set contains the maximally mixed state and every product state
                h = float(np.real(vN[i] @ vA[i]))
                worst = -h
                for _ in range(40):
                    a = rng.normal(size=dA) + 1j * rng.normal(size=dA); b = rng.normal(size=dB) + 1j * rng.normal(size=dB)
                    v = np.kron(a / np.linalg.norm(a), b / np.linalg.norm(b))
                    worst = max(worst, float(np.real(vN[i] @ numqi.gellmann.dm_to_gellmann_basis(np.outer(v, v.conj())))) - h)
                ctx.extra['sdp_normal_violation_max'] = max(ctx.extra.get('sdp_normal_violation_max', -1.0), worst)
                if worst > SDP_TOL:
                    bad.append(f'item {i}: a state of the set lies {worst:.3e} beyond the hyperplane (vecA, vecN)')
            if np.abs(np.asarray(si[1]) - vA[2]).max() > SDP_TOL or np.abs(np.asarray(si[2]) - vN[2]).max() > 50 * SDP_TOL:
                bad.append('single-item (vecA, vecN) differ from the batched ones')
        if bad:
            ctx.fail('sdp-boundary-shapes', f'({dA},{dB}) kext={k} use_ppt={ppt} use_boson={boson}: ' + '; '.join(bad[:3]), rep)
            continue
        ctx.probe_ok(('sdp-shapes', dA, dB, k, ppt, boson))
        # --- the decision on both sides of the boundary, every input shape
        margin = 0.02
        bdm = [float(E.get_density_matrix_boundary(d)[1]) for d in dms]
        inside = [E.hf_interpolate_dm(d, beta=max(b - margin, 0.5 * b)) for d, b in zip(dms, b1)]
        outside = [E.hf_interpolate_dm(d, beta=b + margin) for d, b, m in zip(dms, b1, bdm) if b + margin < m * (1 - 1e-6)]
        pts = inside + outside
        want = [True] * len(inside) + [False] * len(outside)
        rep2 = dict(op='sdp-decision', dim=[dA, dB], kext=k, use_ppt=ppt, use_boson=boson, states=[_mat_replay(d) for d in pts], expected=want,
                    how='points at Gell-Mann distance beta_kext -/+ 0.02 on the rays of the states above')
        try:
            r1, clean = [], []
            for x in pts:
                with quiet(), _solver_status() as st1:
                    r1.append(E.is_ABk_symmetric_ext(x, (dA, dB), k, **kw))
                # a decision is held against the boundary only when every solve of the single-item call on that state reported a clean
                # status (is_ABk_symmetric_ext takes `optimal_inaccurate` as "extension exists": an observation, design_notes/C06.md);
                # statuses are attributed per call, not by position in a global log, so extra / fewer solves change nothing
                clean.append(len(st1.log) >= 1 and all(z in ('optimal', 'infeasible') for z in st1.log))
            with quiet():
                r3 = E.is_ABk_symmetric_ext(np.stack(pts), (dA, dB), k, **kw)
                rl = E.is_ABk_symmetric_ext(list(pts), (dA, dB), k, **kw)
                ri = E.is_ABk_symmetric_ext(np.stack(pts), (dA, dB), k, return_info=True, **kw)
                rs = E.is_ABk_symmetric_ext(pts[0], (dA, dB), k, return_info=True, **kw)
            if not all(clean):
                ctx.count('sdp-decision-unclean-status', len(pts) - sum(clean))
            if sum(clean) < (len(pts) + 1) // 2:
                ctx.fail('sdp-decision-unverifiable', f'({dA},{dB}) kext={k} use_ppt={ppt} use_boson={boson}: the solver reported a clean status for only {sum(clean)} of '
                         f'{len(pts)} states at distance 0.02 from the boundary (on the unchanged tree all are clean): the decisions cannot be checked', rep2)
                continue
        except Exception as e:
            ctx.fail('sdp-shapes-raised', f'is_ABk_symmetric_ext raised {type(e).__name__}: {e} on a documented input shape', rep2); continue
        ctx.count('sdp-decision', 4 * len(pts) + 1)
        bad = []
        if not all(isinstance(x, (bool, np.bool_)) for x in r1):
            bad.append('single item: not a bool')
        if np.shape(r3) != (len(pts),) or np.shape(rl) != (len(pts),) or np.asarray(r3).dtype != bool:
            bad.append(f'batched result: shape {np.shape(r3)} / {np.shape(rl)}, dtype {np.asarray(r3).dtype}')
        elif any(not (bool(a) == bool(b) == bool(c_)) or (c and bool(a) != w) for c, a, b, c_, w in zip(clean, r1, r3, rl, want)):
            bad.append(f'decisions single {[bool(x) for x in r1]}, array {[bool(x) for x in r3]}, list {[bool(x) for x in rl]}; the boundary says {want}')
        if not (isinstance(ri, list) and len(ri) == len(pts) and all(isinstance(x, tuple) and len(x) == 2 for x in ri) and isinstance(rs, tuple) and len(rs) == 2):
            bad.append('return_info=True: not one (decision, blocks) pair per item')
        elif not bad:
            try:
                cvxP, cons, rdm = getattr(S, '_ABk_symmetric_extension_setup')(dA, dB, k, use_boson=boson, use_ppt=ppt)
            except (AttributeError, TypeError):
                cvxP = None
                ctx.count('sdp-certificate-check-skipped'); ctx.note('private _ABk_symmetric_extension_setup not available in the expected form: certificate check of return_info skipped')
            for i, ((dec, blocks), x) in enumerate(zip(list(ri) + [rs], pts + [pts[0]])):
                if not (clean + [clean[0]])[i]:
                    continue
                if bool(dec) != (want + [want[0]])[i]:
                    bad.append(f'item {i}: decision with return_info {dec}'); continue
                if not dec:
                    if blocks is not None:
                        bad.append(f'item {i}: blocks returned with a negative decision')
                    continue
                if cvxP is None:
                    continue
                if blocks is None or len(blocks) != len(cvxP) or any(np.shape(bk) != P.shape for bk, P in zip(blocks, cvxP)):
                    bad.append(f'item {i}: blocks of the wrong shape'); continue
                for P, bk in zip(cvxP, blocks):
                    P.value = (np.asarray(bk) + np.asarray(bk).conj().T) / 2
                res = np.abs(np.asarray(rdm.value) - x.reshape(dA, dB, dA, dB).transpose(0, 2, 1, 3).reshape(dA * dA, dB * dB)).max()
                herm = max(np.abs(np.asarray(bk) - np.asarray(bk).conj().T).max() for bk in blocks)
                mine = min(np.linalg.eigvalsh((np.asarray(bk) + np.asarray(bk).conj().T) / 2).min() for bk in blocks)
                if ppt:
                    for bk in blocks:
                        xx = bk.shape[0] // dA
                        mine = min(mine, np.linalg.eigvalsh(np.asarray(bk).reshape(dA, xx, dA, xx).transpose(0, 3, 2, 1).reshape(dA * xx, dA * xx)).min())
                tr = abs(complex(cons[-1].args[0].value) - 1)
                ctx.extra['sdp_certificate_residual_max'] = max(ctx.extra.get('sdp_certificate_residual_max', 0.0), float(res), float(-mine), float(tr))
                if res > 1e-5 or herm > 1e-8 or mine < -1e-5 or tr > 1e-5:
                    bad.append(f'item {i}: the returned blocks are not an extension certificate: reduction residual {res:.2e}, least eigenvalue {mine:.2e}, '
                               f'trace constraint off by {tr:.2e}, non-Hermitian part {herm:.2e}')
        if bad:
            ctx.fail('sdp-decision-shapes', f'({dA},{dB}) kext={k} use_ppt={ppt} use_boson={boson}: ' + '; '.join(bad[:3]), rep2)
        else:
            ctx.probe_ok(('sdp-decision', dA, dB, k, ppt, boson))
    # --- observation, not a failure (coordinator's ruling: the statement claims exact thresholds for the DM and PPT boundaries only):
    #     just outside beta_kext SCS ends with `optimal_inaccurate` and is_ABk_symmetric_ext answers True; measured and recorded
    phi = _bell_mix(2, 2, 1.0)
    b2 = float(E.get_ABk_symmetric_extension_boundary(phi, (2, 2), 2))
    x = E.hf_interpolate_dm(phi, beta=b2 + 10 * SDP_TOL)
    with quiet(), _solver_status() as st:
        dec, blocks = E.is_ABk_symmetric_ext(x, (2, 2), 2, return_info=True)
    ctx.count('sdp-decision')
    ctx.extra['symext_near_boundary_observation'] = dict(
        state='Bell-state ray at beta_2ext + %g' % (10 * SDP_TOL), decision=bool(dec), status=st.log[-1] if st.log else None,
        least_eigenvalue_of_returned_block=(float(min(np.linalg.eigvalsh(np.asarray(bk)).min() for bk in blocks)) if dec and blocks else None))
    if (not dec) or (st.log and st.log[-1] != 'optimal'):
        ctx.probe_ok(('sdp-decision-near', bool(dec)))
    else:
        # a clean `optimal` status beyond the boundary would contradict the library's own boundary by 10 solver tolerances
        mine = min(np.linalg.eigvalsh(np.asarray(bk)).min() for bk in blocks)
        ctx.fail('symext-decision-vs-boundary', f'is_ABk_symmetric_ext((2,2), kext=2) answers True with solver status optimal for the Bell-state ray at Gell-Mann '
                 f'distance beta_2ext + {10 * SDP_TOL} (beta_2ext = {b2!r}); least eigenvalue of the returned block {mine:.2e}',
                 dict(op='sdp-decision-near-boundary', dim=[2, 2], kext=2, state=_mat_replay(x), beta_2ext=b2, offset=10 * SDP_TOL))


def probe_cha_bookkeeping(ctx):
    """bookkeeping of the LP inner model (cha.py): `_cha_reset_state` (which states are replaced, by what) and the masks / history of
    `CHABoundaryBagging.solve(return_info=True)` at non-default options (num_state given, num_init_retry=0)"""
    import numqi
    from numqi.entangle import cha as C
    rng = np.random.default_rng(ctx.np_seed + 15)
    unit = lambda a: a / np.linalg.norm(a, axis=1, keepdims=True)
    for rep in range(6 if ctx.quick() else 30):
        dA, dB = DIMS[rep % len(DIMS)]
        K = int(rng.integers(3, 12))
        ketA = unit(rng.normal(size=(K, dA)) + 1j * rng.normal(size=(K, dA))); ketB = unit(rng.normal(size=(K, dB)) + 1j * rng.normal(size=(K, dB)))
        thr = 1e-3
        prob = np.where(rng.random(K) < 0.4, rng.uniform(0, thr, size=K), rng.uniform(thr, 1, size=K))
        if rep % 5 == 4:
            prob = np.maximum(prob, 2 * thr)          # nothing to replace
        if not (prob >= thr).any():
            prob[0] = 0.5
        indexR = None if rep % 3 else (rng.random(K) < 0.5)
        bound = float(rng.choice([0.0, 0.05, 0.5, 1.0]))
        seed = int(rng.integers(1 << 30))
        replay = dict(op='_cha_reset_state', ketA=_mat_replay(ketA), ketB=_mat_replay(ketB), probability=prob.tolist(), threshold=thr, norm=bound,
                      indexR=None if indexR is None else indexR.tolist(), seed=seed)
        a0, b0, p0 = ketA.copy(), ketB.copy(), prob.copy()
        try:
            mask, newA, newB = C._cha_reset_state(ketA, ketB, prob, thr, bound, np.random.default_rng(seed), **({} if indexR is None else dict(indexR=indexR)))
        except (TypeError, AttributeError) as e:
            ctx.count('cha-reset-skipped'); ctx.note(f'private _cha_reset_state not callable in the expected form ({e}): bookkeeping probe of the helper skipped'); continue
        except Exception as e:
            ctx.fail('cha-reset', f'_cha_reset_state raised {type(e).__name__}: {e}', replay); continue
        low = p0 < thr
        want = low if indexR is None else (low & indexR)
        bad = []
        if not (np.array_equal(ketA, a0) and np.array_equal(ketB, b0) and np.array_equal(prob, p0)):
            bad.append('an input array was modified')
        if want.sum() == 0:
            if mask is not None or newA is not None or newB is not None:
                bad.append('nothing is below the threshold but a replacement is returned')
        elif mask is None or not np.array_equal(np.asarray(mask, dtype=bool), want):
            bad.append(f'mask {None if mask is None else np.asarray(mask).tolist()} != (probability < threshold{"" if indexR is None else " and indexR"})')
        elif np.shape(newA) != (want.sum(), dA) or np.shape(newB) != (want.sum(), dB):
            bad.append(f'replacement shapes {np.shape(newA)}, {np.shape(newB)}')
        else:
            if np.abs(np.linalg.norm(newA, axis=1) - 1).max() > 1e-12 or np.abs(np.linalg.norm(newB, axis=1) - 1).max() > 1e-12:
                bad.append('replacement kets are not unit vectors')
            keep = np.nonzero(~low)[0]
            # each replacement is a kept product state moved by unitaries with ||U - 1||_2 <= bound (|e^{ix} - 1| <= |x|), the same
            # source index for both factors
            dist = np.maximum(np.linalg.norm(newA[:, None, :] - a0[None, keep, :], axis=2), np.linalg.norm(newB[:, None, :] - b0[None, keep, :], axis=2)).min(axis=1)
            if dist.max() > bound + 1e-12:
                bad.append(f'a replacement is at distance {dist.max():.3e} > norm bound {bound} from every kept product state')
        if bad:
            ctx.fail('cha-reset', '; '.join(bad[:2]), replay)
        else:
            ctx.probe_ok(('cha-reset', rep % 5 == 4, indexR is None, bound))
    # solve(return_info=True): masks and history at non-default options
    done = 0
    for trial in range(16):
        if done >= (2 if ctx.quick() else 6):
            break
        dA, dB = (2, 2) if trial % 2 == 0 else (2, 3)
        N = dA * dB
        dm = rand_dm(rng, N)
        seed = int(rng.integers(1 << 30)); num_state = 4 * N * N; maxiter = 3 + trial % 3
        retry = 0 if trial % 2 == 0 else 2
        replay = dict(op='CHABoundaryBagging.solve', dim=[dA, dB], num_state=num_state, dm=_mat_replay(dm), seed=seed, maxiter=maxiter, num_init_retry=retry)
        try:
            with contextlib.redirect_stdout(io.StringIO()), contextlib.redirect_stderr(io.StringIO()):
                m = numqi.entangle.CHABoundaryBagging((dA, dB), num_state=num_state)
                if retry == 0:       # warm start: num_init_retry=0 keeps the product states of the previous solve (a fresh object has none)
                    m.solve(rand_dm(np.random.default_rng(seed), N), maxiter=1, seed=seed + 1)
                beta, (ka, kb, lam, hist) = m.solve(dm, maxiter=maxiter, num_init_retry=retry, return_info=True, seed=seed)
        except Exception as e:
            ctx.count('cha-solver-raised-' + type(e).__name__); continue
        done += 1
        bad = []
        if len(hist) != maxiter + 1 or beta != hist[-1]:
            bad.append(f'history of length {len(hist)} for maxiter={maxiter}, beta {beta!r} vs last entry {hist[-1]!r}')
        if not (len(ka) == len(kb) == len(lam) <= num_state) or np.shape(ka)[1:] != (dA,) or np.shape(kb)[1:] != (dB,):
            bad.append(f'shapes {np.shape(ka)}, {np.shape(kb)}, {np.shape(lam)}')
        else:
            if (np.asarray(lam) <= 0).any():
                bad.append('a returned weight is not positive')
            if abs(float(np.sum(lam)) - 1) > 1e-6:
                bad.append(f'the returned weights sum to {float(np.sum(lam))!r}')
            if np.abs(np.linalg.norm(ka, axis=1) - 1).max() > 1e-9 or np.abs(np.linalg.norm(kb, axis=1) - 1).max() > 1e-9:
                bad.append('a returned ket is not normalised')
            if m.ketA.shape != (num_state, dA) or m.ketB.shape != (num_state, dB):
                bad.append(f'state arrays {m.ketA.shape}, {m.ketB.shape} for num_state={num_state}')
        if bad:
            ctx.fail('cha-solve-bookkeeping', f'({dA},{dB}) num_state={num_state} num_init_retry={retry}: ' + '; '.join(bad[:2]), replay)
        else:
            ctx.probe_ok(('cha-solve-bookkeeping', dA, dB, retry))
    if done == 0:
        ctx.fail('cha-solve-bookkeeping-never-ran', 'CHABoundaryBagging.solve(return_info=True, num_state=...) raised in all 16 trials', dict(op='CHABoundaryBagging.solve', trials=16))


def probe_get_boundary_info(ctx):
    """get_boundary of the inner models with return_info=True and non-default num_repeat / threshold / xtol: the history is the trace of a
    consistent bisection (model `bisectLoop`, theorem bisectLoop_invariant): sorted, of the modelled length, every point below the
    threshold left of every point above it, the returned length is the last mid-point and one of the two bracket ends, bracket width
    beta_u / 2^m"""
    import numqi
    rng = np.random.default_rng(ctx.np_seed + 16)
    models = [('PureBosonicExt(2,2,k=2)', lambda: numqi.entangle.PureBosonicExt(2, 2, kext=2, distance_kind='gellmann'), 4)] + \
        ([] if ctx.quick() else [('AutodiffCHAREE(2,2)', lambda: numqi.entangle.AutodiffCHAREE((2, 2), distance_kind='gellmann'), 4),
                                 ('PureBosonicExt(2,3,k=2)', lambda: numqi.entangle.PureBosonicExt(2, 3, kext=2, distance_kind='gellmann'), 6)])
    for name, mk, N in models:
        rho = rand_dm(rng, N, rank=2)
        xtol, thr = (0.11 if ctx.quick() else 0.03), 1e-6
        replay = dict(op=name + '.get_boundary', target=_mat_replay(rho), xtol=xtol, threshold=thr, num_repeat=2, seed=7, return_info=True)
        try:
            with contextlib.redirect_stdout(io.StringIO()):
                beta, hist = mk().get_boundary(rho, xtol=xtol, threshold=thr, num_repeat=2, use_tqdm=False, return_info=True, seed=7)
        except Exception as e:
            ctx.fail('get-boundary-info', f'{name}.get_boundary(return_info=True) raised {type(e).__name__}: {e}', replay); continue
        bu = float(numqi.entangle.get_density_matrix_boundary(rho)[1])
        ratio = Fraction(bu) / Fraction(xtol)
        m = int(common.run_model([f'C06 bisect {fbits(0.0)} {fbits(bu)} {ratio.numerator} {ratio.denominator} {fbits(bu)}'])[0].split(' ')[0])
        hist = np.asarray(hist)
        bad = []
        if hist.shape != (m, 2):
            bad.append(f'history of shape {hist.shape}, the model makes {m} steps')
        else:
            xs, ys = hist[:, 0], hist[:, 1]
            lo = xs[ys < thr]; hi = xs[ys >= thr]
            a = lo.max() if len(lo) else 0.0
            b = hi.min() if len(hi) else bu
            if (np.diff(xs) <= 0).any():
                bad.append('history not sorted by position')
            if a >= b:
                bad.append(f'a point below the threshold ({a!r}) is not left of a point above it ({b!r})')
            if beta not in (a, b):
                bad.append(f'returned length {beta!r} is not an end of the final bracket [{a!r}, {b!r}]')
            if abs((b - a) - bu / 2 ** m) > 1e-12:
                bad.append(f'final bracket width {b - a!r} != beta_u / 2^{m} = {bu / 2 ** m!r}')
            if not (0 < beta < bu):
                bad.append(f'returned length {beta!r} outside (0, beta_u={bu!r})')
        if bad:
            ctx.fail('get-boundary-info', f'{name}: ' + '; '.join(bad[:2]), replay)
        else:
            ctx.probe_ok(('get-boundary-info', name))


def _arrays_of(x):
    """all numpy arrays (torch tensors as their numpy view) inside a result"""
    try:
        import torch
        if isinstance(x, torch.Tensor):
            return [x.detach().numpy()]
    except Exception:
        pass
    if isinstance(x, np.ndarray):
        return [x]
    if isinstance(x, (list, tuple)):
        return [a for y in x for a in _arrays_of(y)]
    if isinstance(x, dict):
        return [a for y in x.values() for a in _arrays_of(y)]
    return []


def _buffer_reuse(ctx, name, f, A, B, same=None):
    """hardening class "buffer reuse across calls": r1 = f(A); r2 = f(B) with B != A of the same size; r1 must be unchanged bit for bit, must
    not share memory with r2, and f(A) again must reproduce it (also after the caller overwrote the earlier results in place)"""
    import copy
    key = name + ':result-overwritten-by-next-call'
    replay = dict(op=name, history=['f(A)', 'f(B)', 'overwrite results', 'f(A)'], A=repr(A)[:400], B=repr(B)[:400])
    try:
        r1 = f(A); a1 = _arrays_of(r1); c1 = [a.copy() for a in a1]
        r2 = f(B); a2 = _arrays_of(r2)
    except Exception as e:
        ctx.fail(key, f'{name} raised {type(e).__name__}: {e}', replay); return
    bad = []
    if any(not np.array_equal(a, c, equal_nan=True) for a, c in zip(a1, c1)):
        bad.append('the first result changed when the function was called with a different input of the same size')
    if any(np.shares_memory(a, b) for a in a1 for b in a2 if a.size and b.size):
        bad.append('the results of two calls with different inputs share memory')
    try:
        for a in a1 + a2:
            if a.flags.writeable:
                a[...] = 7
        a3 = _arrays_of(f(A))
        ok = len(a3) == len(c1) and all((same or (lambda x, y: x.shape == y.shape and np.array_equal(x, y, equal_nan=True)))(x, y) for x, y in zip(a3, c1))
        if not ok:
            bad.append('after the caller overwrote earlier results, f(A) no longer reproduces its first answer')
    except Exception as e:
        bad.append(f'repeat call raised {type(e).__name__}: {e}')
    if bad:
        ctx.fail(key, f'{name}: ' + '; '.join(bad), replay)
    else:
        ctx.probe_ok(('buffer-reuse', name))


def probe_buffer_reuse(ctx):
    """array-returning functions of C06's scope, two different inputs of the same size (deterministic, quick tier)"""
    import numqi, torch
    E = numqi.entangle
    rng = np.random.default_rng(1234)
    close = lambda x, y: x.shape == y.shape and np.abs(x - y).max(initial=0) <= 1e-6
    for dA, dB in [(2, 2), (2, 3)]:
        N = dA * dB
        A, B = np.stack([rand_dm(rng, N) for _ in range(3)]), np.stack([rand_dm(rng, N) for _ in range(3)])
        _buffer_reuse(ctx, f'get_density_matrix_boundary[{N}]', lambda x: E.get_density_matrix_boundary(x), A, B)
        _buffer_reuse(ctx, f'get_ppt_boundary[{dA}x{dB}]', lambda x: E.get_ppt_boundary(x, (dA, dB)), A, B)
        _buffer_reuse(ctx, f'hf_interpolate_dm[{N}]', lambda x: E.hf_interpolate_dm(x[0], beta=0.1), A, B)
        _buffer_reuse(ctx, f'dm_to_gellmann_norm[{N}]', lambda x: np.asarray(numqi.gellmann.dm_to_gellmann_norm(x)), A, B)
        _buffer_reuse(ctx, f'dm_to_gellmann_basis[{N}]', lambda x: numqi.gellmann.dm_to_gellmann_basis(x), A, B)
        Bij = numqi.dicke.get_partial_trace_ABk_to_AB_index(2, dB)
        L = numqi.dicke.get_dicke_number(2, dB)
        P, Q = rng.normal(size=(dA, L)) + 0j, rng.normal(size=(dA, L)) + 0j
        _buffer_reuse(ctx, f'partial_trace_ABk_to_AB[{dA}x{dB}]', lambda x: numqi.dicke.partial_trace_ABk_to_AB(x, Bij), P, Q)
        _buffer_reuse(ctx, f'partial_trace_ABk_to_AB[torch,{dA}x{dB}]', lambda x: numqi.dicke.partial_trace_ABk_to_AB(torch.tensor(x), [(torch.tensor(a), torch.tensor(b), torch.tensor(c)) for a, b, c in Bij]), P, Q)
    A2, B2 = np.stack([rand_dm(rng, 4) for _ in range(2)]), np.stack([rand_dm(rng, 4) for _ in range(2)])
    with contextlib.redirect_stdout(io.StringIO()):
        _buffer_reuse(ctx, 'get_ABk_symmetric_extension_boundary[return_info]', lambda x: E.get_ABk_symmetric_extension_boundary(x, (2, 2), 2, return_info=True), A2, B2, same=close)
        _buffer_reuse(ctx, 'is_ABk_symmetric_ext[return_info]', lambda x: [b for _, b in E.is_ABk_symmetric_ext(np.stack([E.hf_interpolate_dm(y, beta=0.05) for y in x]), (2, 2), 2, return_info=True)], A2, B2, same=close)
    # stateful objects of the same size, interleaved
    m1, m2 = E.PureBosonicExt(2, 2, kext=2), E.PureBosonicExt(2, 2, kext=2)
    th = [rng.normal(size=numqi.optimize.get_model_flat_parameter(m1).shape) for _ in range(2)]

    def fwd(args):
        m, t = args
        m.set_dm_target(np.eye(4) / 4); numqi.optimize.set_model_flat_parameter(m, t)
        with torch.no_grad():
            m()
        return m.dm_torch
    _buffer_reuse(ctx, 'PureBosonicExt.forward[two objects]', fwd, (m1, th[0]), (m2, th[1]))
    _buffer_reuse(ctx, 'PureBosonicExt.forward[same object]', lambda t: fwd((m1, t)), th[0], th[1])


def probe(ctx):
    for part in (probe_thresholds, probe_batched, probe_ray_invariance, probe_inner_models, probe_histories, probe_hardening, probe_cha_alive, probe_ordering, probe_sdp_shapes, probe_cha_bookkeeping, probe_get_boundary_info, probe_buffer_reuse):
        _guarded_part(ctx, part, tie=False)


def search(ctx, hints):
    """a proof obligation or the correspondence broke and the probe found nothing.
    First re-evaluate the property on exactly the calls behind the disagreeing `dmb` / `pptb` operations (the batch, dims, dm_norm
    argument and within_dm flag recorded by the tie) through the batched oracle; then widen the probe."""
    seen = set()
    for d in hints:
        info = _TIE_INPUTS.get(d.get('op', '').replace(' (shape)', ''))
        if info is None:
            continue
        key = (id(info['dms']), info['fn'], info['within'], None if info['dm_norm'] is None else np.asarray(info['dm_norm']).tobytes())
        if key in seen:
            continue
        seen.add(key)
        _batched_oracle(ctx, info['fn'], info['dms'], info['dim'], info['dm_norm'], info['within'], 'search: disagreeing op ' + d['op'][:60])
        if len(ctx.failures) >= 5:
            return
    if ctx.failures:
        return
    tier = ctx.tier
    ctx.tier = 'thorough'
    try:
        ctx.np_seed += 101
        if any(str(d.get('op', '')).split(' ')[1:2] and str(d.get('op', '')).split(' ')[1] in ('extray', 'sxrealign', 'irreprdm', 'idx0213') for d in hints):
            # the index layer of the SDP routines disagrees: run the SDP probes on the thorough dimension list ((2,3), (3,3): dA != dB)
            probe_ordering(ctx)
            if not ctx.failures:
                probe_sdp_shapes(ctx)
            if ctx.failures:
                return
        probe_batched(ctx)
        if not ctx.failures:
            probe_ray_invariance(ctx)
        if not ctx.failures:
            probe_thresholds(ctx)
        if not ctx.failures:
            probe_inner_models(ctx)
    finally:
        ctx.tier = tier
