"""C19 — shipped quantum codes satisfy Knill-Laflamme and their listed stabilizers; error sets complete;
weight-enumerator sum rules.

Model: lean/NumqiModel/Qec.lean.  Generated data: lean/NumqiModel/Generated/QecCircuits.lean (written by
`translate` on every run from the live `numqi.qec.generate_code*()` objects and the AST of `_qecc.py`).
Theorems: lean/NumqiProps/C19.lean (7 codes up to 10 qubits + general theorems), C19Thorough.lean (11 qubits).
Correspondence: exact (scaled Gaussian-integer amplitudes, canonical Pauli strings, integers).
"""
import os, ast, itertools, math
import numpy as np
from . import common

THEOREM_FILES = ['NumqiProps/C19.lean']
THOROUGH_FILE = 'NumqiProps/C19Thorough.lean'
LEVEL = 'proof'
RULE = ('one op per shipped code and kind (code words, tableau generators, per-error KL classification, check_stabilizer, '
        'stabilizer-circuit operators, weight enumerators), every (n,d) with n<=6, d<=4 for make_error_list, every (n,d,weight_z) '
        'with n<=5 (6 thorough), d<=4, weight_z in a dyadic set for make_asymmetric_error_set, plus seeded random Clifford circuits through '
        'the gate-level state-vector model. Non-trivial = the output is not a constant/empty line; distinct = distinct op lines.')
TRUSTED = ['Lean 4.33 kernel', 'axioms: propext, Classical.choice, Quot.sound', 'Lean compiler for the driver executable',
           'harness/c19.py translator (gate classification by exact array comparison, AST extraction of the listed strings) and canonicalisation',
           'modelled, not verified: numqi/qec/_qecc.py, qec/_internal.py, sim/circuit.py gate application (tied exactly on every run)']

GEN_PATH = os.path.join(common.LEAN, 'NumqiModel', 'Generated', 'QecCircuits.lean')

# (function name, Lean constant, in quick theorems?)
CODES = [
    ('generate_code523', 'code523'),
    ('generate_code422', 'code422'),
    ('generate_code442', 'code442'),
    ('generate_code642', 'code642'),
    ('generate_code883', 'code883'),
    ('generate_code8_64_2', 'code8_64_2'),
    ('generate_code10_4_4', 'code10_4_4'),
    ('generate_code11_2_5', 'code11_2_5'),
]

SQ = 1 / math.sqrt(2)
REF1 = {
    'h': np.array([[SQ, SQ], [SQ, -SQ]], dtype=np.complex128),
    'x': np.array([[0, 1], [1, 0]], dtype=np.complex128),
    'y': np.array([[0, -1j], [1j, 0]], dtype=np.complex128),
    'z': np.array([[1, 0], [0, -1]], dtype=np.complex128),
    's': np.array([[1, 0], [0, 1j]], dtype=np.complex128),
}


def classify_gate(gate, index):
    """(kind, array, index) of a live circuit entry -> model gate tuple; 'unknown' when anything is off"""
    try:
        kind = getattr(gate, 'kind', None)
        arr = np.asarray(gate.array)
        if arr.shape != (2, 2):
            return ('unknown',)
        arr = arr.astype(np.complex128)
        which = [k for k, v in REF1.items() if np.abs(arr - v).max() < 1e-12]
        if len(which) != 1:
            return ('unknown',)
        g = which[0]
        if kind == 'unitary':
            index = tuple(index)
            if len(index) != 1:
                return ('unknown',)
            return (g, int(index[0]))
        if kind == 'control':
            ctl, tgt = index
            ctl = sorted(ctl); tgt = tuple(tgt)
            if len(ctl) != 1 or len(tgt) != 1 or g not in 'xyz':
                return ('unknown',)
            return ('c' + g, int(ctl[0]), int(tgt[0]))
    except Exception:
        pass
    return ('unknown',)


def gate_lean(g):
    return '.' + ' '.join(str(x) for x in g)


def gate_tok(g):
    return ','.join(str(x) for x in g)


def listed_strings_from_source():
    """the Pauli strings written in each generate_code* function of _qecc.py (AST), keyed by function name"""
    path = os.path.join(common.REPO, 'python', 'numqi', 'qec', '_qecc.py')
    out = {}
    try:
        tree = ast.parse(open(path).read())
    except Exception:
        return out
    for fn in tree.body:
        if not isinstance(fn, ast.FunctionDef) or not fn.name.startswith('generate_code'):
            continue
        lists = {}
        used = None
        for node in ast.walk(fn):
            if isinstance(node, ast.Assign) and len(node.targets) == 1 and isinstance(node.targets[0], ast.Name) and isinstance(node.value, ast.List) \
                    and node.value.elts and all(isinstance(e, ast.Constant) and isinstance(e.value, str) for e in node.value.elts):
                lists[node.targets[0].id] = [e.value for e in node.value.elts]
            if isinstance(node, ast.Assign) and isinstance(node.targets[0], ast.Subscript) and isinstance(node.value, ast.ListComp):
                sl = node.targets[0].slice
                if isinstance(sl, ast.Constant) and sl.value == 'stabilizer':
                    gen = node.value.generators[0]
                    if isinstance(gen.iter, ast.Name):
                        used = gen.iter.id
        if used is not None and used in lists:
            out[fn.name] = lists[used]
    return out


def load_codes():
    """instantiate every shipped code from the tree under common.REPO; returns {lean_name: dict or None}"""
    import numqi
    src = os.path.realpath(os.path.dirname(numqi.__file__))
    want = os.path.realpath(os.path.join(common.REPO, 'python', 'numqi'))
    if src != want:
        raise RuntimeError(f'numqi imported from {src}, expected {want}')
    listed = listed_strings_from_source()
    res = {}
    for fname, lname in CODES:
        try:
            code = getattr(numqi.qec, fname)()
            enc = [classify_gate(g, idx) for g, idx in code['encode'].gate_index_list]
            stab = [[classify_gate(g, idx) for g, idx in c.gate_index_list] for c in code['stabilizer']]
            res[lname] = dict(fname=fname, lname=lname, name=str(code['name']), n=int(code['num_qubit']), K=int(code['num_logical_dim']),
                              d=int(code['distance']), encode=enc, stab=stab, listed=listed.get(fname), live=code)
        except Exception as e:  # a constructor that raises: no data, the Lean obligations fail to build
            res[lname] = dict(fname=fname, lname=lname, error=f'{type(e).__name__}: {e}')
    return res


SYM = {'I': 0, 'X': 1, 'Y': 2, 'Z': 3}


def listed_syms(strs, n):
    """strings -> symbol lists; a string that is not a plain length-n I/X/Y/Z word becomes [4] (fails symsOk)"""
    out = []
    for s in strs:
        if len(s) == n and set(s) <= set('IXYZ'):
            out.append([SYM[c] for c in s])
        else:
            out.append([4])
    return out


def render_lean(codes):
    L = ['/-',
         'GENERATED by harness/c19.py `translate` from the live `numqi.qec.generate_code*()` objects',
         '(gate lists of `[\'encode\']` and `[\'stabilizer\']`, n/K/d) and the AST of `qec/_qecc.py` (listed Pauli strings).',
         'Do not edit: rewritten on every run of `bin/check C19`.',
         '-/',
         'import NumqiModel.Qec',
         '',
         'namespace Numqi.Qec.Generated',
         'open Numqi.Qec',
         '']
    names = []
    for _, lname in CODES:
        c = codes.get(lname)
        if c is None or 'error' in c:
            L.append(f'-- {lname}: constructor failed ({(c or {}).get("error", "missing")}); no constant emitted')
            L.append('')
            continue
        names.append(lname)
        listed = listed_syms(c['listed'], c['n']) if c['listed'] is not None else []
        L.append(f'/-- `{c["fname"]}()`: {c["name"]} -/')
        L.append(f'def {lname} : Code where')
        L.append(f'  name := "{c["name"]}"')
        L.append(f'  n := {c["n"]}')
        L.append(f'  K := {c["K"]}')
        L.append(f'  d := {c["d"]}')
        L.append('  encode := [' + ', '.join(gate_lean(g) for g in c['encode']) + ']')
        L.append('  listed := [' + ', '.join('[' + ', '.join(str(x) for x in l) + ']' for l in listed) + ']')
        L.append('  stabCircs := [' + ', '.join('[' + ', '.join(gate_lean(g) for g in gl) + ']' for gl in c['stab']) + ']')
        L.append('')
    L.append('def allCodes : List (String × Code) := [' + ', '.join(f'("{n}", {n})' for n in names) + ']')
    L.append('')
    L.append('end Numqi.Qec.Generated')
    return '\n'.join(L) + '\n'


_codes_cache = None


def get_codes():
    global _codes_cache
    if _codes_cache is None:
        _codes_cache = load_codes()
    return _codes_cache


def translate(ctx):
    codes = get_codes()
    txt = render_lean(codes)
    os.makedirs(os.path.dirname(GEN_PATH), exist_ok=True)
    old = open(GEN_PATH).read() if os.path.exists(GEN_PATH) else None
    if old != txt:
        with open(GEN_PATH, 'w') as fh:
            fh.write(txt)
        ctx.note('Generated/QecCircuits.lean rewritten (source data changed)')
    ngates = sum(len(c['encode']) + sum(len(s) for s in c['stab']) for c in codes.values() if 'error' not in c)
    nunknown = sum(1 for c in codes.values() if 'error' not in c for g in c['encode'] + [g for s in c['stab'] for g in s] if g[0] == 'unknown')
    ctx.extra['translator'] = dict(codes=[c['name'] for c in codes.values() if 'error' not in c], gates=ngates, unknown_gates=nunknown,
                                   constructor_errors=[c['fname'] for c in codes.values() if 'error' in c],
                                   listed_missing=[c['fname'] for c in codes.values() if 'error' not in c and c['listed'] is None])
    if not ctx.quick():
        if THOROUGH_FILE not in THEOREM_FILES:
            THEOREM_FILES.append(THOROUGH_FILE)
        ctx.extra['theorem_files'] = list(THEOREM_FILES)
