"""C19 — shipped quantum codes satisfy Knill-Laflamme and their listed stabilizers; error sets complete;
weight-enumerator sum rules.

Model: lean/NumqiModel/Qec.lean.  Generated data: lean/NumqiModel/Generated/QecCircuits.lean (written by
`translate` on every run by executing the `numqi.qec.generate_code*()` of the tree under test and reading what they build).
Theorems: lean/NumqiProps/C19.lean (7 codes up to 10 qubits + general theorems), C19Thorough.lean (11 qubits).
Correspondence: exact (scaled Gaussian-integer amplitudes, canonical Pauli strings, integers).
"""
import os, ast, itertools, math
import numpy as np
from . import common

THEOREM_FILES = ['NumqiProps/C19.lean', 'NumqiProps/C19ErrorSets.lean', 'NumqiProps/C19Coverage.lean']
THOROUGH_FILE = 'NumqiProps/C19Thorough.lean'
LEVEL = 'proof'
RULE = ('one op per shipped code and kind (code words, tableau generators, per-error KL classification, check_stabilizer, '
        'stabilizer-circuit operators, weight enumerators), every (n,d) with n<=6, d<=4 for make_error_list, every (n,d,weight_z) '
        'with n<=5 (6 thorough), d<=4, weight_z in a dyadic set for make_asymmetric_error_set, plus seeded random Clifford circuits through '
        'the gate-level state-vector model. Non-trivial = the output is not a constant/empty line; distinct = distinct op lines.')
TRUSTED = ['Lean 4.33 kernel', 'axioms: propext, Classical.choice, Quot.sound', 'Lean compiler for the driver executable',
           'harness/c19.py translator (executes the generators; gate classification by exact array comparison; listed strings observed at run time, AST list literal as fallback) and canonicalisation',
           'modelled, not verified: the numqi.qec generators/parser/error sets/VarQEC and sim/circuit.py gate application (tied exactly on every run)']

GEN_PATH = os.path.join(common.LEAN, 'NumqiModel', 'Generated', 'QecCircuits.lean')

# The shipped codes and their advertised parameters ((n, K, d)), pinned here and in NumqiProps/C19.lean (`codeXXX_params`):
# the live objects must report exactly these.  Generators are *discovered* (dir of numqi.qec and of its modules + AST of the package sources); one that is
# not in this table is still translated and probed, and `generators_covered` in C19.lean then fails (uncovered generator).
PINNED = {
    'generate_code523': ('code523', (5, 2, 3)),
    'generate_code422': ('code422', (4, 2, 2)),
    'generate_code442': ('code442', (4, 4, 2)),
    'generate_code642': ('code642', (6, 4, 2)),
    'generate_code883': ('code883', (8, 8, 3)),
    'generate_code8_64_2': ('code8_64_2', (8, 64, 2)),
    'generate_code10_4_4': ('code10_4_4', (10, 4, 4)),
    'generate_code11_2_5': ('code11_2_5', (11, 2, 5)),
}
# number of stabilizer strings each shipped generator lists (a later version may list more, not fewer); n - log2 K except for
# ((6,4,2)) (2 of 4) and ((8,8,3)) (4 of 5)
LISTED_COUNT = {'code523': 4, 'code422': 3, 'code442': 2, 'code642': 2, 'code883': 4, 'code8_64_2': 2, 'code10_4_4': 8, 'code11_2_5': 10}
# (function name, Lean constant) in translation order; extended by `discover_generators`
CODES = [(f, l) for f, (l, _) in PINNED.items()]


def qec_modules():
    """numqi.qec and every loaded module below it (whatever the private modules are called)"""
    import sys, numqi
    mods = [numqi.qec]
    for name in sorted(sys.modules):
        m = sys.modules[name]
        if name.startswith('numqi.qec.') and m is not None and m not in mods:
            mods.append(m)
    return mods


def qec_source_files():
    """the .py files of the numqi/qec package of the tree under test"""
    import glob
    return sorted(glob.glob(os.path.join(common.REPO, 'python', 'numqi', 'qec', '*.py')))


def get_generator(fname):
    """the public `numqi.qec.<fname>`; when that name is gone, the same name in any module of the package"""
    for m in qec_modules():
        g = getattr(m, fname, None)
        if callable(g):
            return g
    raise AttributeError(f'no callable {fname} in numqi.qec or its modules')


def is_public(fname):
    import numqi
    return callable(getattr(numqi.qec, fname, None))


def discover_generators():
    """every `generate_code*` (except the helper generate_code_np): public names of numqi.qec, names in every loaded module
    of the package, and top-level functions in the AST of every source file of the package"""
    import re
    isgen = lambda x: x.startswith('generate_code') and x != 'generate_code_np'
    names = set()
    for m in qec_modules():
        names |= {x for x in dir(m) if isgen(x) and callable(getattr(m, x, None))}
    for path in qec_source_files():
        try:
            tree = ast.parse(open(path).read())
            names |= {fn.name for fn in tree.body if isinstance(fn, ast.FunctionDef) and isgen(fn.name)}
        except Exception:
            pass
    out = []
    for f in sorted(names):
        if f in PINNED:
            continue
        l = 'code' + re.sub(r'[^0-9A-Za-z_]', '_', f[len('generate_code'):]).strip('_')
        out.append((f, l if l != 'code' else 'code_' + f))
    return sorted(names), out


SQ = 1 / math.sqrt(2)
REF1 = {
    'h': np.array([[SQ, SQ], [SQ, -SQ]], dtype=np.complex128),
    'x': np.array([[0, 1], [1, 0]], dtype=np.complex128),
    'y': np.array([[0, -1j], [1j, 0]], dtype=np.complex128),
    'z': np.array([[1, 0], [0, -1]], dtype=np.complex128),
    's': np.array([[1, 0], [0, 1j]], dtype=np.complex128),
}


def classify_gate(gate, index):
    """(kind, array, index) of a live circuit entry -> model gate tuple; 'unknown' when anything is off"""
    try:
        kind = getattr(gate, 'kind', None)
        arr = np.asarray(gate.array)
        if arr.shape != (2, 2):
            return ('unknown',)
        arr = arr.astype(np.complex128)
        which = [k for k, v in REF1.items() if np.abs(arr - v).max() < 1e-12]
        if len(which) != 1:
            return ('unknown',)
        g = which[0]
        if kind == 'unitary':
            index = tuple(index)
            if len(index) != 1:
                return ('unknown',)
            return (g, int(index[0]))
        if kind == 'control':
            ctl, tgt = index
            ctl = sorted(ctl); tgt = tuple(tgt)
            if len(ctl) != 1 or len(tgt) != 1 or g not in 'xyz':
                return ('unknown',)
            return ('c' + g, int(ctl[0]), int(tgt[0]))
    except Exception:
        pass
    return ('unknown',)


def gate_lean(g):
    return '.' + ' '.join(str(x) for x in g)


def gate_tok(g):
    return ','.join(str(x) for x in g)


def listed_strings_from_source():
    """every list literal of equal-length I/X/Y/Z words written in a `generate_code*` function of the package sources (AST),
    keyed by function name: {fname: [list, ...]}.  Independent of the parser and of how the list is consumed."""
    out = {}
    for path in qec_source_files():
        try:
            tree = ast.parse(open(path).read())
        except Exception:
            continue
        for fn in tree.body:
            if not isinstance(fn, ast.FunctionDef) or not fn.name.startswith('generate_code'):
                continue
            cands = []
            for node in ast.walk(fn):
                if isinstance(node, (ast.List, ast.Tuple)) and node.elts and all(isinstance(e, ast.Constant) and isinstance(e.value, str) for e in node.elts):
                    ws = [e.value for e in node.elts]
                    if len({len(w) for w in ws}) == 1 and all(w and set(w) <= set('IXYZ') for w in ws) and ws not in cands:
                        cands.append(ws)
            if cands:
                out.setdefault(fn.name, [])
                out[fn.name] += [c for c in cands if c not in out[fn.name]]
    return out


def ast_listed(listed_ast, fname, n, ncirc):
    """the unique AST list of `ncirc` words of length n of that generator, else None"""
    c = [ws for ws in (listed_ast or {}).get(fname, []) if len(ws) == ncirc and len(ws[0]) == n]
    return c[0] if len(c) == 1 else None


class ConstructorError(Exception):
    pass


def parser_objects():
    """the function objects that are `parse_simple_pauli` of the tree under test (public name first)"""
    objs = []
    for m in qec_modules():
        f = getattr(m, 'parse_simple_pauli', None)
        if callable(f) and not any(f is o for o in objs):
            objs.append(f)
    return objs


def run_generator_recording(gen, listed_ast=None, fname=None):
    """execute a generator of the tree under test and read what it builds.  The Pauli strings it lists are observed at run
    time: (1) a list/tuple of strings of the right length stored in the returned dict, else (2) the `str0` arguments of the
    calls to `parse_simple_pauli` made while the generator runs (one per stabilizer circuit; the parser is spied on under
    *every* name it has in the generator's globals and in the modules of numqi.qec), else (3) the unique list literal of the
    right shape in the generator's source (AST), else (4) read off the circuits.  Independent of how the source is spelled
    and of the names of the private modules.  A failure of the recorder never counts as a failure of the constructor:
    only an exception raised by `gen()` itself is a `ConstructorError`.  Returns (code, strings or None, how)."""
    recorded = []
    patched = []      # (namespace dict, key, original)
    try:
        targets = parser_objects()
        spaces = [vars(m) for m in qec_modules()]
        g = getattr(gen, '__globals__', None)
        if isinstance(g, dict) and not any(g is sp for sp in spaces):
            spaces.append(g)

        def make_spy(orig):
            def spy(str0, *a, **kw):
                recorded.append(str0)
                return orig(str0, *a, **kw)
            spy.__wrapped__ = orig
            return spy
        spies = {id(o): make_spy(o) for o in targets}
        for sp in spaces:
            for k_, v in list(sp.items()):
                if callable(v) and id(v) in spies and any(v is o for o in targets):
                    patched.append((sp, k_, v))
                    sp[k_] = spies[id(v)]
    except Exception:
        pass
    try:
        try:
            code = gen()
        except Exception as e:
            raise ConstructorError(f'{type(e).__name__}: {e}')
    finally:
        for sp, k_, v in patched:
            sp[k_] = v
    ncirc = len(code['stabilizer'])
    for k_, v in code.items():
        if k_ not in ('name',) and isinstance(v, (list, tuple)) and len(v) == ncirc and ncirc > 0 and all(isinstance(x, str) for x in v):
            return code, [str(x) for x in v], f'dict key {k_!r}'
    if len(recorded) == ncirc and ncirc > 0 and all(isinstance(x, str) for x in recorded):
        return code, list(recorded), 'parse_simple_pauli arguments'
    try:
        n = int(code['num_qubit'])
    except Exception:
        n = None
    # the parser was not observable (the generator reaches it through a path that is not a module global): the list literal of the source
    fromast = ast_listed(listed_ast, fname, n, ncirc) if n is not None and ncirc > 0 else None
    if fromast is not None:
        return code, list(fromast), f'list literal in the source (AST; {len(recorded)} parse_simple_pauli calls observed for {ncirc} circuits)'
    # last resort: read each string off its circuit when that circuit consists of X/Y/Z gates on distinct qubits.  The obligation
    # "circuit = listed string" is then vacuous for this code (noted in the evidence); "listed strings fix the code words" keeps its meaning.
    try:
        derived = []
        for circ in code['stabilizer']:
            w = ['I'] * n
            for g, idx in circ.gate_index_list:
                cg = classify_gate(g, idx)
                if cg[0] not in ('x', 'y', 'z') or not (0 <= cg[1] < n) or w[cg[1]] != 'I':
                    raise ValueError
                w[cg[1]] = cg[0].upper()
            derived.append(''.join(w))
        if derived:
            return code, derived, f'read off the stabilizer circuits (strings not observable: {len(recorded)} parse_simple_pauli calls for {ncirc} circuits)'
    except Exception:
        pass
    return code, None, f'not recoverable ({len(recorded)} parse_simple_pauli calls for {ncirc} circuits)'


def load_codes():
    """instantiate every shipped code from the tree under common.REPO; returns {lean_name: dict or None}.
    `error_kind` of a failed entry: 'constructor' (the generator itself raised: a failing input when it is a public name)
    or 'translator' (this harness could not read the result: a broken tie, never a failing input)."""
    import numqi
    src = os.path.realpath(os.path.dirname(numqi.__file__))
    want = os.path.realpath(os.path.join(common.REPO, 'python', 'numqi'))
    if src != want:
        raise RuntimeError(f'numqi imported from {src}, expected {want}')
    try:
        listed_ast = listed_strings_from_source()
    except Exception:
        listed_ast = {}
    res = {}
    discovered, extras = discover_generators()
    CODES[:] = [(f, l) for f, (l, _) in PINNED.items()] + extras
    res['__discovered__'] = discovered
    res['__public__'] = [f for f in discovered if is_public(f)]
    for fname, lname in CODES:
        try:
            gen = get_generator(fname)
        except Exception as e:
            res[lname] = dict(fname=fname, lname=lname, error=f'{type(e).__name__}: {e}', error_kind='missing')
            continue
        try:
            code, listed_rt, how = run_generator_recording(gen, listed_ast, fname)
            enc = [classify_gate(g, idx) for g, idx in code['encode'].gate_index_list]
            stab = [[classify_gate(g, idx) for g, idx in c.gate_index_list] for c in code['stabilizer']]
            la = ast_listed(listed_ast, fname, int(code['num_qubit']), len(code['stabilizer']))
            res[lname] = dict(fname=fname, lname=lname, name=str(code['name']), n=int(code['num_qubit']), K=int(code['num_logical_dim']),
                              d=int(code['distance']), encode=enc, stab=stab, listed=listed_rt, listed_how=how,
                              listed_ast=la, live=code)
            try:
                res[lname]['second'] = fingerprint(gen())
            except Exception:
                res[lname]['second'] = None
        except ConstructorError as e:  # the generator itself raises: no data, the Lean obligations fail to build
            res[lname] = dict(fname=fname, lname=lname, error=str(e), error_kind='constructor')
        except Exception as e:  # the result could not be read by this harness
            res[lname] = dict(fname=fname, lname=lname, error=f'{type(e).__name__}: {e}', error_kind='translator')
    return res


SYM = {'I': 0, 'X': 1, 'Y': 2, 'Z': 3}


def listed_syms(strs, n):
    """strings -> symbol lists; a string that is not a plain length-n I/X/Y/Z word becomes [4] (fails symsOk)"""
    out = []
    for s in strs:
        if len(s) == n and set(s) <= set('IXYZ'):
            out.append([SYM[c] for c in s])
        else:
            out.append([4])
    return out


def render_lean(codes):
    L = ['/-',
         'GENERATED by harness/c19.py `translate` from the live `numqi.qec.generate_code*()` objects',
         '(gate lists of `[\'encode\']` and `[\'stabilizer\']`, n/K/d, and the Pauli strings each generator hands to `parse_simple_pauli` while it runs).',
         'Do not edit: rewritten on every run of `bin/check C19`.',
         '-/',
         'import NumqiModel.Qec',
         '',
         'namespace Numqi.Qec.Generated',
         'open Numqi.Qec',
         '']
    names = []
    for _, lname in CODES:
        c = codes.get(lname)
        if c is None or 'error' in c:
            L.append(f'-- {lname}: constructor failed ({(c or {}).get("error", "missing")}); no constant emitted')
            L.append('')
            continue
        names.append(lname)
        listed = listed_syms(c['listed'], c['n']) if c['listed'] is not None else []
        L.append(f'/-- `{c["fname"]}()`: {c["name"]} -/')
        L.append(f'def {lname} : Code where')
        L.append(f'  name := "{c["name"]}"')
        L.append(f'  n := {c["n"]}')
        L.append(f'  K := {c["K"]}')
        L.append(f'  d := {c["d"]}')
        L.append('  encode := [' + ', '.join(gate_lean(g) for g in c['encode']) + ']')
        L.append('  listed := [' + ', '.join('[' + ', '.join(str(x) for x in l) + ']' for l in listed) + ']')
        L.append('  stabCircs := [' + ', '.join('[' + ', '.join(gate_lean(g) for g in gl) + ']' for gl in c['stab']) + ']')
        L.append('')
    L.append('/-- every `generate_code*` function found in `numqi.qec` (introspection of the package and its modules + AST of its sources), sorted -/')
    L.append('def discovered : List String := [' + ', '.join(f'"{f}"' for f in codes.get('__discovered__', [])) + ']')
    L.append('')
    L.append('def allCodes : List (String × Code) := [' + ', '.join(f'("{n}", {n})' for n in names) + ']')
    L.append('')
    L.append('end Numqi.Qec.Generated')
    return '\n'.join(L) + '\n'


_codes_cache = None
_translated_text = None


def text_digest(t):
    import hashlib
    return hashlib.sha256(t.encode()).hexdigest()


def get_codes():
    global _codes_cache
    if _codes_cache is None:
        _codes_cache = load_codes()
    return _codes_cache


def translate(ctx):
    codes = get_codes()
    txt = render_lean(codes)
    os.makedirs(os.path.dirname(GEN_PATH), exist_ok=True)
    old = open(GEN_PATH).read() if os.path.exists(GEN_PATH) else None
    if old != txt:
        tmp = GEN_PATH + f'.tmp{os.getpid()}'
        with open(tmp, 'w') as fh:
            fh.write(txt)
            fh.flush(); os.fsync(fh.fileno())
        os.replace(tmp, GEN_PATH)
        ctx.note('Generated/QecCircuits.lean rewritten (source data changed)')
    global _translated_text
    _translated_text = txt
    ctx.extra['generated_sha256'] = text_digest(txt)
    cds = [v for k, v in codes.items() if not k.startswith('__')]
    ngates = sum(len(c['encode']) + sum(len(s) for s in c['stab']) for c in cds if 'error' not in c)
    nunknown = sum(1 for c in cds if 'error' not in c for g in c['encode'] + [g for s in c['stab'] for g in s] if g[0] == 'unknown')
    ctx.extra['translator'] = dict(codes=[c['name'] for c in cds if 'error' not in c], gates=ngates, unknown_gates=nunknown,
                                   constructor_errors=[c['fname'] for c in cds if 'error' in c],
                                   listed_missing=[c['fname'] for c in cds if 'error' not in c and c['listed'] is None],
                                   listed_observed_by={c['fname']: c.get('listed_how') for c in cds if 'error' not in c},
                                   discovered=codes.get('__discovered__'), not_in_pinned_table=[f for f in codes.get('__discovered__', []) if f not in PINNED],
                                   pinned_missing=[f for f in PINNED if f not in codes.get('__discovered__', [])])
    for c in cds:
        if 'error' not in c and str(c.get('listed_how', '')).startswith('read off'):
            ctx.note(f'{c["fname"]}: listed strings {c["listed_how"]}; "circuit implements its listed string" is vacuous for this code in this run')
        if 'error' not in c and c.get('listed_ast') is not None and c.get('listed') is not None and c['listed_ast'] != c['listed']:
            ctx.note(f'{c["fname"]}: the string list read from the AST of the package sources differs from the strings observed at run time (cross-check only)')
    if not ctx.quick():
        if THOROUGH_FILE not in THEOREM_FILES:
            THEOREM_FILES.append(THOROUGH_FILE)
        ctx.extra['theorem_files'] = list(THEOREM_FILES)
    # right before returning (run_check builds next, under the same lock): the file on disk is this run's translation
    ondisk = open(GEN_PATH).read()
    if ondisk != txt:
        raise RuntimeError('Generated/QecCircuits.lean on disk is not the translation of this run (sha256 '
                           f'{text_digest(ondisk)[:12]} != {text_digest(txt)[:12]}): another process wrote it while the project lock was held')


# ---------------------------------------------------------------------------
# implementation-side helpers (own Pauli arithmetic, independent of numqi's gates)
# ---------------------------------------------------------------------------
PH = [1, 1j, -1, -1j]
P2 = {'I': np.eye(2, dtype=np.complex128), 'X': REF1['x'], 'Y': REF1['y'], 'Z': REF1['z']}


def pauli_apply(s, v, e=0):
    """(i^e · σ_s) applied to v[..., 2^n] in numpy's index order (qubit 0 most significant)"""
    n = len(s)
    idx = np.arange(2 ** n)
    xmask = 0
    for q, c in enumerate(s):
        if c in 'XY':
            xmask |= 1 << (n - 1 - q)
    src = idx ^ xmask
    coef = np.full(2 ** n, PH[e % 4], dtype=np.complex128)
    for q, c in enumerate(s):
        if c in 'YZ':
            coef = coef * (1 - 2 * ((src >> (n - 1 - q)) & 1))
        if c == 'Y':
            coef = coef * 1j
    return coef * v[..., src]


def pauli_matrix(s, e=0):
    return pauli_apply(s, np.eye(2 ** len(s), dtype=np.complex128), e).T


def float_bits(x):
    import struct
    return struct.unpack('<Q', struct.pack('<d', float(x)))[0]


def bits_to_float(b):
    import struct
    return struct.unpack('<d', struct.pack('<Q', int(b)))[0]


NONDYADIC_W = [0.1, 0.3, 1 / 3, 0.7, 2.3]


def decompose_pauli(M, tol=1e-9):
    """M (2^n x 2^n) -> 'e:SYMS' if M = i^e σ_SYMS entrywise (tolerance tol), else None"""
    N = M.shape[0]
    n = N.bit_length() - 1
    col0 = M[:, 0]
    nz = np.nonzero(np.abs(col0) > 0.5)[0]
    if len(nz) != 1:
        return None
    x = int(nz[0])
    zbits = []
    for q in range(n):
        b = 1 << (n - 1 - q)
        r = M[b ^ x, b] / M[x, 0]
        if abs(r - 1) < tol: zbits.append(0)
        elif abs(r + 1) < tol: zbits.append(1)
        else: return None
    s = ''
    for q in range(n):
        xb = (x >> (n - 1 - q)) & 1
        s += {(0, 0): 'I', (1, 0): 'X', (1, 1): 'Y', (0, 1): 'Z'}[(xb, zbits[q])]
    for e in range(4):
        if np.abs(M - pauli_matrix(s, e)).max() < tol:
            return f'{e}:{s}'
    return None


def sparse_to_str(n, op, gate_name):
    """an error as produced by make_error_list: [([q], gate), ...] -> canonical string"""
    out = ['I'] * n
    for ind, g in op:
        ind = list(ind)
        if len(ind) != 1 or not (0 <= ind[0] < n) or out[ind[0]] != 'I':
            return 'malformed'
        out[ind[0]] = gate_name(g)
    return ''.join(out)


def gate_name(g):
    g = np.asarray(g)
    for k in 'XYZ':
        if g.shape == (2, 2) and np.array_equal(g.astype(np.complex128), P2[k]):
            return k
    return '?'


def guarded(f):
    try:
        return f()
    except AssertionError:
        return 'error:assert'
    except (ValueError, TypeError, IndexError, KeyError, ZeroDivisionError) as e:
        return 'error:' + type(e).__name__


def gint_str(z, tol=1e-9):
    r, i = round(z.real), round(z.imag)
    if abs(z.real - r) > tol or abs(z.imag - i) > tol:
        return 'nonintegral'
    return f'{int(r)},{int(i)}'


def scaled_amps(v, h):
    w = np.asarray(v) * (math.sqrt(2) ** h)
    return ';'.join(gint_str(z) for z in w)


_np_cache = {}


def real_codewords(c):
    """generate_code_np on the live encoder (cached per code)"""
    import numqi
    key = c['lname']
    if key not in _np_cache:
        _np_cache[key] = numqi.qec.generate_code_np(c['live']['encode'], c['K'])
    return _np_cache[key]


def count_h(c):
    return sum(1 for g in c['encode'] if g[0] == 'h')


_unitary_cache = {}


def encoder_unitary(c):
    key = c['lname']
    if key not in _unitary_cache:
        _unitary_cache[key] = circuit_unitary(c['live']['encode'], c['n'])
    return _unitary_cache[key]


_stab_unitary_cache = {}


def stab_unitary(c, j):
    key = (c['lname'], j)
    if key not in _stab_unitary_cache:
        _stab_unitary_cache[key] = circuit_unitary(c['live']['stabilizer'][j], c['n'])
    return _stab_unitary_cache[key]


def conj_by_unitary(U, s):
    """U σ_s U† as 'e:SYMS' (None if not a Pauli), from n+1 columns and a full check on 8 more columns"""
    M = U @ pauli_matrix(s) @ U.conj().T
    return decompose_pauli(M)


def conj_columns(U, s, e=0):
    """U (i^e σ_s) U† decomposed from the columns 0, e_q only (cheap), then verified on all columns by applying it"""
    N = U.shape[0]
    n = N.bit_length() - 1
    Ud = U.conj().T

    def col(b):
        w = Ud[:, b]
        return U @ pauli_apply(s, w, e)
    c0 = col(0)
    nz = np.nonzero(np.abs(c0) > 0.5)[0]
    if len(nz) != 1:
        return None
    x = int(nz[0])
    zb = []
    for q in range(n):
        b = 1 << (n - 1 - q)
        cb = col(b)
        r = cb[b ^ x] / c0[x]
        if abs(r - 1) < 1e-9: zb.append(0)
        elif abs(r + 1) < 1e-9: zb.append(1)
        else: return None
    t = ''.join({(0, 0): 'I', (1, 0): 'X', (1, 1): 'Y', (0, 1): 'Z'}[((x >> (n - 1 - q)) & 1, zb[q])] for q in range(n))
    for e2 in range(4):
        if abs(pauli_apply(t, np.eye(N, dtype=np.complex128)[0], e2)[x] - c0[x]) < 1e-9:
            # verify the operator identity  (U P U†) U = U P  on all columns:  Q U = U P
            lhs = pauli_apply(t, U.T, e2).T
            rhs = pauli_apply_T(s, U, e)
            if np.abs(lhs - rhs).max() < 1e-9:
                return f'{e2}:{t}'
            return None
    return None


def pauli_apply_T(s, A, e=0):
    """A @ (i^e σ_s) for A[..., 2^n] (right multiplication): (A P)[.., b] = Σ_c A[.., c] P[c, b]"""
    # P[c,b] = i^e * coef_b * [c = b xor x], coefficient depends on the source bit b (see pauli_apply)
    n = len(s)
    idx = np.arange(2 ** n)
    xmask = 0
    for q, ch in enumerate(s):
        if ch in 'XY':
            xmask |= 1 << (n - 1 - q)
    coef = np.full(2 ** n, PH[e % 4], dtype=np.complex128)
    for q, ch in enumerate(s):
        if ch in 'YZ':
            coef = coef * (1 - 2 * ((idx >> (n - 1 - q)) & 1))
        if ch == 'Y':
            coef = coef * 1j
    return A[..., idx ^ xmask] * coef


def build_circuit(gates):
    import numqi
    circ = numqi.sim.Circuit()
    for g in gates:
        k = g[0]
        if k == 'h': circ.H(g[1])
        elif k == 'x': circ.X(g[1])
        elif k == 'y': circ.Y(g[1])
        elif k == 'z': circ.Z(g[1])
        elif k == 's': circ.S(g[1])
        elif k == 'cx': circ.cnot(g[1], g[2])
        elif k == 'cy': circ.cy(g[1], g[2])
        elif k == 'cz': circ.cz(g[1], g[2])
    return circ


def circuit_unitary(circ, n):
    """unitary of a circuit on n qubits through the real simulator: the circuit is applied once to the 2n-qubit
    vector sum_i |i>|i> (Circuit.apply_state acts on the leading qubits of a longer vector, as check_stabilizer and
    knill_laflamme_inner_product rely on), which gives all columns at once"""
    N = 2 ** n
    if not circ.gate_index_list:
        return np.eye(N, dtype=np.complex128)
    q = np.eye(N, dtype=np.complex128).reshape(-1)
    return circ.apply_state(q).reshape(N, N)


def random_gates(rng, n, m, max_h=6):
    gs = []
    nh = 0
    for _ in range(m):
        k = rng.choice(['h', 'x', 'y', 'z', 's', 'cx', 'cy', 'cz', 'cx', 'cy', 'cz'])
        if k == 'h' and nh >= max_h:
            k = 's'
        if k in ('cx', 'cy', 'cz'):
            if n < 2:
                continue
            c, t = rng.sample(range(n), 2)
            gs.append((k, c, t))
        else:
            if k == 'h': nh += 1
            gs.append((k, rng.randrange(n)))
    return gs


# ---------------------------------------------------------------------------
# implementation side of every op
# ---------------------------------------------------------------------------
def kl_real(c, errors=None):
    """knill_laflamme_inner_product of the real code words with the real make_error_list"""
    import numqi
    code = real_codewords(c)
    if errors is None:
        errors = numqi.qec.make_error_list(c['n'], c['d'])
    return numqi.qec.knill_laflamme_inner_product(code, errors), errors


def kl_class(M, tol=1e-9):
    K = M.shape[0]
    c0 = M[0, 0]
    if np.abs(M - c0 * np.eye(K)).max() > tol:
        return 'F'
    if abs(c0) < tol:
        return 'a'
    for e in range(4):
        if abs(c0 - PH[e]) < tol:
            return str(e)
    return 'F'


def listed_independent_ok(c):
    """at most n - log2 K listed strings, no non-empty sub-product a scalar (own F2 arithmetic)"""
    listed, n, K = c.get('listed') or [], c['n'], c['K']
    k = K.bit_length() - 1
    if 2 ** k != K or k > n or len(listed) > n - k or not all(len(s) == n and set(s) <= set('IXYZ') for s in listed):
        return False
    vs = [sum(((ch in 'XY') << q) | ((ch in 'YZ') << (n + q)) for q, ch in enumerate(s)) for s in listed]
    return f2_dependency(vs)[1] is None


_degmat_how = {}
_wenum_cache = {}


class EigSpy:
    """record the square matrices handed to any Hermitian/general eigenvalue routine of numpy/scipy while active: the
    attributes `numpy.linalg.{eigvalsh,eigh,eigvals,eig}`, `scipy.linalg.{eigvalsh,eigh,eigvals,eig}` and every global of the
    given namespace / of the numqi.qec modules that *is* one of these function objects (`from numpy.linalg import eigh`)."""
    NAMES = ('eigvalsh', 'eigh', 'eigvals', 'eig')

    def __init__(self, sink, extra_globals=None):
        self.sink = sink
        self.extra = extra_globals
        self.patched = []

    def __enter__(self):
        try:
            import scipy.linalg as sl
            mods = [np.linalg, sl]
        except Exception:
            mods = [np.linalg]
        targets = []
        for m in mods:
            for nm in self.NAMES:
                f = getattr(m, nm, None)
                if callable(f) and not any(f is t for t in targets):
                    targets.append(f)

        def make(orig):
            def spy(M, *a, **kw):
                try:
                    A = np.array(M, copy=True)
                    if A.ndim == 2 and A.shape[0] == A.shape[1]:
                        self.sink.append(A)
                except Exception:
                    pass
                return orig(M, *a, **kw)
            return spy
        spies = [(t, make(t)) for t in targets]
        spaces = [vars(m) for m in mods]
        try:
            spaces += [vars(m) for m in qec_modules()]
        except Exception:
            pass
        if isinstance(self.extra, dict) and not any(self.extra is sp for sp in spaces):
            spaces.append(self.extra)
        for sp in spaces:
            for k_, v in list(sp.items()):
                for t, spy in spies:
                    if v is t:
                        self.patched.append((sp, k_, v))
                        sp[k_] = spy
        return self

    def __exit__(self, *exc):
        for sp, k_, v in self.patched:
            sp[k_] = v
        return False


def impl_op(op, codes):
    import numqi
    t = op.split(' ')
    k = t[1]
    if k == 'codes':
        return ' '.join(f'{l}:{codes[l]["n"]}:{codes[l]["K"]}:{codes[l]["d"]}' for _, l in CODES if l in codes and 'error' not in codes[l])
    if k in ('cw', 'gens', 'fix', 'chk', 'ortho', 'kl', 'klval', 'degmat', 'varqec', 'scirc', 'listed', 'wenum', 'wenumk', 'checks', 'gates'):
        c = codes.get(t[2])
        if c is None or 'error' in c:
            return 'bad-op'
        if k == 'gates':
            # this run's translation of the live object (what `translate` wrote): the compiled driver must print the same
            gl = lambda gs: ';'.join(gate_tok(g) for g in gs) if gs else '-'
            ls = listed_syms(c['listed'], c['n']) if c['listed'] is not None else []
            return ' | '.join([gl(c['encode']), ' '.join(''.join('IXYZ?'[x] for x in l) for l in ls) or '-', ' '.join(gl(g) for g in c['stab']) or '-'])
        n, K, h = c['n'], c['K'], count_h(c)
        if k == 'cw':
            return guarded(lambda: f'{h} ' + scaled_amps(real_codewords(c)[int(t[3])], h))
        if k == 'gens':
            def f():
                U = encoder_unitary(c)
                kk = K.bit_length() - 1
                zj = lambda j: ''.join('Z' if q == j else 'I' for q in range(n))
                xj = lambda j: ''.join('X' if q == j else 'I' for q in range(n))
                gs = [conj_columns(U, zj(j)) for j in range(n - kk)]
                zs = [conj_columns(U, zj(n - kk + l)) for l in range(kk)]
                xs = [conj_columns(U, xj(n - kk + l)) for l in range(kk)]
                if any(x is None for x in gs + zs + xs):
                    return 'none'
                return ' '.join(gs) + ' | ' + ' '.join(zs) + ' | ' + ' '.join(xs)
            return guarded(f)
        if k == 'fix':
            def f():
                code = real_codewords(c)
                U = encoder_unitary(c)
                kk = K.bit_length() - 1
                zj = lambda j: ''.join('Z' if q == j else 'I' for q in range(n))
                gs = [conj_columns(U, zj(j)) for j in range(n - kk)]
                b = lambda ok: '1' if ok else '0'
                g = ''.join(b(x is not None and np.abs(pauli_apply(x.split(':')[1], code, int(x.split(':')[0])) - code).max() < 1e-9) for x in gs)
                l = ''.join(b(len(s) == n and set(s) <= set('IXYZ') and np.abs(pauli_apply(s, code) - code).max() < 1e-9) for s in (c['listed'] or []))
                s_ = ''.join(b(all(np.abs(circ.apply_state(q0.copy()) - q0).max() < 1e-9 for q0 in code)) for circ in c['live']['stabilizer'])
                return f'{g} {l} {s_}'
            return guarded(f)
        if k == 'chk':
            def f():
                code = real_codewords(c)
                r = numqi.qec.check_stabilizer(c['live']['stabilizer'], code) * (2 ** h)
                return f'{h} ' + ';'.join(','.join(gint_str(z).replace(',', '/') for z in row) for row in r)
            return guarded(f)
        if k == 'ortho':
            def f():
                code = real_codewords(c)
                G = (code.conj() @ code.T) * (2 ** h)
                return f'{h} ' + ';'.join(gint_str(G[a, b]).replace(',', '/') for a in range(K) for b in range(a, K))
            return guarded(f)
        if k == 'kl':
            def f():
                M, errs = kl_real(c)
                # the torch branch (_KnillLaflammeInnerProductTorchOp.forward) on the same code words must give the same array
                import torch
                Mt = numqi.qec.knill_laflamme_inner_product(torch.tensor(real_codewords(c)), errs).numpy()
                if Mt.shape != M.shape or not np.array_equal(Mt, M):
                    return 'torch-branch-differs:%g' % (np.abs(Mt - M).max() if Mt.shape == M.shape else -1)
                return ''.join(kl_class(m) for m in M)
            return guarded(f)
        if k == 'degmat':
            def f():
                a = int(t[3])
                cw = real_codewords(c)[a]
                captured = []
                with EigSpy(captured, getattr(numqi.qec.degeneracy, '__globals__', None)):
                    ev = np.asarray(numqi.qec.degeneracy(cw))
                # the Gram matrix through the public pieces (make_error_list(n,2)+[()], apply_gate, vdot): used when the
                # eigenvalue routine `degeneracy` calls is not one of the spied family, and as a cross-check otherwise
                errs = numqi.qec.make_error_list(n, distance=2) + [()]
                vs = []
                for e in errs:
                    q = cw
                    for ind, op_i in e:
                        q = numqi.sim.state.apply_gate(q, op_i, ind)
                    vs.append(q)
                V = np.stack(vs)
                Mpub = V.conj() @ V.T
                L = len(errs)
                cap = [m for m in captured if m.shape == (L, L)]
                same = bool(cap) and np.abs(cap[-1] - Mpub).max() < 1e-12
                _degmat_how[(c['lname'], a)] = ('equal to the matrix captured from the eigenvalue routine' if same else
                                                'captured matrix differs from the public rebuild (eigenvalues tied only)' if cap else
                                                'no eigenvalue routine of the spied family was called (eigenvalues tied only)')
                M0 = Mpub
                # the returned eigenvalues are those of that matrix (LAPACK contract, 1e-9)
                if ev.shape != (L,) or np.abs(np.sort(ev.real) - np.linalg.eigvalsh(M0)).max() > 1e-9:
                    return 'eigenvalues-not-of-gram-matrix'
                M = M0 * (2 ** h)
                return f'{h} ' + ';'.join(','.join(gint_str(z).replace(',', '/') for z in row) for row in M)
            return guarded(f)
        if k == 'klval':
            def f():
                M, _ = kl_real(c)
                sc = 2 ** h
                return f'{h} ' + ';'.join(','.join(gint_str(z * sc).replace(',', '/') for z in m.reshape(-1)) for m in M)
            return guarded(f)
        if k == 'varqec':
            def f():
                K2 = int(t[3])
                r = get_generator(c['fname'])()      # VarQEC shifts the circuit it is given in place: use a fresh one
                enc = r['encode']
                if K2 == 1 or K2 > 2 ** n:
                    # the boundary / rejection cases run on a deep copy: a large shift must never reach a circuit that a
                    # (memoising) generator hands out again
                    import copy
                    enc = copy.deepcopy(enc)
                model = numqi.qec.VarQEC(enc, K2, numqi.qec.make_error_list(n, 2))
                code = model.get_code()
                if code.shape != (K2, 2 ** n):
                    return f'shape:{code.shape}'
                return f'{h} ' + '|'.join(scaled_amps(row, h) for row in code)
            return guarded(f)
        if k == 'scirc':
            def f():
                out = []
                for j, circ in enumerate(c['live']['stabilizer']):
                    r = decompose_pauli(stab_unitary(c, j))
                    out.append(r if r is not None else 'none')
                return ' '.join(out)
            return guarded(f)
        if k == 'listed':
            return ' '.join(c['listed'] or [])
        if k in ('wenum', 'wenumk'):
            def f():
                code = real_codewords(c)
                if k == 'wenumk':
                    code = code[:int(t[3])]
                Kc = code.shape[0]
                A, B = numqi.qec.quantum_weight_enumerator(code)
                if k == 'wenum' and n >= 8:
                    _wenum_cache[c['lname']] = (np.array(A, copy=True), np.array(B, copy=True))     # ~45 s: the probe reuses this call's result
                sc = 4 ** h
                tr = np.trace(code.conj() @ code.T)
                a0 = abs(tr) ** 2 * sc / 1  # K^2 4^h A_0,  A_0 = |tr Π|^2 / K^2
                b0 = np.vdot(code.conj() @ code.T, code.conj() @ code.T).real * sc  # K 4^h B_0,  B_0 = tr(Π Π)/K
                if k == 'wenum':
                    Kc = K
                ent = [(a0, b0)] + [(A[j] * Kc * Kc * sc, B[j] * Kc * sc) for j in range(n)]
                out = []
                for a, b in ent:
                    ra, rb = round(a), round(b)
                    if abs(a - ra) > 1e-6 * max(1, abs(a)) or abs(b - rb) > 1e-6 * max(1, abs(b)):
                        return 'nonintegral'
                    out.append(f'{int(ra)},{int(rb)}')
                return f'{h} ' + ';'.join(out)
            return guarded(f)
        if k == 'checks':
            # the three per-code obligations evaluated on the real objects (no model): every library KL matrix is a scalar,
            # every listed string fixes every real code word, every stabilizer circuit's unitary is its listed string
            def f():
                code = real_codewords(c)
                M, _ = kl_real(c)
                ok1 = all(kl_class(m) != 'F' for m in M)
                listed = c['listed'] or []
                ok2 = bool(listed) and all(len(s) == n and set(s) <= set('IXYZ') and np.abs(pauli_apply(s, code) - code).max() < 1e-9 for s in listed)
                circs = c['live']['stabilizer']
                ok3 = bool(listed) and len(circs) == len(listed) and all(
                    len(s) == n and set(s) <= set('IXYZ') and np.abs(stab_unitary(c, j) - pauli_matrix(s)).max() < 1e-9 for j, s in enumerate(listed))
                ok4 = listed_independent_ok(c)
                return ''.join('1' if x else '0' for x in (ok1, ok2, ok3, ok4))
            return guarded(f)
    if k == 'errlist':
        n, d = int(t[2]), int(t[3])
        return guarded(lambda: ';'.join(sparse_to_str(n, e, gate_name) for e in numqi.qec.make_error_list(n, d)))
    if k == 'asym':
        n, d, p, q = (int(x) for x in t[2:6])
        return guarded(lambda: ';'.join(sparse_to_str(n, e, gate_name) for e in numqi.qec.make_asymmetric_error_set(n, d, weight_z=p / q)))
    if k == 'pqecc':
        def f():
            from fractions import Fraction
            try:
                r = numqi.qec.parse_str_qecc(t[2])
            except (AssertionError, ValueError, IndexError):
                return 'error'
            w = r['weight_z']
            ws = 'None' if w is None else (lambda fr: f'{fr.numerator}/{fr.denominator}')(Fraction(repr(float(w))))
            return f"{r['num_qubit']} {r['num_logical_dim']} {ws} {r['distance']}"
        return guarded(f)
    if k == 'errlisto':
        n, d = int(t[2]), int(t[3])
        opl = [P2[ch] for ch in t[4]]
        def f():
            out = []
            for e in numqi.qec.make_error_list(n, d, op_list=opl):
                nm = lambda g: next((k_ for k_ in 'IXYZ' if np.array_equal(np.asarray(g).astype(np.complex128), P2[k_])), '?')
                out.append(','.join(f'{int(ind[0])}{nm(g)}' for ind, g in e))
            return ';'.join(out)
        return guarded(f)
    if k == 'extend':
        ga, gb = parse_gates(t[2]), parse_gates(t[3])
        def f():
            A = build_circuit(ga) if ga else numqi.sim.Circuit()
            B = build_circuit(gb) if gb else numqi.sim.Circuit()
            A.extend_circuit(B)
            out = [gate_tok(classify_gate(g, idx)) for g, idx in A.gate_index_list]
            # the second circuit is unchanged and its gate objects are shared, not copied (documented: parameters re-used)
            if [gate_tok(classify_gate(g, idx)) for g, idx in B.gate_index_list] != [gate_tok(g) for g in gb]:
                return 'second-circuit-modified'
            return ';'.join(out) if out else '-'
        return guarded(f)
    if k == 'ppauli':
        str0 = '' if t[2] == '_' else t[2]
        tag = t[3] == '1'
        def f():
            try:
                r = numqi.qec.parse_simple_pauli(str0, tag_circuit=tag)
            except KeyError:
                return 'error:KeyError'
            if tag:
                toks = []
                for g, idx in r.gate_index_list:
                    cg = classify_gate(g, idx)
                    if cg[0] not in ('x', 'y', 'z'):
                        return 'non-pauli-gate'
                    toks.append(f'{cg[1]}:{cg[0].upper()}')
            else:
                toks = [f'{int(q)}:{gate_name(g)}' for g, q in r]
            return ';'.join(toks) if toks else '-'
        return guarded(f)
    if k == 'errfull':
        n, d = int(t[2]), int(t[3])
        def f():
            out = []
            for M in numqi.qec.make_error_list(n, d, tag_full=True):
                M = np.asarray(M)
                if M.shape != (2 ** n, 2 ** n):
                    return f'shape:{M.shape}'
                ch = []
                for v in M.reshape(-1):
                    key = (v.real, v.imag) if np.iscomplexobj(M) else (float(v), 0.0)
                    ch.append({(0.0, 0.0): '.', (1.0, 0.0): '0', (0.0, 1.0): '1', (-1.0, 0.0): '2', (0.0, -1.0): '3'}.get(key, '?'))
                out.append(''.join(ch))
            return ';'.join(out)
        return guarded(f)
    if k == 'shift':
        delta = int(t[2]); gates = parse_gates(t[3])
        def f():
            if not gates:
                return '-'
            circ = build_circuit(gates)
            circ.shift_qubit_index_(delta)
            out = []
            for (g, idx), g0 in zip(circ.gate_index_list, gates):
                if getattr(g, 'kind', None) == 'control':
                    ctl, tgt = idx
                    ids = [sorted(ctl)[0], tuple(tgt)[0]] if len(ctl) == 1 and len(tuple(tgt)) == 1 else None
                else:
                    ids = [tuple(idx)[0]] if len(tuple(idx)) == 1 else None
                # classify by array with non-negative stand-in indices (classify_gate only looks at shapes), print the stored indices
                cg = classify_gate(g, ({0}, (1,)) if getattr(g, 'kind', None) == 'control' else (0,))
                if ids is None or cg[0] == 'unknown':
                    return 'unknown'
                out.append(','.join([cg[0]] + [str(int(x)) for x in ids]))
            return ';'.join(out)
        return guarded(f)
    if k == 'asymf':
        n, d, b = int(t[2]), int(t[3]), int(t[4])
        w = bits_to_float(b)
        return guarded(lambda: ';'.join(sparse_to_str(n, e, gate_name) for e in numqi.qec.make_asymmetric_error_set(n, d, weight_z=w)))
    if k == 'fceil':
        a, b = int(t[2]), int(t[3])
        w = bits_to_float(b)
        from fractions import Fraction
        q = a / w   # the implementation's expression (distance-nxy)/weight_z: int / binary64
        fq = Fraction(q)
        return f'{int(np.ceil(q))} {math.ceil(Fraction(a) / Fraction(w))} {fq.numerator}/{fq.denominator}'
    if k == 'run':
        n, idx = int(t[2]), int(t[3])
        gates = parse_gates(t[4])
        def f():
            h = sum(1 for g in gates if g[0] == 'h')
            q0 = np.zeros(2 ** n, dtype=np.complex128); q0[idx] = 1
            q1 = build_circuit(gates).apply_state(q0) if gates else q0
            return f'{h} ' + scaled_amps(q1, h)
        return guarded(f)
    if k == 'conj':
        n, s, e = int(t[2]), t[3], int(t[4])
        gates = parse_gates(t[5])
        def f():
            U = circuit_unitary(build_circuit(gates), n) if gates else np.eye(2 ** n)
            r = decompose_pauli(U @ pauli_matrix(s, e) @ U.conj().T)
            return r if r is not None else 'none'
        return guarded(f)
    if k == 'pmul':
        a, b = t[2], t[3]
        A, B = pauli_matrix(a), pauli_matrix(b)
        r = decompose_pauli(A @ B)
        return f'{r} ' + ('c' if np.array_equal(A @ B, B @ A) else 'a')
    return 'bad-op'


def parse_gates(s):
    if s == '-':
        return []
    out = []
    for tok in s.split(';'):
        p = tok.split(',')
        out.append(tuple([p[0]] + [int(x) for x in p[1:]]))
    return out


def gates_str(gs):
    return ';'.join(gate_tok(g) for g in gs) if gs else '-'


# ---------------------------------------------------------------------------
# correspondence
# ---------------------------------------------------------------------------
ASYM_W = [(1, 2), (1, 1), (3, 2), (2, 1), (3, 1), (3, 4), (5, 2), (1, 4)]


def gen_ops(ctx, codes):
    ops = []
    late = []
    quick = ctx.quick()
    for _, lname in CODES:
        c = codes.get(lname)
        if c is None or 'error' in c:
            continue
        big = c['n'] >= 11
        if big and quick:
            # the 11-qubit code in the quick tier: code words, check_stabilizer, Gram matrix, listed strings
            # (tableau / circuit-unitary / KL-table ops need 2048x2048 unitaries and 31 713 errors: thorough tier)
            ops += [f'C19 cw {lname} {a}' for a in range(c['K'])]
            ops += [f'C19 chk {lname}', f'C19 ortho {lname}', f'C19 listed {lname}', f'C19 gates {lname}', f'C19 varqec {lname} {c["K"]}']
            continue
        ops += [f'C19 cw {lname} {a}' for a in range(c['K'])]
        ops.append(f'C19 varqec {lname} {c["K"]}')
        if c['K'] >= 4:
            ops.append(f'C19 varqec {lname} 3')
        if c['n'] <= 6:
            # K' = 1 (no logical register); the rejection of K' > 2^n (IndexError when the diagonal is written) on the 4-qubit codes.
            # Evaluated after every other op (`late`): VarQEC shifts the circuit it is given in place, and a tree whose generators
            # hand out shared circuits must not turn the remaining ops into 2^(n+shift) computations
            late.append(f'C19 varqec {lname} 1')
            if c['n'] <= 4:
                late.append(f'C19 varqec {lname} {2 ** c["n"] + 1}')
        if c['K'] ** 2 * 2 ** c['n'] * sum(1 for _ in all_errors(c['n'], c['d'])) <= (3e7 if quick else 4e8):
            ops.append(f'C19 klval {lname}')
        if c['n'] <= 8:
            ops += [f'C19 degmat {lname} 0', f'C19 degmat {lname} {c["K"] - 1}']
        ops += [f'C19 gens {lname}', f'C19 fix {lname}', f'C19 chk {lname}', f'C19 ortho {lname}', f'C19 kl {lname}', f'C19 scirc {lname}',
                f'C19 listed {lname}', f'C19 gates {lname}', f'C19 checks {lname}']
        if c['n'] <= 6 or (not quick and c['n'] <= 8 and c['K'] <= 8):
            ops.append(f'C19 wenum {lname}')
            if c['K'] >= 4 and c['n'] <= 6:
                ops.append(f'C19 wenumk {lname} 3')     # number of code words not a power of two (the implementation pads with zeros)
    for n in range(1, 7):
        for d in range(0, 5):
            ops.append(f'C19 errlist {n} {d}')
    nmax = 5 if quick else 6
    for n in range(1, nmax + 1):
        for d in range(1, 5):
            for p, q in ASYM_W:
                ops.append(f'C19 asym {n} {d} {p} {q}')
    ops.append('C19 asym 3 2 0 1')
    ops.append('C19 codes')
    # parse_simple_pauli: both input forms, both output forms, malformed strings, I tokens, multi-digit and zero-padded indices
    pp = ['XIYXX', 'IIII', '_', 'X', 'ZZ', 'XAZ', 'xyz', 'X0', 'X0Y2X3X4', 'I0', 'X0I1Z2', 'Z10X3', 'Y007', 'X0Y', '0X1', 'X', 'XX0', 'X0X0', 'X1Y1', 'X-1',
          'Z12Y11X10', 'I5I6', 'XYZI0', 'X0YZ', 'X00', 'Y9Z8X7', 'X3Z1Y2']
    for _ in range(20 if quick else 100):
        m = ctx.rng.randint(1, 6)
        if ctx.rng.random() < 0.5:
            pp.append(''.join(ctx.rng.choice('XYZI') for _ in range(m)))
        else:
            pp.append(''.join(ctx.rng.choice('XYZI') + str(ctx.rng.choice([0, 1, 2, 5, 9, 10, 23, 100])) for _ in range(m)))
    for w_ in pp:
        ops += [f'C19 ppauli {w_} 1', f'C19 ppauli {w_} 0']
    # make_error_list(tag_full=True): every dense matrix
    for n, d in ([(1, 2), (2, 2), (2, 3), (3, 2), (3, 3), (3, 4), (4, 3), (5, 2), (2, 4), (1, 3)] + ([] if quick else [(4, 4), (5, 3), (6, 2)])) + [(2, 1)]:
        ops.append(f'C19 errfull {n} {d}')
    # shift_qubit_index_ on gate lists (negative deltas included), VarQEC.get_code for every code (and K not a power of two)
    for _ in range(20 if quick else 100):
        n = ctx.rng.randint(1, 6)
        ops.append(f'C19 shift {ctx.rng.randint(-3, 6)} {gates_str(random_gates(ctx.rng, n, ctx.rng.randint(0, 8)))}')
    ops += ['C19 shift 0 h,0;cx,0,1', 'C19 shift 3 cz,2,0;y,1', 'C19 shift -2 cx,5,2;s,4']
    for _ in range(10 if quick else 100):
        n = ctx.rng.randint(1, 5)
        ops.append(f'C19 extend {gates_str(random_gates(ctx.rng, n, ctx.rng.randint(0, 5)))} {gates_str(random_gates(ctx.rng, n, ctx.rng.randint(0, 5)))}')
    # parse_str_qecc: both name forms, malformed names
    for nm in ['((5,2,3))', '((4,4,2))', '((10,4,4))', '((5,2,de(2)=3))', '((7,1,de(0.5)=4))', '((6,4,de(1.5)=2))', '((8,8,de(3)=3))', '((9,2,de(0.25)=5))',
               '(5,2,3)', '((5,2,3)', '((5,2))', '((5,2,de(2)3))', '((5,2,de2=3))', '((a,2,3))', '((5,2,de(x)=3))', '((5,2,de(2)=))']:
        ops.append(f'C19 pqecc {nm}')
    # make_error_list with a custom op_list
    for n, d, o in [(3, 3, 'XZ'), (4, 2, 'Z'), (3, 4, 'ZYX'), (2, 3, 'XX'), (5, 2, 'YX'), (3, 2, 'XYZ'), (2, 2, 'I')]:
        ops.append(f'C19 errlisto {n} {d} {o}')
    # binary64 weights through the float model of int(np.ceil((d-nxy)/weight_z)): non-dyadic ones and two dyadic ones
    for w in NONDYADIC_W + [1.5, 0.5]:
        for n in range(1, (5 if quick else 6)):
            for d in range(1, 5):
                ops.append(f'C19 asymf {n} {d} {float_bits(w)}')
        for a in range(1, 13):
            ops.append(f'C19 fceil {a} {float_bits(w)}')
    for _ in range(40 if quick else 400):
        ops.append(f'C19 fceil {ctx.rng.randint(1, 60)} {float_bits(ctx.rng.uniform(0.01, 7.0))}')
    rng = ctx.rng
    nr = 60 if quick else 250
    for _ in range(nr):
        n = rng.randint(1, 6)
        gs = random_gates(rng, n, rng.randint(0, 14))
        ops.append(f'C19 run {n} {rng.randrange(2 ** n)} {gates_str(gs)}')
        n = rng.randint(1, 5)
        gs = random_gates(rng, n, rng.randint(0, 12))
        s = ''.join(rng.choice('IXYZ') for _ in range(n))
        ops.append(f'C19 conj {n} {s} {rng.randrange(4)} {gates_str(gs)}')
        n = rng.randint(1, 6)
        a = ''.join(rng.choice('IXYZ') for _ in range(n))
        b = ''.join(rng.choice('IXYZ') for _ in range(n))
        ops.append(f'C19 pmul {a} {b}')
    # every single gate kind on every (control, target) ordering, n = 3, all basis states
    for g in [('h', 1), ('x', 0), ('y', 2), ('z', 1), ('s', 0), ('cx', 0, 2), ('cx', 2, 0), ('cy', 0, 1), ('cy', 2, 1), ('cz', 1, 2), ('cz', 2, 0)]:
        for idx in range(8):
            ops.append(f'C19 run 3 {idx} h,0;h,1;h,2;s,0;{gate_tok(g)}')
        for s in ['XII', 'IXI', 'IIX', 'ZII', 'IZI', 'IIZ', 'YYY']:
            ops.append(f'C19 conj 3 {s} 0 {gate_tok(g)}')
    ops += late
    return ops


OBLIGATION_SUFFIX = ['klCheck', 'listed', 'stabCirc', 'listedIndep']     # order of the bits printed by the driver op `checks`


def integrity(ctx, codes, ops, model):
    """the three stages of this run looked at the same generated data: (a) the file on disk is still this run's translation
    after the audit, (b) the driver (built in the same `lake build` as the theorems) prints this run's gate lists (op `gates`,
    compared with the other ops), (c) each per-code obligation is discharged by the kernel exactly when the driver evaluates
    it to true on its compiled data (a discharged theorem whose obligation the driver evaluates to false means that theorems and
    driver were built from different data).  Any mismatch is a broken tie (infrastructure), never a failing input."""
    if _translated_text is not None:
        try:
            ondisk = open(GEN_PATH).read()
        except OSError as e:
            ondisk = f'<{e}>'
        ctx.count('integrity')
        if ondisk == _translated_text:
            ctx.agree('C19 generated-file integrity', 'C19 generated-file integrity')
        else:
            ctx.disagree('C19 generated-file integrity', 'sha256 ' + text_digest(ondisk)[:16], 'sha256 ' + text_digest(_translated_text)[:16] + ' (this run\'s translation)')
    if ctx.proof.get('build_ok') is False:
        import re
        log = ctx.proof.get('build_log') or ''
        failed = sorted(set(re.findall(r'(?:✖|error:)[^\n]*?((?:NumqiProps|NumqiModel|NumqiProofs|Driver)[./][A-Za-z0-9_./]+)', log)))
        ctx.note('the first `lake build` of this run failed; modules named in its log: ' + (', '.join(failed[:8]) if failed else '(none recognisable; last line: %r)' % log.strip().split('\n')[-1][:200]))
    thm = ctx.proof.get('theorems') or {}
    for op, out in zip(ops, model):
        t = op.split(' ')
        if t[1] != 'checks' or len(out) != len(OBLIGATION_SUFFIX) or set(out) - set('01'):
            continue
        for bit, suf in zip(out, OBLIGATION_SUFFIX):
            name = f'Numqi.C19.{t[2]}_{suf}'
            if name not in thm:
                continue
            discharged = thm[name] is not None
            ctx.count('integrity')
            # only this direction is conclusive: one failing theorem takes its whole module with it, so "not discharged" while the
            # driver says 1 is the normal picture for the other codes of a module that did not build
            if not (discharged and bit == '0'):
                ctx.agree(f'C19 theorem-vs-driver {name}', f'C19 theorem-vs-driver {name}')
            else:
                ctx.disagree(f'C19 theorem-vs-driver {name}',
                             f'driver evaluates the obligation to {bit} on its compiled data: theorems and driver were not built from the same Generated/QecCircuits.lean',
                             f'kernel: {"discharged" if discharged else "not discharged"}')


def correspondence(ctx):
    codes = get_codes()
    ops = gen_ops(ctx, codes)
    import time
    from concurrent.futures import ThreadPoolExecutor
    # the compiled driver runs while the implementation side is evaluated; its two expensive kinds of op (weight enumerator of an
    # 8-qubit code, the full KL table of a 10/11-qubit code) get a driver process of their own.  Same ops, same outputs, same order.
    def heavy(op):
        t = op.split(' ')
        c = codes.get(t[2]) if len(t) > 2 else None
        return isinstance(c, dict) and 'error' not in c and ((t[1] == 'wenum' and c['n'] >= 8) or (t[1] == 'klval' and c['n'] >= 10))
    chunks = [[i] for i, op in enumerate(ops) if heavy(op)]
    chunks.append([i for i, op in enumerate(ops) if not heavy(op)])
    chunks = [ch for ch in chunks if ch]
    t0 = time.time()
    pool = ThreadPoolExecutor(max_workers=max(1, len(chunks)))
    def run_chunk(ch):
        t1 = time.time()
        out = common.run_model([ops[i] for i in ch], pid='C19')
        return out, time.time() - t1
    futs = [pool.submit(run_chunk, ch) for ch in chunks]
    tk = {}
    impl = []
    try:
        for op in ops:
            t1 = time.time()
            impl.append(impl_op(op, codes))
            k_ = op.split(' ')[1]
            tk[k_] = tk.get(k_, 0.0) + time.time() - t1
        t_impl = time.time() - t0
        model = [None] * len(ops)
        tdrv = []
        for ch, fu in zip(chunks, futs):
            out, dt = fu.result()
            tdrv.append(round(dt, 1))
            for i, o in zip(ch, out):
                model[i] = o
    finally:
        pool.shutdown(wait=True)
    ctx.extra['timing_correspondence_s'] = dict(wall=round(time.time() - t0, 1), impl=round(t_impl, 1), driver_processes=tdrv,
                                                impl_by_op={k_: round(v, 1) for k_, v in sorted(tk.items(), key=lambda kv: -kv[1]) if v >= 0.5})
    trivial = lambda op, out: out not in ('', 'bad-op', 'none') and len(out) > 1
    common.compare(ctx, ops, impl, model, nontrivial=trivial)
    integrity(ctx, codes, ops, model)
    for c in codes.values():
        if isinstance(c, dict) and c.get('error_kind') == 'translator':
            ctx.disagree(f'C19 translate {c["fname"]}', 'a dict with encode / stabilizer circuits', f'the harness could not read the result of {c["fname"]}(): {c["error"]}')
    if _degmat_how:
        ctx.extra['degmat_gram_matrix'] = {f'{k[0]}:{k[1]}': v for k, v in sorted(_degmat_how.items())}
        for k, v in sorted(_degmat_how.items()):
            if not v.startswith('equal'):
                ctx.note(f'degmat {k[0]} {k[1]}: {v}')
    # binary64 ceil vs exact rational ceil: record where they differ (Lean: float_ceil_bounds says differ by at most one, downwards)
    ndiff = 0
    for op, out in zip(ops, model):
        t = op.split(' ')
        if t[1] == 'fceil' and out.count(' ') == 2:
            f, e, _ = out.split(' ')
            ctx.count('fceil-float==exact' if f == e else 'fceil-float==exact-1' if int(f) == int(e) - 1 else 'fceil-OTHER')
            if f != e:
                ndiff += 1
                ctx.sample({'op': op, 'weight_z': repr(bits_to_float(int(t[3]))), 'float_ceil': f, 'exact_ceil': e}, limit=12)
            if int(f) not in (int(e), int(e) - 1):
                ctx.disagree(op + ' bounds', out, 'float ceil must be exact ceil or one less')
    ctx.extra['float_ceil'] = dict(weights=[repr(w) for w in NONDYADIC_W], differing_inputs=ndiff,
                                   note='inputs where int(np.ceil(a/weight_z)) in binary64 is one less than the exact ceiling of a/weight_z (weight_z at its exact value)')
    klloss_tie(ctx)
    # the model's weight-enumerator integers regrouped by string weight must add up to the totals of the Lean theorem
    # `weight_enumerator_sum_rules` (sums over the Pauli basis X^x Z^z): 2^n K 4^h and 2^n K^2 4^h
    for op, out in zip(ops, model):
        t = op.split(' ')
        if t[1] == 'wenum' and ' ' in out:
            c = codes[t[2]]
            h, body = out.split(' ', 1)
            ab = [tuple(int(x) for x in e.split(',')) for e in body.split(';')]
            sa, sb = sum(a for a, _ in ab), sum(b for _, b in ab)
            want = (2 ** c['n'] * c['K'] * 4 ** int(h), 2 ** c['n'] * c['K'] ** 2 * 4 ** int(h))
            ctx.count('wenum-sum')
            if (sa, sb) == want:
                ctx.agree(op + ' sum', op + ' sum')
            else:
                ctx.disagree(op + ' sum', f'{sa},{sb}', f'{want[0]},{want[1]}')
    ctx.extra['exhaustive'] = True
    ctx.extra['exhaustive_domain'] = ('every code word of every shipped code; every error below the distance of the 7 codes up to 10 qubits '
                                      '(11 qubits in the thorough tier); make_error_list for all n<=6, d<=4; make_asymmetric_error_set for all n<=5 (6 thorough), d<=4, '
                                      f'weight_z in {["%d/%d" % w for w in ASYM_W]}')
    ctx.assumptions.append('quotients (distance-nxy)/weight_z below 2^53 and weight_z a positive normal binary64 number (hypotheses of float_ceil_bounds)')


def klloss_tie(ctx):
    """knill_laflamme_loss (numpy and torch paths, 'L2' and 'L1') on Gaussian-integer inner products against the exact
    rational model: L2 as a rational, L1 as the sum of square roots of the model's rational radicands.
    Tolerance 1e-9 relative: the inputs are small integers, the mean is one division, so float error is ~1e-15 relative."""
    import numqi, torch
    from fractions import Fraction
    rng = np.random.default_rng(ctx.np_seed + 17)
    cases = []
    for _ in range(30 if ctx.quick() else 300):
        E, K = int(rng.integers(1, 5)), int(rng.integers(1, 5))
        style = rng.integers(0, 4)
        M = rng.integers(-4, 5, size=(E, K, K)) + 1j * rng.integers(-4, 5, size=(E, K, K))
        if style == 0:      # exactly KL on the entries the loss uses
            M = np.stack([np.tril(M[e], -1) + (e + 1j) * np.eye(K) for e in range(E)])
        elif style == 1:    # only the lower triangle is non-zero off the diagonal (ignored by the loss)
            M = np.stack([np.tril(M[e], -1) + np.diag(np.full(K, 2 - 1j)) for e in range(E)])
        cases.append(M)
    ops = [f'C19 klloss {M.shape[0]} {M.shape[1]} ' + ';'.join(f'{int(z.real)},{int(z.imag)}' for z in M.reshape(-1)) for M in cases]
    out = common.run_model(ops, pid='C19')
    for op, M, line in zip(ops, cases, out):
        ctx.count('klloss')
        try:
            l2s, rads = line.split(' ')
            l2 = Fraction(l2s)
            l1 = sum(math.sqrt(Fraction(r)) for r in rads.split(',')) if rads else 0.0
        except Exception:
            ctx.disagree(op, line, 'unparsable'); continue
        got = dict(L2_np=float(numqi.qec.knill_laflamme_loss(M, 'L2')), L1_np=float(numqi.qec.knill_laflamme_loss(M, 'L1')),
                   L2_torch=float(numqi.qec.knill_laflamme_loss(torch.tensor(M), 'L2')), L1_torch=float(numqi.qec.knill_laflamme_loss(torch.tensor(M), 'L1')))
        want = dict(L2_np=float(l2), L1_np=l1, L2_torch=float(l2), L1_torch=l1)
        bad = {k: (got[k], want[k]) for k in got if abs(got[k] - want[k]) > 1e-9 * max(1.0, abs(want[k]))}
        if bad:
            ctx.disagree(op, line, repr(bad))
        else:
            ctx.agree(op, op if l2 != 0 else None)


# ---------------------------------------------------------------------------
# probe: direct evaluation of the property on the real code (no model involved)
# ---------------------------------------------------------------------------
def all_errors(n, d):
    """every Pauli string of weight 1..d-1 (own enumeration)"""
    for w in range(1, d):
        for qs in itertools.combinations(range(n), w):
            for gs in itertools.product('XYZ', repeat=w):
                s = ['I'] * n
                for q, g in zip(qs, gs):
                    s[q] = g
                yield ''.join(s)


def probe_code(ctx, c, with_library_kl=True):
    import numqi
    name, n, K, d = c['name'], c['n'], c['K'], c['d']
    tag = c['lname']
    try:
        code = real_codewords(c)
    except Exception as e:
        ctx.fail(f'{tag}:encode-raises', f'{name}: generate_code_np raised {type(e).__name__}: {e}', dict(code=name, op='generate_code_np'))
        return
    # orthonormal
    G = code.conj() @ code.T
    dev = np.abs(G - np.eye(K)).max()
    if code.shape != (K, 2 ** n) or dev > 1e-9:
        a, b = np.unravel_index(np.argmax(np.abs(G - np.eye(K))), G.shape)
        ctx.fail(f'{tag}:orthonormal', f'{name}: code words {a},{b} have inner product {G[a, b]}', dict(code=name, op='gram', a=int(a), b=int(b), value=str(G[a, b])))
    else:
        ctx.probe_ok((tag, 'gram'))
    # Knill-Laflamme, every Pauli error of weight < d, own Pauli arithmetic on the real code words
    bad = None
    cnt = 0
    for s in all_errors(n, d):
        M = code.conj() @ pauli_apply(s, code).T
        cnt += 1
        if np.abs(M - M[0, 0] * np.eye(K)).max() > 1e-9:
            D = np.abs(M - M[0, 0] * np.eye(K))
            a, b = np.unravel_index(np.argmax(D), D.shape)
            bad = (s, int(a), int(b), M[a, b], M[0, 0])
            break
    if bad:
        s, a, b, v, c0 = bad
        ctx.fail(f'{tag}:knill-laflamme', f'{name}: error {s} (weight {n - s.count("I")} < d={d}): <{a}|E|{b}> = {v}, <0|E|0> = {c0}',
                 dict(code=name, op='knill_laflamme', error=s, a=a, b=b, value=str(v), c00=str(c0)))
    else:
        ctx.probe_ok((tag, 'kl-own', cnt))
        ctx.count('probe-kl-errors', cnt)
    # the same through the library's own make_error_list + knill_laflamme_inner_product
    if with_library_kl:
        try:
            M, errs = kl_real(c)
            D = np.abs(M - M[:, :1, :1] * np.eye(K)).reshape(len(errs), -1).max(axis=1)
            if D.max() > 1e-9:
                i = int(np.argmax(D))
                ctx.fail(f'{tag}:knill-laflamme', f'{name}: knill_laflamme_inner_product, error #{i} {sparse_to_str(n, errs[i], gate_name)}: deviation {D[i]}',
                         dict(code=name, op='knill_laflamme_inner_product', error_index=i, error=sparse_to_str(n, errs[i], gate_name)))
            else:
                ctx.probe_ok((tag, 'kl-lib', len(errs)))
            loss = numqi.qec.knill_laflamme_loss(M, 'L2')
            if abs(loss) > 1e-12:
                ctx.fail(f'{tag}:kl-loss', f'{name}: knill_laflamme_loss = {loss}', dict(code=name, op='knill_laflamme_loss', value=float(loss)))
            else:
                ctx.probe_ok((tag, 'kl-loss'))
        except Exception as e:
            ctx.fail(f'{tag}:kl-raises', f'{name}: knill_laflamme_inner_product raised {type(e).__name__}: {e}', dict(code=name, op='knill_laflamme_inner_product'))
    # listed strings (AST) fix every code word; shipped circuits implement exactly those strings
    listed = c['listed']
    circs = c['live']['stabilizer']
    if listed is None or len(listed) != len(circs) or not listed:
        # the translator could not observe the listed strings: a broken tie (the Lean obligation `listedCheck` is false for an
        # empty list), NOT a failing input of the library; the circuits are still probed below
        ctx.note(f'{name}: listed strings not recoverable at run time ({c.get("listed_how")}); AST cross-check: {c.get("listed_ast")}')
        ctx.disagree(f'C19 translator-listed {tag}', 'listed strings of the generator could not be observed', str(c.get('listed_how')))
        listed = []
    for j, s in enumerate(listed):
        if len(s) != n or not set(s) <= set('IXYZ'):
            ctx.fail(f'{tag}:listed-malformed', f'{name}: listed string {s!r} is not a {n}-qubit Pauli word', dict(code=name, op='listed', string=s))
            continue
        r = np.abs(pauli_apply(s, code) - code).max(axis=1)
        if r.max() > 1e-9:
            a = int(np.argmax(r))
            ctx.fail(f'{tag}:listed-fix', f'{name}: listed stabilizer {s} does not fix code word {a} (|S c - c| = {r[a]:.3g})',
                     dict(code=name, op='listed_fixes', string=s, codeword=a))
        else:
            ctx.probe_ok((tag, 'listed', j))
    for j, circ in enumerate(circs):
        s = listed[j] if j < len(listed) else None
        # on the code words
        try:
            img = np.stack([circ.apply_state(q0.copy()) for q0 in code])
        except Exception as e:
            ctx.fail(f'{tag}:stab-circuit-raises', f'{name}: stabilizer circuit {j} raised {type(e).__name__}: {e}', dict(code=name, op='stabilizer_circuit', index=j))
            continue
        r = np.abs(img - code).max(axis=1)
        if r.max() > 1e-9:
            a = int(np.argmax(r))
            ctx.fail(f'{tag}:stab-circuit-fix', f'{name}: stabilizer circuit {j} ({s}) does not fix code word {a}',
                     dict(code=name, op='stabilizer_circuit_fixes', index=j, string=s, codeword=a))
        else:
            ctx.probe_ok((tag, 'circ-fix', j))
        # as an operator: the circuit's unitary (real simulator) equals the listed Pauli string, every entry
        # (11 qubits, quick tier: the columns |0>, |e_q> and 16 seeded ones instead of all 2048)
        if s is not None and len(s) == n and set(s) <= set('IXYZ'):
            if n <= 10 or not ctx.quick():
                Uc = stab_unitary(c, j)
                D = np.abs(Uc - pauli_matrix(s))
                cols = None
            else:
                N = 2 ** n
                cols = sorted(set([0] + [1 << q for q in range(n)] + [ctx.rng.randrange(N) for _ in range(16)]))
                E = np.zeros((len(cols), N), dtype=np.complex128)
                E[np.arange(len(cols)), cols] = 1
                Uc = np.stack([circ.apply_state(e.copy()) for e in E]).T      # selected columns
                D = np.abs(Uc - pauli_apply(s, E).T)
            if D.max() > 1e-9:
                r_, c_ = np.unravel_index(np.argmax(D), D.shape)
                col = int(c_) if cols is None else cols[int(c_)]
                ctx.fail(f'{tag}:stab-circuit-operator', f'{name}: stabilizer circuit {j} differs from its listed string {s}: entry ({r_},{col}) is {Uc[r_, c_]}',
                         dict(code=name, op='stabilizer_circuit_operator', index=j, string=s, row=int(r_), col=col, value=str(Uc[r_, c_]),
                              gates=[(g.name, str(idx)) for g, idx in circ.gate_index_list]))
            else:
                ctx.probe_ok((tag, 'circ-op', j))
    # check_stabilizer
    try:
        r = numqi.qec.check_stabilizer(circs, code)
        if r.shape != (K, len(circs)) or np.abs(r - 1).max() > 1e-9:
            ctx.fail(f'{tag}:check_stabilizer', f'{name}: check_stabilizer is not all ones (max dev {np.abs(r - 1).max():.3g})', dict(code=name, op='check_stabilizer'))
        else:
            ctx.probe_ok((tag, 'check_stabilizer'))
    except Exception as e:
        ctx.fail(f'{tag}:check_stabilizer', f'{name}: check_stabilizer raised {type(e).__name__}: {e}', dict(code=name, op='check_stabilizer'))


def probe_error_sets(ctx, nmax, dmax):
    import numqi
    for n in range(1, nmax + 1):
        for d in range(2, dmax + 1):
            want = sorted(all_errors(n, d))
            try:
                got = [sparse_to_str(n, e, gate_name) for e in numqi.qec.make_error_list(n, d)]
            except Exception as e:
                ctx.fail('make_error_list', f'make_error_list({n},{d}) raised {type(e).__name__}', dict(op='make_error_list', n=n, d=d)); continue
            if sorted(got) != want:
                missing = sorted(set(want) - set(got))[:3]; extra = sorted(set(got) - set(want))[:3]
                dup = sorted({x for x in got if got.count(x) > 1})[:3] if len(got) < 5000 else []
                ctx.fail('make_error_list', f'make_error_list({n},{d}): not every Pauli of weight 1..{d - 1} exactly once (missing {missing}, extra {extra}, duplicated {dup})',
                         dict(op='make_error_list', n=n, d=d, missing=missing, extra=extra, duplicated=dup))
            else:
                ctx.probe_ok(('errlist', n, d))
            if n <= 3:
                full = numqi.qec.make_error_list(n, d, tag_full=True)
                ok = len(full) == len(got) and all(np.array_equal(np.asarray(M), pauli_matrix(s)) for M, s in zip(full, got))
                if not ok:
                    ctx.fail('make_error_list:tag_full', f'make_error_list({n},{d},tag_full=True) matrices differ from the Kronecker products', dict(op='make_error_list', n=n, d=d, tag_full=True))
                else:
                    ctx.probe_ok(('errlist-full', n, d))
    from fractions import Fraction
    for n in range(1, min(nmax, 5) + 1):
        for d in range(1, dmax + 1):
            for p, q in ASYM_W:
                wz = Fraction(p, q)
                want = sorted(s for s in (''.join(t) for t in itertools.product('IXYZ', repeat=n))
                              if s != 'I' * n and (s.count('X') + s.count('Y')) + wz * s.count('Z') < d)
                try:
                    got = [sparse_to_str(n, e, gate_name) for e in numqi.qec.make_asymmetric_error_set(n, d, weight_z=p / q)]
                except Exception as e:
                    ctx.fail('make_asymmetric_error_set', f'make_asymmetric_error_set({n},{d},{p}/{q}) raised {type(e).__name__}', dict(op='make_asymmetric_error_set', n=n, d=d, weight_z=f'{p}/{q}')); continue
                if sorted(got) != want:
                    missing = sorted(set(want) - set(got))[:3]; extra = sorted(set(got) - set(want))[:3]
                    key = 'make_asymmetric_error_set:num_qubit<distance' if n < d else 'make_asymmetric_error_set'
                    ctx.fail(key, f'make_asymmetric_error_set({n},{d},weight_z={p}/{q}): not exactly the operators with nx+ny+cz*nz<d once each (missing {missing}, extra {extra})',
                             dict(op='make_asymmetric_error_set', n=n, d=d, weight_z=f'{p}/{q}', missing=missing, extra=extra))
                else:
                    ctx.probe_ok(('asym', n, d, p, q))


def probe_asym_float(ctx):
    """non-dyadic weight_z: with the weight at its exact binary64 value, nothing with nx+ny+w*nz >= d may be present and
    everything with nx+ny+w*nz <= d - 1e-9 must be present (strings within 1e-9 of the bound may go either way: the
    implementation decides them by a rounded quotient; Lean: asymmetric_set_float_spec)"""
    import numqi
    from fractions import Fraction
    for w in NONDYADIC_W:
        wq = Fraction(w)
        for n in range(1, 5):
            for d in range(1, 5):
                try:
                    got = [sparse_to_str(n, e, gate_name) for e in numqi.qec.make_asymmetric_error_set(n, d, weight_z=w)]
                except Exception as e:
                    ctx.fail('make_asymmetric_error_set', f'make_asymmetric_error_set({n},{d},{w!r}) raised {type(e).__name__}', dict(op='make_asymmetric_error_set', n=n, d=d, weight_z=repr(w))); continue
                allw = {s: (s.count('X') + s.count('Y')) + wq * s.count('Z') for s in (''.join(t) for t in itertools.product('IXYZ', repeat=n)) if s != 'I' * n}
                must = sorted(s for s, v in allw.items() if v <= d - Fraction(1, 10 ** 9))
                may = set(s for s, v in allw.items() if v < d)
                missing = sorted(set(must) - set(got))[:3]
                extra = sorted(set(got) - may)[:3]
                dup = len(got) != len(set(got))
                if missing or extra or dup:
                    ctx.fail('make_asymmetric_error_set', f'make_asymmetric_error_set({n},{d},weight_z={w!r}): missing {missing}, beyond the bound {extra}, duplicates {dup}',
                             dict(op='make_asymmetric_error_set', n=n, d=d, weight_z=repr(w), missing=missing, extra=extra, duplicates=dup))
                else:
                    ctx.probe_ok(('asymf', n, d, w))


def fingerprint(code):
    """(n, K, d, classified encoder gates, classified stabilizer-circuit gates) of a generate_code*() result"""
    enc = code.get('encode')
    stab = code.get('stabilizer')
    return dict(n=code.get('num_qubit'), K=code.get('num_logical_dim'), d=code.get('distance'),
                encode=None if enc is None else [classify_gate(g, idx) for g, idx in enc.gate_index_list],
                stab=None if stab is None else [[classify_gate(g, idx) for g, idx in c_.gate_index_list] for c_ in stab])


def fresh_code_failures(c, fresh, check_kl, full=False):
    """everything the first instantiation satisfied, evaluated on a freshly generated object (no model): returns a list of strings"""
    import numqi
    out = []
    n, K, d = c['n'], c['K'], c['d']
    want = dict(n=n, K=K, d=d, encode=c['encode'], stab=c['stab'])
    got = fingerprint(fresh)
    for k in ('n', 'K', 'd'):
        if got[k] != want[k]:
            out.append(f'{k} = {got[k]} (first instantiation: {want[k]})')
    if got['encode'] != want['encode']:
        enc = fresh.get('encode')
        out.append(f'encoder gate list differs from the first instantiation (num_qubit {getattr(enc, "num_qubit", None)}, {0 if got["encode"] is None else len(got["encode"])} gates; first: {n} qubits, {len(want["encode"])} gates)')
    if got['stab'] != want['stab']:
        j = next((i for i, (a, b) in enumerate(zip(got['stab'] or [], want['stab'])) if a != b), None)
        out.append(f'stabilizer circuits differ from the first instantiation (count {0 if got["stab"] is None else len(got["stab"])} vs {len(want["stab"])}, first difference at index {j}: {None if j is None else got["stab"][j]})')
    if not out and not full:
        # identical data to the first instantiation, on which every property has just been evaluated
        return out
    try:
        code = numqi.qec.generate_code_np(fresh['encode'], K)
        if code.shape != (K, 2 ** n):
            out.append(f'generate_code_np shape {code.shape}, expected {(K, 2 ** n)}')
        else:
            G = code.conj() @ code.T
            if np.abs(G - np.eye(K)).max() > 1e-9:
                out.append('code words not orthonormal')
            if check_kl:
                for s in all_errors(n, d):
                    M = code.conj() @ pauli_apply(s, code).T
                    if np.abs(M - M[0, 0] * np.eye(K)).max() > 1e-9:
                        out.append(f'Knill-Laflamme fails for error {s}'); break
            for j, (s, circ) in enumerate(zip(c['listed'] or [], fresh['stabilizer'])):
                if np.abs(pauli_apply(s, code) - code).max() > 1e-9:
                    out.append(f'listed stabilizer {s} does not fix the code words'); break
                img = np.stack([circ.apply_state(q0.copy()) for q0 in code])
                if img.shape != code.shape or np.abs(img - code).max() > 1e-9:
                    out.append(f'stabilizer circuit {j} ({s}) does not fix the code words'); break
                if n <= 8 and np.abs(circuit_unitary(circ, max(n, circ.num_qubit)) - (pauli_matrix(s) if circ.num_qubit <= n else 0)).max() > 1e-9:
                    out.append(f'stabilizer circuit {j} does not implement its listed string {s}'); break
    except Exception as e:
        out.append(f'evaluating the fresh object raised {type(e).__name__}: {e}')
    return out


def probe_history(ctx):
    """generators must return objects that do not depend on what was done with earlier results: use / mutate an earlier
    result through every public in-place API, then instantiate again and require the fresh object to equal the first
    translation and to satisfy the property.  Runs last (it may corrupt shared objects when the generators are not pure)."""
    import numqi
    codes = get_codes()
    rng = ctx.rng

    def extend_by_copy(r):
        # (a circuit must not be extended by itself: extend_circuit iterates the list it appends to)
        tmp = numqi.sim.Circuit()
        tmp.gate_index_list = list(r['encode'].gate_index_list)
        r['stabilizer'][-1].extend_circuit(tmp)

    def history_steps(c):
        K = c['K']
        kk = max(1, (K - 1).bit_length())
        return [
            ('result["encode"].shift_qubit_index_(2)', lambda r: r['encode'].shift_qubit_index_(2)),
            ('result["stabilizer"][0].shift_qubit_index_(1)', lambda r: r['stabilizer'][0].shift_qubit_index_(1)),
            (f'numqi.qec.VarQEC(result["encode"], {K}, numqi.qec.make_error_list({c["n"]}, 2))',
             lambda r: numqi.qec.VarQEC(r['encode'], K, numqi.qec.make_error_list(c['n'], 2))),
            ('result["encode"].X(0)', lambda r: r['encode'].X(0)),
            ('result["encode"].append_gate(result["encode"].gate_index_list[0][0], (1,))', lambda r: r['encode'].append_gate(r['encode'].gate_index_list[0][0], (1,))),
            ('tmp = Circuit(); tmp.gate_index_list = list(result["encode"].gate_index_list); result["stabilizer"][-1].extend_circuit(tmp)', extend_by_copy),
            ('result["stabilizer"].pop()', lambda r: r['stabilizer'].pop()),
            ('result["stabilizer"].append(result["encode"])', lambda r: r['stabilizer'].append(r['encode'])),
            ('result["encode"].gate_index_list.pop()', lambda r: r['encode'].gate_index_list.pop()),
            ('result["distance"] = 99; result["num_qubit"] = 1; del result["encode"]', lambda r: (r.__setitem__('distance', 99), r.__setitem__('num_qubit', 1), r.pop('encode'))),
            ('result["encode"].shift_qubit_index_(-1)', lambda r: r['encode'].shift_qubit_index_(-1)),
        ]

    for _, lname in CODES:
        c = codes.get(lname)
        if c is None or 'error' in c:
            continue
        gen = get_generator(c['fname'])
        steps = history_steps(c)
        # (a) each in-place API alone, (b) a seeded random sequence of three of them, (c) VarQEC used as the library intends
        plans = [[i] for i in range(len(steps))] + [rng.sample(range(len(steps)), 3)]
        bad = None
        for plan in plans:
            hist = [f'r = numqi.qec.{c["fname"]}()']
            try:
                r = gen()
                for i in plan:
                    hist.append(steps[i][0].replace('result', 'r'))
                    try:
                        steps[i][1](r)
                    except Exception as e:
                        hist[-1] += f'   # raised {type(e).__name__} (ignored)'
                hist.append(f'fresh = numqi.qec.{c["fname"]}()')
                fresh = gen()
                fails = fresh_code_failures(c, fresh, check_kl=(c['n'] <= 8), full=(plan == plans[-1] and c['n'] <= 6))
            except Exception as e:
                fails = [f'history raised {type(e).__name__}: {e}']
            if fails:
                bad = (hist, fails); break
            ctx.probe_ok((lname, 'history', tuple(plan)))
        if bad:
            hist, fails = bad
            ctx.fail(f'{lname}:history', f'{c["name"]}: after the history {hist} the freshly generated code is wrong: {fails[0]}',
                     dict(code=c['name'], op='history', history=hist, observed=fails))
    # library use as intended: VarQEC on a shipped encoder evaluates to loss 0 and reproduces the code words (small codes)
    for _, lname in CODES:
        c = codes.get(lname)
        if c is None or 'error' in c or c['n'] > 6:
            continue
        try:
            r = get_generator(c['fname'])()
            want = numqi.qec.generate_code_np(r['encode'], c['K'])
            model = numqi.qec.VarQEC(r['encode'], c['K'], numqi.qec.make_error_list(c['n'], c['d']))
            loss = float(model())
            r1 = get_generator(c['fname'])()
            loss1 = float(numqi.qec.VarQEC(r1['encode'], c['K'], numqi.qec.make_error_list(c['n'], c['d']), loss_type='L1')())
            loss = max(abs(loss), abs(loss1))
            got = model.get_code()
            if abs(loss) > 1e-12 or got.shape != want.shape or np.abs(got - want).max() > 1e-9:
                ctx.fail(f'{lname}:varqec', f'{c["name"]}: VarQEC on the shipped encoder: loss {loss}, code words differ from generate_code_np by {np.abs(got - want).max() if got.shape == want.shape else "shape"}',
                         dict(code=c['name'], op='VarQEC', loss=loss))
            else:
                ctx.probe_ok((lname, 'varqec'))
        except Exception as e:
            ctx.fail(f'{lname}:varqec', f'{c["name"]}: VarQEC on the shipped encoder raised {type(e).__name__}: {e}', dict(code=c['name'], op='VarQEC'))
    # two generators interleaved
    names = [l for _, l in CODES if codes.get(l) and 'error' not in codes[l]]
    for a, b in zip(names, names[1:] + names[:1]):
        ca, cb = codes[a], codes[b]
        hist = [f'ra = numqi.qec.{ca["fname"]}()', f'rb = numqi.qec.{cb["fname"]}()', 'ra["encode"].shift_qubit_index_(1)', 'rb["stabilizer"][0].shift_qubit_index_(2)',
                f'fa = numqi.qec.{ca["fname"]}()', f'fb = numqi.qec.{cb["fname"]}()']
        try:
            ra = get_generator(ca['fname'])(); rb = get_generator(cb['fname'])()
            ra['encode'].shift_qubit_index_(1); rb['stabilizer'][0].shift_qubit_index_(2)
            fa = get_generator(ca['fname'])(); fb = get_generator(cb['fname'])()
            fails = [f'{ca["name"]}: ' + x for x in fresh_code_failures(ca, fa, False)] + [f'{cb["name"]}: ' + x for x in fresh_code_failures(cb, fb, False)]
        except Exception as e:
            fails = [f'history raised {type(e).__name__}: {e}']
        if fails:
            ctx.fail(f'{a}:history', f'after the interleaved history {hist}: {fails[0]}', dict(op='history', history=hist, observed=fails))
        else:
            ctx.probe_ok((a, b, 'interleaved'))


def probe_kl_loss(ctx):
    """knill_laflamme_loss evaluated directly (no model): zero on arrays satisfying the Knill-Laflamme conditions, positive when
    an upper-triangle entry or the constancy of the diagonal is violated, and equal to its defining formula
    sum_{a<b} h|M_ab| + sum_a h|M_aa - mean_a M_aa| (h = id / square) on integer arrays — numpy and torch paths."""
    import numqi, torch
    rng = np.random.default_rng(ctx.np_seed + 23)
    for it in range(24 if ctx.quick() else 200):
        E, K = int(rng.integers(1, 5)), int(rng.integers(1, 5))
        kappa = rng.integers(-3, 4, size=E) + 1j * rng.integers(-3, 4, size=E)
        if it % 2 == 0:
            kappa[0] = 2 - 1j   # never all-zero
        M0 = np.stack([kappa[e] * np.eye(K) for e in range(E)]).astype(np.complex128)
        Mr = (rng.integers(-4, 5, size=(E, K, K)) + 1j * rng.integers(-4, 5, size=(E, K, K))).astype(np.complex128)
        for kind in ('L1', 'L2'):
            p = 1 if kind == 'L1' else 2
            ref = sum(abs(Mr[e, a, b]) ** p for e in range(E) for a in range(K) for b in range(a + 1, K)) \
                + sum(abs(Mr[e, a, a] - Mr[e].diagonal().mean()) ** p for e in range(E) for a in range(K))
            for path, conv in (('numpy', lambda x: x), ('torch', lambda x: torch.tensor(x))):
                tag = f'kl-loss:{path}:{kind}'
                try:
                    z = float(numqi.qec.knill_laflamme_loss(conv(M0), kind))
                    r = float(numqi.qec.knill_laflamme_loss(conv(Mr), kind))
                except Exception as e:
                    ctx.fail(tag, f'knill_laflamme_loss({path}, {kind}) raised {type(e).__name__}: {e}', dict(op='knill_laflamme_loss', path=path, kind=kind, shape=[E, K, K])); continue
                rep = lambda A: [[[[float(z_.real), float(z_.imag)] for z_ in row] for row in m] for m in A]
                if abs(z) > 1e-12:
                    ctx.fail(tag, f'knill_laflamme_loss = {z} on inner products kappa_e * identity (Knill-Laflamme holds), {path}, {kind}',
                             dict(op='knill_laflamme_loss', path=path, kind=kind, inner_product=rep(M0), value=z))
                elif abs(r - ref) > 1e-9 * max(1.0, abs(ref)):
                    ctx.fail(tag, f'knill_laflamme_loss = {r}, its definition gives {ref} ({path}, {kind}, shape {(E, K, K)})',
                             dict(op='knill_laflamme_loss', path=path, kind=kind, inner_product=rep(Mr), value=r, expected=float(ref)))
                else:
                    ctx.probe_ok((tag, it))
                # a violated condition must be seen
                if K >= 2:
                    Mv = M0.copy(); Mv[E - 1, 0, K - 1] = 1
                    Mw = M0.copy(); Mw[0, 0, 0] += 1
                    for nm, A in (('upper-triangle entry', Mv), ('non-constant diagonal', Mw)):
                        try:
                            v = float(numqi.qec.knill_laflamme_loss(conv(A), kind))
                        except Exception:
                            continue
                        if not v > 1e-9:
                            ctx.fail(tag, f'knill_laflamme_loss = {v} although the Knill-Laflamme conditions are violated ({nm}), {path}, {kind}',
                                     dict(op='knill_laflamme_loss', path=path, kind=kind, inner_product=rep(A), value=v))
                        else:
                            ctx.probe_ok()


def probe_corpus(ctx):
    """original witnesses of the repaired defects of this property (corpus/C19/*.json), replayed first in both tiers"""
    import numqi, glob, json
    from fractions import Fraction
    for f in sorted(glob.glob(os.path.join(common.VERIF, 'corpus', 'C19', '*.json'))):
        base = os.path.basename(f)
        for i, e in enumerate(json.load(open(f))['entries']):
            ctx.count('corpus')
            try:
                if e['kind'] == 'stabilizer_circuit_operator':
                    r = get_generator(e['generator'])()
                    circ = r['stabilizer'][e['index']]
                    s = e['string']
                    U = circuit_unitary(circ, len(s))
                    if np.abs(U - pauli_matrix(s)).max() > 1e-9:
                        ctx.fail('stabilizer-circuits:identity', f'{e["generator"]}()["stabilizer"][{e["index"]}] is not its listed string {s}' +
                                 (' (it is the identity)' if np.abs(U - np.eye(2 ** len(s))).max() < 1e-9 else ''),
                                 dict(op='stabilizer_circuit_operator', corpus=base, **e))
                    else:
                        ctx.probe_ok(('corpus', base, i))
                elif e['kind'] == 'parse_simple_pauli':
                    s = e['string']
                    circ = numqi.qec.parse_simple_pauli(s, tag_circuit=True)
                    if any(ch.isdigit() for ch in s):
                        import re as _re
                        toks = [(x[0], int(x[1:])) for x in _re.findall('[XYZI][0-9]+', s)]
                        n = max(q for _, q in toks) + 1
                        full = ['I'] * n
                        for ch, q in toks: full[q] = ch
                        full = ''.join(full)
                    else:
                        full = s
                    U = circuit_unitary(circ, len(full))
                    if np.abs(U - pauli_matrix(full)).max() > 1e-9:
                        ctx.fail('stabilizer-circuits:identity', f'parse_simple_pauli({s!r}) does not implement {full}', dict(op='parse_simple_pauli', corpus=base, **e))
                    else:
                        ctx.probe_ok(('corpus', base, i))
                elif e['kind'] == 'make_asymmetric_error_set':
                    w = Fraction(e['weight_z'])
                    got = [sparse_to_str(e['n'], x, gate_name) for x in numqi.qec.make_asymmetric_error_set(e['n'], e['d'], weight_z=float(w))]
                    missing = [x for x in e['must_contain'] if x not in got]
                    if missing:
                        ctx.fail('make_asymmetric_error_set:num_qubit<distance' if e['n'] < e['d'] else 'make_asymmetric_error_set',
                                 f'make_asymmetric_error_set({e["n"]},{e["d"]},weight_z={e["weight_z"]}) misses {missing}', dict(op='make_asymmetric_error_set', corpus=base, missing=missing, **e))
                    else:
                        ctx.probe_ok(('corpus', base, i))
            except Exception as ex:
                ctx.fail(f'corpus:{base}', f'corpus entry {i} of {base} raised {type(ex).__name__}: {ex}', dict(op='corpus', corpus=base, entry=e))


def gates_snapshot():
    import numqi
    return {k: np.array(getattr(numqi.gate, k), copy=True) for k in ('X', 'Y', 'Z', 'H', 'S', 'CNOT') if hasattr(numqi.gate, k)}


def probe_aliasing_dtype(ctx):
    """ALIASING: every library call leaves its array / circuit / error-list arguments and the module-level gate constants
    bit-identical, the same call on the very same objects gives the identical result twice, outputs can be fed back as inputs.
    DTYPE: complex64 code words, non-contiguous views, torch inputs, integer / float basis states (encoders with real gates).
    BOUNDARY: number of code words not a power of two."""
    import numqi, torch
    codes = get_codes()

    def same(a, b):
        a, b = np.asarray(a), np.asarray(b)
        return a.shape == b.shape and a.dtype == b.dtype and np.array_equal(a, b)

    for lname in ('code523', 'code422', 'code442', 'code642'):
        c = codes.get(lname)
        if c is None or 'error' in c:
            continue
        name, n, K, d = c['name'], c['n'], c['K'], c['d']
        tag = f'{lname}:aliasing'
        try:
            r = get_generator(c['fname'])()
            circ, stabs = r['encode'], r['stabilizer']
            fp0 = fingerprint(r)
            g0 = gates_snapshot()
            code = numqi.qec.generate_code_np(circ, K)
            code_again = numqi.qec.generate_code_np(circ, K)
            errs = numqi.qec.make_error_list(n, d)
            errs_fp = [[(tuple(i), np.array(g, copy=True)) for i, g in e] for e in errs]
            snap = code.copy()
            calls = [
                ('generate_code_np twice', lambda: code_again, lambda: code),
                ('check_stabilizer', lambda: numqi.qec.check_stabilizer(stabs, code), None),
                ('knill_laflamme_inner_product', lambda: numqi.qec.knill_laflamme_inner_product(code, errs), None),
                ('knill_laflamme_inner_product(torch)', lambda: numqi.qec.knill_laflamme_inner_product(torch.tensor(code), errs).numpy(), None),
                ('quantum_weight_enumerator', (lambda: np.stack(numqi.qec.quantum_weight_enumerator(code))) if n <= 5 else None, None),
                ('degeneracy', (lambda: numqi.qec.degeneracy(code[0])) if n <= 5 else None, None),
                ('encode.apply_state', lambda: circ.apply_state(code[0]), None),
                ('stabilizer.apply_state', lambda: stabs[0].apply_state(code[K - 1]), None),
            ]
            for nm, f, g in calls:
                if f is None:
                    continue
                a = f(); b = g() if g else f()
                bad = None
                if not (np.asarray(a).shape == np.asarray(b).shape and np.array_equal(np.asarray(a), np.asarray(b))):
                    bad = 'two identical calls give different results'
                elif not same(code, snap):
                    bad = 'the code-word array passed in was modified'
                elif fingerprint(r) != fp0:
                    bad = 'the circuits passed in were modified'
                elif any(not np.array_equal(g0[k], getattr(numqi.gate, k)) for k in g0):
                    bad = 'a module-level gate constant was modified'
                elif any(tuple(i) != i0 or not np.array_equal(g_, g1) for e, e0 in zip(errs, errs_fp) for (i, g_), (i0, g1) in zip(e, e0)) or len(errs) != len(errs_fp):
                    bad = 'the error list passed in was modified'
                if bad:
                    ctx.fail(tag, f'{name}: {nm}: {bad}', dict(code=name, op='aliasing', call=nm, observed=bad))
                    code = snap.copy()
                else:
                    ctx.probe_ok((tag, nm))
            # outputs as inputs, non-contiguous views, complex64
            M = numqi.qec.knill_laflamme_inner_product(code, errs)
            ref_chk = numqi.qec.check_stabilizer(stabs, code)
            big = np.zeros((K, 2 ** (n + 1)), dtype=np.complex128); big[:, ::2] = code
            view = big[:, ::2]
            fort = np.asfortranarray(code)
            for nm, arr, tol in (('non-contiguous view', view, 1e-12), ('Fortran-ordered', fort, 1e-12), ('complex64', code.astype(np.complex64), 2e-6)):
                try:
                    before = arr.copy()
                    M2 = numqi.qec.knill_laflamme_inner_product(arr, errs)
                    chk2 = numqi.qec.check_stabilizer(stabs, arr)
                    ok = np.abs(M2 - M).max() <= tol and np.abs(chk2 - ref_chk).max() <= tol and np.array_equal(arr, before)
                    if n <= 5:
                        A1, B1 = numqi.qec.quantum_weight_enumerator(code); A2, B2 = numqi.qec.quantum_weight_enumerator(arr)
                        ok = ok and np.abs(A1 - A2).max() <= max(tol, 1e-12) * 4 ** n and np.abs(B1 - B2).max() <= max(tol, 1e-12) * 4 ** n
                    if not ok:
                        ctx.fail(f'{lname}:dtype-layout', f'{name}: results change (or the input is modified) for {nm} code words', dict(code=name, op='dtype-layout', variant=nm))
                    else:
                        ctx.probe_ok((lname, 'layout', nm))
                except Exception as ex:
                    ctx.fail(f'{lname}:dtype-layout', f'{name}: {nm} code words raise {type(ex).__name__}: {ex}', dict(code=name, op='dtype-layout', variant=nm))
            # loss of the library's own inner products, fed back
            for kind in ('L1', 'L2'):
                v = float(numqi.qec.knill_laflamme_loss(M, kind))
                if abs(v) > 1e-12 or not np.array_equal(M, numqi.qec.knill_laflamme_inner_product(code, errs)):
                    ctx.fail(f'{lname}:kl-loss', f'{name}: knill_laflamme_loss({kind}) of the library inner products = {v}', dict(code=name, op='knill_laflamme_loss', kind=kind, value=v))
                else:
                    ctx.probe_ok((lname, 'loss-fed-back', kind))
            # integer / real / single-precision basis states through every encoder (incl. complex controlled gates:
            # sim.state.apply_control_n_gate lost the imaginary part on real-dtype states before the C03 repair)
            if True:
                for dt in (np.int64, np.float64, np.float32, np.complex64):
                    q0 = np.zeros(2 ** n, dtype=dt); q0[K - 1] = 1
                    keep = q0.copy()
                    got = circ.apply_state(q0)
                    tol = 1e-6 if dt in (np.float32, np.complex64) else 1e-9
                    if np.abs(got - code[K - 1]).max() > tol or not np.array_equal(q0, keep):
                        ctx.fail(f'{lname}:dtype-basis-state', f'{name}: encoder applied to a {np.dtype(dt).name} basis state differs from the code word by {np.abs(got - code[K - 1]).max():.3g} (or modifies its input)',
                                 dict(code=name, op='apply_state', dtype=np.dtype(dt).name, basis_state=K - 1))
                    else:
                        ctx.probe_ok((lname, 'basis-dtype', np.dtype(dt).name))
            # number of code words not a power of two: the first K-1 (or 3) code words
            K2 = 3 if K >= 4 else None
            if K2:
                sub = numqi.qec.generate_code_np(circ, K2)
                if sub.shape != (K2, 2 ** n) or np.abs(sub - code[:K2]).max() > 0:
                    ctx.fail(f'{lname}:K-not-power-of-two', f'{name}: generate_code_np(circ, {K2}) is not the first {K2} code words', dict(code=name, op='generate_code_np', K=K2))
                else:
                    ctx.probe_ok((lname, 'K3'))
                r1 = guarded(lambda: numqi.qec.knill_laflamme_inner_product(sub, errs).shape)
                ctx.count('K3-kl-' + str(r1)[:20])
        except Exception as ex:
            ctx.fail(tag, f'{name}: aliasing/dtype probe raised {type(ex).__name__}: {ex}', dict(code=name, op='aliasing'))


# ---------------------------------------------------------------------------
# BUFFER REUSE ACROSS CALLS: a result must not be changed by a later call with a different input of the same size
# ---------------------------------------------------------------------------
def _norm_index(ix):
    if isinstance(ix, (set, frozenset)):
        return ('set', tuple(sorted(_norm_index(x) for x in ix)))
    if isinstance(ix, (list, tuple)):
        return (type(ix).__name__, tuple(_norm_index(x) for x in ix))
    if isinstance(ix, (np.integer,)):
        return int(ix)
    return ix


def br_snapshot(obj):
    """a deep, comparable copy of a result: arrays/tensors as (dtype, shape, bytes), containers recursively, circuits as
    their gate lists (kind, array, index)"""
    import torch
    if isinstance(obj, np.ndarray):
        return ('nd', obj.dtype.str, obj.shape, np.ascontiguousarray(obj).tobytes())
    if isinstance(obj, torch.Tensor):
        t = obj.detach().cpu().numpy()
        return ('tensor', str(obj.dtype), tuple(t.shape), np.ascontiguousarray(t).tobytes())
    if isinstance(obj, dict):
        return ('dict', tuple((repr(k), br_snapshot(v)) for k, v in sorted(obj.items(), key=lambda kv: repr(kv[0]))))
    if isinstance(obj, (list, tuple)):
        return (type(obj).__name__, tuple(br_snapshot(x) for x in obj))
    if hasattr(obj, 'gate_index_list'):
        return ('circuit', tuple((getattr(g, 'kind', None), br_snapshot(np.asarray(getattr(g, 'array', None))), _norm_index(ix)) for g, ix in obj.gate_index_list))
    if isinstance(obj, (set, frozenset)):
        return _norm_index(obj)
    if isinstance(obj, (np.generic,)):
        return ('scalar', obj.dtype.str, obj.tobytes())
    if obj is None or isinstance(obj, (bool, int, float, complex, str, bytes)):
        return obj
    return ('repr', repr(obj))


def br_leaves(obj, path='r'):
    """(array leaves [(path, ndarray sharing memory with the leaf)], mutable containers [(path, object)])"""
    import torch
    arrs, conts = [], []

    def walk(o, p):
        if isinstance(o, np.ndarray):
            arrs.append((p, o))
        elif isinstance(o, torch.Tensor):
            try:
                arrs.append((p, o.detach().numpy()))
            except Exception:
                pass
        elif isinstance(o, dict):
            conts.append((p, o))
            for k, v in o.items():
                walk(v, f'{p}[{k!r}]')
        elif isinstance(o, (list, tuple)):
            if isinstance(o, list):
                conts.append((p, o))
            for i, v in enumerate(o):
                walk(v, f'{p}[{i}]')
        elif hasattr(o, 'gate_index_list'):
            conts.append((p, o))
            conts.append((p + '.gate_index_list', o.gate_index_list))
            for i, (g, ix) in enumerate(o.gate_index_list):
                a_ = getattr(g, 'array', None)
                if isinstance(a_, np.ndarray):
                    arrs.append((f'{p}.gate_index_list[{i}][0].array', a_))
    walk(obj, path)
    return arrs, conts


_br_consts = None


def br_is_const(arr):
    """does the array live in a module-level constant of numqi.gate (X, Y, Z, H, …, pauli.s0…)?  Error lists and circuits refer
    to these constants by design; sharing *them* between two results is not buffer reuse."""
    global _br_consts
    import numqi
    if _br_consts is None:
        cs = []
        for holder in (numqi.gate, getattr(numqi.gate, 'pauli', None)):
            if holder is None:
                continue
            for k in dir(holder):
                try:
                    v = getattr(holder, k)
                except Exception:
                    continue
                if isinstance(v, np.ndarray):
                    cs.append(v)
        _br_consts = cs
    return any(np.shares_memory(arr, c_) for c_ in _br_consts)


def br_scribble(obj):
    """mutate a result in place through what the caller holds: overwrite every array that is not a module constant, empty the
    lists / dicts / circuits"""
    arrs, conts = br_leaves(obj)
    for _, a_ in arrs:
        if a_.size and a_.flags.writeable and not br_is_const(a_):
            try:
                a_[...] = (a_ + 7) if a_.dtype.kind in 'iufc' else a_
                if a_.dtype.kind in 'fc':
                    a_.flat[0] = np.nan
            except Exception:
                pass
    for _, o in reversed(conts):
        try:
            if isinstance(o, list):
                del o[len(o) // 2:]
            elif isinstance(o, dict):
                for k in list(o)[:1]:
                    del o[k]
        except Exception:
            pass


def buffer_reuse_case(ctx, fn, descA, descB, fA, fB, holdsA=None):
    """r1 = f(A); c1 = snapshot; r2 = f(B), B != A of the same size.  (i) r1 still equals c1 bit for bit, (ii) r1 is not r2 and
    shares no memory / mutable container with r2 (module-level gate constants excepted), (iii) r1 still satisfies the property
    for A.  Then f(A) -> scribble over the result -> f(B), f(A): both equal their first values.  Failing input: the history."""
    key = f'{fn}:result-overwritten-by-next-call'
    rp = dict(op='buffer-reuse', function=fn, history=[descA, descB])
    try:
        r1 = fA()
        c1 = br_snapshot(r1)
        r2 = fB()
        c2 = br_snapshot(r2)
        if c1 == c2:
            ctx.note(f'buffer-reuse {fn}: {descA} and {descB} give identical results; pair not discriminating')
        bad = None
        if br_snapshot(r1) != c1:
            bad = f'the result of {descA} changed when {descB} was evaluated'
        if bad is None and r1 is r2 and not isinstance(r1, (int, float, complex, str, tuple, type(None))):
            bad = f'{descA} and {descB} return the same object'
        if bad is None:
            a1, k1 = br_leaves(r1); a2, k2 = br_leaves(r2)
            for p1, x in a1:
                if x.size == 0 or br_is_const(x):
                    continue
                hit = next((p2 for p2, y in a2 if y.size and np.shares_memory(x, y)), None)
                if hit is not None:
                    bad = f'{p1} of {descA} shares memory with {hit.replace("r", "r2", 1)} of {descB}'; break
            if bad is None:
                ids2 = {id(o): p2 for p2, o in k2}
                hit = next(((p1, ids2[id(o)]) for p1, o in k1 if id(o) in ids2), None)
                if hit is not None:
                    bad = f'{hit[0]} of {descA} is the same mutable object as {hit[1].replace("r", "r2", 1)} of {descB}'
        if bad is None and holdsA is not None:
            why = holdsA(r1)
            if why:
                bad = f'after {descB}, the result of {descA} no longer satisfies the property: {why}'
        if bad is None:
            # mutate-then-call-again: f(A) -> scribble -> f(B) -> f(A)
            r = fA(); br_scribble(r)
            rb = fB(); ra = fA()
            if br_snapshot(rb) != c2:
                bad = f'after {descA} was evaluated and its result modified in place by the caller, {descB} gives a different result'
                rp = dict(rp, history=[descA, 'modify the result in place', descB])
            elif br_snapshot(ra) != c1:
                bad = f'after {descA} was evaluated and its result modified in place by the caller, {descA} gives a different result'
                rp = dict(rp, history=[descA, 'modify the result in place', descB, descA])
        if bad:
            ctx.fail(key, f'{fn}: {bad}', dict(rp, observed=bad))
        else:
            ctx.probe_ok(('buffer-reuse', fn, descA, descB))
    except Exception as ex:
        ctx.fail(key, f'{fn}: history [{descA}, {descB}] raised {type(ex).__name__}: {ex}', dict(rp, observed=f'{type(ex).__name__}: {ex}'))


BUFFER_REUSE_FUNCTIONS = []


def probe_buffer_reuse(ctx):
    """deterministic block (both tiers): every public function in scope that returns an array / tensor / list / dict / circuit,
    on pairs of different inputs of the same size, numpy and torch, and interleaved calls on two stateful objects."""
    import numqi, torch
    codes = get_codes()
    ok = lambda l: codes.get(l) is not None and 'error' not in codes[l]
    covered = []

    def case(fn, *a, **kw):
        if fn not in covered:
            covered.append(fn)
        buffer_reuse_case(ctx, fn, *a, **kw)

    def code_holds(c, check_kl=True):
        return lambda r: (fresh_code_failures(c, r, check_kl, full=True) or [None])[0]

    # generate_code* of different codes on the same number of qubits (and, as a size-independent pair, the neighbours in the list)
    by_n = {}
    for _, l in CODES:
        if ok(l):
            by_n.setdefault(codes[l]['n'], []).append(l)
    pairs = [(a, b) for ls in by_n.values() for a in ls for b in ls if a != b and codes[a]['n'] <= 8]
    pairs += [(a, b) for a, b in (('code523', 'code422'), ('code642', 'code523')) if ok(a) and ok(b)]
    for a, b in pairs:
        ca, cb = codes[a], codes[b]
        case(f'numqi.qec.{ca["fname"]}', f'numqi.qec.{ca["fname"]}()', f'numqi.qec.{cb["fname"]}()',
             get_generator(ca['fname']), get_generator(cb['fname']), code_holds(ca, ca['n'] <= 6))

    def codewords(l, K=None):
        c = codes[l]
        return np.array(numqi.qec.generate_code_np(get_generator(c['fname'])()['encode'], K or c['K']), copy=True)

    def cw_holds(l, K):
        c = codes[l]
        def f(r):
            r = np.asarray(r)
            if r.shape != (K, 2 ** c['n']):
                return f'shape {r.shape}'
            if np.abs(r.conj() @ r.T - np.eye(K)).max() > 1e-9:
                return 'code words not orthonormal'
            for s_ in c['listed'] or []:
                if np.abs(pauli_apply(s_, r) - r).max() > 1e-9:
                    return f'listed stabilizer {s_} does not fix the code words'
            return None
        return f

    if ok('code422') and ok('code442'):
        e422 = get_generator(codes['code422']['fname'])()['encode']
        e442 = get_generator(codes['code442']['fname'])()['encode']
        for (la, ea), (lb, eb) in ((('code422', e422), ('code442', e442)), (('code442', e442), ('code422', e422))):
            case('numqi.qec.generate_code_np', f'generate_code_np({codes[la]["fname"]}()["encode"], 2)', f'generate_code_np({codes[lb]["fname"]}()["encode"], 2)',
                 lambda ea=ea: numqi.qec.generate_code_np(ea, 2), lambda eb=eb: numqi.qec.generate_code_np(eb, 2), cw_holds(la, 2))
        cwA, cwB = codewords('code422'), codewords('code442', 2)
        errs4 = numqi.qec.make_error_list(4, 2)

        def kl_holds(r):
            M = np.asarray(r.detach().numpy() if isinstance(r, torch.Tensor) else r)
            if M.shape != (len(errs4), 2, 2):
                return f'shape {M.shape}'
            D = np.abs(M - M[:, :1, :1] * np.eye(2)).max()
            return None if D < 1e-9 else f'a Knill-Laflamme matrix of ((4,2,2)) is not scalar (deviation {D:.3g})'
        case('numqi.qec.knill_laflamme_inner_product', 'knill_laflamme_inner_product(code words of ((4,2,2)), make_error_list(4,2))',
             'knill_laflamme_inner_product(first 2 code words of ((4,4,2)), make_error_list(4,2))',
             lambda: numqi.qec.knill_laflamme_inner_product(cwA, errs4), lambda: numqi.qec.knill_laflamme_inner_product(cwB, errs4), kl_holds)
        tA, tB = torch.tensor(cwA), torch.tensor(cwB)
        case('numqi.qec.knill_laflamme_inner_product[torch]', 'knill_laflamme_inner_product(torch code words of ((4,2,2)), make_error_list(4,2))',
             'knill_laflamme_inner_product(torch, first 2 code words of ((4,4,2)), make_error_list(4,2))',
             lambda: numqi.qec.knill_laflamme_inner_product(tA, errs4), lambda: numqi.qec.knill_laflamme_inner_product(tB, errs4), kl_holds)
        MA = numqi.qec.knill_laflamme_inner_product(cwA, errs4)
        MB = MA + np.arange(MA.size).reshape(MA.shape) * (1 + 0.5j)
        for kind in ('L2', 'L1'):
            case(f'numqi.qec.knill_laflamme_loss[torch,{kind}]', f'knill_laflamme_loss(torch KL matrices of ((4,2,2)), {kind!r})', f'knill_laflamme_loss(torch, a perturbed array of the same shape, {kind!r})',
                 lambda kind=kind: numqi.qec.knill_laflamme_loss(torch.tensor(MA), kind), lambda kind=kind: numqi.qec.knill_laflamme_loss(torch.tensor(MB), kind),
                 lambda r: None if abs(float(r)) < 1e-12 else f'loss {float(r)} != 0')

        def we_holds(r):
            A, B = np.asarray(r[0]), np.asarray(r[1])
            wa, wb = 2 ** 4 / 2 - 1, 2 ** 4 * 2 - 1
            return None if abs(A.sum() - wa) < 1e-8 and abs(B.sum() - wb) < 1e-8 else f'sum A = {A.sum()}, sum B = {B.sum()} (want {wa}, {wb})'
        case('numqi.qec.quantum_weight_enumerator', 'quantum_weight_enumerator(code words of ((4,2,2)))', 'quantum_weight_enumerator(first 2 code words of ((4,4,2)))',
             lambda: numqi.qec.quantum_weight_enumerator(cwA), lambda: numqi.qec.quantum_weight_enumerator(cwB), we_holds)
        s422 = get_generator(codes['code422']['fname'])()['stabilizer']
        case('numqi.qec.check_stabilizer', 'check_stabilizer(stabilizer circuits of ((4,2,2)), its code words)', 'check_stabilizer(the same circuits, first 2 code words of ((4,4,2)))',
             lambda: numqi.qec.check_stabilizer(s422, cwA), lambda: numqi.qec.check_stabilizer(s422, cwB),
             lambda r: None if np.abs(np.asarray(r) - 1).max() < 1e-9 else 'check_stabilizer of ((4,2,2)) is not all ones')
        q0, q1 = np.zeros(16, dtype=np.complex128), np.zeros(16, dtype=np.complex128)
        q0[0] = 1; q1[1] = 1
        case('Circuit.apply_state', 'generate_code422()["encode"].apply_state(|0000>)', 'generate_code422()["encode"].apply_state(|0001>)',
             lambda: e422.apply_state(q0.copy()), lambda: e422.apply_state(q1.copy()),
             lambda r: None if np.abs(np.asarray(r) - cwA[0]).max() < 1e-9 else 'not the first code word')
        # VarQEC: two models of the same size, interleaved
        try:
            mA = numqi.qec.VarQEC(get_generator(codes['code422']['fname'])()['encode'], 2, errs4)
            mB = numqi.qec.VarQEC(get_generator(codes['code442']['fname'])()['encode'], 2, errs4)
            case('numqi.qec.VarQEC.get_code', 'VarQEC(generate_code422()["encode"], 2, make_error_list(4,2)).get_code()', 'VarQEC(generate_code442()["encode"], 2, make_error_list(4,2)).get_code()',
                 lambda: mA.get_code(), lambda: mB.get_code(), cw_holds('code422', 2))
            case('numqi.qec.VarQEC.forward', 'VarQEC(generate_code422()["encode"], 2, make_error_list(4,2))()', 'VarQEC(generate_code442()["encode"], 2, make_error_list(4,2))()   # second object',
                 lambda: mA(), lambda: mB(), lambda r: None if abs(float(r)) < 1e-12 else f'loss {float(r)} != 0')
        except Exception as ex:
            ctx.fail('numqi.qec.VarQEC.get_code:result-overwritten-by-next-call', f'VarQEC construction raised {type(ex).__name__}: {ex}', dict(op='buffer-reuse', function='numqi.qec.VarQEC'))
    if ok('code883') and ok('code8_64_2'):
        e883 = get_generator(codes['code883']['fname'])()['encode']
        e864 = get_generator(codes['code8_64_2']['fname'])()['encode']
        case('numqi.qec.generate_code_np', 'generate_code_np(generate_code883()["encode"], 8)', 'generate_code_np(generate_code8_64_2()["encode"], 8)',
             lambda: numqi.qec.generate_code_np(e883, 8), lambda: numqi.qec.generate_code_np(e864, 8), cw_holds('code883', 8))
    if ok('code523'):
        cw5 = codewords('code523')
        def deg_holds(r):
            ev = np.sort(np.asarray(r).real)
            return None if ev.shape == (16,) and np.abs(ev - 1).max() < 1e-9 else f'eigenvalues of the Gram matrix of a non-degenerate code: {ev[:3]}…'
        other = np.cos(np.arange(32) * 0.37) + 1j * np.sin(np.arange(32) * 0.91)
        other = other / np.linalg.norm(other)
        case('numqi.qec.degeneracy', 'degeneracy(code word 0 of ((5,2,3)))', 'degeneracy(v), v[j] = (cos(0.37 j) + i sin(0.91 j)) / norm, 32 entries',
             lambda: numqi.qec.degeneracy(cw5[0]), lambda: numqi.qec.degeneracy(other), deg_holds)

    # error sets: different parameters giving lists of the same length (15 = 3*5 = 3*2 + 9), same matrix shape for tag_full
    def errlist_holds(n, d):
        want = sorted(all_errors(n, d))
        return lambda r: None if sorted(sparse_to_str(n, e, gate_name) for e in r) == want else f'not every Pauli of weight 1..{d - 1} on {n} qubits exactly once'
    for (na, da), (nb, db) in (((2, 3), (5, 2)), ((5, 2), (2, 3)), ((3, 2), (3, 3)), ((4, 2), (4, 3))):
        case('numqi.qec.make_error_list', f'make_error_list({na}, {da})', f'make_error_list({nb}, {db})',
             lambda na=na, da=da: numqi.qec.make_error_list(na, da), lambda nb=nb, db=db: numqi.qec.make_error_list(nb, db), errlist_holds(na, da))

    def full_holds(n, d):
        want = [pauli_matrix(s_) for s_ in (sparse_to_str(n, e, gate_name) for e in numqi.qec.make_error_list(n, d))]
        return lambda r: None if len(r) == len(want) and all(np.array_equal(np.asarray(a_), b_) for a_, b_ in zip(r, want)) else 'matrices are not the Kronecker products of the listed errors'
    for (na, da), (nb, db) in (((2, 2), (2, 3)), ((2, 3), (2, 2)), ((3, 2), (3, 3))):
        case('numqi.qec.make_error_list[tag_full]', f'make_error_list({na}, {da}, tag_full=True)', f'make_error_list({nb}, {db}, tag_full=True)',
             lambda na=na, da=da: numqi.qec.make_error_list(na, da, tag_full=True), lambda nb=nb, db=db: numqi.qec.make_error_list(nb, db, tag_full=True), full_holds(na, da))
    case('numqi.qec.make_error_list[op_list]', 'make_error_list(3, 3, op_list=[X, Z])', 'make_error_list(3, 3, op_list=[Y, Z])',
         lambda: numqi.qec.make_error_list(3, 3, op_list=[numqi.gate.X, numqi.gate.Z]), lambda: numqi.qec.make_error_list(3, 3, op_list=[numqi.gate.Y, numqi.gate.Z]),
         lambda r: None if sorted(sparse_to_str(3, e, gate_name) for e in r) == sorted(s_ for s_ in all_errors(3, 3) if 'Y' not in s_) else 'not the X/Z strings of weight 1..2')
    from fractions import Fraction

    def asym_holds(n, d, w):
        wz = Fraction(w).limit_denominator(64)
        want = sorted(s_ for s_ in (''.join(t_) for t_ in itertools.product('IXYZ', repeat=n))
                      if s_ != 'I' * n and (s_.count('X') + s_.count('Y')) + wz * s_.count('Z') < d)
        return lambda r: None if sorted(sparse_to_str(n, e, gate_name) for e in r) == want else f'not exactly the operators with nx+ny+{w}*nz<{d}, once each'
    cand = [(3, 2, 1.0), (3, 2, 0.5), (3, 3, 2.0), (3, 3, 1.5), (3, 2, 0.25), (2, 3, 1.0), (2, 2, 0.5), (2, 3, 2.0)]
    try:
        lens = {p_: len(numqi.qec.make_asymmetric_error_set(*p_)) for p_ in cand}
    except Exception:
        lens = {}
    apairs = [(a, b) for a in cand for b in cand if a != b and lens.get(a) == lens.get(b) and a[0] == b[0]][:4]
    apairs += [((3, 2, 0.5), (3, 3, 2.0)), ((2, 3, 1.0), (2, 2, 0.5))]
    for pa, pb in apairs:
        case('numqi.qec.make_asymmetric_error_set', f'make_asymmetric_error_set{pa}', f'make_asymmetric_error_set{pb}',
             lambda pa=pa: numqi.qec.make_asymmetric_error_set(*pa), lambda pb=pb: numqi.qec.make_asymmetric_error_set(*pb), asym_holds(*pa))

    # parsers
    def circ_is(s_):
        def f(r):
            try:
                U = circuit_unitary(r, len(s_))
            except Exception as ex:
                return f'not a circuit on {len(s_)} qubits ({type(ex).__name__})'
            return None if np.abs(U - pauli_matrix(s_)).max() < 1e-12 else f'circuit is not the operator {s_}'
        return f
    for sa, sb in (('XIYXX', 'IZZXZ'), ('IZZXZ', 'XIYXX'), ('XZ', 'ZY')):
        case('numqi.qec.parse_simple_pauli', f'parse_simple_pauli({sa!r})', f'parse_simple_pauli({sb!r})',
             lambda sa=sa: numqi.qec.parse_simple_pauli(sa), lambda sb=sb: numqi.qec.parse_simple_pauli(sb), circ_is(sa))
    case('numqi.qec.parse_simple_pauli[indexed]', "parse_simple_pauli('X0Y2X3X4')", "parse_simple_pauli('Z1Z2X3Z4')",
         lambda: numqi.qec.parse_simple_pauli('X0Y2X3X4'), lambda: numqi.qec.parse_simple_pauli('Z1Z2X3Z4'), circ_is('XIYXX'))
    case('numqi.qec.parse_simple_pauli[tag_circuit=False]', "parse_simple_pauli('XIYXX', tag_circuit=False)", "parse_simple_pauli('IZZXZ', tag_circuit=False)",
         lambda: numqi.qec.parse_simple_pauli('XIYXX', tag_circuit=False), lambda: numqi.qec.parse_simple_pauli('IZZXZ', tag_circuit=False),
         lambda r: None if ''.join({q_: gate_name(g_) for g_, q_ in r}.get(i_, 'I') for i_ in range(5)) == 'XIYXX' else 'not the operator XIYXX')
    case('numqi.qec.parse_str_qecc', "parse_str_qecc('((5,2,3))')", "parse_str_qecc('((4,2,2))')",
         lambda: numqi.qec.parse_str_qecc('((5,2,3))'), lambda: numqi.qec.parse_str_qecc('((4,2,2))'),
         lambda r: None if [int(r[k_]) for k_ in ('num_qubit', 'num_logical_dim', 'distance')] == [5, 2, 3] else f'not (5,2,3): {r}')
    BUFFER_REUSE_FUNCTIONS[:] = covered
    ctx.extra['buffer_reuse_functions'] = list(covered)


def probe_weight_enumerator(ctx, c):
    import numqi
    name, n, K, d = c['name'], c['n'], c['K'], c['d']
    code = real_codewords(c)
    try:
        if c['lname'] in _wenum_cache:
            A, B = _wenum_cache[c['lname']]       # the same call on the same code words, made by the `wenum` tie of this run
        else:
            A, B = numqi.qec.quantum_weight_enumerator(code)
    except Exception as e:
        ctx.fail(f'{c["lname"]}:weight-enumerator', f'{name}: quantum_weight_enumerator raised {type(e).__name__}: {e}', dict(code=name, op='quantum_weight_enumerator')); return
    if n <= 4:
        # non-default option: the progress-bar branch (total from scipy.special.binom) must give the same arrays
        try:
            import contextlib, io
            with contextlib.redirect_stderr(io.StringIO()):
                A2, B2 = numqi.qec.quantum_weight_enumerator(code, use_tqdm=True)
            if not (np.array_equal(A, A2) and np.array_equal(B, B2)):
                ctx.fail(f'{c["lname"]}:weight-enumerator-tqdm', f'{name}: quantum_weight_enumerator(use_tqdm=True) differs from use_tqdm=False', dict(code=name, op='quantum_weight_enumerator', use_tqdm=True))
            else:
                ctx.probe_ok((c['lname'], 'wenum-tqdm'))
        except Exception as e:
            ctx.fail(f'{c["lname"]}:weight-enumerator-tqdm', f'{name}: quantum_weight_enumerator(use_tqdm=True) raised {type(e).__name__}: {e}', dict(code=name, op='quantum_weight_enumerator', use_tqdm=True))
    # sum rules (weights 1..n only, A_0 = B_0 = 1 left out by the implementation); tolerance: sums of <= 4^n terms of size <= 1, each exact to ~1e-15
    sa, sb = A.sum(), B.sum()
    wa, wb = 2 ** n / K - 1, 2 ** n * K - 1
    tol = 1e-8 * max(1, wb)
    if abs(sa - wa) > tol or abs(sb - wb) > tol:
        ctx.fail(f'{c["lname"]}:weight-enumerator-sum', f'{name}: sum A = {sa} (want {wa}), sum B = {sb} (want {wb})', dict(code=name, op='weight_enumerator_sum', sumA=float(sa), sumB=float(sb)))
    else:
        ctx.probe_ok((c['lname'], 'wenum-sum'))
    if np.any(A > B + 1e-8) or np.any(np.abs(A[:d - 1] - B[:d - 1]) > 1e-8) or np.any(A < -1e-12):
        ctx.fail(f'{c["lname"]}:weight-enumerator-AB', f'{name}: need 0 <= A_j <= B_j and A_j = B_j for j < d; A={A.tolist()} B={B.tolist()}', dict(code=name, op='weight_enumerator_AB'))
    else:
        ctx.probe_ok((c['lname'], 'wenum-AB'))


def guarded_section(ctx, name, f, *a):
    """a crash inside a probe section is a reported failure, never an internal error of the check"""
    import time
    t0 = time.time()
    try:
        f(*a)
    except Exception as ex:
        import traceback
        ctx.fail(f'probe-crash:{name}', f'probe section {name} raised {type(ex).__name__}: {ex}', dict(op='probe-section', section=name, traceback=traceback.format_exc()[-1500:]))
    dt = time.time() - t0
    if dt >= 0.5:
        ctx.extra.setdefault('timing_probe_s', {})[name] = round(dt, 1)


def f2_dependency(vecs):
    """Gaussian elimination over F2 on integer bit vectors: (rank, indices of a dependent sub-family or None)"""
    basis = []      # (reduced vector, set of original indices combined)
    for i, v in enumerate(vecs):
        comb = {i}
        for b, bc in basis:
            if v ^ b < v:
                v ^= b; comb ^= bc
        if v == 0:
            return len(basis), sorted(comb)
        basis.append((v, comb))
    return len(basis), None


def probe_listed_independent(ctx, c):
    """the listed strings are independent, pairwise commuting Pauli operators, at most n - log2 K and at least as many as
    shipped: together with "each fixes every code word" a list of n - log2 K of them generates the whole stabilizer group."""
    listed = c.get('listed')
    n, K = c['n'], c['K']
    if listed is None or not all(len(s) == n and set(s) <= set('IXYZ') for s in listed):
        return
    k = K.bit_length() - 1
    if 2 ** k != K:
        ctx.note(f'{c["fname"]}: K = {K} is not a power of two; listed-string count not checked')
        return
    vec = lambda s: sum(((ch in 'XY') << q) | ((ch in 'YZ') << (n + q)) for q, ch in enumerate(s))
    vs = [vec(s) for s in listed]
    rank, dep = f2_dependency(vs)
    key = f'{c["lname"]}:listed-independent'
    rp = dict(code=c['name'], op='listed_strings', generator=c['fname'], listed=list(listed))
    if dep is not None:
        ctx.fail(key, f'{c["name"]}: the listed stabilizer strings are not independent: the product of {[listed[i] for i in dep]} is a scalar', dict(rp, dependent=[listed[i] for i in dep]))
        return
    if len(listed) > n - k:
        ctx.fail(key, f'{c["name"]}: {len(listed)} listed stabilizer strings, an ((n,K)) = (({n},{K})) stabilizer code has n - log2 K = {n - k} generators', rp)
        return
    want = LISTED_COUNT.get(c['lname'])
    if want is not None and len(listed) < want:
        ctx.fail(f'{c["lname"]}:listed-count', f'{c["name"]}: {c["fname"]}() lists {len(listed)} stabilizer strings, the shipped code lists {want}', dict(rp, shipped_count=want))
        return
    sym = lambda a, b: bin(((a & ((1 << n) - 1)) & (b >> n)) ^ ((a >> n) & (b & ((1 << n) - 1)))).count('1') % 2
    for i in range(len(vs)):
        for j in range(i):
            if sym(vs[i], vs[j]):
                ctx.fail(key, f'{c["name"]}: listed strings {listed[j]} and {listed[i]} anticommute', dict(rp, pair=[listed[j], listed[i]]))
                return
    ctx.probe_ok((c['lname'], 'listed-independent'))


def probe(ctx):
    codes = get_codes()
    quick = ctx.quick()
    guarded_section(ctx, 'corpus', probe_corpus, ctx)
    for f in PINNED:
        # a shipped generator is "missing" only when the PUBLIC name numqi.qec.<f> is gone (private modules may be renamed freely)
        if f not in codes.get('__public__', []):
            ctx.fail(f'{PINNED[f][0]}:constructor', f'shipped generator numqi.qec.{f} no longer exists', dict(op='constructor', generator=f))
        else:
            ctx.probe_ok((PINNED[f][0], 'public-name'))
    for _, lname in CODES:
        c = codes.get(lname)
        if c is None or 'error' in c:
            kind = (c or {}).get('error_kind')
            if kind == 'constructor':
                ctx.fail(f'{lname}:constructor', f'{lname}: numqi.qec.{c["fname"]}() raises {c["error"]}', dict(op='constructor', code=lname, generator=c['fname']))
            elif kind == 'translator':
                ctx.note(f'{lname}: the harness could not read the result of {c["fname"]}() ({c["error"]}): reported as a broken tie, not as a failing input')
            continue
        pin = PINNED.get(c['fname'])
        if pin is None:
            ctx.note(f'generator {c["fname"]} ({c["name"]}) is not in the table of shipped codes: probed, but no Lean obligation covers it (generators_covered fails)')
            ctx.count('uncovered-generator')
        elif (c['n'], c['K'], c['d']) != pin[1] or c['name'].replace(' ', '') != '((%d,%d,%d))' % pin[1]:
            ctx.fail(f'{lname}:params', f'{c["fname"]}() reports {c["name"]} = (n,K,d) = {(c["n"], c["K"], c["d"])}; the shipped code is {pin[1]}',
                     dict(op='parameters', generator=c['fname'], reported=dict(name=c['name'], n=c['n'], K=c['K'], d=c['d']), shipped=list(pin[1])))
        else:
            ctx.probe_ok((lname, 'params'))
        guarded_section(ctx, f'listed-independent:{lname}', probe_listed_independent, ctx, c)
        if c['n'] > 12:
            ctx.note(f'{c["fname"]}: {c["n"]} qubits, brute-force probe skipped')
            continue
        guarded_section(ctx, f'code:{lname}', probe_code, ctx, c, (c['n'] <= 10 or not quick))
        if c['n'] <= 6 or (not quick and c['n'] <= 8 and c['K'] <= 8):
            guarded_section(ctx, f'weight-enumerator:{lname}', probe_weight_enumerator, ctx, c)
    guarded_section(ctx, 'error-sets', probe_error_sets, ctx, 6 if quick else 7, 4 if quick else 5)
    guarded_section(ctx, 'asym-float', probe_asym_float, ctx)
    guarded_section(ctx, 'kl-loss', probe_kl_loss, ctx)
    guarded_section(ctx, 'aliasing-dtype', probe_aliasing_dtype, ctx)
    guarded_section(ctx, 'buffer-reuse', probe_buffer_reuse, ctx)
    # second instantiation must translate to the same data as the first
    for _, lname in CODES:
        c = codes.get(lname)
        if c is not None and 'error' not in c and c.get('second') is not None:
            if c['second'] != dict(n=c['n'], K=c['K'], d=c['d'], encode=c['encode'], stab=c['stab']):
                ctx.fail(f'{lname}:history', f'{c["name"]}: a second call of {c["fname"]}() does not give the same circuits as the first',
                         dict(code=c['name'], op='history', history=[f'numqi.qec.{c["fname"]}()', f'numqi.qec.{c["fname"]}()']))
            else:
                ctx.probe_ok((lname, 'second-instantiation'))
    guarded_section(ctx, 'history', probe_history, ctx)


def search(ctx, hints):
    """the probe is already exhaustive over every error below the distance of every shipped code; when a proof
    obligation or the tie broke and it found nothing, widen: the tiers' remaining pieces and the disagreeing ops"""
    codes = get_codes()
    for _, lname in CODES:
        c = codes.get(lname)
        if c is None or 'error' in c:
            continue
        if c['n'] > 10 and ctx.quick():
            try:
                M, errs = kl_real(c)
                D = np.abs(M - M[:, :1, :1] * np.eye(c['K'])).reshape(len(errs), -1).max(axis=1)
                if D.max() > 1e-9:
                    i = int(np.argmax(D))
                    ctx.fail(f'{lname}:knill-laflamme', f'{c["name"]}: knill_laflamme_inner_product error #{i}', dict(code=c['name'], op='knill_laflamme_inner_product', error_index=i,
                                                                                                                 error=sparse_to_str(c['n'], errs[i], gate_name)))
            except Exception:
                pass
        if c['n'] <= 8 and c['K'] <= 8:
            probe_weight_enumerator(ctx, c)
    probe_error_sets(ctx, 7, 5)
    # disagreeing random-circuit ops: report the simulator/tableau mismatch as it stands (they are model-vs-implementation
    # differences, not property violations; nothing to add here)
