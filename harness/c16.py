"""C16 — Gell-Mann coordinates are an orthogonal-basis isomorphism.

Model: lean/NumqiModel/Gellmann.lean.  Theorems: lean/NumqiProps/C16.lean.
Correspondence: inputs are Gaussian integers (or exact dyadic rationals for density matrices); the model
computes exactly over Q[i] with the binary64 square-root scalars taken exactly, so the only inexact side is
the implementation's floating point: |impl - model| <= 1e-12*scale (float64) / 1e-5*scale (float32 inputs).
"""
import itertools, math
from fractions import Fraction
import numpy as np
from . import common

THEOREM_FILES = ['NumqiProps/C16.lean']
LEVEL = 'proof'
RULE = ('one op = one (function, d, sample) evaluated by the model and by numqi.gellmann (numpy or torch, batch shape (), (k,), (k,l), '
        'float64/complex128 and float32/complex64 inputs). d = 2..8. Inputs: Gaussian-integer matrices / integer coefficient vectors with '
        'entries in [-9,9], unit matrices E_rc, exact-dyadic density matrices. An op is non-trivial when its input is not zero; '
        'distinct = distinct op lines. Options: all_gellmann_matrix with_I in {True,False} for d = 2..8 and tensor_n = 2 (with_I both) for d = 2,3 '
        '(4 in thorough), tolerance 1e-12*d as for the basis itself.')
TRUSTED = ['Lean 4.33 kernel', 'axioms: propext, Classical.choice, Quot.sound', 'Lean compiler for the driver executable',
           'Float.sqrt of the Lean runtime (binary64 sqrt) for the scalars of the executable instance',
           'harness/c16.py canonicalisation (exact rational parsing, tolerance comparison)',
           'modelled, not verified: numqi/gellmann.py; np.triu_indices / torch.triu_indices / torch.scatter / np.cumsum are contracts tied by the run']

TOL64 = 1e-12
TOL32 = 1e-5


# ---------------------------------------------------------------------------
# exact text <-> numbers
# ---------------------------------------------------------------------------
def rstr(x):
    x = float(x)
    if x == int(x) and abs(x) < 2 ** 53:
        return str(int(x))
    f = Fraction(x)
    return f'{f.numerator}/{f.denominator}'


def qstr(z):
    z = complex(z)
    return f'{rstr(z.real)},{rstr(z.imag)}'


def qlist(a):
    return ';'.join(qstr(z) for z in np.asarray(a).reshape(-1))


def parse_q(s):
    a, b = s.split(',')
    return complex(float(Fraction(a)), float(Fraction(b)))


def parse_qlist(s):
    return np.array([parse_q(t) for t in s.split(';')]) if s else np.zeros(0, dtype=complex)


def to_np(x):
    import torch
    if isinstance(x, torch.Tensor):
        return x.detach().cpu().numpy()
    return np.asarray(x)


def guarded(f):
    try:
        return f()
    except AssertionError:
        return 'error:assert'
    except (ValueError, TypeError, IndexError, KeyError, RuntimeError) as e:
        return 'error:' + type(e).__name__


# ---------------------------------------------------------------------------
# generators
# ---------------------------------------------------------------------------
BACKENDS = [('np', 'c128'), ('np', 'f64'), ('torch', 'c128'), ('torch', 'c64'), ('torch', 'f64'), ('torch', 'f32')]
# ordered dtype histories: numqi.gellmann is re-loaded (importlib.reload = fresh module state, as in a fresh process) before each history and the
# calls are then made in exactly this order for every d, so that anything cached by the first call (per dimension, per dtype) is exposed
HISTORIES = [
    [('torch', 'f32'), ('torch', 'c64'), ('np', 'c128'), ('torch', 'f64'), ('torch', 'c128'), ('np', 'f64')],      # float32 first, then float64
    [('torch', 'f64'), ('torch', 'c128'), ('torch', 'f32'), ('np', 'f64'), ('torch', 'c64'), ('np', 'c128')],      # float64 first, then float32
    [('torch', 'c64'), ('np', 'f64'), ('torch', 'c128'), ('torch', 'f32'), ('np', 'c128'), ('torch', 'f64')],      # complex64 first, interleaved with numpy
    BACKENDS,                                                                                                            # numpy first
]


def fresh_gellmann():
    import importlib, numqi
    importlib.reload(numqi.gellmann)
    return numqi.gellmann


def near_mixed(rng, d, eps, shape=()):
    """(1-eps) I/d + eps sigma for a random density matrix sigma (float64 entries, sent to the model exactly); eps = 0: I/d itself"""
    n = int(np.prod(shape)) if shape else 1
    out = []
    for _ in range(n):
        sig = rand_dm_exact(rng, d, ())
        out.append((1 - eps) * np.eye(d) / d + eps * sig)
    return np.array(out).reshape(tuple(shape) + (d, d))


EPS_LIST = [0.0, 1e-3, 1e-6, 1e-7, 1e-9, 1e-12]
# dm_norm_eq / distance2_eq are exact theorems; the implementation only rounds the trace and the subtraction dm - tr/d*1, each diagonal entry to
# 2^-53*|rho_ii| <= 1.2e-17, so the norm carries an absolute error <= sqrt(d)*2e-17 < 1e-16 and a relative error of a few 2^-53
NORM_RTOL, NORM_ATOL = 1e-9, 1e-16



def convert(a, backend, dt):
    """a: numpy complex array with exactly representable entries; returns the array in the requested backend/dtype
    (real dtypes take the real part)"""
    import torch
    if dt in ('f64', 'f32'):
        a = a.real
    npdt = {'c128': np.complex128, 'c64': np.complex64, 'f64': np.float64, 'f32': np.float32}[dt]
    a = np.ascontiguousarray(a.astype(npdt))
    if backend == 'torch':
        return torch.tensor(a)
    return a


def rand_gint(rng, shape, real=False, lim=9):
    a = rng.integers(-lim, lim + 1, size=shape).astype(np.float64)
    if real:
        return a.astype(np.complex128)
    return a + 1j * rng.integers(-lim, lim + 1, size=shape)


def rand_dm_exact(rng, d, shape):
    """density matrices whose entries are exact small dyadic rationals (Hermitian, trace one, PSD)"""
    n = int(np.prod(shape)) if shape else 1
    out = []
    for _ in range(n):
        X = rng.integers(-4, 5, size=(d, d)) + 1j * rng.integers(-4, 5, size=(d, d))
        R = X @ X.conj().T
        t = R.trace().real
        if t == 0:
            R = np.eye(d, dtype=complex); t = d
        # round to multiples of 2^-20 keeping Hermiticity and trace one exactly
        R = np.round(R / t * 2 ** 20) / 2 ** 20
        R[0, 0] += 1 - R.trace().real
        out.append(R)
    return np.array(out).reshape(tuple(shape) + (d, d))


def shapes(ctx, rng):
    k, l = int(rng.integers(2, 4)), int(rng.integers(2, 4))
    return [(), (k,), (k, l)] + ([] if ctx.quick() else [(1,), (1, 1)])


def tol_for(dt, scale):
    return (TOL32 if dt in ('c64', 'f32') else TOL64) * max(1.0, scale)


class Tie:
    def __init__(self, ctx):
        self.ctx = ctx
        self.ops, self.expect, self.tol, self.tag, self.rtol, self.post = [], [], [], [], [], []

    def add(self, op, value, tol, tag, rtol=0.0, post=None):
        """value: numpy array (flattened, complex) produced by the implementation, or an 'error:…' string;
        accepted when |impl - post(model)| <= tol + rtol*|post(model)| entrywise"""
        self.ops.append(op); self.expect.append(value); self.tol.append(tol); self.tag.append(tag); self.rtol.append(rtol); self.post.append(post)

    def run(self):
        ctx = self.ctx
        out = common.run_model(self.ops)
        worst = 0.0
        for op, exp, tol, tag, line, rtol, post in zip(self.ops, self.expect, self.tol, self.tag, out, self.rtol, self.post):
            ctx.count(tag)
            if isinstance(exp, str):
                ok = (exp == line)
                err = None
            elif line.startswith('error') or line == 'bad-op':
                ok = False; err = None
            else:
                m = parse_qlist(line.replace('|', ';'))
                if post is not None:
                    m = post(m)
                e = np.asarray(exp).reshape(-1).astype(complex)
                if m.shape != e.shape:
                    ok = False; err = None
                else:
                    lim = tol + rtol * np.abs(m)
                    err = float(np.max(np.abs(m - e))) if m.size else 0.0
                    ok = bool(np.all(np.isfinite(e)) and np.all(np.abs(m - e) <= lim))
                    tol = float(np.min(lim)) if m.size else tol
                    if ok and tol > 0: worst = max(worst, err / tol)
            if ok:
                nontriv = not all(c in '0,;/1 ' for c in ''.join(op.split(' ')[3:])) or op.split(' ')[1] in ('gm', 'all', 'allt')
                ctx.agree(op, op if nontriv else None)
            else:
                impl_s = exp if isinstance(exp, str) else ';'.join(f'{z.real!r},{z.imag!r}' for z in np.asarray(exp).reshape(-1).astype(complex)[:64])
                ctx.disagree(op[:2000], line[:2000], impl_s[:2000] + (f' (max abs diff {err:.3e} > tol {tol:.1e})' if err is not None else ''))
        for op, line in list(zip(self.ops, out))[:3]:
            ctx.sample({'op': op[:160], 'model': line[:160]})
        ctx.extra['worst_error_over_tolerance'] = round(worst, 6)


def correspondence(ctx):
    import numqi, torch
    G = numqi.gellmann
    rng = np.random.default_rng(ctx.np_seed)
    tie = Tie(ctx)
    dims = list(range(2, 9))
    # -- basis elements ------------------------------------------------------
    for d in dims:
        tie.add(f'C16 all {d}', guarded(lambda: G.all_gellmann_matrix(d).reshape(-1)), TOL64 * d, 'all')
        for i in range(d):
            for j in range(d):
                if ctx.quick() and d > 5 and rng.random() < 0.6:
                    continue
                tie.add(f'C16 gm {d} {i} {j}', guarded(lambda: G.gellmann_matrix(i, j, d).reshape(-1)), TOL64 * d, 'gm')
    # -- options: with_I=False (both tensor_n) and the tensor_n=2 flattening (itertools.product order, np.kron index) — round 6.
    #    Tolerance as for `all d` (TOL64*d): an ordering / flattening / with_I error moves entries by O(1), so exactness would add no detection power,
    #    while it would flag a library that computes the same scalars with a last-bit difference (e.g. sqrt(2)/sqrt(d) for sqrt(2/d)).
    for d in dims:
        tie.add(f'C16 all {d} 0', guarded(lambda: G.all_gellmann_matrix(d, with_I=False).reshape(-1)), TOL64 * d, 'all-noI')
        tie.add(f'C16 all {d} 1', guarded(lambda: G.all_gellmann_matrix(d, 1, True).reshape(-1)), TOL64 * d, 'all')
    for d in ([2, 3] if ctx.quick() else [2, 3, 4]):
        for w in (1, 0):
            tie.add(f'C16 allt {d} {w}', guarded(lambda: G.all_gellmann_matrix(d, tensor_n=2, with_I=bool(w)).reshape(-1)), TOL64 * d, 'tensor2' if w else 'tensor2-noI')
    tie.add('C16 allt 1 1', guarded(lambda: G.all_gellmann_matrix(1, tensor_n=2).reshape(-1)), 0, 'all-assert')
    tie.add('C16 all 1', guarded(lambda: G.all_gellmann_matrix(1).reshape(-1)), 0, 'all-assert')
    tie.add('C16 gm 3 3 0', guarded(lambda: G.gellmann_matrix(3, 0, 3).reshape(-1)), 0, 'gm-assert')
    tie.add('C16 gm 3 0 3', guarded(lambda: G.gellmann_matrix(0, 3, 3).reshape(-1)), 0, 'gm-assert')
    # -- analysis / synthesis / dm helpers -----------------------------------
    reps = 1 if ctx.quick() else 2
    scheds = [[(d, b, t) for d in dims for (b, t) in order] for order in HISTORIES]
    # history 4: sizes AND dtypes interleaved (d then d', float32 then float64 at another size, …) in one module state
    allt = [(d, b, t) for d in dims for (b, t) in BACKENDS]
    scheds.append([allt[i] for i in rng.permutation(len(allt))])
    for hi, sched in enumerate(scheds):
      G = fresh_gellmann()
      for d, backend, dt in sched:
        if True:
            shp_all = shapes(ctx, rng)
            for shp in ([shp_all[int(rng.integers(len(shp_all)))]] if ctx.quick() else shp_all):
                for _ in range(reps):
                    n = int(np.prod(shp)) if shp else 1
                    # analysis
                    A = rand_gint(rng, shp + (d, d))
                    if rng.random() < 0.15:   # unit matrices E_rc: every coefficient position is hit separately
                        A = np.zeros(shp + (d, d), dtype=complex)
                        Af = A.reshape(-1, d, d)
                        for s in range(n):
                            Af[s, rng.integers(d), rng.integers(d)] = 1
                    x = convert(A, backend, dt)
                    Aex = to_np(x).astype(complex)      # what was actually given
                    r = guarded(lambda: to_np(G.matrix_to_gellmann_basis(x)))
                    scale = float(np.abs(Aex).max()) * d
                    for s in range(n):
                        tie.add(f'C16 ana {d} {qlist(Aex.reshape(-1, d, d)[s])}',
                                r if isinstance(r, str) else r.reshape(-1, d * d)[s], tol_for(dt, scale), f'ana-{backend}-{dt}-b{len(shp)}-h{hi}')
                    # synthesis (real coefficient dtypes and complex ones)
                    v = rand_gint(rng, shp + (d * d,))
                    if rng.random() < 0.15:
                        v = np.zeros(shp + (d * d,), dtype=complex)
                        vf = v.reshape(-1, d * d)
                        for s in range(n):
                            vf[s, rng.integers(d * d)] = 1
                    x = convert(v, backend, dt)
                    vex = to_np(x).astype(complex)
                    r = guarded(lambda: to_np(G.gellmann_basis_to_matrix(x)))
                    scale = float(np.abs(vex).max()) * d * 2
                    for s in range(n):
                        tie.add(f'C16 syn {d} {qlist(vex.reshape(-1, d * d)[s])}',
                                r if isinstance(r, str) else r.reshape(-1, d * d)[s], tol_for(dt, scale), f'syn-{backend}-{dt}-b{len(shp)}-h{hi}')
                    # density-matrix helpers (complex dtypes; real dtypes give real symmetric matrices)
                    rho = rand_dm_exact(rng, d, shp)
                    x = convert(rho, backend, dt)
                    rex = to_np(x).astype(complex)
                    for w in (0, 1):
                        r = guarded(lambda: to_np(G.dm_to_gellmann_basis(x, with_rho0=bool(w))))
                        for s in range(n):
                            tie.add(f'C16 dm2vec {d} {w} {qlist(rex.reshape(-1, d, d)[s])}',
                                    r if isinstance(r, str) else r.reshape(n, -1)[s], tol_for(dt, 1.0), f'dm2vec-{backend}-{dt}-b{len(shp)}')
                    if dt in ('f64', 'f32'):
                        u = rng.integers(-8, 9, size=shp + (d * d - 1,)) / 16.0
                        x = convert(u.astype(complex), backend, dt)
                        uex = to_np(x).astype(complex)
                        r = guarded(lambda: to_np(G.gellmann_basis_to_dm(x)))
                        for s in range(n):
                            tie.add(f'C16 vec2dm {d} {qlist(uex.reshape(n, -1)[s])}',
                                    r if isinstance(r, str) else r.reshape(n, -1)[s], tol_for(dt, 2.0), f'vec2dm-{backend}-{dt}-b{len(shp)}')
                    if backend == 'np' and dt == 'c128':
                        # dm_to_gellmann_norm against the square root of the exact dmNorm2, RELATIVE tolerance; generic states and states
                        # within eps of the maximally mixed one (and I/d itself)
                        for eps in [None] + ([EPS_LIST[int(rng.integers(len(EPS_LIST)))]] if ctx.quick() else EPS_LIST):
                            rr = rho if eps is None else near_mixed(rng, d, eps, shp)
                            r = guarded(lambda: np.asarray(G.dm_to_gellmann_norm(rr)))
                            for s in range(n):
                                tie.add(f'C16 norm2 {d} {qlist(rr.reshape(-1, d, d)[s])}',
                                        r if isinstance(r, str) else np.asarray(r).reshape(-1)[s:s + 1], NORM_ATOL, f'norm-b{len(shp)}-eps{eps}',
                                        rtol=NORM_RTOL, post=lambda m: np.sqrt(np.maximum(m.real, 0)).astype(complex))
                            if eps is not None:
                                r = guarded(lambda: to_np(G.dm_to_gellmann_basis(rr)))
                                for s in range(n):
                                    tie.add(f'C16 dm2vec {d} 0 {qlist(rr.reshape(-1, d, d)[s])}',
                                            r if isinstance(r, str) else r.reshape(n, -1)[s], NORM_ATOL, f'dm2vec-near-mixed-eps{eps}', rtol=NORM_RTOL)
                                r2 = near_mixed(rng, d, eps if eps else 1e-9, ())
                                r1 = rr.reshape(-1, d, d)[0]
                                dd = guarded(lambda: np.asarray(G.get_density_matrix_distance2(r1, r2)).reshape(1))
                                at = 1e-32 if isinstance(dd, str) else 2e-16 * math.sqrt(max(float(dd[0].real), 0.0)) + 1e-32
                                tie.add(f'C16 dist2 {d} {qlist(r1)} {qlist(r2)}', dd, at, f'dist2-near-mixed-eps{eps}', rtol=NORM_RTOL)
                    if dt in ('c128', 'c64'):
                        sig = convert(rand_dm_exact(rng, d, ()), backend, dt)
                        rh0 = convert(rho.reshape(-1, d, d)[0], backend, dt)
                        r = guarded(lambda: np.asarray(to_np(G.get_density_matrix_distance2(rh0, sig))).reshape(1))
                        tie.add(f'C16 dist2 {d} {qlist(to_np(rh0))} {qlist(to_np(sig))}', r, tol_for(dt, 1.0), f'dist2-{backend}-{dt}')
    tie.run()
    # the executed scalars (binary64 square roots as exact rationals) do NOT satisfy Scalars.Valid exactly; measure how far they are
    # (hypothesis delta of synthesis_float_bridge / analysis_float_bridge): exact residuals from the driver
    ops = [f'C16 scal {d}' for d in dims]
    worst = 0.0
    for op, line in zip(ops, common.run_model(ops)):
        ctx.count('scalars')
        try:
            res = [abs(Fraction(t.split(',')[0])) for t in line.split(';')]
            w = float(max(res))
        except Exception:
            ctx.disagree(op, line[:200], 'exact residuals expected'); continue
        worst = max(worst, w)
        if w <= 1e-15:
            ctx.agree(op, op)
        else:
            ctx.disagree(op, f'max residual {w:.3e}', 'executed scalars must satisfy the relations of Scalars.Valid to 1e-15 (binary64 sqrt: <= 2 ulp)')
    ctx.extra['executed_scalars_max_residual'] = worst
    ctx.extra['tolerance'] = (f'abs <= {TOL64}*scale for float64/complex128, {TOL32}*scale for float32/complex64 inputs (scale = max|input|*d); '
                              f'dm_to_gellmann_norm / distance2 / Bloch vectors near the maximally mixed state: relative {NORM_RTOL} + absolute {NORM_ATOL}')
    ctx.extra['histories'] = [' -> '.join(f'{b}:{t}' for b, t in h) + ' (for d = 2..8 in turn)' for h in HISTORIES] + ['seeded random interleaving of all (d, backend, dtype) triples']
    ctx.extra['exhaustive'] = False


# ---------------------------------------------------------------------------
# probe: the property statement evaluated directly on the real code
# ---------------------------------------------------------------------------
def _close(a, b, tol):
    a = to_np(a); b = to_np(b)
    return a.shape == b.shape and bool(np.all(np.isfinite(a))) and float(np.max(np.abs(a - b), initial=0.0)) <= tol


def probe_buffer_reuse(ctx, G):
    """hardening class "buffer reuse across calls" (harness/mani_reuse.py): r1 = f(A); r2 = f(B) with B != A of the same size => r1 unchanged bit for bit, no
    shared memory, r1 still correct for A; then f(A) -> overwritten in place -> f(B), f(A) unchanged.  Deterministic, quick tier.  Covered: gellmann_matrix,
    all_gellmann_matrix (different options of the same d; it hands out ONE lru_cached object per argument tuple - recorded observation - so the overwrite step is
    skipped for it), matrix_to_gellmann_basis, gellmann_basis_to_matrix, dm_to_gellmann_basis, gellmann_basis_to_dm, dm_to_gellmann_norm,
    get_density_matrix_distance2; numpy and torch, single and batched."""
    import torch
    from . import mani_reuse as MR
    rng = np.random.default_rng(20260930)
    for d in (2, 3):
        MR.check(ctx, f'gellmann_matrix[d={d}]', lambda: G.gellmann_matrix(0, 1, d), lambda: G.gellmann_matrix(1, 0, d),
                 lambda r: None if _close(r, G.gellmann_matrix(0, 1, d), 0) else 'not the (0,1) element', history=[dict(i=0, j=1, d=d), dict(i=1, j=0, d=d)])
        opts = [dict(tensor_n=1, with_I=True), dict(tensor_n=1, with_I=False), dict(tensor_n=2, with_I=True), dict(tensor_n=2, with_I=False)]
        for a, b in ((0, 1), (1, 0), (2, 3), (3, 2), (0, 2)):
            def valid(r, a=a):
                n = opts[a]['tensor_n']; full = d ** (2 * n)
                if r.shape != (full if opts[a]['with_I'] else full - 1, d ** n, d ** n):
                    return f'shape {r.shape}'
                gram = np.einsum('aij,bji->ab', r, r)
                return None if np.abs(gram - (2 ** n) * np.eye(r.shape[0])).max() < 1e-12 else 'no longer orthogonal'
            MR.check(ctx, f'all_gellmann_matrix[d={d},{opts[a]}->{opts[b]}]', lambda a=a: G.all_gellmann_matrix(d, **opts[a]), lambda b=b: G.all_gellmann_matrix(d, **opts[b]),
                     valid, history=[dict(d=d, **opts[a]), dict(d=d, **opts[b])], same_input_cached=True)
        for backend in ('np', 'torch'):
            conv = (lambda x: torch.tensor(x)) if backend == 'torch' else (lambda x: np.array(x))
            for shp in ((), (2,)):
                def herm():
                    a = rng.normal(size=shp + (d, d)) + 1j * rng.normal(size=shp + (d, d))
                    return (a + a.conj().swapaxes(-1, -2)) / 2
                def dm():
                    a = rng.normal(size=shp + (d, d)) + 1j * rng.normal(size=shp + (d, d))
                    r = a @ a.conj().swapaxes(-1, -2)
                    return r / np.trace(r, axis1=-2, axis2=-1)[..., None, None]
                A, B = herm(), herm()
                tag = f'd={d},{backend},batch{list(shp)}'
                h = lambda X, Y: [dict(backend=backend, value=[str(z) for z in np.asarray(X).reshape(-1)]), dict(backend=backend, value=[str(z) for z in np.asarray(Y).reshape(-1)])]
                MR.check(ctx, f'matrix_to_gellmann_basis[{tag}]', lambda: G.matrix_to_gellmann_basis(conv(A)), lambda: G.matrix_to_gellmann_basis(conv(B)),
                         lambda r: None if _close(to_np(G.gellmann_basis_to_matrix(r)), A, 1e-12) else 'synthesis of the held coefficients is no longer A', history=h(A, B))
                vA, vB = rng.normal(size=shp + (d * d,)), rng.normal(size=shp + (d * d,))
                MR.check(ctx, f'gellmann_basis_to_matrix[{tag}]', lambda: G.gellmann_basis_to_matrix(conv(vA)), lambda: G.gellmann_basis_to_matrix(conv(vB)),
                         lambda r: None if _close(to_np(G.matrix_to_gellmann_basis(r)), vA, 1e-12) else 'analysis of the held matrix is no longer the vector A', history=h(vA, vB))
                RA, RB = dm(), dm()
                for w0 in (False, True):
                    MR.check(ctx, f'dm_to_gellmann_basis[{tag},with_rho0={w0}]', lambda: G.dm_to_gellmann_basis(conv(RA), with_rho0=w0), lambda: G.dm_to_gellmann_basis(conv(RB), with_rho0=w0),
                             history=h(RA, RB))
                uA, uB = rng.normal(size=shp + (d * d - 1,)) / 10, rng.normal(size=shp + (d * d - 1,)) / 10
                MR.check(ctx, f'gellmann_basis_to_dm[{tag}]', lambda: G.gellmann_basis_to_dm(conv(uA)), lambda: G.gellmann_basis_to_dm(conv(uB)),
                         lambda r: None if _close(to_np(G.dm_to_gellmann_basis(r)), uA, 1e-12) else 'Bloch vector of the held matrix is no longer A', history=h(uA, uB))
                if backend == 'np':
                    MR.check(ctx, f'dm_to_gellmann_norm[{tag}]', lambda: G.dm_to_gellmann_norm(RA.copy()), lambda: G.dm_to_gellmann_norm(RB.copy()), history=h(RA, RB))
                if shp == ():
                    MR.check(ctx, f'get_density_matrix_distance2[{tag}]', lambda: G.get_density_matrix_distance2(conv(RA), conv(RB)),
                             lambda: G.get_density_matrix_distance2(conv(RB), conv(RA @ RA / np.trace(RA @ RA))), history=h(RA, RB))


def probe(ctx):
    import numqi, torch
    G = fresh_gellmann()
    probe_buffer_reuse(ctx, G)
    rng = np.random.default_rng(ctx.np_seed + 1)
    dims = list(range(2, 9))
    basis = {}
    for d in dims:
        B = G.all_gellmann_matrix(d)
        basis[d] = B
        if B.shape != (d * d, d, d):
            ctx.fail('basis-shape', f'all_gellmann_matrix({d}).shape = {B.shape}', dict(fn='all_gellmann_matrix', d=d)); continue
        if not _close(B, B.conj().transpose(0, 2, 1), 0):
            a = int(np.argmax(np.abs(B - B.conj().transpose(0, 2, 1)).reshape(d * d, -1).max(axis=1)))
            ctx.fail('hermitian', f'all_gellmann_matrix({d})[{a}] is not Hermitian', dict(fn='all_gellmann_matrix', d=d, index=a))
        else:
            ctx.probe_ok(('herm', d))
        gram = np.einsum('aij,bji->ab', B, B)
        err = np.abs(gram - 2 * np.eye(d * d))
        if err.max() > 1e-12:
            a, b = np.unravel_index(int(np.argmax(err)), err.shape)
            ctx.fail('orthogonality', f'Tr(G_{a} G_{b}) = {gram[a, b]:.15g} for d={d} (required {2 if a == b else 0})',
                     dict(fn='all_gellmann_matrix', d=d, a=int(a), b=int(b), observed=str(gram[a, b])))
        else:
            ctx.probe_ok(('orth', d))
        tr = np.trace(B, axis1=1, axis2=2)
        if np.abs(tr[:-1]).max() > 1e-12 or abs(tr[-1] - math.sqrt(2 * d)) > 1e-12 or not _close(B[-1], np.eye(d) * math.sqrt(2 / d), 1e-15):
            ctx.fail('traceless', f'd={d}: traces of the basis are {tr}', dict(fn='all_gellmann_matrix', d=d))
        else:
            ctx.probe_ok(('trace', d))
        if not _close(G.all_gellmann_matrix(d, with_I=False), B[:-1], 0):
            ctx.fail('with_I', f'd={d}: with_I=False is not the basis without its last element', dict(fn='all_gellmann_matrix', d=d, with_I=False))
        else:
            ctx.probe_ok()
        # documented order: element a is gellmann_matrix(i,j,d) in the order sym, antisym, diag, I
        order = [(i, j) for i in range(d) for j in range(i + 1, d)] + [(j, i) for i in range(d) for j in range(i + 1, d)] + [(i, i) for i in range(1, d)] + [(0, 0)]
        for a, (i, j) in enumerate(order):
            if not _close(B[a], G.gellmann_matrix(i, j, d), 0):
                ctx.fail('order', f'd={d}: basis element {a} is not gellmann_matrix({i},{j},{d})', dict(fn='all_gellmann_matrix', d=d, index=a, i=i, j=j)); break
        else:
            ctx.probe_ok(('order', d))
    for d in ([2, 3] if ctx.quick() else [2, 3, 4]):
        B2 = G.all_gellmann_matrix(d, tensor_n=2)
        gram = np.einsum('aij,bji->ab', B2, B2)
        err = np.abs(gram - 4 * np.eye(d ** 4))
        B = basis[d]
        ok_kron = _close(B2, np.stack([np.kron(B[a], B[b]) for a in range(d * d) for b in range(d * d)]), 0)
        noI = guarded(lambda: G.all_gellmann_matrix(d, tensor_n=2, with_I=False))
        if isinstance(noI, str) or noI.shape != (d ** 4 - 1, d * d, d * d) or not _close(noI, B2[:-1], 0):
            ctx.fail('with_I', f'tensor_n=2, d={d}: with_I=False is not the list without its last element (I x I)', dict(fn='all_gellmann_matrix', d=d, tensor_n=2, with_I=False))
        else:
            ctx.probe_ok(('with_I-t2', d))
        if err.max() > 1e-12 or not ok_kron:
            a, b = np.unravel_index(int(np.argmax(err)), err.shape)
            ctx.fail('tensor2-orthogonality', f'tensor_n=2, d={d}: Tr(G_{a} G_{b}) = {gram[a, b]:.15g}', dict(fn='all_gellmann_matrix', d=d, tensor_n=2, a=int(a), b=int(b)))
        else:
            ctx.probe_ok(('orth2', d))
    reps = 1 if ctx.quick() else 3
    orders = HISTORIES[:2] if ctx.quick() else HISTORIES
    scheds = [[(d, b, t) for d in dims for (b, t) in order] for order in orders]
    allt = [(d, b, t) for d in dims for (b, t) in BACKENDS]
    scheds.append([allt[i] for i in rng.permutation(len(allt))])      # sizes and dtypes interleaved
    for sched in scheds:
      G = fresh_gellmann()      # fresh module state, then the calls in exactly this order
      for d, backend, dt in sched:
        B = basis[d]
        if True:
            t64 = dt in ('c128', 'f64')
            tol = (1e-11 if t64 else 2e-4)
            for shp in shapes(ctx, rng):
                for rep in range(reps):
                    n = int(np.prod(shp)) if shp else 1
                    if rep % 2 == 0:
                        A = rand_gint(rng, shp + (d, d))
                    else:
                        A = rng.normal(size=shp + (d, d)) + 1j * rng.normal(size=shp + (d, d))
                    x = convert(A, backend, dt)
                    Aex = to_np(x).astype(complex)
                    sc = max(1.0, float(np.abs(Aex).max())) * d
                    rep_in = dict(backend=backend, dtype=dt, d=d, shape=list(shp), A=[[str(z) for z in row] for row in Aex.reshape(-1, d)])
                    v = guarded(lambda: G.matrix_to_gellmann_basis(x))
                    if isinstance(v, str):
                        ctx.fail('analysis-raises', f'matrix_to_gellmann_basis raised {v} ({backend},{dt},d={d},batch={shp})', dict(fn='matrix_to_gellmann_basis', **rep_in)); continue
                    vn = to_np(v).astype(complex)
                    if vn.shape != tuple(shp) + (d * d,):
                        ctx.fail('analysis-shape', f'matrix_to_gellmann_basis: shape {vn.shape} for input {Aex.shape}', dict(fn='matrix_to_gellmann_basis', **rep_in)); continue
                    inner = 0.5 * np.einsum('aij,...ji->...a', B, Aex)
                    if not _close(vn, inner, tol * sc):
                        ctx.fail('analysis=inner', f'matrix_to_gellmann_basis(A)[a] != Tr(G_a A)/2 ({backend},{dt},d={d},batch={shp}); max diff {np.abs(vn - inner).max():.3e}',
                                 dict(fn='matrix_to_gellmann_basis', **rep_in))
                    else:
                        ctx.probe_ok(('ana', d, backend, dt, len(shp), rep))
                    expand = np.einsum('...a,aij->...ij', vn, B)
                    if not _close(expand, Aex, tol * sc):
                        ctx.fail('expansion', f'sum_a v_a G_a != A ({backend},{dt},d={d},batch={shp}); max diff {np.abs(expand - Aex).max():.3e}',
                                 dict(fn='matrix_to_gellmann_basis', **rep_in))
                    else:
                        ctx.probe_ok()
                    back = guarded(lambda: G.gellmann_basis_to_matrix(v))
                    if isinstance(back, str) or not _close(to_np(back).astype(complex), Aex, tol * sc):
                        ctx.fail('roundtrip-matrix', f'gellmann_basis_to_matrix(matrix_to_gellmann_basis(A)) != A ({backend},{dt},d={d},batch={shp})',
                                 dict(fn='gellmann_basis_to_matrix∘matrix_to_gellmann_basis', **rep_in))
                    else:
                        ctx.probe_ok()
                    # vector -> matrix -> vector, and synthesis = explicit sum
                    u = rand_gint(rng, shp + (d * d,), real=(rep % 2 == 0)) if rep < 2 else rng.normal(size=shp + (d * d,)) + 0j
                    y = convert(u, backend, dt)
                    uex = to_np(y).astype(complex)
                    sc = max(1.0, float(np.abs(uex).max())) * d * 2
                    rep_in = dict(backend=backend, dtype=dt, d=d, shape=list(shp), vec=[[str(z) for z in row] for row in uex.reshape(-1, d * d)])
                    M = guarded(lambda: G.gellmann_basis_to_matrix(y))
                    if isinstance(M, str):
                        ctx.fail('synthesis-raises', f'gellmann_basis_to_matrix raised {M} ({backend},{dt},d={d},batch={shp})', dict(fn='gellmann_basis_to_matrix', **rep_in)); continue
                    Mn = to_np(M).astype(complex)
                    want = np.einsum('...a,aij->...ij', uex, B)
                    if Mn.shape != want.shape or not _close(Mn, want, tol * sc):
                        ctx.fail('synthesis=sum', f'gellmann_basis_to_matrix(v) != sum_a v_a G_a ({backend},{dt},d={d},batch={shp})', dict(fn='gellmann_basis_to_matrix', **rep_in))
                    else:
                        ctx.probe_ok(('syn', d, backend, dt, len(shp), rep))
                    back = guarded(lambda: G.matrix_to_gellmann_basis(M))
                    if isinstance(back, str) or not _close(to_np(back).astype(complex), uex, tol * sc):
                        ctx.fail('roundtrip-vector', f'matrix_to_gellmann_basis(gellmann_basis_to_matrix(v)) != v ({backend},{dt},d={d},batch={shp})',
                                 dict(fn='matrix_to_gellmann_basis∘gellmann_basis_to_matrix', **rep_in))
                    else:
                        ctx.probe_ok()
                    # batched == per-sample
                    if shp:
                        flat = x.reshape(-1, d, d)
                        per = np.stack([to_np(G.matrix_to_gellmann_basis(flat[s])) for s in range(n)]).reshape(tuple(shp) + (d * d,))
                        flat = y.reshape(-1, d * d)
                        per2 = np.stack([to_np(G.gellmann_basis_to_matrix(flat[s])) for s in range(n)]).reshape(tuple(shp) + (d, d))
                        if not _close(per, to_np(v), tol * sc * 1e-2) or not _close(per2, to_np(M), tol * sc * 1e-2):
                            ctx.fail('batch==single', f'batched call differs from per-sample calls ({backend},{dt},d={d},batch={shp})', dict(fn='matrix_to_gellmann_basis/gellmann_basis_to_matrix', **rep_in))
                        else:
                            ctx.probe_ok()
            # density matrices
            if dt in ('c128', 'c64'):
                for shp in shapes(ctx, rng):
                    rho = numqi.random.rand_density_matrix(d, seed=int(rng.integers(1 << 30)))
                    n = int(np.prod(shp)) if shp else 1
                    rho = np.stack([numqi.random.rand_density_matrix(d, seed=int(rng.integers(1 << 30))) for _ in range(n)]).reshape(tuple(shp) + (d, d))
                    eps = None
                    if dt == 'c128' and rng.random() < 0.6:     # within eps of the maximally mixed state (eps = 0: I/d itself)
                        eps = EPS_LIST[int(rng.integers(len(EPS_LIST)))]
                        rho = near_mixed(rng, d, eps, shp).astype(complex)
                    x = convert(rho, backend, dt)
                    rex = to_np(x).astype(complex)
                    rep_in = dict(backend=backend, dtype=dt, d=d, shape=list(shp), dm=[[str(z) for z in row] for row in rex.reshape(-1, d)])
                    vec = guarded(lambda: G.dm_to_gellmann_basis(x))
                    if isinstance(vec, str) or to_np(vec).shape != tuple(shp) + (d * d - 1,) or np.iscomplexobj(to_np(vec)):
                        ctx.fail('dm-vector', f'dm_to_gellmann_basis: {vec if isinstance(vec, str) else (to_np(vec).shape, to_np(vec).dtype)}', dict(fn='dm_to_gellmann_basis', **rep_in)); continue
                    back = guarded(lambda: G.gellmann_basis_to_dm(vec))
                    if isinstance(back, str) or not _close(to_np(back).astype(complex), rex, tol):
                        ctx.fail('dm-roundtrip', f'gellmann_basis_to_dm(dm_to_gellmann_basis(rho)) != rho ({backend},{dt},d={d},batch={shp})', dict(fn='gellmann_basis_to_dm∘dm_to_gellmann_basis', **rep_in))
                    else:
                        ctx.probe_ok(('dmrt', d, backend, dt, len(shp)))
                    vn = to_np(vec).astype(np.float64)
                    if backend == 'np':
                        nm = guarded(lambda: np.asarray(G.dm_to_gellmann_norm(x)))
                        ref = np.linalg.norm(vn, axis=-1)
                        lim = (NORM_RTOL * ref + NORM_ATOL) if dt == 'c128' else tol
                        if isinstance(nm, str) or nm.shape != tuple(shp) or not np.all(np.isfinite(nm)) or not np.all(np.abs(nm - ref) <= lim):
                            ctx.fail('dm-norm', f'dm_to_gellmann_norm(rho) != |dm_to_gellmann_basis(rho)| ({backend},{dt},d={d},batch={shp},eps={eps}): '
                                                f'{np.asarray(nm).reshape(-1)[:3] if not isinstance(nm, str) else nm} vs {ref.reshape(-1)[:3]} (relative {NORM_RTOL} + {NORM_ATOL})', dict(fn='dm_to_gellmann_norm', **rep_in))
                        else:
                            ctx.probe_ok(('dmnorm', d, dt, len(shp)))
                    r0 = x.reshape(-1, d, d)[0]
                    s0 = convert(numqi.random.rand_density_matrix(d, seed=int(rng.integers(1 << 30))) if eps is None else near_mixed(rng, d, eps if eps else 1e-9, ()).astype(complex), backend, dt)
                    d2 = guarded(lambda: float(to_np(G.get_density_matrix_distance2(r0, s0))))
                    want = float(np.sum((to_np(G.dm_to_gellmann_basis(r0)).astype(float) - to_np(G.dm_to_gellmann_basis(s0)).astype(float)) ** 2))
                    lim2 = (NORM_RTOL * want + 2e-16 * math.sqrt(want) + 1e-32) if dt == 'c128' else tol
                    if isinstance(d2, str) or not (abs(d2 - want) <= lim2):
                        ctx.fail('distance2', f'get_density_matrix_distance2 = {d2}, squared Bloch distance = {want} ({backend},{dt},d={d})',
                                 dict(fn='get_density_matrix_distance2', backend=backend, dtype=dt, d=d, rho=[str(z) for z in to_np(r0).reshape(-1)], sigma=[str(z) for z in to_np(s0).reshape(-1)]))
                    else:
                        ctx.probe_ok(('dist', d, backend, dt))
    ctx.extra['probe_tolerance'] = (f'float64: 1e-11*scale (basis identities 1e-12); float32: 2e-4*scale; dm_to_gellmann_norm / distance2 in complex128: '
                                    f'relative {NORM_RTOL} + absolute {NORM_ATOL} (norm) resp. 2e-16*sqrt(d2)+1e-32 (distance2), incl. states within 1e-3..1e-12 of I/d and I/d itself')
    ctx.extra['probe_histories'] = [' -> '.join(f'{b}:{t}' for b, t in h) for h in orders] + ['seeded random interleaving of all (d, backend, dtype) triples']
    probe_alias_dtype(ctx, rng)


def probe_alias_dtype(ctx, rng):
    """aliasing (arguments bit-identical after the call; contiguous, non-contiguous and read-only inputs; the same object used twice) and
    integer / bool dtypes (accepted => same result as the float64 call, rejected => counted) for every public function"""
    import numqi, torch
    G = numqi.gellmann
    def variants(a):
        """name -> argument object holding the values of the numpy array `a` (complex128 or float64)"""
        out = {'np': lambda: a.copy(), 'torch': lambda: torch.tensor(a.copy())}
        def nc():
            base = np.zeros(a.shape[:-1] + (2 * a.shape[-1],), dtype=a.dtype); base[..., ::2] = a; base[..., 1::2] = 7
            return base[..., ::2]
        out['np-noncontiguous'] = nc
        out['torch-noncontiguous'] = lambda: torch.tensor(nc.__call__().base if False else np.ascontiguousarray(np.repeat(a, 2, axis=-1)))[..., ::2]
        def ro():
            b = a.copy(); b.setflags(write=False); return b
        out['np-readonly'] = ro
        return out
    def same(x, y):
        x = to_np(x); y = to_np(y)
        return x.shape == y.shape and bool(np.array_equal(x, y, equal_nan=True))
    for d in ([2, 3, 5] if ctx.quick() else [2, 3, 4, 5, 7]):
        shp = (2,) if d % 2 else ()
        A = rand_gint(rng, shp + (d, d)); v = rand_gint(rng, shp + (d * d,), real=True).real
        rho = rand_dm_exact(rng, d, shp); u = rng.integers(-8, 9, size=shp + (d * d - 1,)) / 16.0
        calls = [('matrix_to_gellmann_basis', lambda x: G.matrix_to_gellmann_basis(x), A),
                 ('gellmann_basis_to_matrix', lambda x: G.gellmann_basis_to_matrix(x), v),
                 ('dm_to_gellmann_basis', lambda x: G.dm_to_gellmann_basis(x), rho),
                 ('gellmann_basis_to_dm', lambda x: G.gellmann_basis_to_dm(x), u)]
        for fname, f, arg in calls:
            ref = to_np(f(arg.copy())).astype(np.complex128)
            for vname, mk in variants(arg).items():
                x = mk(); x0 = to_np(x).copy()
                y1 = guarded(lambda: to_np(f(x)))
                y2 = guarded(lambda: to_np(f(x)))
                rp = dict(fn=fname, d=d, variant=vname, shape=list(arg.shape), arg=[str(z) for z in np.asarray(arg).reshape(-1)])
                if not same(x, x0):
                    ctx.fail('argument-modified', f'{fname} modifies its argument in place ({vname}, d={d})', rp)
                elif isinstance(y1, str) or isinstance(y2, str):
                    ctx.fail('input-variant-raises', f'{fname} raised {y1 if isinstance(y1, str) else y2} on a {vname} input (d={d})', rp)
                elif not same(y1, y2):
                    ctx.fail('not-reproducible', f'{fname}: two calls on the same object differ ({vname}, d={d})', rp)
                elif np.abs(y1.astype(np.complex128) - ref).max() > 1e-12 * max(1.0, float(np.abs(ref).max())):
                    ctx.fail('input-variant-differs', f'{fname}: result on a {vname} input differs from the plain call (d={d})', rp)
                else:
                    ctx.probe_ok(('alias', fname, vname, d))
            # integer / bool dtypes of real-valued data
            if fname in ('matrix_to_gellmann_basis', 'gellmann_basis_to_matrix'):
                ai = np.asarray(arg).real.round().astype(np.int64)
                refi = to_np(f(ai.astype(np.float64))).astype(np.complex128)
                for vname, mk in {'np-int64': lambda: ai.copy(), 'np-int32': lambda: ai.astype(np.int32), 'np-bool': lambda: (ai != 0),
                                  'torch-int64': lambda: torch.tensor(ai), 'torch-int32': lambda: torch.tensor(ai.astype(np.int32))}.items():
                    x = mk(); x0 = to_np(x).copy()
                    y = guarded(lambda: to_np(f(x)))
                    rb = to_np(f((ai != 0).astype(np.float64))).astype(np.complex128) if vname == 'np-bool' else refi
                    rp = dict(fn=fname, d=d, variant=vname, arg=[int(z) for z in ai.reshape(-1)])
                    if not same(x, x0):
                        ctx.fail('argument-modified', f'{fname} modifies an integer argument in place ({vname}, d={d})', rp)
                    elif isinstance(y, str):
                        ctx.count('int-dtype-rejected-' + vname); ctx.probe_ok()
                    elif np.asarray(y).shape != rb.shape or np.abs(np.asarray(y).astype(np.complex128) - rb).max() > 1e-5 * max(1.0, float(np.abs(rb).max())):
                        ctx.fail('integer-dtype', f'{fname}: {vname} input accepted but the result differs from the float64 call (d={d})', rp)
                    else:
                        ctx.count('int-dtype-accepted-' + vname); ctx.probe_ok()
        # two-argument function: both arguments untouched, call twice
        r1 = rand_dm_exact(rng, d, ()); r2 = rand_dm_exact(rng, d, ())
        for bk in ('np', 'torch'):
            a1 = r1.copy() if bk == 'np' else torch.tensor(r1); a2 = r2.copy() if bk == 'np' else torch.tensor(r2)
            z1 = guarded(lambda: float(to_np(G.get_density_matrix_distance2(a1, a2)))); z2 = guarded(lambda: float(to_np(G.get_density_matrix_distance2(a1, a2))))
            if not (same(a1, r1) and same(a2, r2)) or isinstance(z1, str) or z1 != z2:
                ctx.fail('argument-modified', f'get_density_matrix_distance2 modifies an argument or is not reproducible ({bk}, d={d})', dict(fn='get_density_matrix_distance2', d=d, backend=bk))
            else:
                ctx.probe_ok()
        nr = rho.copy(); nr.setflags(write=False)
        z = guarded(lambda: np.asarray(G.dm_to_gellmann_norm(nr)))
        if isinstance(z, str):
            ctx.fail('input-variant-raises', f'dm_to_gellmann_norm raised {z} on a read-only array (d={d})', dict(fn='dm_to_gellmann_norm', d=d))
        else:
            ctx.probe_ok()


def search(ctx, hints):
    """the probe already evaluates every clause of the statement on d=2..8 with all backends; here the disagreeing
    inputs themselves are pushed through the explicit basis expansion"""
    import numqi
    G = numqi.gellmann
    for h in hints[:100]:
        t = h['op'].split(' ')
        if len(t) < 4 or t[1] not in ('ana', 'syn'):
            continue
        d = int(t[2])
        B = G.all_gellmann_matrix(d)
        x = parse_qlist(t[3])
        if t[1] == 'ana':
            A = x.reshape(d, d)
            v = np.asarray(G.matrix_to_gellmann_basis(A))
            if np.abs(np.einsum('a,aij->ij', v, B) - A).max() > 1e-10 * max(1, np.abs(A).max()) * d:
                ctx.fail('expansion', f'sum_a v_a G_a != A for d={d}', dict(fn='matrix_to_gellmann_basis', d=d, A=[str(z) for z in x]))
        else:
            M = np.asarray(G.gellmann_basis_to_matrix(x))
            if np.abs(np.einsum('a,aij->ij', x, B) - M).max() > 1e-10 * max(1, np.abs(x).max()) * d:
                ctx.fail('synthesis=sum', f'gellmann_basis_to_matrix(v) != sum_a v_a G_a for d={d}', dict(fn='gellmann_basis_to_matrix', d=d, vec=[str(z) for z in x]))


def replay(ctx, payload):
    """re-run the probe with the seed/tier recorded in the replay file and report whether the recorded key fails again"""
    c2 = common.Ctx(ctx.pid, payload.get('tier', 'quick'), int(payload.get('seed', 0)))
    probe(c2)
    hit = [f for f in c2.failures if f['key'] == payload.get('key')]
    if hit:
        print(f"replay: {payload.get('key')} still fails: {hit[0]['what']}")
        import sys
        path = sys.argv[sys.argv.index('--replay') + 1] if '--replay' in sys.argv else ''
        print(f'VIOLATION property={ctx.pid} replay={path}')
        return 1
    print(f"replay: {payload.get('key')} no longer fails ({c2.probe_evals} probe evaluations)")
    return 0
