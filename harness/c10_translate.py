"""Seed-flow translator for C10 (used by harness/c10.py:translate).

Parses the Python sources under `common.REPO/python/numqi` with `ast` and emits, for every function / method /
class that takes a `seed` (or a generator) parameter, one term of the DSL of `lean/NumqiModel/SeedFlow.lean`
into `lean/NumqiModel/Generated/SeedPrograms.lean`.

Bodies come from the AST.  Names used as callees are resolved the way Python resolves them: the dotted name is
looked up in the globals of the (imported) defining module, so `numqi.optimize.minimize`, `scipy.optimize.minimize`,
`get_numpy_rng` (imported with `from ._public import …`) and `self.method` are told apart by the object they denote,
and the arguments of a call are bound to the callee's parameters with `inspect.signature(...).bind_partial`, which
is what decides which parameter a positionally passed generator lands in.

Anything that cannot be resolved and is handed a generator becomes `unknownCall` (not closed).
"""
import ast
import importlib
import inspect
import os
import sys
import textwrap
import types

LISTED = ['random/_internal.py', 'random/_spf2.py', 'random/_public.py', 'sim/state.py', 'sim/circuit.py', 'sim/clifford.py',
          'entangle/cha.py', 'entangle/pureb.py', 'optimize/_internal.py']
SEED_PARAMS = ('seed',)
RNG_PARAMS = ('np_rng', 'rng')
DRAWINT_METHODS = {'randint', 'integers', 'randrange', 'getrandbits'}
NP_RANDOM_CONSTRUCTORS = {'default_rng', 'RandomState', 'Generator'}
NP_RANDOM_INERT = {'SeedSequence', 'PCG64', 'MT19937', 'Philox', 'SFC64', 'BitGenerator', 'PCG64DXSM', 'get_state', 'get_bit_generator'}
PY_RANDOM_CONSTRUCTORS = {'Random'}
TORCH_RANDOM = {'rand', 'randn', 'randint', 'randperm', 'rand_like', 'randn_like', 'randint_like', 'normal', 'bernoulli', 'multinomial', 'poisson',
                'manual_seed', 'seed', 'dropout'}


class Entity:
    def __init__(self, key, kind, node, module, cls, path, seed_param, role):
        self.key = key              # (module name, qualname)
        self.kind = kind            # 'function' | 'method' | 'class'
        self.node = node            # FunctionDef (function/method) or ClassDef
        self.module = module        # module object
        self.cls = cls              # class object for methods / classes
        self.path = path
        self.seed_param = seed_param
        self.role = role            # 'seed' | 'rng'
        self.index = None
        self.stmts = None
        self.notes = []

    @property
    def name(self):
        return self.key[0] + '.' + self.key[1]


def seed_param_of(fn_node, skip_self):
    args = fn_node.args
    names = [a.arg for a in args.posonlyargs + args.args + args.kwonlyargs]
    if skip_self and names and names[0] in ('self', 'cls'):
        names = names[1:]
    for n in names:
        if n in SEED_PARAMS:
            return n, 'seed'
    for n in names:
        if n in RNG_PARAMS:
            return n, 'rng'
    return None, None


def chain_of(node):
    """Name/Attribute chain -> list of identifiers, else None"""
    parts = []
    while isinstance(node, ast.Attribute):
        parts.append(node.attr)
        node = node.value
    if isinstance(node, ast.Name):
        parts.append(node.id)
        return parts[::-1]
    return None


class Translator:
    def __init__(self, repo):
        self.repo = repo
        self.pkgdir = os.path.join(repo, 'python', 'numqi')
        self.entities = {}          # key -> Entity
        self.order = []
        self.normalisers = {}
        self.unresolved = {}        # callee text -> count  (calls through objects; assumed not to draw)
        self.callbacks = []         # user callbacks handed a generator
        self.taint_cache = {}
        self.ast_cache = {}
        self.loop_id = 0

    # ------------------------------------------------------------------ loading
    def load(self):
        import numqi
        root = os.path.realpath(os.path.dirname(numqi.__file__))
        if root != os.path.realpath(self.pkgdir):
            raise RuntimeError(f'numqi imported from {root}, expected {self.pkgdir}')
        import numpy, random as pyrandom
        self.np = numpy
        self.pyrandom = pyrandom
        try:
            import torch
            self.torch = torch
        except Exception:
            self.torch = None
        pub = importlib.import_module('numqi.random._public')
        self.normalisers = {id(pub.get_numpy_rng): 'get_numpy_rng', id(pub.get_random_rng): 'get_random_rng'}
        files = list(LISTED)
        extra = []
        for dp, dn, fn in os.walk(self.pkgdir):
            dn.sort()
            for f in sorted(fn):
                if f.endswith('.py'):
                    rel = os.path.relpath(os.path.join(dp, f), self.pkgdir)
                    if rel not in files:
                        extra.append(rel)
        for rel in files + extra:
            self.scan_file(rel, listed=rel in LISTED)

    def module_of(self, rel):
        mod = 'numqi.' + rel[:-3].replace(os.sep, '.')
        if mod.endswith('.__init__'):
            mod = mod[:-9]
        return mod

    def parse(self, rel):
        if rel not in self.ast_cache:
            src = open(os.path.join(self.pkgdir, rel)).read()
            self.ast_cache[rel] = ast.parse(src)
        return self.ast_cache[rel]

    def scan_file(self, rel, listed):
        tree = self.parse(rel)
        modname = self.module_of(rel)
        has_seed = any(isinstance(n, (ast.FunctionDef,)) and seed_param_of(n, False)[0] for n in ast.walk(tree))
        if not has_seed:
            return
        try:
            module = importlib.import_module(modname)
        except Exception as e:          # optional dependency missing etc.
            if listed:
                raise
            return
        for node in tree.body:
            if isinstance(node, ast.FunctionDef):
                sp, role = seed_param_of(node, False)
                if sp and id(getattr(module, node.name, None)) not in self.normalisers:
                    self.add(Entity((modname, node.name), 'function', node, module, None, rel, sp, role), listed)
            elif isinstance(node, ast.ClassDef):
                cls = getattr(module, node.name, None)
                for sub in node.body:
                    if isinstance(sub, ast.FunctionDef):
                        sp, role = seed_param_of(sub, True)
                        if not sp:
                            continue
                        if sub.name == '__init__':
                            self.add(Entity((modname, node.name), 'class', node, module, cls, rel, sp, role), listed)
                        else:
                            self.add(Entity((modname, node.name + '.' + sub.name), 'method', sub, module, cls, rel, sp, role), listed)

    def add(self, ent, listed):
        ent.listed = listed
        self.entities[ent.key] = ent
        ent.index = len(self.order)
        self.order.append(ent)

    # ------------------------------------------------------------------ resolution
    def resolve(self, chain, ent, local_names):
        """object denoted by a dotted name inside entity `ent` (None if it is a local / cannot be resolved)"""
        if chain is None:
            return None
        if chain[0] in ('self', 'cls') and ent.cls is not None:
            obj = ent.cls
            for a in chain[1:]:
                try:
                    obj = inspect.getattr_static(obj, a)
                except AttributeError:
                    return None
                if isinstance(obj, (staticmethod, classmethod)):
                    obj = obj.__func__
            return obj if len(chain) > 1 else None
        if chain[0] in local_names:
            return None
        g = ent.module.__dict__
        if chain[0] in g:
            obj = g[chain[0]]
        elif hasattr(__builtins__, chain[0]) if not isinstance(__builtins__, dict) else chain[0] in __builtins__:
            return None      # builtins never draw
        else:
            return None
        for a in chain[1:]:
            try:
                obj = getattr(obj, a)
            except Exception:
                return None
        return obj

    def classify_external(self, chain, ent, local_names):
        """('numpy'|'python'|'torch', attr) when the chain names a member of a random-number module, else None"""
        if chain is None or chain[0] in local_names or chain[0] in ('self', 'cls'):
            return None
        g = ent.module.__dict__
        root = g.get(chain[0])
        if root is None:
            return None
        if isinstance(root, types.ModuleType):
            # walk modules as far as possible
            obj, i = root, 1
            while i < len(chain) and isinstance(getattr(obj, chain[i], None), types.ModuleType):
                obj = getattr(obj, chain[i]); i += 1
            rest = chain[i:]
            if obj is self.np.random and rest:
                return ('numpy', rest[0])
            if obj is self.pyrandom and rest:
                return ('python', rest[0])
            if self.torch is not None:
                if obj is self.torch and rest and rest[0] in TORCH_RANDOM:
                    return ('torch', rest[0])
                if obj is getattr(self.torch.nn, 'init', None) and rest:
                    return ('torch', 'nn.init.' + rest[0])
                if obj is getattr(self.torch, 'random', None) and rest and rest[0] in ('manual_seed', 'seed', 'set_rng_state'):
                    return ('torch', rest[0])
        else:
            # `from numpy.random import rand`, `from random import randint`
            mod = getattr(root, '__module__', None) or ''
            selfobj = getattr(root, '__self__', None)
            if len(chain) == 1:
                if selfobj is not None and type(selfobj).__name__ == 'RandomState' and selfobj is getattr(self.np.random.mtrand, '_rand', None):
                    return ('numpy', chain[0])
                if root is self.np.random.default_rng:
                    return ('numpy', 'default_rng')
                if selfobj is not None and isinstance(selfobj, self.pyrandom.Random) and selfobj is getattr(self.pyrandom, '_inst', None):
                    return ('python', chain[0])
                if root is self.pyrandom.Random:
                    return ('python', 'Random')
        return None

    def entity_of_obj(self, obj):
        if obj is None:
            return None
        if isinstance(obj, (staticmethod, classmethod)):
            obj = obj.__func__
        if inspect.ismethod(obj):
            obj = obj.__func__
        mod = getattr(obj, '__module__', None)
        qn = getattr(obj, '__qualname__', None)
        if not mod or not qn or not str(mod).startswith('numqi'):
            return None
        return self.entities.get((mod, qn))

    # ------------------------------------------------------------------ taint of unseeded numqi callees
    def func_ast(self, obj):
        try:
            src = textwrap.dedent(inspect.getsource(obj))
            return ast.parse(src)
        except Exception:
            return None

    def taint(self, obj, depth=0, stack=()):
        """set of {'numpy','python','torch','fresh'} reachable from an unseeded numqi function / class"""
        if isinstance(obj, (staticmethod, classmethod)):
            obj = obj.__func__
        if inspect.isclass(obj):
            init = inspect.getattr_static(obj, '__init__', None)
            if not isinstance(init, types.FunctionType):
                return set()
            owner = obj
            obj = init
        else:
            owner = None
        if not isinstance(obj, types.FunctionType):
            return set()
        mod = getattr(obj, '__module__', '') or ''
        if not mod.startswith('numqi'):
            return set()
        key = (mod, obj.__qualname__)
        if key in self.taint_cache:
            return self.taint_cache[key]
        if key in stack or depth > 6:
            return set()
        tree = self.func_ast(obj)
        out = set()
        if tree is None:
            self.taint_cache[key] = out
            return out
        module = sys.modules.get(mod)
        cls = owner
        if cls is None and '.' in obj.__qualname__ and module is not None:
            cls = getattr(module, obj.__qualname__.split('.')[0], None)
        fake = Entity(key, 'function', None, module, cls if inspect.isclass(cls) else None, '', None, None)
        local_names = {a.arg for n in ast.walk(tree) if isinstance(n, ast.arguments) for a in n.posonlyargs + n.args + n.kwonlyargs}
        for n in ast.walk(tree):
            if not isinstance(n, ast.Call):
                continue
            chain = chain_of(n.func)
            ext = self.classify_external(chain, fake, local_names) if module is not None else None
            if ext is not None:
                lib, attr = ext
                if lib == 'numpy':
                    if attr in NP_RANDOM_CONSTRUCTORS:
                        if self.arg_is_none_or_missing(n): out.add('fresh')
                    elif attr not in NP_RANDOM_INERT:
                        out.add('numpy')
                elif lib == 'python':
                    if attr in PY_RANDOM_CONSTRUCTORS:
                        if self.arg_is_none_or_missing(n): out.add('fresh')
                    elif attr == 'SystemRandom':
                        out.add('fresh')
                    else:
                        out.add('python')
                else:
                    out.add('torch')
                continue
            callee = self.resolve(chain, fake, local_names) if module is not None else None
            if callee is None:
                continue
            if id(callee) in self.normalisers:
                if self.arg_is_none_or_missing(n): out.add('fresh')
                continue
            ce = self.entity_of_obj(callee)
            if ce is not None:
                bound = self.bind(callee, ce, n, {})
                if bound is None or ce.seed_param not in bound:
                    out.add('fresh')
                continue
            if isinstance(callee, (types.FunctionType, type)) or isinstance(callee, (staticmethod, classmethod)):
                out |= self.taint(callee, depth + 1, stack + (key,))
        self.taint_cache[key] = out
        return out

    @staticmethod
    def arg_is_none_or_missing(call):
        if not call.args and not call.keywords:
            return True
        if call.args and isinstance(call.args[0], ast.Constant) and call.args[0].value is None:
            return True
        return False

    # ------------------------------------------------------------------ binding
    def bind(self, callee, ce, call, kwdicts):
        """parameter name -> argument node, using the callee's real signature; None if the call cannot be bound"""
        target = callee
        drop_first = False
        if inspect.isclass(target):
            try:
                sig = inspect.signature(target)
            except (TypeError, ValueError):
                return None
        else:
            if isinstance(target, (staticmethod, classmethod)):
                target = target.__func__
            try:
                sig = inspect.signature(target)
            except (TypeError, ValueError):
                return None
            if ce is not None and ce.kind == 'method' and not inspect.ismethod(callee):
                drop_first = True       # plain function taken from the class: first parameter is `self`
        pos = []
        for a in call.args:
            if isinstance(a, ast.Starred):
                return None
            pos.append(a)
        kw = {}
        for k in call.keywords:
            if k.arg is None:
                if isinstance(k.value, ast.Name) and k.value.id in kwdicts and kwdicts[k.value.id] is not None:
                    kw.update(kwdicts[k.value.id])
                else:
                    return None
            else:
                kw[k.arg] = k.value
        if drop_first:
            pos = [ast.Name(id='self', ctx=ast.Load())] + pos
        try:
            ba = sig.bind_partial(*pos, **kw)
        except TypeError:
            return None
        return dict(ba.arguments)

    # ------------------------------------------------------------------ translation of one entity
    def translate_entity(self, ent):
        ctx = Ctx(self, ent)
        if ent.kind == 'class':
            init = [n for n in ent.node.body if isinstance(n, ast.FunctionDef) and n.name == '__init__'][0]
            ctx.enter_function(init, top=True)
            ctx.block(init.body)
            for sub in ent.node.body:
                if isinstance(sub, ast.FunctionDef) and sub.name != '__init__' and seed_param_of(sub, True)[0] is None:
                    # every other method may run any number of times after construction
                    inner = ctx.sub()
                    inner.enter_function(sub, top=False)
                    inner.block(sub.body)
                    if inner.stmts:
                        ctx.emit(('loop', self.new_id(), inner.stmts))
        else:
            ctx.enter_function(ent.node, top=True)
            ctx.block(ent.node.body)
        ent.stmts = ctx.stmts
        ent.nvars = ctx.counter[0]

    def new_id(self):
        self.loop_id += 1
        return self.loop_id

    def run(self):
        self.load()
        for ent in self.order:
            self.loop_id = 0
            self.translate_entity(ent)
        return self


class Ctx:
    """translation state of one function body"""
    def __init__(self, tr, ent, parent=None):
        self.tr = tr
        self.ent = ent
        self.stmts = []
        if parent is None:
            self.vars = {}             # name ('np_rng', 'self.np_rng') -> Var
            self.counter = [0]
            self.closures = {}         # local name -> (entity index, seed expr)
            self.kwdicts = {}          # local dict name -> {key: node} | None
            self.callback_names = set()
            self.local_names = set()
            self.seed_name = None
        else:
            self.vars = parent.vars
            self.counter = parent.counter
            self.closures = parent.closures
            self.kwdicts = parent.kwdicts
            self.callback_names = parent.callback_names
            self.local_names = parent.local_names
            self.seed_name = parent.seed_name

    def sub(self):
        return Ctx(self.tr, self.ent, self)

    def emit(self, s):
        self.stmts.append(s)

    def new_var(self, name):
        v = self.counter[0]
        self.counter[0] += 1
        if name is not None:
            self.vars[name] = v
        return v

    # -- function entry: parameters
    def enter_function(self, fn, top):
        args = fn.args
        names = [a.arg for a in args.posonlyargs + args.args + args.kwonlyargs]
        if args.vararg: names.append(args.vararg.arg)
        if args.kwarg: names.append(args.kwarg.arg)
        for n in names:
            self.local_names.add(n)
        if top:
            sp = self.ent.seed_param
            if self.ent.role == 'seed':
                self.seed_name = sp
            else:
                # a helper that is handed a generator: `np_rng` is the (already normalised) seed parameter
                v = self.new_var(sp)
                self.emit(('mkRng', v, ('param',)))
            for n in names:
                if n not in (sp, 'self', 'cls'):
                    self.callback_names.add(n)
        else:
            for n in names:
                if n not in ('self', 'cls') and n not in self.vars:
                    self.callback_names.add(n)

    # -- seed expressions
    def name_of(self, node):
        c = chain_of(node)
        if c is None:
            return None
        return '.'.join(c)

    def seedexpr(self, node):
        if isinstance(node, ast.Constant):
            if node.value is None:
                return ('none',)
            if isinstance(node.value, bool):
                return ('unknown',)
            if isinstance(node.value, int) and node.value >= 0:
                return ('const', int(node.value))
            return ('unknown',)
        nm = self.name_of(node)
        if nm is not None:
            if nm == self.seed_name:
                return ('param',)
            if nm in self.vars:
                return ('var', self.vars[nm])
            return ('unknown',)
        if isinstance(node, ast.Call) and isinstance(node.func, ast.Attribute):
            base = self.name_of(node.func.value)
            if base in self.vars and node.func.attr in DRAWINT_METHODS:
                return ('drawInt', self.vars[base])
        if isinstance(node, ast.Call) and isinstance(node.func, ast.Name) and node.func.id == 'int' and len(node.args) == 1:
            return self.seedexpr(node.args[0])
        return ('unknown',)

    # -- statements
    def block(self, body):
        for st in body:
            self.stmt(st)

    def stmt(self, st):
        tr = self.tr
        if isinstance(st, (ast.FunctionDef, ast.AsyncFunctionDef)):
            inner = self.sub()
            inner.enter_function(st, top=False)
            self.local_names.add(st.name)
            inner.block(st.body)
            if inner.stmts:
                self.emit(('loop', tr.new_id(), inner.stmts))
            return
        if isinstance(st, ast.ClassDef):
            return
        if isinstance(st, ast.If):
            self.expr(st.test)
            a, b = self.sub(), self.sub()
            a.block(st.body); b.block(st.orelse)
            if a.stmts or b.stmts:
                self.emit(('branch', tr.new_id(), a.stmts, b.stmts))
            return
        if isinstance(st, (ast.For, ast.AsyncFor)):
            self.expr(st.iter)
            self.bind_target(st.target)
            a = self.sub(); a.block(st.body)
            if a.stmts:
                self.emit(('loop', tr.new_id(), a.stmts))
            self.block(st.orelse)
            return
        if isinstance(st, ast.While):
            a = self.sub(); a.expr(st.test); a.block(st.body)
            if a.stmts:
                self.emit(('loop', tr.new_id(), a.stmts))
            self.block(st.orelse)
            return
        if isinstance(st, (ast.With, ast.AsyncWith)):
            for it in st.items:
                self.expr(it.context_expr)
                if it.optional_vars is not None:
                    self.bind_target(it.optional_vars)
            self.block(st.body)
            return
        if isinstance(st, ast.Try):
            self.block(st.body)
            for h in st.handlers:
                a = self.sub(); a.block(h.body)
                if a.stmts:
                    self.emit(('branch', tr.new_id(), a.stmts, []))
            self.block(st.orelse); self.block(st.finalbody)
            return
        if isinstance(st, ast.Assign):
            self.assign(st.targets, st.value)
            return
        if isinstance(st, ast.AnnAssign):
            if st.value is not None:
                self.assign([st.target], st.value)
            return
        if isinstance(st, ast.AugAssign):
            self.expr(st.value)
            return
        for child in ast.iter_child_nodes(st):
            if isinstance(child, ast.expr):
                self.expr(child)

    def bind_target(self, t):
        for n in ast.walk(t):
            if isinstance(n, ast.Name):
                self.local_names.add(n.id)

    def assign(self, targets, value):
        tr = self.tr
        for t in targets:
            self.bind_target(t)
        tname = self.name_of(targets[0]) if len(targets) == 1 else None
        # kwargs dictionaries: `kwargs = dict(a=…, seed=np_rng)` / `{...}` ; `kwargs['x'] = …`
        if tname is not None and isinstance(targets[0], ast.Name):
            d = self.dict_literal(value)
            if d is not None:
                for v in d.values():
                    self.expr(v)
                self.kwdicts[tname] = d
                return
            elif tname in self.kwdicts:
                self.kwdicts[tname] = None
        if len(targets) == 1 and isinstance(targets[0], ast.Subscript) and isinstance(targets[0].value, ast.Name) and targets[0].value.id in self.kwdicts:
            d = self.kwdicts[targets[0].value.id]
            sl = targets[0].slice
            if d is not None and isinstance(sl, ast.Constant) and isinstance(sl.value, str):
                d[sl.value] = value
            else:
                self.kwdicts[targets[0].value.id] = None
            self.expr(value)
            return
        # generator creation / aliasing
        if tname is not None:
            if isinstance(value, ast.Call):
                kind = self.normaliser_kind(value)
                if kind is not None:
                    for a in value.args[1:]:
                        self.expr(a)
                    src = ('none',) if tr.arg_is_none_or_missing(value) else self.seedexpr_evaluating(self.first_arg(value))
                    v = self.new_var(tname)
                    self.emit(('mkRng', v, src))
                    return
            nm = self.name_of(value)
            if nm is not None and nm in self.vars:
                self.vars[tname] = self.vars[nm]
                return
            if nm is not None and nm == self.seed_name:
                # alias of the seed parameter itself
                return
            # closure returned by a seeded helper: `hf_theta = _get_hf_theta(np_rng, theta0)`
            if isinstance(value, ast.Call):
                info = self.seeded_call_info(value)
                if info is not None and isinstance(targets[0], ast.Name):
                    self.expr(value)
                    self.closures[tname] = info
                    return
            if tname in self.vars:
                del self.vars[tname]          # the name no longer holds a generator we know
        self.expr(value)

    def dict_literal(self, value):
        if isinstance(value, ast.Call) and isinstance(value.func, ast.Name) and value.func.id == 'dict' and not value.args and all(k.arg for k in value.keywords):
            return {k.arg: k.value for k in value.keywords}
        if isinstance(value, ast.Dict) and all(isinstance(k, ast.Constant) and isinstance(k.value, str) for k in value.keys):
            return {k.value: v for k, v in zip(value.keys, value.values)}
        return None

    @staticmethod
    def first_arg(call):
        if call.args:
            return call.args[0]
        return call.keywords[0].value

    def seedexpr_evaluating(self, node):
        """seed expression of `node`; sub-expressions with effects are evaluated first"""
        e = self.seedexpr(node)
        if e[0] == 'unknown':
            self.expr(node)
        return e

    def normaliser_kind(self, call):
        chain = chain_of(call.func)
        ext = self.tr.classify_external(chain, self.ent, self.local_names)
        if ext is not None:
            lib, attr = ext
            if lib == 'numpy' and attr in NP_RANDOM_CONSTRUCTORS: return 'numpy'
            if lib == 'python' and attr in PY_RANDOM_CONSTRUCTORS: return 'python'
            return None
        obj = self.tr.resolve(chain, self.ent, self.local_names)
        if obj is not None and id(obj) in self.tr.normalisers:
            return self.tr.normalisers[id(obj)]
        return None

    def seeded_call_info(self, call):
        chain = chain_of(call.func)
        obj = self.tr.resolve(chain, self.ent, self.local_names)
        ce = self.tr.entity_of_obj(obj)
        if ce is None:
            return None
        bound = self.tr.bind(obj, ce, call, self.kwdicts)
        if bound is None:
            return (ce.index, ('unknown',))
        if ce.seed_param in bound:
            return (ce.index, self.seedexpr(bound[ce.seed_param]))
        return (ce.index, self.default_of(obj, ce))

    def default_of(self, obj, ce):
        try:
            p = inspect.signature(obj).parameters[ce.seed_param]
        except Exception:
            return ('unknown',)
        if p.default is None:
            return ('none',)
        if p.default is inspect.Parameter.empty:
            return ('unknown',)
        return ('unknown',)

    # -- expressions (evaluation order: operands before the operation)
    def expr(self, node):
        tr = self.tr
        if node is None:
            return
        if isinstance(node, ast.Lambda):
            inner = self.sub()
            a = node.args
            for x in a.posonlyargs + a.args + a.kwonlyargs + ([a.vararg] if a.vararg else []) + ([a.kwarg] if a.kwarg else []):
                inner.local_names.add(x.arg)
                if x.arg not in self.vars:
                    inner.callback_names.add(x.arg)
            inner.expr(node.body)
            if inner.stmts:
                self.emit(('loop', tr.new_id(), inner.stmts))
            return
        if isinstance(node, ast.IfExp):
            self.expr(node.test)
            a, b = self.sub(), self.sub()
            a.expr(node.body); b.expr(node.orelse)
            if a.stmts or b.stmts:
                self.emit(('branch', tr.new_id(), a.stmts, b.stmts))
            return
        if isinstance(node, (ast.ListComp, ast.SetComp, ast.GeneratorExp, ast.DictComp)):
            self.expr(node.generators[0].iter)
            inner = self.sub()
            for i, g in enumerate(node.generators):
                inner.bind_target(g.target)
                if i > 0:
                    inner.expr(g.iter)
                for c in g.ifs:
                    inner.expr(c)
            if isinstance(node, ast.DictComp):
                inner.expr(node.key); inner.expr(node.value)
            else:
                inner.expr(node.elt)
            if inner.stmts:
                self.emit(('loop', tr.new_id(), inner.stmts))
            return
        if isinstance(node, ast.Call):
            self.call(node)
            return
        for child in ast.iter_child_nodes(node):
            if isinstance(child, ast.expr):
                self.expr(child)
            elif isinstance(child, ast.keyword):
                self.expr(child.value)

    def rng_args(self, call):
        out = []
        for a in list(call.args) + [k.value for k in call.keywords]:
            nm = self.name_of(a.value if isinstance(a, ast.Starred) else a)
            if nm is not None and (nm in self.vars or nm == self.seed_name):
                out.append(nm)
        for k in call.keywords:
            if k.arg is None and isinstance(k.value, ast.Name) and self.kwdicts.get(k.value.id):
                for v in self.kwdicts[k.value.id].values():
                    nm = self.name_of(v)
                    if nm is not None and (nm in self.vars or nm == self.seed_name):
                        out.append(nm)
        return out

    def call(self, node):
        tr = self.tr
        func = node.func
        # 1. a method of a local generator: a draw
        if isinstance(func, ast.Attribute):
            base = self.name_of(func.value)
            if base is not None and base in self.vars:
                for a in node.args: self.expr(a)
                for k in node.keywords: self.expr(k.value)
                self.emit(('draw', self.vars[base]))
                return
            if base is not None and base == self.seed_name:
                # drawing from the un-normalised seed parameter: normalise it first
                for a in node.args: self.expr(a)
                for k in node.keywords: self.expr(k.value)
                v = self.new_var(None)
                self.emit(('mkRng', v, ('param',)))
                self.emit(('draw', v))
                return
        chain = chain_of(func)
        if chain is None:
            # callee is itself an expression (`f(a)(b)`, `getattr(self, x)(i)`): evaluate it, then the arguments
            self.expr(func)
        # 2. generator constructors used as expressions (not assigned): `np.random.default_rng(seed).normal()`
        kind = self.normaliser_kind(node) if chain is not None else None
        if kind is not None:
            for a in node.args[1:]: self.expr(a)
            src = ('none',) if tr.arg_is_none_or_missing(node) else self.seedexpr_evaluating(self.first_arg(node))
            v = self.new_var(None)
            self.emit(('mkRng', v, src))
            return
        # arguments
        skip = set()
        info = None
        obj = tr.resolve(chain, self.ent, self.local_names) if chain is not None else None
        ce = tr.entity_of_obj(obj)
        if ce is not None:
            bound = tr.bind(obj, ce, node, self.kwdicts)
            if bound is None:
                info = (ce.index, ('unknown',))
            elif ce.seed_param in bound:
                e = self.seedexpr(bound[ce.seed_param])
                info = (ce.index, e)
                if e[0] != 'unknown':
                    skip.add(id(bound[ce.seed_param]))
            else:
                info = (ce.index, self.default_of(obj, ce))
        for a in node.args:
            if id(a) not in skip: self.expr(a.value if isinstance(a, ast.Starred) else a)
        for k in node.keywords:
            if id(k.value) not in skip: self.expr(k.value)
        # 3. global generators
        ext = tr.classify_external(chain, self.ent, self.local_names) if chain is not None else None
        if ext is not None:
            lib, attr = ext
            if lib == 'numpy' and attr in NP_RANDOM_INERT:
                return
            if lib == 'python' and attr == 'SystemRandom':
                v = self.new_var(None); self.emit(('mkRng', v, ('none',))); return
            self.emit(('drawGlobal', lib))
            return
        # 4. a translated (seeded) numqi callee
        if info is not None:
            self.emit(('call', info[0], info[1]))
            return
        # 5. closure obtained from a seeded helper, called later
        if chain is not None and len(chain) == 1 and chain[0] in self.closures:
            f, e = self.closures[chain[0]]
            self.emit(('call', f, e))
            return
        # 6. an unseeded numqi function / class: does it (transitively) touch a global generator?
        if obj is not None and id(obj) not in tr.normalisers:
            o2 = obj.__func__ if isinstance(obj, (staticmethod, classmethod)) else obj
            if isinstance(o2, (types.FunctionType, type)) and str(getattr(o2, '__module__', '')).startswith('numqi'):
                t = tr.taint(o2)
                for lib in sorted(t):
                    if lib == 'fresh':
                        v = self.new_var(None); self.emit(('mkRng', v, ('none',)))
                    else:
                        self.emit(('drawGlobal', lib))
                if self.rng_args(node):
                    self.emit(('unknownCall',))     # a generator handed to a function that declares no seed / generator parameter
                return
        # 7. everything else: external library / builtin / call through an object
        rargs = self.rng_args(node)
        if rargs:
            if chain is not None and len(chain) == 1 and chain[0] in self.callback_names:
                # user-supplied callback that is handed the generator (contract: it draws only from it)
                tr.callbacks.append(f'{self.ent.name}: {chain[0]}(…{rargs[0]}…)')
                nm = rargs[0]
                if nm == self.seed_name:
                    v = self.new_var(None); self.emit(('mkRng', v, ('param',))); self.emit(('draw', v))
                else:
                    self.emit(('draw', self.vars[nm]))
            else:
                self.emit(('unknownCall',))
            return
        if obj is None and chain is not None and chain[0] not in ('np', 'numpy', 'scipy', 'torch', 'math', 'itertools', 'functools', 'cvxpy', 'opt_einsum'):
            txt = '.'.join(chain)
            if chain[0] in ('self',) or chain[0] in self.local_names:
                tr.unresolved[txt] = tr.unresolved.get(txt, 0) + 1


# ---------------------------------------------------------------------- emission
def expr_lean(e):
    if e[0] == 'param': return '.param'
    if e[0] == 'var': return f'(.var {e[1]})'
    if e[0] == 'drawInt': return f'(.drawInt {e[1]})'
    if e[0] == 'none': return '.none'
    if e[0] == 'const': return f'(.const {e[1]})'
    return '.unknown'


def prog_lean(stmts, indent=2):
    """continuation-style term for a statement list"""
    pad = ' ' * indent
    if not stmts:
        return '.done'
    s, rest = stmts[0], stmts[1:]
    k = prog_lean(rest, indent)
    if s[0] == 'mkRng':
        return f'.mkRng {s[1]} {expr_lean(s[2])} <|\n{pad}{k}'
    if s[0] == 'draw':
        return f'.draw {s[1]} <|\n{pad}{k}'
    if s[0] == 'drawGlobal':
        return f'.drawGlobal .{s[1]} <|\n{pad}{k}'
    if s[0] == 'call':
        return f'.call {s[1]} {expr_lean(s[2])} <|\n{pad}{k}'
    if s[0] == 'unknownCall':
        return f'.unknownCall <|\n{pad}{k}'
    if s[0] == 'branch':
        return f'.branch {s[1]} ({prog_lean(s[2], indent + 2)}) ({prog_lean(s[3], indent + 2)}) <|\n{pad}{k}'
    if s[0] == 'loop':
        return f'.loop {s[1]} ({prog_lean(s[2], indent + 2)}) <|\n{pad}{k}'
    raise ValueError(s)


def closed_py(nprog, defd, stmts):
    """mirror of `SeedFlow.closed` (used only for the evidence / early diagnostics; the verdict is Lean's)"""
    defd = list(defd)
    for s in stmts:
        def ce(e):
            return e[0] in ('param', 'const') or (e[0] in ('var', 'drawInt') and e[1] in defd)
        if s[0] == 'mkRng':
            if not ce(s[2]): return False
            defd.append(s[1])
        elif s[0] == 'draw':
            if s[1] not in defd: return False
        elif s[0] in ('drawGlobal', 'unknownCall'):
            return False
        elif s[0] == 'call':
            if not (s[1] < nprog and ce(s[2])): return False
        elif s[0] == 'branch':
            if not (closed_py(nprog, defd, s[2]) and closed_py(nprog, defd, s[3])): return False
        elif s[0] == 'loop':
            if not closed_py(nprog, defd, s[2]): return False
    return True


def emit_lean(tr, path):
    lines = ['/-', 'GENERATED by harness/c10_translate.py from the numqi sources — do not edit.',
             'One seed-flow program per function / method / class with a `seed` (or generator) parameter.', '-/',
             'import NumqiModel.SeedFlow', '', 'namespace Numqi.SeedFlow.Generated', 'open Numqi.SeedFlow', '']
    listed = [e for e in tr.order if e.listed]
    for ent in listed:
        lines.append(f'/-- `{ent.name}` ({ent.path}:{ent.node.lineno}), seed parameter `{ent.seed_param}` ({ent.role}) -/')
        lines.append(f'def p{ent.index} : Prog :=\n  {prog_lean(ent.stmts, 2)}')
        lines.append('')
    lines.append('def names : List String := [' + ', '.join('"' + e.name + '"' for e in listed) + ']')
    lines.append('')
    lines.append('def programs : List Prog := [' + ', '.join(f'p{e.index}' for e in listed) + ']')
    lines.append('')
    lines.append('end Numqi.SeedFlow.Generated')
    txt = '\n'.join(lines) + '\n'
    old = None
    if os.path.exists(path):
        old = open(path).read()
    if old != txt:
        os.makedirs(os.path.dirname(path), exist_ok=True)
        with open(path, 'w') as fh:
            fh.write(txt)
    return txt


def translate(repo, out_path):
    tr = Translator(repo).run()
    emit_lean(tr, out_path)
    return tr
