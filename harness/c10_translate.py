"""Seed-flow translator for C10 (used by harness/c10.py:translate) — fail-safe version.

Parses the Python sources under `common.REPO/python/numqi` with `ast` and emits, for every function / method / class of the
anchored files that takes a `seed` (or a generator) parameter — and for every other function of those files that creates a
generator or touches a global one — one term of the DSL of `lean/NumqiModel/SeedFlow.lean` into
`lean/NumqiModel/Generated/SeedPrograms.lean`.

Classification is *closed-world*: every call expression inside a translated body is put into exactly one class

  (a) draw from a tracked explicit generator                      -> `draw v` / `drawInt v` / `mkRng`
  (b) known pure: an explicit allow-list (PURE_MODULES, PURE_BUILTINS, PURE_METHODS, nested defs already inlined,
      calls on user-supplied arguments = contract)                 -> nothing
  (c) known global-state draw (np.random.*, random.*, torch.rand*, in-place tensor initialisers, scipy.stats `.rvs`,
      torch.nn.init.*, generators built from None)                 -> `drawGlobal g` / `mkRng _ .none`
  (s) a numqi callee: seeded -> `call f <what its seed parameter receives>`; unseeded -> its own body is translated the
      same way and its effects are spliced in
  (d) anything else                                                -> `unknownCall`  (not closed)

Names are resolved the way Python resolves them (globals of the imported defining module, local aliases, local imports,
`functools.partial`, `self.<attr>` through the class and through `self.<attr> = C(...)` assignments), arguments are bound with
`inspect.signature(...).bind_partial`.  Rebinding of the seed parameter or of a generator variable is tracked.
"""
import ast
import builtins
import importlib
import inspect
import os
import sys
import textwrap
import types

LISTED = ['random/_internal.py', 'random/_spf2.py', 'random/_public.py', 'sim/state.py', 'sim/circuit.py', 'sim/clifford.py',
          'entangle/cha.py', 'entangle/pureb.py', 'optimize/_internal.py']
SEED_PARAMS = ('seed',)
RNG_PARAMS = ('np_rng', 'rng')
DRAWINT_METHODS = {'randint', 'integers', 'randrange', 'getrandbits'}
NP_RANDOM_CONSTRUCTORS = {'default_rng', 'RandomState', 'Generator'}
NP_BIT_GENERATORS = ('PCG64', 'PCG64DXSM', 'MT19937', 'Philox', 'SFC64')
# sources of values that differ from run to run without any generator being involved: such a value may not reach a draw's arguments,
# a seed expression or a child seed (the drawn number would no longer be a function of the seed)
NONDET_MODULES = ('time', 'datetime', 'uuid', 'secrets', 'threading', 'socket', 'platform', 'resource', 'tempfile')
NONDET_OS = {'urandom', 'getpid', 'getppid', 'times', 'getrandom', 'getloadavg', 'cpu_count', 'getcwd', 'environ', 'getenv', 'stat', 'listdir', 'scandir'}
NONDET_BUILTINS = {'id', 'hash', 'object', 'input', 'open', 'vars', 'globals', 'locals'}
NP_RANDOM_INERT = {'SeedSequence', 'PCG64', 'MT19937', 'Philox', 'SFC64', 'BitGenerator', 'PCG64DXSM'}
PY_RANDOM_CONSTRUCTORS = {'Random'}
# torch functions that consume the global torch generator
TORCH_RANDOM = {'rand', 'randn', 'randint', 'randperm', 'rand_like', 'randn_like', 'randint_like', 'normal', 'bernoulli', 'multinomial', 'poisson',
                'manual_seed', 'seed', 'dropout', 'initial_seed', 'set_rng_state', 'rrelu', 'alpha_dropout', 'feature_alpha_dropout'}
# in-place / method forms that draw from a global generator, whatever the receiver is
RANDOM_METHODS_TORCH = {'uniform_', 'normal_', 'random_', 'bernoulli_', 'exponential_', 'cauchy_', 'geometric_', 'log_normal_', 'multinomial',
                        'bernoulli', 'dropout', 'dropout_'}
RANDOM_METHODS_NUMPY = {'rvs'}

# (b) modules whose members are pure (deterministic, no generator state) — checked one by one; numpy.random / scipy.stats /
# torch random members are carved out above.  Sub-modules not listed are NOT pure by default.
PURE_MODULES = {
    # value: set of allowed public sub-module paths ('' = the top level); '*' = every sub-module except those in PURE_DENY
    'numpy': {'*'}, 'torch': {'*'}, 'tqdm': {'*'}, 'cvxpy': {'*'}, 'sympy': {'*'}, 'opt_einsum': {'*'},
    'scipy': {'linalg', 'special', 'sparse', 'sparse.linalg', 'optimize', 'integrate', 'interpolate', 'constants', 'lib.sparse'},
    'math': {''}, 'cmath': {''}, 'itertools': {''}, 'functools': {''}, 'operator': {''}, 'collections': {''},
    'contextlib': {''}, 'time': {''}, 'copy': {''}, 'warnings': {''},
    'posixpath': {''}, 'genericpath': {''}, 'ntpath': {''}, 'io': {''},
    'concurrent': {'futures'}, 'multiprocessing': {'*'}, 'numbers': {''}, 're': {''}, 'os': {'', 'path'}, 'json': {''}, 'pickle': {''},
}
# sub-namespaces of the '*' modules that are NOT pure
PURE_DENY = {
    'numpy': ('random', 'f2py', 'distutils', 'ctypeslib'),
    'torch': ('random', 'distributions', 'nn.init', 'utils.data', 'quasirandom', 'distributed', 'hub', 'cuda.random', 'mps', 'xpu'),
    'sympy': ('stats', 'core.random', 'utilities.randtest', 'testing'),
    'cvxpy': (), 'tqdm': (), 'opt_einsum': (), 'multiprocessing': (),
}
# members of pure modules that are nevertheless not pure
IMPURE_MEMBERS = {('torch', 'nn', 'Dropout'), ('torch', 'nn', 'RReLU'), ('torch', 'nn.functional', 'dropout'), ('torch', 'nn.functional', 'rrelu'),
                  ('torch', '', 'empty'), ('torch', '', 'empty_like'), ('numpy', '', 'empty'), ('numpy', '', 'empty_like')}
# torch.nn layer constructors initialise their parameters from the global torch generator
TORCH_NN_PARAM_LAYERS = {'Linear', 'Bilinear', 'Conv1d', 'Conv2d', 'Conv3d', 'ConvTranspose1d', 'ConvTranspose2d', 'ConvTranspose3d', 'Embedding',
                         'EmbeddingBag', 'RNN', 'LSTM', 'GRU', 'RNNCell', 'LSTMCell', 'GRUCell', 'Transformer', 'MultiheadAttention',
                         'TransformerEncoderLayer', 'TransformerDecoderLayer'}
PURE_BUILTINS = {'len', 'range', 'int', 'float', 'complex', 'bool', 'str', 'bytes', 'tuple', 'list', 'dict', 'set', 'frozenset', 'sorted', 'reversed',
                 'enumerate', 'zip', 'min', 'max', 'sum', 'abs', 'round', 'pow', 'divmod', 'isinstance', 'issubclass', 'hasattr', 'callable', 'print',
                 'bin', 'hex', 'oct', 'ord', 'chr', 'all', 'any', 'iter', 'next', 'type', 'id', 'repr', 'format', 'slice', 'super', 'map', 'filter',
                 'open', 'object', 'NotImplementedError', 'RuntimeError', 'ValueError', 'TypeError', 'AssertionError', 'KeyError', 'IndexError', 'Exception', 'hash', 'vars'}
# methods of values (ndarray, torch.Tensor, list, dict, set, str, tuple, OptimizeResult, torch modules/optimisers, cvxpy objects, tqdm bars, slices …)
PURE_METHODS = {
    # ndarray / tensor
    'amax', 'amin', 'reshape', 'conj', 'conjugate', 'transpose', 'sum', 'prod', 'copy', 'astype', 'view', 'tolist', 'item', 'detach', 'numpy', 'cpu', 'cuda', 'to',
    'backward', 'zero_', 'copy_', 'fill_', 'clone', 'real', 'imag', 'max', 'min', 'any', 'all', 'mean', 'std', 'var', 'dot', 'flatten', 'ravel',
    'squeeze', 'unsqueeze', 'argsort', 'argmax', 'argmin', 'nonzero', 'cumsum', 'cumprod', 'clip', 'round', 'trace', 'diagonal', 'swapaxes', 'repeat',
    'take', 'fill', 'sort', 'numel', 'size', 'dim', 'permute', 'contiguous', 'type', 'double', 'float', 'long', 'int', 'bool', 'abs', 'sqrt', 'exp',
    'log', 'sin', 'cos', 'norm', 'diag', 'tobytes', 'byteswap', 'requires_grad_', 'is_complex', 'is_floating_point', 'element_size', 'toarray',
    'todense', 'tocoo', 'tocsr', 'tocsc', 'getH', 'expand', 'flip', 'matmul', 'mm', 'bmm', 'einsum', 'index_select', 'masked_fill', 'split', 'chunk',
    # containers / str
    'append', 'extend', 'insert', 'pop', 'remove', 'clear', 'index', 'count', 'reverse', 'items', 'keys', 'values', 'get', 'update', 'setdefault',
    'add', 'discard', 'union', 'intersection', 'difference', 'issubset', 'join', 'lower', 'upper', 'strip', 'rjust', 'ljust', 'zfill', 'startswith',
    'endswith', 'replace', 'format', 'encode', 'decode', 'bit_length', 'from_bytes', 'to_bytes',
    # torch modules / optimisers / schedulers
    'parameters', 'named_parameters', 'zero_grad', 'step', 'state_dict', 'load_state_dict', 'train', 'eval', 'register_buffer', '__init__',
    # cvxpy / tqdm / executors / misc
    'solve', 'set_postfix', 'set_postfix_str', 'set_description', 'close', 'submit', 'result', 'spawn',
}


class Entity:
    def __init__(self, key, kind, node, module, cls, path, seed_param, role):
        self.key = key              # (module name, qualname)
        self.kind = kind            # 'function' | 'method' | 'class'
        self.node = node            # FunctionDef (function/method) or ClassDef
        self.module = module        # module object
        self.cls = cls              # class object for methods / classes
        self.path = path
        self.seed_param = seed_param
        self.role = role            # 'seed' | 'rng' | 'none'
        self.index = None
        self.stmts = None
        self.listed = False

    @property
    def name(self):
        return self.key[0] + '.' + self.key[1]


def seed_param_of(fn_node, skip_self):
    args = fn_node.args
    names = [a.arg for a in args.posonlyargs + args.args + args.kwonlyargs]
    if skip_self and names and names[0] in ('self', 'cls'):
        names = names[1:]
    for n in names:
        if n in SEED_PARAMS:
            return n, 'seed'
    for n in names:
        if n in RNG_PARAMS:
            return n, 'rng'
    return None, None


def chain_of(node):
    """Name/Attribute chain -> list of identifiers, else None"""
    parts = []
    while isinstance(node, ast.Attribute):
        parts.append(node.attr)
        node = node.value
    if isinstance(node, ast.Name):
        parts.append(node.id)
        return parts[::-1]
    return None


def root_name(node):
    """the Name at the bottom of an attribute / subscript / call chain (the 'receiver root'), else None"""
    while True:
        if isinstance(node, ast.Attribute):
            node = node.value
        elif isinstance(node, ast.Subscript):
            node = node.value
        elif isinstance(node, ast.Call):
            node = node.func
        elif isinstance(node, ast.Name):
            return node.id
        else:
            return None


def mentions_randomness(fn_node):
    """cheap syntactic test used to find functions that touch generators although they have no seed parameter"""
    for n in ast.walk(fn_node):
        if isinstance(n, ast.Attribute) and n.attr in ('default_rng', 'RandomState', 'get_numpy_rng', 'get_random_rng', 'manual_seed'):
            return True
        if isinstance(n, ast.Name) and n.id in ('get_numpy_rng', 'get_random_rng', 'default_rng'):
            return True
        if isinstance(n, ast.Attribute) and isinstance(n.value, ast.Attribute) and n.value.attr == 'random' and isinstance(n.value.value, ast.Name) and n.value.value.id in ('np', 'numpy'):
            return True
        if isinstance(n, ast.Attribute) and isinstance(n.value, ast.Name) and n.value.id == 'random':
            return True
        if isinstance(n, ast.Attribute) and isinstance(n.value, ast.Name) and n.value.id == 'torch' and n.attr in TORCH_RANDOM:
            return True
    return False


class Translator:
    def __init__(self, repo):
        self.repo = repo
        self.pkgdir = os.path.join(repo, 'python', 'numqi')
        self.entities = {}          # key -> Entity
        self.order = []
        self.normalisers = {}
        self.unknown = []           # (entity name, text) for every unknownCall emitted in a listed entity
        self.contracts = {}         # calls on user-supplied arguments: text -> count
        self.callbacks = []         # user callbacks handed a generator
        self.summary_cache = {}
        self.summary_stack = []
        self.ast_cache = {}
        self.loop_id = 0
        self.used_pure = set()      # allow-list entries actually used (evidence)

    # ------------------------------------------------------------------ loading
    def load(self):
        import numqi
        root = os.path.realpath(os.path.dirname(numqi.__file__))
        if root != os.path.realpath(self.pkgdir):
            raise RuntimeError(f'numqi imported from {root}, expected {self.pkgdir}')
        import numpy, random as pyrandom
        self.np = numpy
        self.pyrandom = pyrandom
        try:
            import torch
            self.torch = torch
        except Exception:
            self.torch = None
        pub = importlib.import_module('numqi.random._public')
        self.normalisers = {id(pub.get_numpy_rng): 'get_numpy_rng', id(pub.get_random_rng): 'get_random_rng'}
        files = list(LISTED)
        extra = []
        for dp, dn, fn in os.walk(self.pkgdir):
            dn.sort()
            for f in sorted(fn):
                if f.endswith('.py'):
                    rel = os.path.relpath(os.path.join(dp, f), self.pkgdir)
                    if rel not in files:
                        extra.append(rel)
        for rel in files + extra:
            self.scan_file(rel, listed=rel in LISTED)

    def module_of(self, rel):
        mod = 'numqi.' + rel[:-3].replace(os.sep, '.')
        if mod.endswith('.__init__'):
            mod = mod[:-9]
        return mod

    def parse(self, rel):
        if rel not in self.ast_cache:
            src = open(os.path.join(self.pkgdir, rel)).read()
            self.ast_cache[rel] = ast.parse(src)
        return self.ast_cache[rel]

    def scan_file(self, rel, listed):
        tree = self.parse(rel)
        modname = self.module_of(rel)
        def wanted(fn, skip_self):
            sp, role = seed_param_of(fn, skip_self)
            if sp:
                return sp, role
            if listed and mentions_randomness(fn):
                return None, 'none'
            return None, None
        cand = False
        for node in tree.body:
            if isinstance(node, ast.FunctionDef) and wanted(node, False)[1]:
                cand = True
            if isinstance(node, ast.ClassDef):
                for sub in node.body:
                    if isinstance(sub, ast.FunctionDef) and wanted(sub, True)[1]:
                        cand = True
        if not cand:
            return
        try:
            module = importlib.import_module(modname)
        except Exception:
            if listed:
                raise
            return
        for node in tree.body:
            if isinstance(node, ast.FunctionDef):
                sp, role = wanted(node, False)
                if role and id(getattr(module, node.name, None)) not in self.normalisers:
                    self.add(Entity((modname, node.name), 'function', node, module, None, rel, sp, role), listed)
            elif isinstance(node, ast.ClassDef):
                cls = getattr(module, node.name, None)
                for sub in node.body:
                    if isinstance(sub, ast.FunctionDef):
                        sp, role = wanted(sub, True)
                        if not role:
                            continue
                        if sub.name == '__init__' and role != 'none':
                            self.add(Entity((modname, node.name), 'class', node, module, cls, rel, sp, role), listed)
                        else:
                            self.add(Entity((modname, node.name + '.' + sub.name), 'method', sub, module, cls, rel, sp, role), listed)

    def add(self, ent, listed):
        ent.listed = listed
        self.entities[ent.key] = ent
        ent.index = len(self.order)
        self.order.append(ent)

    # ------------------------------------------------------------------ object helpers
    @staticmethod
    def unwrap(obj):
        if isinstance(obj, (staticmethod, classmethod)):
            obj = obj.__func__
        if inspect.ismethod(obj):
            obj = obj.__func__
        try:
            obj = inspect.unwrap(obj)
        except Exception:
            pass
        return obj

    def entity_of_obj(self, obj):
        if obj is None:
            return None
        obj = self.unwrap(obj)
        mod = getattr(obj, '__module__', None)
        qn = getattr(obj, '__qualname__', None)
        if not mod or not qn or not str(mod).startswith('numqi'):
            return None
        return self.entities.get((mod, qn))

    def module_class(self, obj):
        """classification of an object that lives in an external module: 'pure' | ('numpy'|'python'|'torch') | 'fresh-ctor' | None (unknown)"""
        if isinstance(obj, (staticmethod, classmethod)):
            obj = obj.__func__
        mod = getattr(obj, '__module__', None)
        name = getattr(obj, '__name__', None) or getattr(obj, '__qualname__', None)
        selfobj = getattr(obj, '__self__', None)
        # bound methods of the global generators
        if selfobj is not None and type(selfobj).__name__ == 'RandomState' and selfobj is getattr(self.np.random.mtrand, '_rand', None):
            return 'numpy'
        if selfobj is not None and isinstance(selfobj, self.pyrandom.Random) and selfobj is getattr(self.pyrandom, '_inst', None):
            return 'python'
        if obj is self.np.random.default_rng or obj is self.np.random.RandomState or obj is self.np.random.Generator or obj is self.pyrandom.Random:
            return 'ctor'
        if obj is getattr(self.pyrandom, 'SystemRandom', None):
            return 'fresh'
        if mod is None and selfobj is not None and isinstance(selfobj, types.ModuleType):
            mod = selfobj.__name__
        if mod is None:
            mod = type(obj).__module__ if not isinstance(obj, type) else None
        if not mod:
            return None
        mod = str(mod)
        if mod.startswith('numpy.random') or mod == 'numpy.random.mtrand':
            return 'numpy' if name not in NP_RANDOM_INERT else 'pure'
        if mod == 'random':
            return 'python'
        if mod.startswith('scipy.stats'):
            return None
        if mod.startswith('torch'):
            if name in TORCH_RANDOM or mod.startswith('torch.nn.init') or mod.startswith('torch.distributions') or mod.startswith('torch.random'):
                return 'torch'
            if mod.startswith('torch.nn.modules') and name in TORCH_NN_PARAM_LAYERS:
                return 'torch'
        top = mod.split('.')[0]
        if top.startswith('_') and top.lstrip('_') in PURE_MODULES:
            top = top.lstrip('_'); mod = mod.lstrip('_')
        if top in PURE_MODULES:
            sub = mod[len(top) + 1:] if '.' in mod else ''
            # private implementation modules (numpy._core.fromnumeric, torch._C, scipy.linalg._basic …) count as their public parent
            parts = [p for p in sub.split('.') if p and not p.startswith('_')]
            pub = '.'.join(parts)
            if not parts and sub:
                pub = '.'.join(p.lstrip('_') for p in sub.split('.') if p)
            if (top, '', name) in IMPURE_MEMBERS or (top, pub, name) in IMPURE_MEMBERS:
                return None
            allowed = PURE_MODULES[top]
            if '*' in allowed:
                if any(pub == d or pub.startswith(d + '.') for d in PURE_DENY.get(top, ())):
                    return None
                self.used_pure.add(top + '.*')
                return 'pure'
            if pub in allowed or any(pub.startswith(a + '.') for a in allowed if a) or (pub == '' and '' in allowed):
                self.used_pure.add(top + ('.' + pub if pub else ''))
                return 'pure'
        if mod == 'builtins':
            return 'pure' if name in PURE_BUILTINS else None
        return None

    # ------------------------------------------------------------------ summaries of unseeded numqi callees
    def func_ast(self, obj):
        try:
            src = textwrap.dedent(inspect.getsource(obj))
            tree = ast.parse(src)
        except Exception:
            return None
        if getattr(obj, '__name__', '') == '<lambda>':
            lams = [n for n in ast.walk(tree) if isinstance(n, ast.Lambda)]
            if len(lams) != 1:
                return None
            fd = ast.FunctionDef(name='_lambda', args=lams[0].args, body=[ast.Return(value=lams[0].body)], decorator_list=[], returns=None, type_comment=None)
            return ast.fix_missing_locations(fd)
        for n in tree.body:
            if isinstance(n, (ast.FunctionDef, ast.AsyncFunctionDef)):
                return n
        return None

    def summary(self, obj):
        """effects of an unseeded numqi function / class: subset of {'numpy','python','torch','fresh','unknown'}"""
        obj = self.unwrap(obj)
        owner = None
        if inspect.isclass(obj):
            owner = obj
            eff = set()
            try:
                import torch
                is_mod = issubclass(obj, torch.nn.Module)
            except Exception:
                is_mod = False
            init = inspect.getattr_static(obj, '__init__', None)
            if isinstance(init, types.FunctionType):
                eff |= self.summary_fn(init, owner)
            elif init is not object.__init__ and init is not None and not is_mod:
                eff.add('unknown')
            return eff
        if not isinstance(obj, types.FunctionType):
            return {'unknown'}
        return self.summary_fn(obj, None)

    def summary_fn(self, fn, owner):
        mod = getattr(fn, '__module__', '') or ''
        if not mod.startswith('numqi'):
            return {'unknown'}
        key = (mod, fn.__qualname__)
        if key in self.summary_cache:
            return self.summary_cache[key]
        if key in self.summary_stack:
            return set()            # recursion: the effects of the cycle are collected by the outermost frame
        if len(self.summary_stack) > 40:
            return {'unknown'}
        node = self.func_ast(fn)
        module = sys.modules.get(mod)
        if node is None or module is None:
            self.summary_cache[key] = {'unknown'}
            return {'unknown'}
        cls = owner
        if cls is None and '.' in fn.__qualname__ and '<locals>' not in fn.__qualname__:
            cls = getattr(module, fn.__qualname__.split('.')[0], None)
            if not inspect.isclass(cls):
                cls = None
        ent = Entity(key, 'function', node, module, cls, '', None, 'none')
        ent.closure_of = fn
        depth_before = len(self.summary_stack)
        self.summary_stack.append(key)
        saved = self.loop_id
        try:
            ctx = Ctx(self, ent)
            ctx.enter_function(node, top=True)
            ctx.block(node.body)
            eff = effects_of(ctx.stmts)
        finally:
            self.summary_stack.pop()
            self.loop_id = saved
        if depth_before == 0 or key not in self.summary_stack:
            self.summary_cache[key] = eff
        return eff

    # ------------------------------------------------------------------ binding
    def bind(self, callee, ce, call_args, call_kwargs):
        """parameter name -> argument node, using the callee's real signature; None if the call cannot be bound"""
        target = callee
        drop_first = False
        if not inspect.isclass(target):
            if isinstance(target, (staticmethod, classmethod)):
                target = target.__func__
            if ce is not None and ce.kind == 'method' and not inspect.ismethod(callee):
                drop_first = True       # plain function taken from the class: first parameter is `self`
        try:
            sig = inspect.signature(target)
        except (TypeError, ValueError):
            return None
        pos = list(call_args)
        if drop_first:
            pos = [ast.Name(id='self', ctx=ast.Load())] + pos
        try:
            ba = sig.bind_partial(*pos, **call_kwargs)
        except TypeError:
            return None
        return dict(ba.arguments)

    # ------------------------------------------------------------------ translation of one entity
    def translate_entity(self, ent):
        ctx = Ctx(self, ent)
        if ent.kind == 'class':
            init = [n for n in ent.node.body if isinstance(n, ast.FunctionDef) and n.name == '__init__'][0]
            ctx.enter_function(init, top=True)
            ctx.block(init.body)
            for sub in ent.node.body:
                if isinstance(sub, ast.FunctionDef) and sub.name != '__init__' and seed_param_of(sub, True)[0] is None:
                    inner = ctx.sub()
                    inner.enter_function(sub, top=False)
                    inner.block(sub.body)
                    if inner.stmts:
                        ctx.emit(('loop', self.new_id(), inner.stmts))
        else:
            ctx.enter_function(ent.node, top=True)
            ctx.block(ent.node.body)
        ent.stmts = ctx.stmts

    def new_id(self):
        self.loop_id += 1
        return self.loop_id

    def run(self):
        self.load()
        for ent in self.order:
            self.loop_id = 0
            self.current = ent
            self.translate_entity(ent)
        return self


def effects_of(stmts):
    eff = set()
    for s in stmts:
        if s[0] == 'drawGlobal':
            eff.add(s[1])
        elif s[0] == 'unknownCall':
            eff.add('unknown')
        elif s[0] == 'mkRng':
            if s[2][0] == 'none': eff.add('fresh')
            elif s[2][0] == 'unknown' or s[2][0] == 'param': eff.add('unknown')
        elif s[0] == 'call':
            if s[2][0] == 'none': eff.add('fresh')
            elif s[2][0] in ('unknown', 'param'): eff.add('unknown')
        elif s[0] == 'branch':
            eff |= effects_of(s[2]) | effects_of(s[3])
        elif s[0] == 'loop':
            eff |= effects_of(s[2])
    return eff


class Ctx:
    """translation state of one function body"""
    def __init__(self, tr, ent, parent=None):
        self.tr = tr
        self.ent = ent
        self.stmts = []
        if parent is None:
            self.vars = {}             # name ('np_rng', 'self.np_rng') -> Var
            self.counter = [0]
            self.closures = {}         # local name -> (entity index, seed expr)
            self.kwdicts = {}          # local dict name -> {key: node} | None
            self.params = set()        # user-supplied arguments (contract)
            self.local_names = set()
            self.local_defs = set()    # nested def / lambda names (bodies inlined at definition)
            self.aliases = {}          # local name -> python object (module / function / class)
            self.partials = {}         # local name -> (callee object, positional nodes, keyword nodes)
            self.instances = {}        # local name / 'self.attr' -> class object the value is an instance of
            self.strlists = {}         # local name -> list of candidate strings (for getattr)
            self.closure_locals = set()  # locals holding the result of an unseeded numqi function (its body, incl. returned closures, is already accounted)
            self.seed_name = None
            self.seed_expr = {'cur': ('param',)}
            self.seedvals = {}         # local name -> seed expression: `s = rng.randint(…)` at the top level of the body, used later as `seed=s`
            self.tainted = set()       # locals that (may) hold a run-dependent value (clock, pid, object address, …)
            self.depth = 0
        else:
            self.depth = parent.depth + 1
            self.seedvals = parent.seedvals
            self.tainted = parent.tainted
            for k in ('vars', 'counter', 'closures', 'kwdicts', 'params', 'local_names', 'local_defs', 'aliases', 'partials', 'instances',
                      'strlists', 'closure_locals', 'seed_name', 'seed_expr'):
                setattr(self, k, getattr(parent, k))

    def sub(self):
        return Ctx(self.tr, self.ent, self)

    def emit(self, s):
        self.stmts.append(s)

    def unknown(self, node, why=''):
        try:
            txt = ast.unparse(node)
        except Exception:
            txt = '<expr>'
        self.tr.unknown.append((self.ent.name, (why + ': ' if why else '') + txt[:120]))
        self.emit(('unknownCall',))

    def new_var(self, name):
        v = self.counter[0]
        self.counter[0] += 1
        if name is not None:
            self.vars[name] = v
        return v

    # -- function entry: parameters
    def enter_function(self, fn, top):
        args = fn.args
        names = [a.arg for a in args.posonlyargs + args.args + args.kwonlyargs]
        if args.vararg: names.append(args.vararg.arg)
        if args.kwarg: names.append(args.kwarg.arg)
        for n in names:
            self.local_names.add(n)
            for d in (self.aliases, self.partials, self.instances, self.closures):
                d.pop(n, None)
        if top:
            sp = self.ent.seed_param
            if self.ent.role == 'seed':
                self.seed_name = sp
            elif self.ent.role == 'rng':
                v = self.new_var(sp)
                self.emit(('mkRng', v, ('param',)))
            for n in names:
                if n not in (sp, 'self', 'cls'):
                    self.params.add(n)
            if self.ent.cls is not None:
                self.collect_instance_attrs()
        else:
            for n in names:
                if n not in ('self', 'cls') and n not in self.vars:
                    self.params.add(n)

    def collect_instance_attrs(self):
        """`self.attr = C(...)` anywhere in the class: the attribute is an instance of C"""
        cls = self.ent.cls
        try:
            src = textwrap.dedent(inspect.getsource(cls))
            tree = ast.parse(src)
        except Exception:
            return
        for n in ast.walk(tree):
            if isinstance(n, ast.Assign) and len(n.targets) == 1 and isinstance(n.targets[0], ast.Attribute) and isinstance(n.targets[0].value, ast.Name) \
                    and n.targets[0].value.id == 'self' and isinstance(n.value, ast.Call):
                obj = self.resolve(chain_of(n.value.func), allow_locals=False)
                key = 'self.' + n.targets[0].attr
                if inspect.isclass(obj):
                    cur = self.instances.get(key, [])
                    if cur is not None and obj not in cur:
                        self.instances[key] = cur + [obj]
                elif obj is not None or chain_of(n.value.func) is None:
                    pass
                else:
                    self.instances[key] = None      # assigned from something unresolved: not typed

    # -- name resolution
    def resolve(self, chain, allow_locals=True):
        if chain is None:
            return None
        head = chain[0]
        if head in ('self', 'cls') and self.ent.cls is not None:
            if len(chain) == 1:
                return None
            obj = self.ent.cls
            for i, a in enumerate(chain[1:]):
                try:
                    obj = inspect.getattr_static(obj, a)
                except AttributeError:
                    return None
                if isinstance(obj, (staticmethod, classmethod)):
                    obj = obj.__func__
                if isinstance(obj, property):
                    return None
            return obj
        if allow_locals and head in self.aliases:
            obj = self.aliases[head]
        elif allow_locals and head in self.local_names:
            return None
        else:
            g = self.ent.module.__dict__
            fn = getattr(self.ent, 'closure_of', None)
            if fn is not None and fn.__closure__ and head in fn.__code__.co_freevars:
                try:
                    obj = fn.__closure__[fn.__code__.co_freevars.index(head)].cell_contents
                except ValueError:
                    return None
            elif head in g:
                obj = g[head]
            elif hasattr(builtins, head):
                obj = getattr(builtins, head)
            else:
                return None
        for a in chain[1:]:
            try:
                obj = getattr(obj, a)
            except Exception:
                return None
        return obj

    # -- seed expressions
    def name_of(self, node):
        c = chain_of(node)
        if c is None:
            return None
        return '.'.join(c)

    def nondet_in(self, node):
        """does the expression (possibly) depend on a run-dependent value: a call / attribute of a clock-, pid-, address-like source, or a
        local assigned from one (taint, flow-insensitive once set)"""
        if node is None:
            return False
        for n in ast.walk(node):
            if isinstance(n, ast.Name) and isinstance(n.ctx, ast.Load):
                if n.id in self.tainted:
                    return True
                if n.id in NONDET_BUILTINS and n.id not in self.local_names:
                    return True
                obj = self.aliases.get(n.id) if n.id in self.aliases else self.ent.module.__dict__.get(n.id) if n.id not in self.local_names else None
                if self.nondet_obj(obj):
                    return True
            elif isinstance(n, ast.Attribute):
                c = chain_of(n)
                if c is not None:
                    try:
                        obj = self.resolve(c)
                    except Exception:
                        obj = None
                    if self.nondet_obj(obj):
                        return True
        return False

    @staticmethod
    def nondet_obj(obj):
        if obj is None:
            return False
        if isinstance(obj, types.ModuleType):
            return obj.__name__.split('.')[0] in NONDET_MODULES
        mod = str(getattr(obj, '__module__', '') or '')
        if not mod and getattr(obj, '__self__', None) is not None and isinstance(obj.__self__, types.ModuleType):
            mod = obj.__self__.__name__
        top = mod.split('.')[0]
        if top in NONDET_MODULES:
            return True
        if top in ('os', 'posix', 'nt') and getattr(obj, '__name__', '') in NONDET_OS:
            return True
        return False

    def taint_targets(self, targets, value):
        """locals bound to a run-dependent value stay tainted (never cleared: flow-insensitive, fail-safe)"""
        if self.nondet_in(value):
            for t in targets:
                for n in ast.walk(t):
                    if isinstance(n, ast.Name):
                        self.tainted.add(n.id)

    def store_into_tracked(self, t):
        """`np_rng.bit_generator.state = …`, `np_rng.x[0] = …`: a store through a tracked generator (or the seed parameter) changes its
        state in a way the model does not follow: unknown effect, and the generator is no longer tracked"""
        hit = False
        for n in ast.walk(t):
            if isinstance(n, (ast.Attribute, ast.Subscript)) and isinstance(getattr(n, 'ctx', None), (ast.Store, ast.Del)):
                base = n.value
                while isinstance(base, (ast.Attribute, ast.Subscript)):
                    nm = self.name_of(base) if isinstance(base, ast.Attribute) else None
                    if nm is not None and nm in self.vars:
                        break
                    base = base.value
                nm = self.name_of(base)
                if nm is None:
                    continue
                if nm in self.vars:
                    self.unknown(t, 'store through a tracked generator')
                    del self.vars[nm]
                    self.vars_lost = True
                    hit = True
                elif self.seed_name is not None and nm == self.seed_name and getattr(self.ent, 'role', None) == 'rng':
                    self.unknown(t, 'store through the generator parameter')
                    self.seed_expr['cur'] = ('unknown',)
                    hit = True
        return hit

    def seedexpr(self, node):
        if node is not None and not isinstance(node, ast.Constant) and self.nondet_in(node):
            return ('unknown',)
        if isinstance(node, ast.Constant):
            if node.value is None:
                return ('none',)
            if isinstance(node.value, bool):
                return ('unknown',)
            if isinstance(node.value, int) and node.value >= 0:
                return ('const', int(node.value))
            return ('unknown',)
        nm = self.name_of(node)
        if nm is not None:
            if self.seed_name is not None and nm == self.seed_name:
                return self.seed_expr['cur']
            if nm in self.vars:
                return ('var', self.vars[nm])
            if nm in self.seedvals:
                return self.seedvals[nm]
            return ('unknown',)
        if isinstance(node, ast.Call) and isinstance(node.func, ast.Attribute):
            base = self.name_of(node.func.value)
            if base in self.vars and node.func.attr in DRAWINT_METHODS:
                return ('drawInt', self.vars[base])
        if isinstance(node, ast.Call) and isinstance(node.func, ast.Name) and node.func.id == 'int' and len(node.args) == 1 and 'int' not in self.local_names:
            return self.seedexpr(node.args[0])
        # `np.random.PCG64(seedexpr)` (and the other numpy bit generators) handed to `np.random.Generator`: the stream is a function of
        # the seed expression exactly as for `default_rng(seedexpr)`; no argument / None = fresh entropy
        if isinstance(node, ast.Call):
            chain = chain_of(node.func)
            obj = self.resolve(chain) if chain is not None else None
            if obj is not None and any(obj is getattr(self.tr.np.random, nm, None) for nm in NP_BIT_GENERATORS):
                if any(isinstance(a, ast.Starred) for a in node.args) or len(node.args) > 1 or any(k.arg != 'seed' for k in node.keywords) or (node.args and node.keywords):
                    return ('unknown',)
                arg = node.args[0] if node.args else (node.keywords[0].value if node.keywords else None)
                if arg is None or (isinstance(arg, ast.Constant) and arg.value is None):
                    return ('none',)
                return self.seedexpr(arg)
        return ('unknown',)

    # -- statements
    def block(self, body):
        for st in body:
            self.stmt(st)

    def stmt(self, st):
        tr = self.tr
        if isinstance(st, (ast.FunctionDef, ast.AsyncFunctionDef)):
            inner = self.sub()
            self.local_names.add(st.name)
            self.local_defs.add(st.name)
            for d in st.decorator_list:
                self.expr(d)
            inner.enter_function(st, top=False)
            inner.block(st.body)
            if inner.stmts:
                self.emit(('loop', tr.new_id(), inner.stmts))
            return
        if isinstance(st, ast.ClassDef):
            self.unknown(st, 'class definition inside a function')
            return
        if isinstance(st, (ast.Import, ast.ImportFrom)):
            self.local_import(st)
            return
        if isinstance(st, ast.If):
            self.expr(st.test)
            a, b = self.sub(), self.sub()
            a.block(st.body); b.block(st.orelse)
            if a.stmts or b.stmts:
                self.emit(('branch', tr.new_id(), a.stmts, b.stmts))
            return
        if isinstance(st, (ast.For, ast.AsyncFor)):
            self.expr(st.iter)
            self.taint_targets([st.target], st.iter)
            self.bind_target(st.target)
            a = self.sub(); a.block(st.body)
            if a.stmts:
                self.emit(('loop', tr.new_id(), a.stmts))
            self.block(st.orelse)
            return
        if isinstance(st, ast.While):
            a = self.sub(); a.expr(st.test); a.block(st.body)
            if a.stmts:
                self.emit(('loop', tr.new_id(), a.stmts))
            self.block(st.orelse)
            return
        if isinstance(st, (ast.With, ast.AsyncWith)):
            for it in st.items:
                self.expr(it.context_expr)
                if it.optional_vars is not None:
                    self.bind_target(it.optional_vars)
            self.block(st.body)
            return
        if isinstance(st, ast.Try):
            self.block(st.body)
            for h in st.handlers:
                a = self.sub(); a.block(h.body)
                if a.stmts:
                    self.emit(('branch', tr.new_id(), a.stmts, []))
            self.block(st.orelse); self.block(st.finalbody)
            return
        if isinstance(st, ast.Assign):
            self.assign(st.targets, st.value)
            return
        if isinstance(st, ast.AnnAssign):
            if st.value is not None:
                self.assign([st.target], st.value)
            return
        if isinstance(st, ast.AugAssign):
            self.expr(st.value)
            self.taint_targets([st.target], st.value)
            if not self.store_into_tracked(st.target):
                self.forget(st.target)
            return
        if isinstance(st, (ast.Global, ast.Nonlocal)):
            self.unknown(st, 'global/nonlocal')
            return
        if isinstance(st, ast.Delete):
            for t in st.targets:
                if not self.store_into_tracked(t):
                    self.forget(t)
            return
        for child in ast.iter_child_nodes(st):
            if isinstance(child, ast.expr):
                self.expr(child)

    def local_import(self, st):
        for al in st.names:
            local = al.asname or al.name.split('.')[0]
            self.local_names.add(local)
            try:
                if isinstance(st, ast.Import):
                    obj = importlib.import_module(al.name)
                    if not al.asname:
                        obj = importlib.import_module(al.name.split('.')[0])
                else:
                    base = st.module or ''
                    if st.level:
                        pkg = self.ent.module.__name__.rsplit('.', st.level)[0] if self.ent.module.__name__.count('.') >= st.level else self.ent.module.__name__
                        base = pkg + ('.' + base if base else '')
                    m = importlib.import_module(base)
                    obj = getattr(m, al.name) if hasattr(m, al.name) else importlib.import_module(base + '.' + al.name)
                self.aliases[local] = obj
            except Exception:
                self.aliases.pop(local, None)
                self.unknown(st, 'import that cannot be resolved')

    def forget(self, t):
        """a name is rebound to something we do not track"""
        for n in ast.walk(t):
            if not (isinstance(n, (ast.Name, ast.Attribute)) and isinstance(getattr(n, 'ctx', None), (ast.Store, ast.Del))):
                continue
            nm = self.name_of(n)
            if nm is None:
                continue
            if nm in self.vars:
                del self.vars[nm]
                self.vars_lost = True
            if self.seed_name is not None and nm == self.seed_name:
                self.seed_expr['cur'] = ('unknown',)
            for d in (self.aliases, self.partials, self.instances, self.closures, self.strlists):
                d.pop(nm, None)
            self.kwdicts.pop(nm, None)
            self.seedvals.pop(nm, None)
            self.local_defs.discard(nm)
            self.closure_locals.discard(nm)

    def bind_target(self, t):
        self.forget(t)
        for n in ast.walk(t):
            if isinstance(n, ast.Name) and isinstance(n.ctx, ast.Store):
                self.local_names.add(n.id)

    def assign(self, targets, value):
        tr = self.tr
        self.taint_targets(targets, value)
        for t in targets:
            if self.store_into_tracked(t):
                self.expr(value)
                return
        tname = self.name_of(targets[0]) if len(targets) == 1 else None
        simple = len(targets) == 1 and isinstance(targets[0], (ast.Name, ast.Attribute)) and tname is not None
        # `kwargs['x'] = …`
        if len(targets) == 1 and isinstance(targets[0], ast.Subscript) and isinstance(targets[0].value, ast.Name) and targets[0].value.id in self.kwdicts:
            d = self.kwdicts[targets[0].value.id]
            sl = targets[0].slice
            self.expr(value)
            if d is not None and isinstance(sl, ast.Constant) and isinstance(sl.value, str):
                d[sl.value] = value
            else:
                self.kwdicts[targets[0].value.id] = None
            return
        if not simple:
            self.expr(value)
            for t in targets:
                self.bind_target(t)
            return
        # ---- single Name / dotted target
        # rebinding of the seed parameter
        if self.seed_name is not None and tname == self.seed_name:
            e = self.seedexpr_evaluating(value)
            self.seed_expr['cur'] = e
            return
        # kwargs dictionaries
        if isinstance(targets[0], ast.Name):
            d = self.dict_literal(value)
            if d is not None:
                for v in d.values():
                    self.expr(v)
                self.bind_target(targets[0])
                self.kwdicts[tname] = d
                return
        # generator creation
        if isinstance(value, ast.Call):
            kind = self.normaliser_kind(value)
            if kind is not None:
                src = self.normaliser_src(value)
                self.bind_target(targets[0])
                v = self.new_var(tname)
                self.emit(('mkRng', v, src))
                return
        # an integer drawn from a tracked generator and kept in a local (`child = rng.randint(0, M)` … `f(seed=child)`): only for a plain
        # local name bound at the top level of the body (a binding inside a branch / loop is not tracked: fail-safe); any rebinding forgets it
        if isinstance(value, ast.Call) and isinstance(targets[0], ast.Name) and self.depth == 0:
            e = self.seedexpr(value)
            if e[0] == 'drawInt':
                self.expr(value)                 # the draw itself (and its arguments)
                self.bind_target(targets[0])
                if self.vars.get(self.name_of(value.func.value)) == e[1]:     # the generator is still tracked after evaluating the arguments
                    self.seedvals[tname] = e
                return
        nm = self.name_of(value)
        # alias of a generator
        if nm is not None and nm in self.vars:
            v = self.vars[nm]
            self.bind_target(targets[0])
            self.vars[tname] = v
            return
        if nm is not None and self.seed_name is not None and nm == self.seed_name:
            self.bind_target(targets[0])
            return
        # alias of a module / function / class  (`r = np.random`, `f = _random_complex`)
        if nm is not None:
            obj = self.resolve(chain_of(value))
            if obj is not None and isinstance(obj, (types.ModuleType, types.FunctionType, types.BuiltinFunctionType, types.MethodType, type)) or (obj is not None and callable(obj) and not isinstance(obj, (int, float, str, tuple, list, dict))):
                self.bind_target(targets[0])
                self.aliases[tname] = obj
                return
            if isinstance(value, ast.Name) and value.id in self.local_defs:
                self.bind_target(targets[0])
                self.local_defs.add(tname)
                return
            if isinstance(value, ast.Name) and value.id in self.closures:
                c = self.closures[value.id]
                self.bind_target(targets[0])
                self.closures[tname] = c
                return
        # lambda assigned to a name
        if isinstance(value, ast.Lambda):
            self.bind_target(targets[0])
            self.local_defs.add(tname)
            self.expr(value)
            return
        # functools.partial(f, …)
        if isinstance(value, ast.Call):
            p = self.partial_info(value)
            if p is not None:
                for a in value.args[1:]: self.expr(a)
                for k in value.keywords: self.expr(k.value)
                self.bind_target(targets[0])
                self.partials[tname] = p
                return
            # closure returned by a seeded helper: `hf_theta = _get_hf_theta(np_rng, theta0)`
            info = self.seeded_call_info(value)
            if info is not None and isinstance(targets[0], ast.Name):
                self.expr(value)
                self.bind_target(targets[0])
                self.closures[tname] = info
                return
            # instance of a (numqi or external) class
            obj = self.resolve(chain_of(value.func)) if chain_of(value.func) is not None else None
            if inspect.isclass(obj):
                self.expr(value)
                self.bind_target(targets[0])
                self.instances[tname] = [obj]
                return
            # result of an unseeded numqi function (possibly a closure): its body was translated where it is called
            o2 = self.tr.unwrap(obj) if obj is not None else None
            if isinstance(o2, types.FunctionType) and str(getattr(o2, '__module__', '')).startswith('numqi') and isinstance(targets[0], ast.Name):
                self.expr(value)
                self.bind_target(targets[0])
                self.closure_locals.add(tname)
                return
        # a string taken from a class-level list of literals (`tmp0 = self._gate_list[…]`), for getattr
        if isinstance(value, ast.Subscript):
            lst = self.resolve(chain_of(value.value)) if chain_of(value.value) is not None else None
            if isinstance(lst, (list, tuple)) and lst and all(isinstance(x, str) for x in lst):
                self.expr(value)
                self.bind_target(targets[0])
                self.strlists[tname] = list(lst)
                return
        self.expr(value)
        self.bind_target(targets[0])

    def dict_literal(self, value):
        if isinstance(value, ast.Call) and isinstance(value.func, ast.Name) and value.func.id == 'dict' and 'dict' not in self.local_names \
                and not value.args and all(k.arg for k in value.keywords):
            return {k.arg: k.value for k in value.keywords}
        if isinstance(value, ast.Dict) and all(isinstance(k, ast.Constant) and isinstance(k.value, str) for k in value.keys):
            return {k.value: v for k, v in zip(value.keys, value.values)}
        return None

    def partial_info(self, call):
        obj = self.resolve(chain_of(call.func)) if chain_of(call.func) is not None else None
        import functools
        if obj is functools.partial and call.args:
            inner = self.resolve(chain_of(call.args[0])) if chain_of(call.args[0]) is not None else None
            if inner is None:
                return ('unresolved', None, None)
            kw = {}
            for k in call.keywords:
                if k.arg is None:
                    return ('unresolved', None, None)
                kw[k.arg] = k.value
            return (inner, list(call.args[1:]), kw)
        return None

    @staticmethod
    def first_param_name(obj):
        """name of the first positional parameter of a normaliser / generator constructor (None if it cannot be determined)"""
        try:
            ps = [p for p in inspect.signature(obj).parameters.values() if p.kind in (p.POSITIONAL_ONLY, p.POSITIONAL_OR_KEYWORD)]
            return ps[0].name if ps else None
        except (TypeError, ValueError):
            return None

    def seed_arg(self, call, obj=None):
        """the node bound to the first parameter (the seed / bit generator) of a normaliser or constructor call: the first positional
        argument, or the keyword with the first parameter's name (other keywords with defaults are only evaluated); None if absent"""
        if call.args:
            return None if isinstance(call.args[0], ast.Starred) else call.args[0]
        if obj is None:
            chain = chain_of(call.func)
            obj = self.resolve(chain) if chain is not None else None
        nm = self.first_param_name(obj) if obj is not None else None
        known = {nm} if nm else set()
        known |= {'seed', 'rng_or_seed', 'x', 'bit_generator'} if nm is None else set()
        for k in call.keywords:
            if k.arg is not None and k.arg in known:
                return k.value
        return None

    def first_arg(self, call, obj=None):
        a = self.seed_arg(call, obj)
        if a is not None:
            return a
        return call.args[0] if call.args else (call.keywords[0].value if call.keywords else None)

    def arg_is_none_or_missing(self, call, obj=None):
        if any(isinstance(a, ast.Starred) for a in call.args) or any(k.arg is None for k in call.keywords):
            return False                      # `*args` / `**kwargs`: cannot tell; the caller treats the seed expression as unknown
        a = self.seed_arg(call, obj)
        if a is None:
            return not call.args              # the seed parameter is not passed at all (only pass-through keywords, if any)
        return isinstance(a, ast.Constant) and a.value is None

    def normaliser_src(self, call, eval_rest=True):
        """seed expression of a normaliser / constructor call; the other arguments (pass-through keywords …) are evaluated for their effects"""
        if self.arg_is_none_or_missing(call):
            src, a = ('none',), self.seed_arg(call)
        else:
            a = self.seed_arg(call)
            if a is None:                       # `*args` / `**kwargs` / not determinable
                src = ('unknown',)
            else:
                src = self.seedexpr_evaluating(a)
        if eval_rest:
            self.eval_args(call, skip={id(a)} if a is not None else ())
        return src

    def seedexpr_evaluating(self, node):
        if node is None or isinstance(node, ast.Starred):
            return ('unknown',)
        e = self.seedexpr(node)
        if e[0] == 'unknown':
            self.expr(node)
        return e

    def normaliser_kind(self, call):
        chain = chain_of(call.func)
        if chain is None:
            return None
        obj = self.resolve(chain)
        if obj is None:
            return None
        if id(obj) in self.tr.normalisers:
            return self.tr.normalisers[id(obj)]
        if self.tr.module_class(obj) == 'ctor':
            return 'ctor'
        return None

    def collect_args(self, call, extra_pos=(), extra_kw=None):
        """positional nodes and keyword nodes of a call (expanding tracked **kwargs); None if it cannot be determined"""
        pos = list(extra_pos)
        for a in call.args:
            if isinstance(a, ast.Starred):
                return None
            pos.append(a)
        kw = dict(extra_kw or {})
        for k in call.keywords:
            if k.arg is None:
                if isinstance(k.value, ast.Name) and self.kwdicts.get(k.value.id) is not None:
                    kw.update(self.kwdicts[k.value.id])
                else:
                    return None
            else:
                kw[k.arg] = k.value
        return pos, kw

    def seeded_call_info(self, call, obj=None, extra_pos=(), extra_kw=None):
        if obj is None:
            chain = chain_of(call.func)
            obj = self.resolve(chain) if chain is not None else None
        ce = self.tr.entity_of_obj(obj)
        if ce is None or ce.role == 'none':
            return None
        ak = self.collect_args(call, extra_pos, extra_kw)
        if ak is None:
            return (ce.index, ('unknown',))
        bound = self.tr.bind(obj, ce, ak[0], ak[1])
        if bound is None:
            return (ce.index, ('unknown',))
        if ce.seed_param in bound:
            return (ce.index, self.seedexpr(bound[ce.seed_param]), bound[ce.seed_param])
        return (ce.index, self.default_of(obj, ce))

    def default_of(self, obj, ce):
        try:
            p = inspect.signature(obj).parameters[ce.seed_param]
        except Exception:
            return ('unknown',)
        if p.default is None:
            return ('none',)
        return ('unknown',)

    # -- expressions (evaluation order: operands before the operation)
    def expr(self, node):
        tr = self.tr
        if node is None:
            return
        if isinstance(node, ast.Lambda):
            inner = self.sub()
            a = node.args
            for x in a.posonlyargs + a.args + a.kwonlyargs + ([a.vararg] if a.vararg else []) + ([a.kwarg] if a.kwarg else []):
                inner.local_names.add(x.arg)
                if x.arg not in self.vars:
                    inner.params.add(x.arg)
            inner.expr(node.body)
            if inner.stmts:
                self.emit(('loop', tr.new_id(), inner.stmts))
            return
        if isinstance(node, ast.IfExp):
            self.expr(node.test)
            a, b = self.sub(), self.sub()
            a.expr(node.body); b.expr(node.orelse)
            if a.stmts or b.stmts:
                self.emit(('branch', tr.new_id(), a.stmts, b.stmts))
            return
        if isinstance(node, (ast.ListComp, ast.SetComp, ast.GeneratorExp, ast.DictComp)):
            self.expr(node.generators[0].iter)
            inner = self.sub()
            for i, g in enumerate(node.generators):
                for n in ast.walk(g.target):
                    if isinstance(n, ast.Name) and isinstance(n.ctx, ast.Store):
                        inner.local_names.add(n.id)
                if i > 0:
                    inner.expr(g.iter)
                for c in g.ifs:
                    inner.expr(c)
            if isinstance(node, ast.DictComp):
                inner.expr(node.key); inner.expr(node.value)
            else:
                inner.expr(node.elt)
            if inner.stmts:
                self.emit(('loop', tr.new_id(), inner.stmts))
            return
        if isinstance(node, ast.Call):
            self.call(node)
            return
        if isinstance(node, ast.NamedExpr):
            self.expr(node.value)
            self.taint_targets([node.target], node.value)
            self.bind_target(node.target)
            return
        if isinstance(node, (ast.Await, ast.Yield, ast.YieldFrom)):
            self.unknown(node, 'await/yield')
            return
        for child in ast.iter_child_nodes(node):
            if isinstance(child, ast.expr):
                self.expr(child)
            elif isinstance(child, ast.keyword):
                self.expr(child.value)
            elif isinstance(child, ast.comprehension):
                self.expr(child.iter)

    def rng_args(self, call):
        out = []
        vals = [(a.value if isinstance(a, ast.Starred) else a) for a in call.args] + [k.value for k in call.keywords]
        for k in call.keywords:
            if k.arg is None and isinstance(k.value, ast.Name) and self.kwdicts.get(k.value.id):
                vals += list(self.kwdicts[k.value.id].values())
        for a in vals:
            nm = self.name_of(a)
            if nm is not None and (nm in self.vars or (self.seed_name is not None and nm == self.seed_name)):
                out.append(nm)
        return out

    def eval_args(self, node, skip=()):
        for a in node.args:
            if id(a) not in skip: self.expr(a.value if isinstance(a, ast.Starred) else a)
            # a tracked keyword dictionary handed to a callee as a value may be changed by it
            if isinstance(a, ast.Name) and a.id in self.kwdicts:
                self.kwdicts[a.id] = None
        for k in node.keywords:
            if id(k.value) not in skip: self.expr(k.value)
            if k.arg is not None and isinstance(k.value, ast.Name) and k.value.id in self.kwdicts:
                self.kwdicts[k.value.id] = None

    def draw_from(self, nm):
        if self.seed_name is not None and nm == self.seed_name:
            v = self.new_var(None); self.emit(('mkRng', v, self.seed_expr['cur'])); self.emit(('draw', v))
        else:
            self.emit(('draw', self.vars[nm]))

    def emit_effects(self, eff, node):
        for lib in sorted(eff):
            if lib == 'fresh':
                v = self.new_var(None); self.emit(('mkRng', v, ('none',)))
            elif lib == 'unknown':
                self.unknown(node, 'numqi callee with unclassified calls')
            else:
                self.emit(('drawGlobal', lib))

    def call_object(self, node, obj, extra_pos=(), extra_kw=None):
        """a call whose callee is the python object `obj` (module-level function / class / method)"""
        tr = self.tr
        rargs = self.rng_args(node)
        if id(obj) in tr.normalisers or tr.module_class(obj) == 'ctor':
            src = self.normaliser_src(node)
            v = self.new_var(None)
            self.emit(('mkRng', v, src))
            return
        # a translated (seeded) numqi callee
        info = self.seeded_call_info(node, obj, extra_pos, extra_kw)
        if info is not None:
            skip = {id(info[2])} if len(info) > 2 and info[1][0] != 'unknown' else set()
            self.eval_args(node, skip)
            self.emit(('call', info[0], info[1]))
            return
        self.eval_args(node)
        o2 = tr.unwrap(obj)
        mod = str(getattr(o2, '__module__', '') or '')
        # `SomeAutogradFunction.apply(...)` of a numqi torch.autograd.Function: forward and backward bodies
        owner = getattr(obj, '__self__', None)
        if inspect.isclass(owner) and str(getattr(owner, '__module__', '')).startswith('numqi') and getattr(obj, '__name__', '') == 'apply':
            eff = set()
            for nm in ('forward', 'backward'):
                f = inspect.getattr_static(owner, nm, None)
                f = f.__func__ if isinstance(f, (staticmethod, classmethod)) else f
                eff |= tr.summary_fn(f, owner) if isinstance(f, types.FunctionType) else {'unknown'}
            self.emit_effects(eff, node)
            return
        # an unseeded numqi function / class
        if mod.startswith('numqi') and (isinstance(o2, types.FunctionType) or inspect.isclass(o2)):
            ce = tr.entity_of_obj(o2)
            if ce is not None and ce.role == 'none':
                self.emit(('call', ce.index, ('const', 0)))      # program without a seed parameter: its own body decides
            else:
                self.emit_effects(tr.summary(o2), node)
            if rargs:
                self.unknown(node, 'generator handed to a numqi function without a seed/generator parameter')
            return
        cls = tr.module_class(o2)
        if cls in ('numpy', 'python', 'torch'):
            # scipy.stats style `random_state=` is not reachable here (scipy.stats is not allow-listed)
            self.emit(('drawGlobal', cls))
            return
        if cls == 'fresh':
            v = self.new_var(None); self.emit(('mkRng', v, ('none',))); return
        if cls == 'pure':
            name = getattr(o2, '__name__', '')
            if name == 'getattr' and mod == 'builtins':
                self.unknown(node, 'getattr')       # plain getattr as a value; getattr(...)(...) is handled by the caller
                return
            if rargs:
                self.unknown(node, 'generator handed to an external function')
            return
        self.unknown(node, 'callee not in the allow-list')

    def call(self, node):
        tr = self.tr
        func = node.func
        # ---- methods: receiver is a tracked generator
        if isinstance(func, ast.Attribute):
            base = self.name_of(func.value)
            if base is not None and base in self.vars:
                self.eval_args(node)
                if any(self.nondet_in(a) for a in list(node.args) + [k.value for k in node.keywords]):
                    self.unknown(node, 'draw whose arguments depend on a run-dependent value')
                self.emit(('draw', self.vars[base]))
                return
            if base is not None and self.seed_name is not None and base == self.seed_name:
                self.eval_args(node)
                if any(self.nondet_in(a) for a in list(node.args) + [k.value for k in node.keywords]):
                    self.unknown(node, 'draw whose arguments depend on a run-dependent value')
                self.draw_from(base)
                return
        chain = chain_of(func)
        # ---- callee is itself a call / subscript / …
        if chain is None:
            if isinstance(func, ast.Call):
                # functools.partial(f, …)(…)
                p = self.partial_info(func)
                if p is not None:
                    for a in func.args[1:]: self.expr(a)
                    for k in func.keywords: self.expr(k.value)
                    if p[0] == 'unresolved':
                        self.eval_args(node); self.unknown(node, 'partial of an unresolved callee'); return
                    self.call_object(node, p[0], p[1], p[2]); return
                # getattr(obj, name)(…)
                g = self.getattr_targets(func)
                if g is not None:
                    self.eval_args(node)
                    if g == 'unknown':
                        self.unknown(node, 'getattr'); return
                    for obj in g:
                        fake = ast.Call(func=ast.Name(id='_', ctx=ast.Load()), args=node.args, keywords=node.keywords)
                        sub = self.sub(); sub.call_object(fake, obj)
                        self.stmts += [s for s in sub.stmts]
                    return
                # f(a)(b): the inner call is classified on its own; a seeded helper returning a closure is a call of its program
                info = self.seeded_call_info(func)
                self.expr(func)
                self.eval_args(node)
                if info is not None:
                    self.emit(('call', info[0], info[1]))
                else:
                    self.unknown(node, 'result of a call is called')
                return
            if isinstance(func, ast.Attribute):
                # method of an expression value: `np.linalg.qr(x)[0].conj()`, `tmp0.T.conj()` handled below through root
                pass
            else:
                self.expr(func)
                self.eval_args(node)
                self.unknown(node, 'callee is an expression')
                return
        # ---- a plain name / dotted name
        if chain is not None:
            head = chain[0]
            if len(chain) == 1:
                if head in self.local_defs or head in self.closure_locals:
                    self.eval_args(node); return                     # body already inlined where it was defined / created
                if head == 'self' and self.ent.cls is not None:
                    self.eval_args(node)
                    self.call_instance(node, self.ent.cls, '__call__'); return
                if head in self.closures:
                    self.eval_args(node)
                    f, e = self.closures[head][0], self.closures[head][1]
                    self.emit(('call', f, e)); return
                if head in self.partials:
                    p = self.partials[head]
                    if p[0] == 'unresolved':
                        self.eval_args(node); self.unknown(node, 'partial of an unresolved callee'); return
                    self.call_object(node, p[0], p[1], p[2]); return
                if head in self.instances and self.instances[head] is not None:
                    self.eval_args(node)
                    self.call_instance(node, self.instances[head], '__call__'); return
                if head in self.params and head not in self.aliases:
                    self.eval_args(node)
                    r = self.rng_args(node)
                    if r:
                        tr.callbacks.append(f'{self.ent.name}: {head}(…{r[0]}…)')
                        self.draw_from(r[0])
                    else:
                        tr.contracts[f'{head}(…)'] = tr.contracts.get(f'{head}(…)', 0) + 1
                    return
            obj = self.resolve(chain)
            if obj is not None and (callable(obj) or inspect.isclass(obj)):
                self.call_object(node, obj)
                return
            if '.'.join(chain) in self.instances and self.instances['.'.join(chain)] is not None:
                self.eval_args(node)
                self.call_instance(node, self.instances['.'.join(chain)], '__call__')
                return
        # ---- method call on a value
        if isinstance(func, ast.Attribute):
            meth = func.attr
            if isinstance(func.value, ast.Call) and self.normaliser_kind(func.value) is not None:
                inner = func.value
                src = self.normaliser_src(inner)
                v = self.new_var(None)
                self.emit(('mkRng', v, src))
                self.eval_args(node)
                self.emit(('draw', v))
                return
            self.expr(func.value)
            self.eval_args(node)
            if meth in RANDOM_METHODS_TORCH:
                self.emit(('drawGlobal', 'torch')); return
            if meth in RANDOM_METHODS_NUMPY:
                rs = [k.value for k in node.keywords if k.arg == 'random_state']
                nm = self.name_of(rs[0]) if rs else None
                if nm is not None and nm in self.vars:
                    self.emit(('draw', self.vars[nm]))
                else:
                    self.emit(('drawGlobal', 'numpy'))
                return
            recv = self.name_of(func.value)
            root = root_name(func.value)
            # a tracked keyword dictionary changed through a method (`kw.update(seed=None)`, `kw.pop('seed')`, …): contents unknown from here on
            if recv is not None and recv in self.kwdicts and meth not in ('get', 'keys', 'values', 'items', 'copy'):
                self.kwdicts[recv] = None
            # typed receivers: `self.manifold(...)` is handled in the name branch; here `self.attr.method(...)`, `model.method(...)`
            if recv is not None and recv in self.instances and self.instances[recv] is not None:
                self.call_instance(node, self.instances[recv], meth); return
            if self.rng_args(node):
                self.unknown(node, 'generator handed to a method'); return
            if root is not None and root in self.params and root not in self.aliases:
                tr.contracts[f'{root}.….{meth}(…)'] = tr.contracts.get(f'{root}.….{meth}(…)', 0) + 1
                return
            if meth in PURE_METHODS:
                tr.used_pure.add('.' + meth)
                return
            self.unknown(node, 'method not in the allow-list')
            return
        # ---- unresolved dotted / plain name
        self.eval_args(node)
        if chain is not None and len(chain) >= 2 and '.'.join(chain[:2]) in self.instances and chain[0] == 'self':
            inst = self.instances['.'.join(chain[:2])]
            if inst is not None:
                self.call_instance(node, inst, chain[2] if len(chain) > 2 else '__call__'); return
        self.unknown(node, 'callee cannot be resolved')

    def getattr_targets(self, call):
        """`getattr(x, name)` as a callee: list of candidate objects, 'unknown', or None if `call` is not a getattr"""
        if not (isinstance(call.func, ast.Name) and call.func.id == 'getattr' and 'getattr' not in self.local_names and len(call.args) >= 2):
            return None
        base, name = call.args[0], call.args[1]
        names = None
        if isinstance(name, ast.Constant) and isinstance(name.value, str):
            names = [name.value]
        elif isinstance(name, ast.Name) and name.id in self.strlists:
            names = self.strlists[name.id]
        if names is None:
            return 'unknown'
        bchain = chain_of(base)
        if bchain == ['self'] and self.ent.cls is not None:
            bobj = self.ent.cls
        else:
            bobj = self.resolve(bchain) if bchain is not None else None
        if bobj is None:
            return 'unknown'
        out = []
        for n in names:
            try:
                o = inspect.getattr_static(bobj, n) if inspect.isclass(bobj) else getattr(bobj, n)
            except AttributeError:
                return 'unknown'
            if isinstance(o, (staticmethod, classmethod)):
                o = o.__func__
            out.append(o)
        return out

    def call_instance(self, node, classes, meth):
        """method `meth` of an instance of one of `classes`"""
        if inspect.isclass(classes):
            classes = [classes]
        for cls in classes:
            self.call_instance1(node, cls, meth)

    def call_instance1(self, node, cls, meth):
        tr = self.tr
        mod = str(getattr(cls, '__module__', '') or '')
        if mod.startswith('numqi'):
            try:
                import torch
                is_mod = issubclass(cls, torch.nn.Module)
            except Exception:
                is_mod = False
            name = 'forward' if (meth == '__call__' and is_mod) else meth
            try:
                f = inspect.getattr_static(cls, name)
            except AttributeError:
                f = None
            if isinstance(f, (staticmethod, classmethod)):
                f = f.__func__
            if isinstance(f, types.FunctionType):
                ce = tr.entity_of_obj(f)
                if ce is not None and ce.role != 'none':
                    info = self.seeded_call_info(node, f)
                    self.emit(('call', info[0], info[1])); return
                if str(getattr(f, '__module__', '')).startswith('numqi'):
                    self.emit_effects(tr.summary_fn(f, cls), node); return
            if meth in PURE_METHODS and f is not None and not str(getattr(f, '__module__', 'numqi')).startswith('numqi'):
                return      # inherited from an external pure base class (torch.nn.Module.parameters …)
            self.unknown(node, f'method {meth} of {cls.__name__}')
            return
        c = tr.module_class(cls)
        if c == 'pure' and (meth in PURE_METHODS or meth == '__call__'):
            if meth in RANDOM_METHODS_TORCH:
                self.emit(('drawGlobal', 'torch'))
            return
        self.unknown(node, f'method {meth} of external class {cls.__name__}')


# ---------------------------------------------------------------------- emission
def expr_lean(e):
    if e[0] == 'param': return '.param'
    if e[0] == 'var': return f'(.var {e[1]})'
    if e[0] == 'drawInt': return f'(.drawInt {e[1]})'
    if e[0] == 'none': return '.none'
    if e[0] == 'const': return f'(.const {e[1]})'
    return '.unknown'


def prog_lean(stmts, indent=2):
    """continuation-style term for a statement list"""
    pad = ' ' * indent
    if not stmts:
        return '.done'
    s, rest = stmts[0], stmts[1:]
    k = prog_lean(rest, indent)
    if s[0] == 'mkRng':
        return f'.mkRng {s[1]} {expr_lean(s[2])} <|\n{pad}{k}'
    if s[0] == 'draw':
        return f'.draw {s[1]} <|\n{pad}{k}'
    if s[0] == 'drawGlobal':
        return f'.drawGlobal .{s[1]} <|\n{pad}{k}'
    if s[0] == 'call':
        return f'.call {s[1]} {expr_lean(s[2])} <|\n{pad}{k}'
    if s[0] == 'unknownCall':
        return f'.unknownCall <|\n{pad}{k}'
    if s[0] == 'branch':
        return f'.branch {s[1]} ({prog_lean(s[2], indent + 2)}) ({prog_lean(s[3], indent + 2)}) <|\n{pad}{k}'
    if s[0] == 'loop':
        return f'.loop {s[1]} ({prog_lean(s[2], indent + 2)}) <|\n{pad}{k}'
    raise ValueError(s)


def closed_py(nprog, defd, stmts):
    """mirror of `SeedFlow.closed` (used only for the evidence / early diagnostics; the verdict is Lean's)"""
    defd = list(defd)
    for s in stmts:
        def ce(e):
            return e[0] in ('param', 'const') or (e[0] in ('var', 'drawInt') and e[1] in defd)
        if s[0] == 'mkRng':
            if not ce(s[2]): return False
            defd.append(s[1])
        elif s[0] == 'draw':
            if s[1] not in defd: return False
        elif s[0] in ('drawGlobal', 'unknownCall'):
            return False
        elif s[0] == 'call':
            if not (s[1] < nprog and ce(s[2])): return False
        elif s[0] == 'branch':
            if not (closed_py(nprog, defd, s[2]) and closed_py(nprog, defd, s[3])): return False
        elif s[0] == 'loop':
            if not closed_py(nprog, defd, s[2]): return False
    return True


def emit_lean(tr, path):
    lines = ['/-', 'GENERATED by harness/c10_translate.py from the numqi sources — do not edit.',
             'One seed-flow program per function / method / class of the anchored files with a `seed` (or generator) parameter,',
             'or that touches a generator without having one.', '-/',
             'import NumqiModel.SeedFlow', '', 'namespace Numqi.SeedFlow.Generated', 'open Numqi.SeedFlow', '']
    listed = [e for e in tr.order if e.listed]
    for ent in listed:
        lines.append(f'/-- `{ent.name}` ({ent.path}:{ent.node.lineno}), seed parameter `{ent.seed_param}` ({ent.role}) -/')
        lines.append(f'def p{ent.index} : Prog :=\n  {prog_lean(ent.stmts, 2)}')
        lines.append('')
    lines.append('def names : List String := [' + ', '.join('"' + e.name + '"' for e in listed) + ']')
    lines.append('')
    lines.append('def programs : List Prog := [' + ', '.join(f'p{e.index}' for e in listed) + ']')
    lines.append('')
    lines.append('end Numqi.SeedFlow.Generated')
    txt = '\n'.join(lines) + '\n'
    old = None
    if os.path.exists(path):
        old = open(path).read()
    if old != txt:
        os.makedirs(os.path.dirname(path), exist_ok=True)
        tmp = path + f'.tmp{os.getpid()}'
        with open(tmp, 'w') as fh:
            fh.write(txt)
        os.replace(tmp, path)   # atomic
    return txt


def translate(repo, out_path):
    tr = Translator(repo).run()
    emit_lean(tr, out_path)
    return tr
