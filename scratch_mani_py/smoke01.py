import numpy as np, numqi, struct, subprocess, time, sys
M = numqi.manifold
def bits(x): return str(struct.unpack('<Q', struct.pack('<d', float(x)))[0])
def tb(theta): return ';'.join(bits(x) for x in theta)
def unbits(s): return struct.unpack('<d', struct.pack('<Q', int(s)))[0]
def parse(line, cx):
    if cx: return np.array([complex(unbits(a), unbits(b)) for a,b in (t.split(',') for t in line.split(';'))])
    return np.array([unbits(t) for t in line.split(';')])
def run1(op):
    t=time.time()
    try:
        p = subprocess.run(['lean/.lake/build/bin/driver_c01'], input=op+'\n', capture_output=True, text=True, timeout=20)
        return p.stdout.strip(), time.time()-t
    except subprocess.TimeoutExpired:
        return 'TIMEOUT', 20
rng = np.random.default_rng(0)
tests = []
def add(op, ref, cx): tests.append((op, np.asarray(ref).reshape(-1), cx))
th = rng.normal(size=5)*3
add(f'C01 softplus {tb(th)}', M.to_positive_real_softplus(th), False)
add(f'C01 exp {tb(th)}', M.to_positive_real_exp(th), False)
add(f'C01 interval {tb([-1.5,2.25])} {tb(th)}', M.to_open_interval(th,-1.5,2.25), False)
th = rng.normal(size=6)*3
add(f'C01 ball r {tb(th)}', M.to_ball(th), False)
add(f'C01 ball c {tb(th)}', M.to_ball(th, False), True)
add(f'C01 sphq r {tb(th)}', M.to_sphere_quotient(th), False)
add(f'C01 sphq c {tb(th)}', M.to_sphere_quotient(th, False), True)
add(f'C01 sphc r {tb(th)}', M.to_sphere_coordinate(th), False)
add(f'C01 sphc c {tb(th[:5])}', M.to_sphere_coordinate(th[:5], False), True)
add(f'C01 softmax r {tb(th)}', M.to_discrete_probability_softmax(th), False)
add(f'C01 psphere r {tb(th)}', M.to_discrete_probability_sphere(th), False)
for dim,rank in [(3,2),(4,4),(5,1),(6,3)]:
    N0 = rank*(2*dim-rank+1)//2
    th = rng.normal(size=N0)*2; add(f'C01 psdchol {dim} {rank} r {tb(th)}', M.to_trace1_psd_cholesky(th,dim,rank), True)
    th = rng.normal(size=2*N0-rank)*2; add(f'C01 psdchol {dim} {rank} c {tb(th)}', M.to_trace1_psd_cholesky(th,dim,rank), True)
    th = rng.normal(size=rank+dim*rank)*2; add(f'C01 psdens {dim} {rank} r {tb(th)}', M.to_trace1_psd_ensemble(th,dim,rank), True)
    th = rng.normal(size=rank+2*dim*rank)*2; add(f'C01 psdens {dim} {rank} c {tb(th)}', M.to_trace1_psd_ensemble(th,dim,rank), True)
    th = rng.normal(size=dim*rank); add(f'C01 stpolar {dim} {rank} r {tb(th)}', M.to_stiefel_polar(th,dim,rank), True)
    th = rng.normal(size=2*dim*rank); add(f'C01 stpolar {dim} {rank} c {tb(th)}', M.to_stiefel_polar(th,dim,rank), True)
    n = dim*rank-rank*(rank+1)//2
    if n>0:
        th = rng.normal(size=n); add(f'C01 stchol {dim} {rank} r {tb(th)}', M.to_stiefel_choleskyL(th,dim,rank), True)
        th = rng.normal(size=2*n); add(f'C01 stchol {dim} {rank} c {tb(th)}', M.to_stiefel_choleskyL(th,dim,rank), True)
        th = rng.normal(size=n); add(f'C01 steuler {dim} {rank} r 0 {tb(th)}', M.to_stiefel_euler(th,dim,rank), True)
        th = rng.normal(size=2*n); add(f'C01 steuler {dim} {rank} c 0 {tb(th)}', M.to_stiefel_euler(th,dim,rank), True)
        th = rng.normal(size=2*n+rank); add(f'C01 steuler {dim} {rank} c 1 {tb(th)}', M.to_stiefel_euler(th,dim,rank,True), True)
for dim in [2,3,4,6]:
    for t0 in (0,1):
        for n1 in (0,1):
            th = rng.normal(size=dim*(dim+1)//2-t0); add(f'C01 sym {dim} r {t0} {n1} {tb(th)}', M.to_symmetric_matrix(th,dim,bool(t0),bool(n1)), True)
            th = rng.normal(size=dim*dim-t0); add(f'C01 sym {dim} c {t0} {n1} {tb(th)}', M.to_symmetric_matrix(th,dim,bool(t0),bool(n1)), True)
    th = rng.normal(size=dim*(dim-1)//2); add(f'C01 soexp {dim} r {tb(th)}', M.to_special_orthogonal_exp(th,dim), True)
    add(f'C01 socay {dim} 1 r {tb(th)}', M.to_special_orthogonal_cayley(th,dim,1), True)
    add(f'C01 socay {dim} 3 r {tb(th)}', M.to_special_orthogonal_cayley(th,dim,3), True)
    th = rng.normal(size=dim*dim-1); add(f'C01 soexp {dim} c {tb(th)}', M.to_special_orthogonal_exp(th,dim), True)
    add(f'C01 socay {dim} 2 c {tb(th)}', M.to_special_orthogonal_cayley(th,dim,2), True)
for (op,ref,cx) in tests:
    line, dt = run1(op)
    try:
        m = parse(line,cx); err = np.abs(m-ref).max()
    except Exception as e:
        err = f'ERR {line[:60]}'
    print(' '.join(op.split(' ')[1:-1]), err, f'{dt:.2f}s', flush=True)
