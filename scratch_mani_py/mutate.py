"""usage: mutate.py <Cxx> <relative file> <<< 'old|||new' ; applies in /tmp/wt_mani, runs bin/check, restores"""
import sys, subprocess, os
pid, rel = sys.argv[1], sys.argv[2]
old, new = sys.stdin.read().split('|||')
old = old.strip('\n'); new = new.strip('\n')
path = os.path.join('/tmp/wt_mani', rel)
src = open(path).read()
assert src.count(old) >= 1, 'pattern not found'
n = int(sys.argv[3]) if len(sys.argv) > 3 else 1
open(path, 'w').write(src.replace(old, new, n))
try:
    env = dict(os.environ, NUMQI_REPO='/tmp/wt_mani')
    p = subprocess.run(['bin/check', pid], cwd='/verif', env=env, capture_output=True, text=True)
    out = [l for l in (p.stdout + p.stderr).split('\n') if 'condarc' not in l and l.strip()]
    print('\n'.join(out[-6:]))
    print('exit', p.returncode)
finally:
    open(path, 'w').write(src)
