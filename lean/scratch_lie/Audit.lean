import NumqiProps.C06Sdp
import NumqiProps.C20Decision

open Numqi Numqi.C20 Numqi.Generated.Thresholds20

#print axioms Numqi.C20.decisionShapesRecognised
#print axioms Numqi.C20.rankOneCert_sound
#print axioms Numqi.C20.rankOneCert_default_slack_pos
#print axioms Numqi.C20.decisionIsRankRevealing
#print axioms Numqi.C20.hierarchyCert_sound
#print axioms Numqi.C20.hierarchyCert_sound_current
#print axioms Numqi.C20.hierarchyCert_default_slack_pos
#print axioms Numqi.C20.certificate_not_issued
#print axioms Numqi.C20.abc_sound_k2
#print axioms Numqi.C20.abcLevelEntry_level2_eq
#print axioms Numqi.C20.denseBases_row_counts
#print axioms Numqi.C20.denseBasesOrthonormal_partial
#print axioms Numqi.C06.bisectLoop_invariant
#print axioms Numqi.C06.bisectLoop_error
#print axioms Numqi.C06.distance2_self_symm
#print axioms Numqi.C06.sxRealign_entry
#print axioms Numqi.C06.extRaySigma_realign
#print axioms Numqi.C06.irrepGather_entry
#print axioms Numqi.C06.irrepBlockRdm_boson_entry
#print axioms Numqi.C06.kext_sum
#print axioms Numqi.C06.sdp_boson_block_in_kext
#print axioms Numqi.C06.sdp_boson_block_psd_in_kext

-- (2) hypotheses satisfiable on what the harness feeds
example : rankOneCert (1 - 1/100000000 : ℝ) (1/10000000) = false :=
  rankOneCert_sound _ 1 (1/100000000) _ le_rfl (by rw [abs_le]; constructor <;> norm_num) (by norm_num)
example : hierarchyCert (1/100000000 : ℝ) (1/10000000) = false ∧ abcCert (1/100000000 : ℝ) (1/10000000) = false :=
  hierarchyCert_sound_current _ 0 (1/100000000) _ rfl (by rw [abs_le]; constructor <;> norm_num) (by norm_num)

-- the `_hkind` hypothesis of hierarchyCert_sound is not used: the same statement without it
example (computed lamMin δ zero_eps : ℝ) (hsing : lamMin = 0) (hround : |computed - lamMin| ≤ δ) (hslack : δ ≤ zero_eps) :
    hierarchyCert computed zero_eps = false ∧ abcCert computed zero_eps = false := by
  subst hsing
  have := abs_le.1 hround
  simp only [hierarchyCert, abcCert, decide_eq_false_iff_not, not_lt, gt_iff_lt]
  constructor <;> linarith [this.2]

-- bisection on the harness' step function: hypotheses of bisectLoop_error
example (t : ℚ) : ∀ x : ℚ, (1/2 : ℚ) ≤ (fun x : ℚ => if t ≤ x then (1:ℚ) else 0) x ↔ t ≤ x := by
  intro x; by_cases h : t ≤ x <;> simp [h] <;> norm_num

-- dense bases on sizes used by the tie outside the proved range? (6,2) antisym is tied, theorem covers d ≤ 5
#eval (Numqi.MatrixSpace.antisymBasisDense 3 2)
#eval (Numqi.MatrixSpace.symBasisDense 2 2)
#check @Numqi.Boundary.IsSymExt
#print Numqi.Boundary.IsSymExt
