import NumqiProps.C18
import NumqiProps.C15
import NumqiProps.C15Tables
open Numqi Numqi.C18 Numqi.C15

#print axioms Numqi.C18.Wtype_norm
#print axioms Numqi.C18.dicke_gme_range
#print axioms Numqi.C18.dicke_gme_product
#print axioms Numqi.C18.dicke_gme_symm
#print axioms Numqi.C18.binomN_choose
#print axioms Numqi.C18.wtypeGME_else_range
#print axioms Numqi.C18.eprobe8_hermitian
#print axioms Numqi.C18.eprobe9_unitary_partial
#print axioms Numqi.C18.max3_ge
#print axioms Numqi.C15.so3ToSU2_mem_SU2
#print axioms Numqi.C15.so3ToSU2_section
#print axioms Numqi.C15.cg_squares_normalised
#print axioms Numqi.C15.cg_rows_orthonormal_partial
#print axioms Numqi.C15.tensorOp_normalised
#print axioms Numqi.C15.sqfreeDecomp_spec
#print axioms Numqi.C15.rationalOrthogonal2_rotation

-- instantiations
example : Numqi.Catalogue.dickeGME 2 1 = 1/2 := by decide +kernel
example : Numqi.Catalogue.dickeGME 3 1 = 5/9 := by decide +kernel
#eval (Numqi.Catalogue.dickeGME 4 2, Numqi.Catalogue.dickeGME 1 0, Numqi.Catalogue.dickeGME 0 0, Numqi.Catalogue.binomN 64 32)
#eval (Numqi.Lie.sqfreeDecomp 72, Numqi.Lie.sqfreeDecomp 1999, Numqi.Lie.sqfreeDecomp (2^20*3), Numqi.Lie.sqfreeDecomp 1000003)
#eval (Numqi.Lie.cgRowsOrthonormal 9 3, Numqi.Lie.cgSquaresNormalised 9 3, Numqi.Lie.cgRowsOrthonormal 6 6)
#eval (Numqi.Lie.cgSq 2 2 0 0 0 0, Numqi.Lie.cgSq 1 1 2 1 1 2, Numqi.Lie.cgSq 1 1 0 1 (-1) 0, Numqi.Lie.cgSq 1 1 0 (-1) 1 0)
#eval (List.range 5).map fun c => (List.range 4).map fun i => Numqi.Catalogue.eprobe9 1 4 i c
