import Mathlib.Analysis.InnerProductSpace.Calculus
import Mathlib.Analysis.InnerProductSpace.PiL2
import Mathlib.Analysis.SpecialFunctions.Sqrt
import Mathlib.Analysis.Calculus.Deriv.Inv
import Mathlib.LinearAlgebra.FiniteDimensional.Lemmas
import NumqiProofs.ManifoldLemmas

namespace Numqi.Manifold
open Module

variable {E : Type*} [NormedAddCommGroup E] [InnerProductSpace ℝ E]

theorem hasFDerivAt_norm' {x : E} (hx : x ≠ 0) : HasFDerivAt (fun y : E => ‖y‖) (‖x‖⁻¹ • innerSL ℝ x) x := by
  have hq : HasFDerivAt (fun y : E => ‖y‖ ^ 2) (2 • innerSL ℝ x) x := (hasStrictFDerivAt_norm_sq x).hasFDerivAt
  have hne : ‖x‖ ^ 2 ≠ 0 := pow_ne_zero 2 (norm_ne_zero_iff.2 hx)
  have hs := hq.sqrt hne
  have e1 : (fun y : E => Real.sqrt (‖y‖ ^ 2)) = fun y => ‖y‖ := by
    funext y; exact Real.sqrt_sq (norm_nonneg y)
  rw [e1, Real.sqrt_sq (norm_nonneg x)] at hs
  refine hs.congr_fderiv ?_
  ext v
  simp only [ContinuousLinearMap.smul_apply, smul_eq_mul, nsmul_eq_mul]
  have : ‖x‖ ≠ 0 := norm_ne_zero_iff.2 hx
  field_simp
  norm_num

/-- the quotient map onto the sphere -/
noncomputable def quotMap (x : E) : E := ‖x‖⁻¹ • x

/-- its differential at `x ≠ 0`: `v ↦ v/‖x‖ - ⟨x,v⟩ x/‖x‖³` -/
noncomputable def quotD (x : E) : E →L[ℝ] E :=
  ‖x‖⁻¹ • ContinuousLinearMap.id ℝ E + ((-(‖x‖ ^ 2)⁻¹) • (‖x‖⁻¹ • innerSL ℝ x)).smulRight x

theorem hasFDerivAt_quotMap {x : E} (hx : x ≠ 0) : HasFDerivAt (quotMap : E → E) (quotD x) x := by
  have hr : ‖x‖ ≠ 0 := norm_ne_zero_iff.2 hx
  have hinv : HasFDerivAt (fun y : E => ‖y‖⁻¹) ((-(‖x‖ ^ 2)⁻¹) • (‖x‖⁻¹ • innerSL ℝ x)) x :=
    (hasDerivAt_inv hr).comp_hasFDerivAt x (hasFDerivAt_norm' hx)
  exact hinv.smul (hasFDerivAt_id x)

theorem quotD_apply (x v : E) : quotD x v = ‖x‖⁻¹ • v - ((‖x‖ ^ 2)⁻¹ * ‖x‖⁻¹ * inner ℝ x v) • x := by
  simp only [quotD, add_apply, smul_apply, ContinuousLinearMap.id_apply,
    ContinuousLinearMap.smulRight_apply, innerSL_apply_apply, smul_eq_mul]
  rw [sub_eq_add_neg, ← neg_smul]; congr 2; ring

/-- **the kernel of the differential is the radial line** -/
theorem ker_quotD {x : E} (hx : x ≠ 0) : LinearMap.ker (quotD x : E →ₗ[ℝ] E) = Submodule.span ℝ {x} := by
  have hr : ‖x‖ ≠ 0 := norm_ne_zero_iff.2 hx
  ext v
  simp only [LinearMap.mem_ker, ContinuousLinearMap.coe_coe, Submodule.mem_span_singleton]
  rw [quotD_apply]
  constructor
  · intro h
    refine ⟨(‖x‖ ^ 2)⁻¹ * inner ℝ x v, ?_⟩
    have h2 : ‖x‖⁻¹ • v = ((‖x‖ ^ 2)⁻¹ * ‖x‖⁻¹ * inner ℝ x v) • x := sub_eq_zero.1 h
    have h3 := congrArg (fun w => ‖x‖ • w) h2
    simp only [smul_smul] at h3
    rw [mul_inv_cancel₀ hr, one_smul] at h3
    have e : ‖x‖ * ((‖x‖ ^ 2)⁻¹ * ‖x‖⁻¹ * inner ℝ x v) = (‖x‖ ^ 2)⁻¹ * inner ℝ x v := by field_simp
    rw [e] at h3
    exact h3.symm
  · rintro ⟨c, rfl⟩
    rw [inner_smul_right, real_inner_self_eq_norm_sq, smul_smul, ← sub_smul]
    have : ‖x‖⁻¹ * c - (‖x‖ ^ 2)⁻¹ * ‖x‖⁻¹ * (c * ‖x‖ ^ 2) = 0 := by field_simp; ring
    rw [this, zero_smul]

/-- **rank of the differential of the quotient map = dim − 1** -/
theorem finrank_range_quotD [FiniteDimensional ℝ E] {x : E} (hx : x ≠ 0) :
    finrank ℝ (LinearMap.range (quotD x : E →ₗ[ℝ] E)) + 1 = finrank ℝ E := by
  have h := LinearMap.finrank_range_add_finrank_ker (quotD x : E →ₗ[ℝ] E)
  rw [ker_quotD hx, finrank_span_singleton hx] at h
  exact h

/-- `to_ball` as a map of an inner product space -/
noncomputable def ballMap (x : E) : E := (1 + ‖x‖)⁻¹ • x

noncomputable def ballD (x : E) : E →L[ℝ] E :=
  (1 + ‖x‖)⁻¹ • ContinuousLinearMap.id ℝ E + ((-((1 + ‖x‖) ^ 2)⁻¹) • (‖x‖⁻¹ • innerSL ℝ x)).smulRight x

theorem hasFDerivAt_ballMap {x : E} (hx : x ≠ 0) : HasFDerivAt (ballMap : E → E) (ballD x) x := by
  have h1 : (1 + ‖x‖) ≠ 0 := by positivity
  have hn : HasFDerivAt (fun y : E => 1 + ‖y‖) (‖x‖⁻¹ • innerSL ℝ x) x := (hasFDerivAt_norm' hx).const_add 1
  have hinv : HasFDerivAt (fun y : E => (1 + ‖y‖)⁻¹) ((-((1 + ‖x‖) ^ 2)⁻¹) • (‖x‖⁻¹ • innerSL ℝ x)) x :=
    (hasDerivAt_inv h1).comp_hasFDerivAt x hn
  exact hinv.smul (hasFDerivAt_id x)

theorem ballD_apply (x v : E) : ballD x v = (1 + ‖x‖)⁻¹ • v - (((1 + ‖x‖) ^ 2)⁻¹ * ‖x‖⁻¹ * inner ℝ x v) • x := by
  simp only [ballD, add_apply, smul_apply, ContinuousLinearMap.id_apply,
    ContinuousLinearMap.smulRight_apply, innerSL_apply_apply, smul_eq_mul]
  rw [sub_eq_add_neg, ← neg_smul]; congr 2; ring

/-- **the differential of `to_ball` is injective at every `x ≠ 0`** (full rank) -/
theorem ballD_injective {x : E} (hx : x ≠ 0) : Function.Injective (ballD x) := by
  have hr : ‖x‖ ≠ 0 := norm_ne_zero_iff.2 hx
  have h1 : (1 + ‖x‖) ≠ 0 := by positivity
  rw [injective_iff_map_eq_zero]
  intro v hv
  rw [ballD_apply] at hv
  have hin : inner ℝ x v = 0 := by
    have := congrArg (fun w => inner ℝ x w) hv
    simp only [inner_sub_right, inner_smul_right, real_inner_self_eq_norm_sq, inner_zero_right] at this
    have h2 : inner ℝ x v * ((1 + ‖x‖) ^ 2)⁻¹ = 0 := by
      have e : (1 + ‖x‖)⁻¹ * inner ℝ x v - ((1 + ‖x‖) ^ 2)⁻¹ * ‖x‖⁻¹ * inner ℝ x v * ‖x‖ ^ 2
          = inner ℝ x v * ((1 + ‖x‖) ^ 2)⁻¹ := by field_simp; ring
      rw [← e]; exact this
    rcases mul_eq_zero.1 h2 with h | h
    · exact h
    · exact absurd h (inv_ne_zero (pow_ne_zero 2 h1))
  rw [hin, mul_zero, zero_smul, sub_zero] at hv
  exact (smul_eq_zero.1 hv).resolve_left (inv_ne_zero h1)

/-- at the origin the differential of `to_ball` is the identity -/
theorem hasFDerivAt_ballMap_zero : HasFDerivAt (ballMap : E → E) (ContinuousLinearMap.id ℝ E) 0 := by
  rw [hasFDerivAt_iff_isLittleO_nhds_zero]
  have hb : (fun h : E => ballMap (0 + h) - ballMap 0 - (ContinuousLinearMap.id ℝ E) h) =O[nhds 0] fun h : E => ‖h‖ ^ 2 := by
    refine Asymptotics.IsBigO.of_bound 1 (Filter.Eventually.of_forall fun h => ?_)
    simp only [zero_add, ballMap, norm_zero, add_zero, inv_one, smul_zero, sub_zero, ContinuousLinearMap.id_apply, one_mul]
    have : (1 + ‖h‖)⁻¹ • h - h = (-(‖h‖ * (1 + ‖h‖)⁻¹)) • h := by
      have h1 : (1 + ‖h‖) ≠ 0 := by positivity
      have e : (1 + ‖h‖)⁻¹ • h - h = ((1 + ‖h‖)⁻¹ - 1) • h := by rw [sub_smul, one_smul]
      rw [e]; congr 1; field_simp; ring
    rw [this, norm_smul, norm_neg, norm_mul, norm_norm, norm_inv, Real.norm_of_nonneg (by positivity : (0:ℝ) ≤ 1 + ‖h‖),
      Real.norm_of_nonneg (by positivity : (0:ℝ) ≤ ‖h‖ ^ 2)]
    have h1 : (1 + ‖h‖)⁻¹ ≤ 1 := inv_le_one_of_one_le₀ (by linarith [norm_nonneg h])
    nlinarith [norm_nonneg h, mul_nonneg (norm_nonneg h) (norm_nonneg h)]
  exact hb.trans_isLittleO (Asymptotics.isLittleO_norm_pow_id one_lt_two)

/-! ### the model's vector maps are these maps on `EuclideanSpace ℝ (Fin n)` -/

/-- the first `n` parameters as a point of Euclidean space -/
noncomputable def toE (n : Nat) (θ : Nat → ℝ) : EuclideanSpace ℝ (Fin n) := WithLp.toLp 2 fun i : Fin n => θ i.val

theorem norm_toE (n : Nat) (θ : Nat → ℝ) : ‖toE n θ‖ = norm n θ := by
  rw [EuclideanSpace.norm_eq]
  unfold norm
  rw [sqrt_eq, normSq_eq, Finset.sum_range]
  congr 1
  refine Finset.sum_congr rfl (fun i _ => ?_)
  simp [toE, sq]

theorem sphereQuotientVec_eq (n : Nat) (θ : Nat → ℝ) (i : Fin n) :
    sphereQuotientVec n θ i.val = quotMap (toE n θ) i := by
  simp only [sphereQuotientVec, quotMap, PiLp.smul_apply, smul_eq_mul, norm_toE]
  simp [toE, div_eq_inv_mul]

theorem ballVec_eq (n : Nat) (θ : Nat → ℝ) (i : Fin n) : ballVec n θ i.val = ballMap (toE n θ) i := by
  simp only [ballVec, ballMap, PiLp.smul_apply, smul_eq_mul, norm_toE]
  simp [toE, div_eq_inv_mul]
