import NumqiProofs.GellmannLemmas
namespace Numqi.Gellmann
open Matrix

section general
variable {β : Type} [DecidableEq β] {M : Type} [AddCommMonoid M]

theorem getD_of_lt (l : List β) (dflt : β) {a : Nat} (h : a < l.length) : l.getD a dflt = l[a] := by
  simp [h]

theorem sum_range_nodup (l : List β) (hl : l.Nodup) (f : Nat → β → M) (dflt : β) :
    ∑ a ∈ Finset.range l.length, f a (l.getD a dflt) = ∑ x ∈ l.toFinset, f (l.idxOf x) x := by
  refine Finset.sum_bij' (fun a _ => l.getD a dflt) (fun x _ => l.idxOf x) ?_ ?_ ?_ ?_ ?_
  · intro a ha
    rw [Finset.mem_range] at ha
    rw [List.mem_toFinset, getD_of_lt _ _ ha]; exact List.getElem_mem ha
  · intro x hx
    rw [List.mem_toFinset] at hx
    rw [Finset.mem_range]; exact List.idxOf_lt_length_of_mem hx
  · intro a ha
    rw [Finset.mem_range] at ha
    simp only [getD_of_lt _ _ ha]; exact hl.idxOf_getElem a ha
  · intro x hx
    rw [List.mem_toFinset] at hx
    simp only [getD_of_lt _ _ (List.idxOf_lt_length_of_mem hx)]; exact List.getElem_idxOf _
  · intro a ha
    rw [Finset.mem_range] at ha
    simp only [getD_of_lt _ _ ha, hl.idxOf_getElem a ha]

end general

variable {R : Type} [CommRing R] {d : Nat}

/-- position of a basis element in the documented order -/
def Kind.pos : Kind d → Nat
  | .sym p => (pairs d).idxOf p
  | .asym p => (pairs d).length + (pairs d).idxOf p
  | .diag k => (pairs d).length + (pairs d).length + (k.val - 1)
  | .ident => (pairs d).length + (pairs d).length + (d - 1)

theorem getElem?_diagIdx {q : Nat} (hq : q + 1 < d) : (diagIdx d)[q]? = some ⟨q + 1, hq⟩ := by
  obtain ⟨n, rfl⟩ : ∃ n, d = n + 1 := ⟨d - 1, by omega⟩
  rw [diagIdx_eq, List.getElem?_map]
  have : q < (List.finRange n).length := by simp; omega
  rw [List.getElem?_eq_getElem this, List.getElem_finRange]
  rfl

theorem idxOf_kinds {k : Kind d} (hk : k ∈ kinds d) : (kinds d).idxOf k = k.pos := by
  have hk' := kinds_wf hk
  have key : (kinds d)[k.pos]? = some k := by
    unfold kinds
    cases k with
    | sym p =>
      have hp : p ∈ pairs d := mem_pairs.2 hk'
      have h1 : (pairs d).idxOf p < (pairs d).length := List.idxOf_lt_length_of_mem hp
      simp only [Kind.pos]
      rw [List.append_assoc, List.append_assoc, List.getElem?_append_left (by simpa using h1), List.getElem?_map,
        List.getElem?_idxOf hp]; rfl
    | asym p =>
      have hp : p ∈ pairs d := mem_pairs.2 hk'
      have h1 : (pairs d).idxOf p < (pairs d).length := List.idxOf_lt_length_of_mem hp
      simp only [Kind.pos]
      rw [List.append_assoc, List.append_assoc, List.getElem?_append_right (by simp),
        List.getElem?_append_left (by simp; omega), List.getElem?_map]
      simp [List.getElem?_idxOf hp]
    | diag k =>
      have h0 : 0 < k.val := hk'
      simp only [Kind.pos]
      rw [List.append_assoc, List.append_assoc, List.getElem?_append_right (by simp; omega),
        List.getElem?_append_right (by simp; omega), List.getElem?_append_left (by simp [length_diagIdx]; omega), List.getElem?_map]
      simp only [List.length_map]
      have : (pairs d).length + (pairs d).length + (k.val - 1) - (pairs d).length - (pairs d).length = k.val - 1 := by omega
      rw [this, getElem?_diagIdx (q := k.val - 1) (by omega)]
      simp only [Option.map_some, Option.some.injEq, Kind.diag.injEq]
      exact Fin.ext (by simp; omega)
    | ident =>
      simp only [Kind.pos]
      rw [List.getElem?_append_right (by simp [length_diagIdx]; omega)]
      have : (pairs d).length + (pairs d).length + (d - 1) - ((pairs d).map Kind.sym ++ (pairs d).map Kind.asym ++ (diagIdx d).map Kind.diag).length = 0 := by
        simp [length_diagIdx]; omega
      rw [this]; rfl
  have hlt : k.pos < (kinds d).length := by
    by_contra h
    rw [List.getElem?_eq_none (by omega)] at key; cases key
  rw [List.getElem?_eq_getElem hlt] at key
  have := kinds_nodup.idxOf_getElem k.pos hlt
  rw [Option.some.inj key] at this
  exact this
/-- element `a` of `all_gellmann_matrix(d)` as a Mathlib matrix (`0` outside the range) -/
def basis (S : Scalars R) (d a : Nat) : Matrix (Fin d) (Fin d) R := ((allGellmann S d).map Matrix.of).getD a 0

theorem length_allGellmann (S : Scalars R) (hd : 1 ≤ d) : (allGellmann S d).length = d * d := by
  have := congrArg List.length (allGellmann_eq S (d := d))
  simpa [length_kinds hd] using this

theorem basis_eq (S : Scalars R) (hd : 1 ≤ d) {a : Nat} (ha : a < d * d) :
    ∃ k ∈ kinds d, k.pos = a ∧ (kinds d)[a]? = some k ∧ basis S d a = k.mat S := by
  have hl : a < (kinds d).length := by rw [length_kinds hd]; exact ha
  refine ⟨(kinds d)[a], List.getElem_mem hl, ?_, List.getElem?_eq_getElem hl, ?_⟩
  · rw [← idxOf_kinds (List.getElem_mem hl)]; exact kinds_nodup.idxOf_getElem a hl
  · unfold basis; rw [allGellmann_eq]
    simp [hl]

theorem basis_orthogonal [StarRing R] (S : Scalars R) (hS : S.Valid d) (hd : 1 ≤ d) {a b : Nat} (ha : a < d * d) (hb : b < d * d) :
    trace (basis S d a * basis S d b) = if a = b then 2 else 0 := by
  obtain ⟨k, hk, hka, _, ek⟩ := basis_eq S hd ha
  obtain ⟨k', hk', hkb, _, ek'⟩ := basis_eq S hd hb
  rw [ek, ek', orth S hS (kinds_wf hk) (kinds_wf hk')]
  by_cases h : k = k'
  · subst h; rw [if_pos rfl, if_pos (hka.symm.trans hkb)]
  · rw [if_neg h, if_neg]; intro e; apply h
    have h1 := idxOf_kinds hk; have h2 := idxOf_kinds hk'
    rw [hka] at h1; rw [hkb, ← e] at h2
    have := List.getElem_idxOf (List.idxOf_lt_length_of_mem hk)
    have := List.getElem_idxOf (List.idxOf_lt_length_of_mem hk')
    simp_all

/-- a sum over the positions of the basis is a sum over the four blocks -/
theorem sum_basis {M : Type} [AddCommMonoid M] (S : Scalars R) (hd : 1 ≤ d) (f : Nat → Matrix (Fin d) (Fin d) R → M) :
    ∑ a ∈ Finset.range (d * d), f a (basis S d a)
      = ((pairs d).map fun p => f (Kind.sym p).pos ((Kind.sym p).mat S)).sum
      + ((pairs d).map fun p => f (Kind.asym p).pos ((Kind.asym p).mat S)).sum
      + ((diagIdx d).map fun k => f (Kind.diag k).pos ((Kind.diag k).mat S)).sum
      + f (Kind.ident (d := d)).pos ((Kind.ident (d := d)).mat S) := by
  have h1 : ∑ a ∈ Finset.range (d * d), f a (basis S d a)
      = ∑ a ∈ Finset.range (kinds d).length, f a (((kinds d).getD a Kind.ident).mat S) := by
    rw [length_kinds hd]
    refine Finset.sum_congr rfl (fun a ha => ?_)
    rw [Finset.mem_range] at ha
    obtain ⟨k, _, _, hk2, ek⟩ := basis_eq S hd ha
    rw [ek, List.getD_eq_getElem?_getD, hk2]; rfl
  rw [h1, sum_range_nodup (kinds d) kinds_nodup (fun a k => f a (k.mat S)) Kind.ident, List.sum_toFinset _ kinds_nodup]
  have h2 : (kinds d).map (fun x => f ((kinds d).idxOf x) (x.mat S)) = (kinds d).map (fun x => f x.pos (x.mat S)) :=
    List.map_congr_left (fun k hk => by rw [idxOf_kinds hk])
  rw [h2]
  simp [kinds, List.map_append, List.sum_append, List.map_map, Function.comp_def, add_assoc]

/-! ### per-element facts -/

theorem sumFin_eq {M : Type} [AddCommMonoid M] (f : Fin d → M) : sumFin f = ∑ i, f i := by
  unfold sumFin; rw [Fin.sum_univ_def]

theorem list_sum_filter_map {β M : Type} [AddCommMonoid M] (l : List β) (p : β → Bool) (f : β → M) :
    ((l.filter p).map f).sum = (l.map fun x => if p x then f x else 0).sum := by
  induction l with
  | nil => simp
  | cons a t ih =>
    by_cases h : p a <;> simp [List.filter_cons, h, ih]

theorem sum_filter_lt (k : Fin d) (f : Fin d → R) :
    (((List.finRange d).filter fun l => l.val < k.val).map f).sum = ∑ r : Fin d, if r.val < k.val then f r else 0 := by
  rw [list_sum_filter_map, Fin.sum_univ_def]; simp

theorem sum_wD_mul (S : Scalars R) (k : Fin d) (f : Fin d → R) :
    ∑ r : Fin d, wD S k.val r * f r = S.cD k * ((∑ r : Fin d, if r.val < k.val then f r else 0) - (k.val : R) * f k) := by
  have : ∀ r : Fin d, wD S k.val r * f r = S.cD k * (if r.val < k.val then f r else 0) + (if r = k then S.cD k * -(k.val : R) * f k else 0) := by
    intro r; unfold wD
    by_cases h1 : r.val < k.val
    · have : r ≠ k := fun e => by rw [e] at h1; exact lt_irrefl _ h1
      simp [h1, this]
    · by_cases h2 : r = k
      · subst h2; simp
      · have : r.val ≠ k.val := fun e => h2 (Fin.ext e)
        simp [h1, h2, this]
  simp only [this, Finset.sum_add_distrib, ← Finset.mul_sum, Finset.sum_ite_eq', Finset.mem_univ, if_true]
  ring

/-- closed-form coefficient of `matrix_to_gellmann_basis` for a basis element -/
def coefK (S : Scalars R) (A : Mat d R) : Kind d → R
  | .sym p => (A p.1 p.2 + A p.2 p.1) * S.half
  | .asym p => (A p.1 p.2 - A p.2 p.1) * (S.half * S.I)
  | .diag k => ((((List.finRange d).filter fun l => l.val < k.val).map fun l => A l l).sum - (k.val : R) * A k k) * S.aD k.val
  | .ident => sumFin (fun l => A l l) * S.aI

theorem analysis_eq_map (S : Scalars R) (A : Mat d R) : analysis S d A = (kinds d).map (coefK S A) := by
  simp [analysis, kinds, List.map_append, List.map_map, Function.comp_def, coefK]

theorem coefK_eq [StarRing R] (S : Scalars R) (hS : S.Valid d) (A : Mat d R) {k : Kind d} (hk : k.WF) :
    coefK S A k = S.half * trace (k.mat S * Matrix.of A) := by
  cases k with
  | sym p => simp only [Kind.WF] at hk; simp only [coefK, Kind.mat, tr_sym_mul S hk, Matrix.of_apply]; ring
  | asym p => simp only [Kind.WF] at hk; simp only [coefK, Kind.mat, tr_asym_mul S hk, Matrix.of_apply]; ring
  | diag k =>
    simp only [Kind.WF] at hk
    simp only [coefK, Kind.mat, G_diag S hk, tr_diagonal_mul, Matrix.of_apply, sum_filter_lt, hS.aD_eq]
    rw [sum_wD_mul]; ring
  | ident =>
    simp only [coefK, Kind.mat, G_ident, tr_diagonal_mul, Matrix.of_apply, sumFin_eq, hS.aI_eq, ← Finset.mul_sum]; ring

theorem mat_hermitian [StarRing R] (S : Scalars R) (hS : S.Valid d) {k : Kind d} (hk : k.WF) : (k.mat S)ᴴ = k.mat S := by
  cases k with
  | sym p =>
    simp only [Kind.WF] at hk
    simp only [Kind.mat, G_sym S hk, conjTranspose_add, conjTranspose_single, star_one]; rw [add_comm]
  | asym p =>
    simp only [Kind.WF] at hk
    simp only [Kind.mat, G_asym S hk, conjTranspose_add, conjTranspose_single, star_neg, hS.star_I, neg_neg]; rw [add_comm]
  | diag k =>
    simp only [Kind.WF] at hk
    simp only [Kind.mat, G_diag S hk, diagonal_conjTranspose]
    congr 1; funext r
    simp only [Pi.star_apply, wD]
    split_ifs <;> simp [hS.star_cD]
  | ident =>
    simp only [Kind.mat, G_ident, diagonal_conjTranspose]
    congr 1; funext r; simp [hS.star_cI]

theorem mat_trace (S : Scalars R) {k : Kind d} (hk : k.WF) :
    trace (k.mat S) = if k = Kind.ident then (d : R) * S.cI else 0 := by
  cases k with
  | sym p =>
    simp only [Kind.WF] at hk
    simp [Kind.mat, G_sym S hk, trace_add, trace_single_eq_of_ne _ _ _ (ne_of_lt hk), trace_single_eq_of_ne _ _ _ (ne_of_gt hk)]
  | asym p =>
    simp only [Kind.WF] at hk
    simp [Kind.mat, G_asym S hk, trace_add, trace_single_eq_of_ne _ _ _ (ne_of_lt hk), trace_single_eq_of_ne _ _ _ (ne_of_gt hk)]
  | diag k =>
    simp only [Kind.WF] at hk
    simp [Kind.mat, G_diag S hk, trace_diagonal, sum_wD]
  | ident => simp [Kind.mat, G_ident, trace_diagonal]

end Numqi.Gellmann
