import Mathlib.Tactic
import Mathlib.Data.Matrix.Basis
import Mathlib.LinearAlgebra.Matrix.Trace
import Mathlib.Data.Matrix.Mul
import Mathlib.Algebra.BigOperators.Fin
import Mathlib.Algebra.Star.Basic
import NumqiModel.Gellmann

namespace Numqi.Gellmann
open Matrix

variable {R : Type} [CommRing R] {d : Nat}

/-- basis element as a Mathlib matrix -/
def G (S : Scalars R) (d i j : Nat) : Matrix (Fin d) (Fin d) R := Matrix.of (gm S d i j)

theorem G_sym (S : Scalars R) {i j : Fin d} (h : i < j) :
    G S d i.val j.val = single i j 1 + single j i 1 := by
  ext r c
  have h' : i.val < j.val := h
  have hne : i ≠ j := ne_of_lt h
  rw [Matrix.add_apply, Matrix.single_apply, Matrix.single_apply]
  simp only [G, Matrix.of_apply, gm, not_lt_of_gt h', if_false, h', if_true, ← Fin.ext_iff]
  by_cases h1 : r = i <;> by_cases h2 : c = j <;> by_cases h3 : r = j <;> by_cases h4 : c = i <;>
    simp_all [eq_comm]

theorem G_asym (S : Scalars R) {i j : Fin d} (h : i < j) :
    G S d j.val i.val = single j i S.I + single i j (-S.I) := by
  ext r c
  have h' : i.val < j.val := h
  have hne : i ≠ j := ne_of_lt h
  rw [Matrix.add_apply, Matrix.single_apply, Matrix.single_apply]
  simp only [G, Matrix.of_apply, gm, h', if_true, ← Fin.ext_iff]
  by_cases h1 : r = i <;> by_cases h2 : c = j <;> by_cases h3 : r = j <;> by_cases h4 : c = i <;>
    simp_all [eq_comm]

/-- diagonal weights of the Pauli-Z like element `k` -/
def wD (S : Scalars R) (k : Nat) (r : Fin d) : R :=
  if r.val < k then S.cD k else if r.val = k then S.cD k * -(k : R) else 0

theorem G_diag (S : Scalars R) {k : Nat} (h : 0 < k) :
    G S d k k = diagonal (wD S k) := by
  ext r c
  simp only [G, Matrix.of_apply, gm, lt_irrefl, if_false, Nat.ne_of_gt h, diagonal_apply, wD]

theorem G_ident (S : Scalars R) : G S d 0 0 = diagonal (fun _ => S.cI) := by
  ext r c
  simp only [G, Matrix.of_apply, gm, lt_irrefl, if_false, if_true, diagonal_apply]

variable [StarRing R]

/-- the algebraic relations satisfied by the exact square roots -/
structure Scalars.Valid (S : Scalars R) (d : Nat) : Prop where
  half_two : S.half * 2 = 1
  I_sq : S.I * S.I = -1
  star_I : star S.I = -S.I
  star_half : star S.half = S.half
  cD_sq : ∀ k, 1 ≤ k → k < d → S.cD k * S.cD k * ((k : R) * ((k : R) + 1)) = 2
  star_cD : ∀ k, star (S.cD k) = S.cD k
  cI_sq : S.cI * S.cI * (d : R) = 2
  star_cI : star S.cI = S.cI
  aD_eq : ∀ k, S.aD k = S.half * S.cD k
  aI_eq : S.aI = S.half * S.cI
  invD_mul : S.invD * (d : R) = 1

theorem tr_diagonal_mul (w : Fin d → R) (X : Matrix (Fin d) (Fin d) R) :
    trace (diagonal w * X) = ∑ r, w r * X r r := by
  simp [trace, diagonal_mul]

theorem sum_lt_const (k : Fin d) (c : R) : ∑ r : Fin d, (if r.val < k.val then c else 0) = (k.val : R) * c := by
  rw [← Finset.sum_filter, Finset.sum_const, Fin.card_filter_val_lt, min_eq_right (le_of_lt k.isLt)]
  simp

theorem sum_wD (S : Scalars R) (k : Fin d) : ∑ r : Fin d, wD S k.val r = 0 := by
  have : ∀ r : Fin d, wD S k.val r = (if r.val < k.val then S.cD k else 0) + (if r = k then S.cD k * -(k.val : R) else 0) := by
    intro r; unfold wD
    by_cases h1 : r.val < k.val
    · have : r ≠ k := fun e => by rw [e] at h1; exact lt_irrefl _ h1
      simp [h1, this]
    · by_cases h2 : r = k
      · subst h2; simp
      · have : r.val ≠ k.val := fun e => h2 (Fin.ext e)
        simp [h1, h2, this]
  simp only [this, Finset.sum_add_distrib, sum_lt_const, Finset.sum_ite_eq', Finset.mem_univ, if_true]
  ring

theorem sum_wD_sq (S : Scalars R) (k : Fin d) :
    ∑ r : Fin d, wD S k.val r * wD S k.val r = S.cD k * S.cD k * ((k.val : R) * ((k.val : R) + 1)) := by
  have : ∀ r : Fin d, wD S k.val r * wD S k.val r = (if r.val < k.val then S.cD k * S.cD k else 0)
      + (if r = k then S.cD k * -(k.val : R) * (S.cD k * -(k.val : R)) else 0) := by
    intro r; unfold wD
    by_cases h1 : r.val < k.val
    · have : r ≠ k := fun e => by rw [e] at h1; exact lt_irrefl _ h1
      simp [h1, this]
    · by_cases h2 : r = k
      · subst h2; simp
      · have : r.val ≠ k.val := fun e => h2 (Fin.ext e)
        simp [h1, h2, this]
  simp only [this, Finset.sum_add_distrib, sum_lt_const, Finset.sum_ite_eq', Finset.mem_univ, if_true]
  ring

theorem sum_wD_mul_lt (S : Scalars R) {k k' : Fin d} (h : k < k') :
    ∑ r : Fin d, wD S k.val r * wD S k'.val r = 0 := by
  have h' : k.val < k'.val := h
  have : ∀ r : Fin d, wD S k.val r * wD S k'.val r = wD S k.val r * S.cD k' := by
    intro r; unfold wD
    by_cases h1 : r.val < k.val
    · simp [h1, lt_trans h1 h']
    · by_cases h2 : r.val = k.val
      · simp [h2, h']
      · simp [h1, h2]
  simp only [this, ← Finset.sum_mul, sum_wD, zero_mul]
