import Mathlib.Tactic
import Mathlib.Data.Matrix.Basis
import Mathlib.LinearAlgebra.Matrix.Trace
import Mathlib.Data.Matrix.Mul
import Mathlib.Algebra.BigOperators.Fin
import Mathlib.Algebra.Star.Basic
import NumqiModel.Gellmann

namespace Numqi.Gellmann
open Matrix

variable {R : Type} [CommRing R] {d : Nat}

/-- basis element as a Mathlib matrix -/
def G (S : Scalars R) (d i j : Nat) : Matrix (Fin d) (Fin d) R := Matrix.of (gm S d i j)

theorem G_sym (S : Scalars R) {i j : Fin d} (h : i < j) :
    G S d i.val j.val = single i j 1 + single j i 1 := by
  ext r c
  have h' : i.val < j.val := h
  have hne : i ≠ j := ne_of_lt h
  rw [Matrix.add_apply, Matrix.single_apply, Matrix.single_apply]
  simp only [G, Matrix.of_apply, gm, not_lt_of_gt h', if_false, h', if_true, ← Fin.ext_iff]
  by_cases h1 : r = i <;> by_cases h2 : c = j <;> by_cases h3 : r = j <;> by_cases h4 : c = i <;>
    simp_all [eq_comm]

theorem G_asym (S : Scalars R) {i j : Fin d} (h : i < j) :
    G S d j.val i.val = single j i S.I + single i j (-S.I) := by
  ext r c
  have h' : i.val < j.val := h
  have hne : i ≠ j := ne_of_lt h
  rw [Matrix.add_apply, Matrix.single_apply, Matrix.single_apply]
  simp only [G, Matrix.of_apply, gm, h', if_true, ← Fin.ext_iff]
  by_cases h1 : r = i <;> by_cases h2 : c = j <;> by_cases h3 : r = j <;> by_cases h4 : c = i <;>
    simp_all [eq_comm]

/-- diagonal weights of the Pauli-Z like element `k` -/
def wD (S : Scalars R) (k : Nat) (r : Fin d) : R :=
  if r.val < k then S.cD k else if r.val = k then S.cD k * -(k : R) else 0

theorem G_diag (S : Scalars R) {k : Nat} (h : 0 < k) :
    G S d k k = diagonal (wD S k) := by
  ext r c
  simp only [G, Matrix.of_apply, gm, lt_irrefl, if_false, Nat.ne_of_gt h, diagonal_apply, wD]

theorem G_ident (S : Scalars R) : G S d 0 0 = diagonal (fun _ => S.cI) := by
  ext r c
  simp only [G, Matrix.of_apply, gm, lt_irrefl, if_false, if_true, diagonal_apply]

/-! ### inner products `tr (G_a X)` -/

theorem tr_sym_mul (S : Scalars R) {i j : Fin d} (h : i < j) (X : Matrix (Fin d) (Fin d) R) :
    trace (G S d i.val j.val * X) = X j i + X i j := by
  rw [G_sym S h, add_mul, trace_add, trace_single_mul, trace_single_mul]; simp

theorem tr_asym_mul (S : Scalars R) {i j : Fin d} (h : i < j) (X : Matrix (Fin d) (Fin d) R) :
    trace (G S d j.val i.val * X) = S.I * X i j - S.I * X j i := by
  rw [G_asym S h, add_mul, trace_add, trace_single_mul, trace_single_mul]; simp [sub_eq_add_neg]

theorem tr_diagonal_mul (w : Fin d → R) (X : Matrix (Fin d) (Fin d) R) :
    trace (diagonal w * X) = ∑ r, w r * X r r := by
  simp [trace, diagonal_mul]

/-! ### the index list -/

theorem mem_pairs {p : Fin d × Fin d} : p ∈ pairs d ↔ p.1 < p.2 := by
theorem nodup_pairs : (pairs d).Nodup := by
  unfold pairs
  rw [List.nodup_flatMap]
  refine ⟨fun i _ => ?_, ?_⟩
  · exact ((List.nodup_finRange d).filter _).map (fun a b h => by simpa using h)
  · refine List.Pairwise.imp ?_ (List.nodup_finRange d)
    intro a b hab
    simp only [Function.onFun, List.disjoint_left, List.mem_map, List.mem_filter]
    rintro x ⟨j, _, rfl⟩ ⟨j', _, h⟩
    exact hab (by simpa using (congrArg Prod.fst h).symm)

theorem mem_diagIdx {k : Fin d} : k ∈ diagIdx d ↔ 0 < k.val := by
  simp [diagIdx]

theorem nodup_diagIdx : (diagIdx d).Nodup := (List.nodup_finRange d).filter _

/-- `diagIdx d = [1, …, d-1]` by position -/
theorem diagIdx_eq : (diagIdx (d+1)) = (List.finRange d).map Fin.succ := by
  unfold diagIdx
  rw [List.finRange_succ]
  simp [List.filter_map, Function.comp_def]

theorem length_diagIdx : (diagIdx d).length = d - 1 := by
  cases d with
  | zero => simp [diagIdx]
  | succ n => simp [diagIdx_eq]

theorem length_pairs : (pairs d).length * 2 = d * (d - 1) := by
  sorry
