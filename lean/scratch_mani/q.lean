import Mathlib.Tactic
open List
#check @List.getD_eq_getElem?_getD
#check @List.getD_eq_getElem
#check @List.getElem?_eq_getElem
#check @List.getElem?_append_left
#check @List.getElem?_append_right
#check @List.getElem?_map
#check @List.idxOf_append_of_mem
#check @List.idxOf_append_of_notMem
#check @List.getElem?_idxOf
#check @List.getElem_idxOf
#check @List.getElem?_finRange
#check @List.getElem_finRange
#check @List.sum_toFinset
example (l : List Nat) (a : Nat) (h : a < l.length) : l.getD a 0 = l[a] := by simp [h]
