#check @Float.log1p
#check @Float.expm1
#check (inferInstance : Zero Float)
#check (inferInstance : One Float)
#check (inferInstance : NatCast Float)
#check (inferInstance : Neg Float)
#check (inferInstance : Div Float)
#check (inferInstance : DecidableLT Float)
#check @Float.ofBits
#check @Float.abs
#check @Float.atan2
#eval (Float.ofBits 4607182418800017408)
#eval (2.5 : Float).toBits
#check @Array.getElem_ofFn
#check @Float.isNaN
