import Mathlib.Tactic
import Mathlib.Algebra.BigOperators.Fin
import NumqiModel.Gellmann
namespace Numqi.Gellmann
variable {d : Nat}
theorem mem_pairs {p : Fin d × Fin d} : p ∈ pairs d ↔ p.1 < p.2 := by
  simp only [pairs, List.mem_flatMap, List.mem_finRange, true_and, List.mem_map, List.mem_filter, decide_eq_true_eq]
  constructor
  · rintro ⟨i, j, hij, rfl⟩; exact hij
  · intro h; exact ⟨p.1, p.2, h, rfl⟩
theorem nodup_pairs : (pairs d).Nodup := by
  unfold pairs
  rw [List.nodup_flatMap]
  refine ⟨fun i _ => ?_, ?_⟩
  · exact ((List.nodup_finRange d).filter _).map (fun a b h => by simpa using h)
  · refine List.Pairwise.imp ?_ (List.nodup_finRange d)
    intro a b hab
    simp only [Function.onFun, List.disjoint_left, List.mem_map, List.mem_filter]
    rintro x ⟨j, _, rfl⟩ ⟨j', _, h⟩
    exact hab (by simpa using (congrArg Prod.fst h).symm)

theorem length_pairs : (pairs d).length * 2 = d * (d - 1) := by
  have h1 : (pairs d).length = (Finset.univ.filter (fun p : Fin d × Fin d => p.1 < p.2)).card := by
    rw [← List.toFinset_card_of_nodup nodup_pairs]
    congr 1; ext p; simp [mem_pairs]
  have h2 : (Finset.univ.filter (fun p : Fin d × Fin d => p.1 < p.2)).card
      = (Finset.univ.filter (fun p : Fin d × Fin d => p.2 < p.1)).card := by
    apply Finset.card_bij (fun p _ => (p.2, p.1))
    · intro p hp; simpa using hp
    · intro p _ q _ h; simp only [Prod.mk.injEq] at h; exact Prod.ext h.2 h.1
    · intro q hq; exact ⟨(q.2, q.1), by simpa using hq, rfl⟩
  have h3 : (Finset.univ.filter (fun p : Fin d × Fin d => p.1 = p.2)).card = d := by
    have : (Finset.univ.filter (fun p : Fin d × Fin d => p.1 = p.2)) = Finset.univ.image (fun i : Fin d => (i, i)) := by
      ext p; simp only [Finset.mem_filter, Finset.mem_univ, true_and, Finset.mem_image]
      constructor
      · intro h; exact ⟨p.1, Prod.ext rfl h⟩
      · rintro ⟨i, rfl⟩; rfl
    rw [this, Finset.card_image_of_injective _ (fun a b h => by simpa using h)]; simp
  have h4 : (Finset.univ.filter (fun p : Fin d × Fin d => p.1 < p.2)).card
      + (Finset.univ.filter (fun p : Fin d × Fin d => p.2 < p.1)).card
      + (Finset.univ.filter (fun p : Fin d × Fin d => p.1 = p.2)).card = d * d := by
    rw [← Finset.card_union_of_disjoint, ← Finset.card_union_of_disjoint]
    · have : (Finset.univ.filter (fun p : Fin d × Fin d => p.1 < p.2)) ∪ (Finset.univ.filter (fun p : Fin d × Fin d => p.2 < p.1))
          ∪ (Finset.univ.filter (fun p : Fin d × Fin d => p.1 = p.2)) = Finset.univ := by
        ext p; simp only [Finset.mem_union, Finset.mem_filter, Finset.mem_univ, true_and, iff_true]
        rcases lt_trichotomy p.1 p.2 with h | h | h
        · exact Or.inl (Or.inl h)
        · exact Or.inr h
        · exact Or.inl (Or.inr h)
      rw [this]; simp
    · rw [Finset.disjoint_left]; intro p hp hq
      simp only [Finset.mem_union, Finset.mem_filter, Finset.mem_univ, true_and] at hp hq
      rcases hp with hp | hp <;> omega
    · rw [Finset.disjoint_left]; intro p hp hq
      simp only [Finset.mem_filter, Finset.mem_univ, true_and] at hp hq
      exact absurd hp (not_lt_of_gt hq)
  rw [h1]
  rw [← h2, h3] at h4
  cases d with
  | zero => simp at h4 ⊢
  | succ n =>
    simp only [Nat.add_sub_cancel]
    have : (n+1) * (n+1) = (n+1) * n + (n+1) := by ring
    omega
