import NumqiProofs.ManifoldDiff

namespace Numqi.Manifold
variable {𝔸 : Type*} [NormedRing 𝔸] [NormedAlgebra ℝ 𝔸] [CompleteSpace 𝔸]

/-- the differential of the Cayley transform at `A` (`u = 1 + A` invertible): `δ ↦ -2 u⁻¹ δ u⁻¹` -/
noncomputable def cayleyD (u : 𝔸ˣ) : 𝔸 →L[ℝ] 𝔸 := (-2 : ℝ) • ContinuousLinearMap.mulLeftRight ℝ 𝔸 ↑u⁻¹ ↑u⁻¹

theorem cayleyD_apply (u : 𝔸ˣ) (δ : 𝔸) : cayleyD u δ = (-2 : ℝ) • ((↑u⁻¹ : 𝔸) * δ * ↑u⁻¹) := by
  simp [cayleyD, ContinuousLinearMap.mulLeftRight_apply]

/-- **the Cayley transform is differentiable at every `A` with `1 + A` invertible, with differential `δ ↦ -2 (1+A)⁻¹ δ (1+A)⁻¹`** -/
theorem hasFDerivAt_cayley (A : 𝔸) (u : 𝔸ˣ) (hu : (↑u : 𝔸) = 1 + A) : HasFDerivAt (cayleyMap : 𝔸 → 𝔸) (cayleyD u) A := by
  have h1 : HasFDerivAt (fun B : 𝔸 => 1 + B) (ContinuousLinearMap.id ℝ 𝔸) A := (hasFDerivAt_id A).const_add 1
  have hinv : HasFDerivAt (Ring.inverse : 𝔸 → 𝔸) (-ContinuousLinearMap.mulLeftRight ℝ 𝔸 ↑u⁻¹ ↑u⁻¹) ((fun B : 𝔸 => 1 + B) A) := by
    have := hasFDerivAt_ringInverse (𝕜 := ℝ) u
    rwa [hu] at this
  have hg : HasFDerivAt (fun B : 𝔸 => Ring.inverse (1 + B)) ((-ContinuousLinearMap.mulLeftRight ℝ 𝔸 ↑u⁻¹ ↑u⁻¹).comp (ContinuousLinearMap.id ℝ 𝔸)) A :=
    hinv.comp A h1
  have hh : HasFDerivAt (fun B : 𝔸 => 1 - B) (-ContinuousLinearMap.id ℝ 𝔸) A := (hasFDerivAt_id A).const_sub 1
  have := hg.mul' hh
  refine this.congr_fderiv ?_
  ext δ
  have hri : Ring.inverse (1 + A) = (↑u⁻¹ : 𝔸) := by rw [← hu, Ring.inverse_unit]
  have h1A : (1 : 𝔸) - A = 2 - ↑u := by rw [hu]; abel_nf; norm_num [two_smul]
  simp only [cayleyD_apply, ContinuousLinearMap.add_apply, ContinuousLinearMap.smul_apply, ContinuousLinearMap.neg_apply,
    ContinuousLinearMap.id_apply, ContinuousLinearMap.comp_apply, ContinuousLinearMap.mulLeftRight_apply, hri, h1A]
  simp only [smul_eq_mul, MulOpposite.smul_eq_mul_unop, MulOpposite.unop_op]
  have e : (↑u⁻¹ : 𝔸) * δ * ↑u⁻¹ * ↑u = ↑u⁻¹ * δ := by rw [mul_assoc, Units.inv_mul, mul_one]
  have key : (↑u⁻¹ : 𝔸) * -δ + (-((↑u⁻¹ : 𝔸) * δ * ↑u⁻¹) * 2 - -((↑u⁻¹ : 𝔸) * δ * ↑u⁻¹) * ↑u) = -(((↑u⁻¹ : 𝔸) * δ * ↑u⁻¹) * 2) := by
    rw [neg_mul, neg_mul, e]; noncomm_ring
  rw [key, neg_smul, two_smul, mul_two]
