import NumqiProofs.ManifoldPsd

namespace Numqi.Manifold
open Matrix Finset
open scoped ComplexOrder

variable {dim rank : Nat}

/-! ### `to_trace1_psd_ensemble` -/

/-- weights and unit vectors of the ensemble as functions -/
noncomputable def ensP (rank : Nat) (θ : Nat → ℝ) (k : Fin rank) : ℝ := softmaxVec rank θ k.val
noncomputable def ensPsi (dim rank : Nat) (isReal : Bool) (θ : Nat → ℝ) (k : Fin rank) (i : Fin dim) : ℂ :=
  (ensemblePsi (K := ℂ) dim rank isReal θ).get k.val i.val

theorem toM_psdEnsemble (isReal : Bool) (θ : Nat → ℝ) :
    toM dim dim (psdEnsemble (K := ℂ) dim rank isReal θ)
      = ∑ k : Fin rank, ((ensP rank θ k : ℝ) : ℂ) • vecMulVec (ensPsi dim rank isReal θ k) (star (ensPsi dim rank isReal θ k)) := by
  ext i j
  simp only [toM, psdEnsemble, Matrix.of_apply, NMat.get_ofFn_fin, sumK_eq, Matrix.sum_apply, Matrix.smul_apply,
    vecMulVec_apply, smul_eq_mul, Pi.star_apply]
  refine Finset.sum_congr rfl (fun k _ => ?_)
  rw [NMat.get_ofFn _ _ _ Nat.zero_lt_one k.isLt]
  simp only [ensP, ensPsi, CxOps.ofReal, CxOps.conj, mul_assoc]
  rfl

/-- Hermitian and positive semidefinite, for every θ -/
theorem psdEnsemble_posSemidef' (isReal : Bool) (θ : Nat → ℝ) (hr : 0 < rank) :
    (toM dim dim (psdEnsemble (K := ℂ) dim rank isReal θ)).PosSemidef := by
  rw [toM_psdEnsemble]
  apply Matrix.posSemidef_sum
  intro k _
  apply Matrix.PosSemidef.smul (Matrix.posSemidef_vecMulVec_self_star _)
  exact Complex.zero_le_real.2 (le_of_lt (softmax_pos' rank θ hr k.val))

/-- rank at most `rank` -/
theorem psdEnsemble_rank_le' (isReal : Bool) (θ : Nat → ℝ) :
    Matrix.rank (toM dim dim (psdEnsemble (K := ℂ) dim rank isReal θ)) ≤ rank := by
  have : toM dim dim (psdEnsemble (K := ℂ) dim rank isReal θ)
      = (Matrix.of fun (i : Fin dim) (k : Fin rank) => ((ensP rank θ k : ℝ) : ℂ) * ensPsi dim rank isReal θ k i)
        * (Matrix.of fun (k : Fin rank) (j : Fin dim) => star (ensPsi dim rank isReal θ k j)) := by
    rw [toM_psdEnsemble]
    ext i j
    simp [Matrix.sum_apply, Matrix.mul_apply, vecMulVec_apply, mul_assoc]
  rw [this]
  exact (Matrix.rank_mul_le_left _ _).trans (Matrix.rank_le_width _)

/-- the unit vectors have norm one when their parameter block is non-zero -/
theorem ensPsi_normSq (isReal : Bool) (θ : Nat → ℝ) (k : Fin rank)
    (hθ : normSq (if isReal then dim else 2 * dim) (fun q => θ (rank + k.val * (if isReal then dim else 2 * dim) + q)) ≠ 0) :
    ∑ i : Fin dim, Complex.normSq (ensPsi dim rank isReal θ k i) = 1 := by
  cases isReal with
  | true =>
    simp only [if_true] at hθ
    have := sphereQuotient_normSq dim _ hθ
    rw [normSq_eq, Finset.sum_range] at this
    rw [← this]
    refine Finset.sum_congr rfl (fun i _ => ?_)
    simp only [ensPsi, ensemblePsi, NMat.get_ofFn_fin, if_true, CxOps.ofReal, Complex.normSq_ofReal]
  | false =>
    simp only [Bool.false_eq_true, if_false] at hθ
    have := sphereQuotient_normSq (2 * dim) _ hθ
    rw [two_mul, ← pairCx_normSq, Finset.sum_range] at this
    rw [← this]
    refine Finset.sum_congr rfl (fun i _ => ?_)
    simp only [ensPsi, ensemblePsi, NMat.get_ofFn_fin, Bool.false_eq_true, if_false, two_mul]

/-- **trace one** when every state block of θ is non-zero -/
theorem psdEnsemble_trace' (isReal : Bool) (θ : Nat → ℝ) (hr : 0 < rank)
    (hθ : ∀ k : Fin rank, normSq (if isReal then dim else 2 * dim)
      (fun q => θ (rank + k.val * (if isReal then dim else 2 * dim) + q)) ≠ 0) :
    trace (toM dim dim (psdEnsemble (K := ℂ) dim rank isReal θ)) = 1 := by
  rw [toM_psdEnsemble, trace_sum]
  have h1 : ∀ k : Fin rank, trace (((ensP rank θ k : ℝ) : ℂ) • vecMulVec (ensPsi dim rank isReal θ k) (star (ensPsi dim rank isReal θ k)))
      = ((ensP rank θ k : ℝ) : ℂ) := by
    intro k
    rw [trace_smul, smul_eq_mul]
    have : trace (vecMulVec (ensPsi dim rank isReal θ k) (star (ensPsi dim rank isReal θ k))) = 1 := by
      simp only [trace, diag_apply, vecMulVec_apply, Pi.star_apply]
      have := ensPsi_normSq isReal θ k (hθ k)
      rw [← Complex.ofReal_one, ← this, Complex.ofReal_sum]
      refine Finset.sum_congr rfl (fun i _ => ?_)
      rw [Complex.star_def, Complex.mul_conj]
    rw [this, mul_one]
  simp only [h1]
  rw [← Complex.ofReal_sum, ← Complex.ofReal_one]
  congr 1
  have := softmax_sum' rank θ hr
  rw [Finset.sum_range] at this
  exact this
