import Mathlib.Analysis.SpecialFunctions.ExpDeriv
import Mathlib.Analysis.Calculus.FDeriv.Pi
import Mathlib.Analysis.Calculus.Deriv.Inv
import Mathlib.LinearAlgebra.FiniteDimensional.Lemmas
import NumqiProofs.ManifoldLemmas

namespace Numqi.Manifold
open Module Finset

variable {n : Nat}

/-- softmax on `ℝⁿ` -/
noncomputable def smax (x : Fin n → ℝ) : Fin n → ℝ := fun i => Real.exp (x i) * (∑ j, Real.exp (x j))⁻¹

theorem smax_sum [NeZero n] (x : Fin n → ℝ) : ∑ i, smax x i = 1 := by
  unfold smax
  rw [← Finset.sum_mul]
  exact mul_inv_cancel₀ (ne_of_gt (Finset.sum_pos (fun j _ => Real.exp_pos _) Finset.univ_nonempty))

/-- its differential: `v ↦ (s_i (v_i - Σ_j s_j v_j))_i` -/
noncomputable def smaxD (x : Fin n → ℝ) : (Fin n → ℝ) →L[ℝ] (Fin n → ℝ) :=
  ContinuousLinearMap.pi fun i =>
    smax x i • (ContinuousLinearMap.proj (R := ℝ) (φ := fun _ : Fin n => ℝ) i - ∑ j, smax x j • ContinuousLinearMap.proj (R := ℝ) (φ := fun _ : Fin n => ℝ) j)

theorem smaxD_apply (x v : Fin n → ℝ) (i : Fin n) : smaxD x v i = smax x i * (v i - ∑ j, smax x j * v j) := by
  simp [smaxD, ContinuousLinearMap.sum_apply]

theorem hasFDerivAt_smax [NeZero n] (x : Fin n → ℝ) : HasFDerivAt (smax : (Fin n → ℝ) → Fin n → ℝ) (smaxD x) x := by
  rw [hasFDerivAt_pi']
  intro i
  have hZpos : 0 < ∑ j, Real.exp (x j) := Finset.sum_pos (fun j _ => Real.exp_pos _) Finset.univ_nonempty
  have hproj : ∀ j : Fin n, HasFDerivAt (fun y : Fin n → ℝ => y j) (ContinuousLinearMap.proj (R := ℝ) (φ := fun _ : Fin n => ℝ) j) x :=
    fun j => hasFDerivAt_apply j x
  have hexp : ∀ j : Fin n, HasFDerivAt (fun y : Fin n → ℝ => Real.exp (y j))
      (Real.exp (x j) • ContinuousLinearMap.proj (R := ℝ) (φ := fun _ : Fin n => ℝ) j) x := fun j => (hproj j).exp
  have hZ : HasFDerivAt (fun y : Fin n → ℝ => ∑ j, Real.exp (y j))
      (∑ j, Real.exp (x j) • ContinuousLinearMap.proj (R := ℝ) (φ := fun _ : Fin n => ℝ) j) x :=
    HasFDerivAt.fun_sum (fun j _ => hexp j)
  have hZinv := (hasDerivAt_inv (ne_of_gt hZpos)).comp_hasFDerivAt x hZ
  have hmul := (hexp i).mul hZinv
  refine hmul.congr_fderiv ?_
  ext v
  simp only [smaxD, ContinuousLinearMap.proj_pi, ContinuousLinearMap.add_apply, ContinuousLinearMap.smul_apply,
    ContinuousLinearMap.proj_apply, smul_eq_mul, ContinuousLinearMap.sum_apply, ContinuousLinearMap.sub_apply, smax,
    Function.comp_apply]
  have hZ0 := ne_of_gt hZpos
  have hS : ∑ k, Real.exp (x k) * (∑ j, Real.exp (x j))⁻¹ * v k = (∑ j, Real.exp (x j))⁻¹ * ∑ k, Real.exp (x k) * v k := by
    rw [Finset.mul_sum]; exact Finset.sum_congr rfl (fun k _ => by ring)
  rw [hS]
  generalize (∑ k, Real.exp (x k) * v k) = S
  generalize hZe : (∑ j, Real.exp (x j)) = Z at hZ0 ⊢
  field_simp
  ring

/-- **the kernel of the softmax differential is the line of constant vectors** -/
theorem ker_smaxD [NeZero n] (x : Fin n → ℝ) :
    LinearMap.ker (smaxD x : (Fin n → ℝ) →ₗ[ℝ] (Fin n → ℝ)) = Submodule.span ℝ {fun _ => (1 : ℝ)} := by
  ext v
  simp only [LinearMap.mem_ker, ContinuousLinearMap.coe_coe, Submodule.mem_span_singleton]
  have hpos : ∀ i, 0 < smax x i := fun i =>
    mul_pos (Real.exp_pos _) (inv_pos.2 (Finset.sum_pos (fun j _ => Real.exp_pos _) Finset.univ_nonempty))
  constructor
  · intro h
    refine ⟨∑ j, smax x j * v j, ?_⟩
    funext i
    have := congrFun h i
    rw [smaxD_apply] at this
    simp only [Pi.zero_apply] at this
    rcases mul_eq_zero.1 this with h0 | h0
    · exact absurd h0 (ne_of_gt (hpos i))
    · simp only [Pi.smul_apply, smul_eq_mul, mul_one]; linarith
  · rintro ⟨c, rfl⟩
    funext i
    rw [smaxD_apply]
    simp only [Pi.smul_apply, smul_eq_mul, mul_one, Pi.zero_apply]
    rw [← Finset.sum_mul, smax_sum]; ring

/-- **rank of the softmax differential = n − 1** -/
theorem finrank_range_smaxD [NeZero n] (x : Fin n → ℝ) :
    finrank ℝ (LinearMap.range (smaxD x : (Fin n → ℝ) →ₗ[ℝ] (Fin n → ℝ))) + 1 = n := by
  have h := LinearMap.finrank_range_add_finrank_ker (smaxD x : (Fin n → ℝ) →ₗ[ℝ] (Fin n → ℝ))
  have hne : (fun _ : Fin n => (1 : ℝ)) ≠ 0 := by
    intro e; have := congrFun e ⟨0, Nat.pos_of_ne_zero (NeZero.ne n)⟩; simp at this
  rw [ker_smaxD, finrank_span_singleton hne] at h
  simpa using h

/-- the model's softmax (shifted by the maximum) is `smax` -/
theorem softmaxVec_eq_smax [NeZero n] (θ : Nat → ℝ) (i : Fin n) : softmaxVec n θ i.val = smax (fun j : Fin n => θ j.val) i := by
  unfold softmaxVec smax
  simp only [exp_eq, sumRange_eq]
  rw [Finset.sum_range (fun j => Real.exp (θ j - maxRange n θ))]
  simp only [Real.exp_sub]
  rw [← Finset.sum_div, div_div_eq_mul_div, div_eq_mul_inv, div_eq_mul_inv]
  have : Real.exp (maxRange n θ) ≠ 0 := (Real.exp_pos _).ne'
  field_simp
