import NumqiProofs.ManifoldSym

namespace Numqi.Manifold
open Matrix Finset
open scoped ComplexOrder

/-! ### Euler–Hurwitz recursion -/

theorem cis_eq (x : ℝ) : cis (K := ℂ) x = Complex.exp (x * Complex.I) := by
  rw [Complex.exp_mul_I]
  simp only [cis, CxOps.ofReal, CxOps.I, cos_eq, sin_eq, Complex.ofReal_cos, Complex.ofReal_sin]
  ring

theorem cis_add (x y : ℝ) : cis (K := ℂ) (x + y) = cis x * cis y := by
  rw [cis_eq, cis_eq, cis_eq, ← Complex.exp_add]; push_cast; ring_nf

theorem cis_zero : cis (K := ℂ) 0 = 1 := by rw [cis_eq]; simp

theorem cis_mul_conj (x : ℝ) : cis (K := ℂ) x * star (cis (K := ℂ) x) = 1 := by
  rw [cis_eq, Complex.star_def, ← Complex.exp_conj, ← Complex.exp_add]
  simp

theorem cis_sub (x y : ℝ) : cis (K := ℂ) (x - y) = cis x * star (cis (K := ℂ) y) := by
  have h := cis_add (x - y) y
  rw [sub_add_cancel] at h
  rw [h, mul_assoc, cis_mul_conj, mul_one]

section step
variable (N0 : Nat) (tθ tφ : Nat → ℝ)

/-- cosine / sine / phase factors of one block -/
noncomputable def eCt (I : Nat) : ℂ := ((Real.cos (tθ I) : ℝ) : ℂ)
noncomputable def eSt (I : Nat) : ℂ := ((Real.sin (tθ I) : ℝ) : ℂ)
noncomputable def eEp (I : Nat) : ℂ := cis (tφ I)

/-- the carried component of `Q e₀` -/
noncomputable def eW (I : Nat) : ℂ := ((∏ j ∈ range I, Real.sin (tθ j) : ℝ) : ℂ) * cis (∑ m ∈ range I, tφ m)

/-- first column `rowJ` -/
noncomputable def eU (r : Nat) : ℂ :=
  ((sphereCoordVec N0 tθ r : ℝ) : ℂ) * cis (sumRange r tφ - (if r < N0 then tφ r else 0))

theorem eU_lt {I : Nat} (h : I < N0) : eU N0 tθ tφ I = (eCt tθ I * star (eEp tφ I)) * eW tθ tφ I := by
  unfold eU eW eCt eEp
  rw [if_pos h, sumRange_eq, cis_sub]
  simp only [sphereCoordVec, if_pos h, prodRange_eq, cos_eq, sin_eq]
  push_cast; ring

theorem eU_last : eU N0 tθ tφ N0 = eW tθ tφ N0 := by
  unfold eU eW
  rw [if_neg (lt_irrefl _), sumRange_eq, sub_zero]
  simp only [sphereCoordVec, if_neg (lt_irrefl _), prodRange_eq, sin_eq, one_mul]

theorem eW_succ (I : Nat) : eW tθ tφ (I + 1) = (eSt tθ I * eEp tφ I) * eW tθ tφ I := by
  unfold eW eSt eEp
  rw [Finset.prod_range_succ, Finset.sum_range_succ, cis_add]
  push_cast; ring

theorem eW_zero : eW tθ tφ 0 = 1 := by simp [eW, cis_zero]

theorem ct_sq_add_st_sq (I : Nat) : eCt tθ I * eCt tθ I + eSt tθ I * eSt tθ I = 1 := by
  unfold eCt eSt
  rw [← Complex.ofReal_mul, ← Complex.ofReal_mul, ← Complex.ofReal_add]
  have := Real.cos_sq_add_sin_sq (tθ I)
  rw [show Real.cos (tθ I) * Real.cos (tθ I) + Real.sin (tθ I) * Real.sin (tθ I) = 1 by nlinarith [this]]
  simp

theorem star_eCt (I : Nat) : star (eCt tθ I) = eCt tθ I := by unfold eCt; exact Complex.conj_ofReal _
theorem star_eSt (I : Nat) : star (eSt tθ I) = eSt tθ I := by unfold eSt; exact Complex.conj_ofReal _
theorem eEp_mul_star (I : Nat) : eEp tφ I * star (eEp tφ I) = 1 := cis_mul_conj _
theorem star_eEp_mul (I : Nat) : star (eEp tφ I) * eEp tφ I = 1 := by rw [mul_comm]; exact cis_mul_conj _

/-- the chain on an arbitrary previous column `b` -/
noncomputable def eA (b : Nat → ℂ) : Nat → ℂ := eulerChain (eCt tθ) (eSt tθ) (eEp tφ) b
noncomputable def eZ (b : Nat → ℂ) (I : Nat) : ℂ :=
  (eCt tθ I * star (eEp tφ I)) * eA tθ tφ b I - (eSt tθ I * star (eEp tφ I)) * b I

theorem eA_zero (b : Nat → ℂ) : eA tθ tφ b 0 = 0 := rfl
theorem eA_succ (b : Nat → ℂ) (I : Nat) :
    eA tθ tφ b (I + 1) = (eCt tθ I * eEp tφ I) * b I + (eSt tθ I * eEp tφ I) * eA tθ tφ b I := rfl

/-- a Givens rotation preserves inner products -/
theorem rot_inner (b1 b2 : Nat → ℂ) (I : Nat) :
    star (eZ tθ tφ b1 I) * eZ tθ tφ b2 I + star (eA tθ tφ b1 (I + 1)) * eA tθ tφ b2 (I + 1)
      = star (eA tθ tφ b1 I) * eA tθ tφ b2 I + star (b1 I) * b2 I := by
  simp only [eZ, eA_succ, star_sub, star_add, star_mul', star_star, star_eCt, star_eSt]
  have h1 := ct_sq_add_st_sq tθ I
  have h2 := eEp_mul_star tφ I
  have h3 := star_eEp_mul tφ I
  set c := eCt tθ I; set s := eSt tθ I; set e := eEp tφ I; set e' := star (eEp tφ I)
  set a1 := eA tθ tφ b1 I; set a2 := eA tθ tφ b2 I
  set a1' := star a1; set b1' := star (b1 I)
  linear_combination (a1' * a2 + b1' * b2 I) * h1 + ((c * a1' - s * b1') * (c * a2 - s * b2 I)) * h2 + ((c * b1' + s * a1') * (c * b2 I + s * a2)) * h3

/-- telescoped: the rotated columns have the Gram matrix of the previous columns -/
theorem gram_chain (b1 b2 : Nat → ℂ) (k : Nat) :
    ∑ I ∈ range k, star (eZ tθ tφ b1 I) * eZ tθ tφ b2 I + star (eA tθ tφ b1 k) * eA tθ tφ b2 k
      = ∑ I ∈ range k, star (b1 I) * b2 I := by
  induction k with
  | zero => simp [eA_zero]
  | succ k ih =>
    rw [Finset.sum_range_succ, Finset.sum_range_succ, ← ih]
    have := rot_inner tθ tφ b1 b2 k
    linear_combination this

/-- the rotated columns are orthogonal to the first column -/
theorem first_col_chain (b : Nat → ℂ) (k : Nat) (hk : k ≤ N0) :
    ∑ I ∈ range k, star (eU N0 tθ tφ I) * eZ tθ tφ b I + star (eW tθ tφ k) * eA tθ tφ b k = 0 := by
  induction k with
  | zero => simp [eA_zero]
  | succ k ih =>
    have hk' : k < N0 := hk
    rw [Finset.sum_range_succ]
    have h0 := ih (le_of_lt hk')
    rw [eU_lt N0 tθ tφ hk', eW_succ, eA_succ]
    have hz : eZ tθ tφ b k = (eCt tθ k * star (eEp tφ k)) * eA tθ tφ b k - (eSt tθ k * star (eEp tφ k)) * b k := rfl
    rw [hz]
    simp only [star_mul', star_star, star_eCt, star_eSt]
    have h1 := ct_sq_add_st_sq tθ k
    have h2 := eEp_mul_star tφ k
    have h3 := star_eEp_mul tφ k
    set c := eCt tθ k; set s := eSt tθ k; set e := eEp tφ k; set e' := star (eEp tφ k)
    set w' := star (eW tθ tφ k); set a := eA tθ tφ b k
    linear_combination h0 + (w' * c * (c * a - s * b k)) * h2 + (w' * s * (c * b k + s * a)) * h3 + (w' * a) * h1

end step

theorem eU_normSq (N0 : Nat) (tθ tφ : Nat → ℝ) : ∑ r ∈ range (N0 + 1), star (eU N0 tθ tφ r) * eU N0 tθ tφ r = 1 := by
  have h := sphereCoord_normSq N0 tθ
  rw [normSq_eq] at h
  rw [← Complex.ofReal_one, ← h, Complex.ofReal_sum]
  refine Finset.sum_congr rfl (fun r _ => ?_)
  unfold eU
  rw [star_mul', mul_mul_mul_comm, mul_comm (star (cis _)), cis_mul_conj, mul_one, Complex.star_def, Complex.conj_ofReal]
  push_cast; ring

theorem eulerStep_first (N0 j : Nat) (tθ tφ : Nat → ℝ) (prev : NMat ℂ) {r : Nat} (hr : r < N0 + 1) :
    (eulerStep N0 j tθ tφ prev).get r 0 = eU N0 tθ tφ r := by
  unfold eulerStep
  rw [NMat.get_ofFn _ _ _ hr (Nat.succ_pos j)]
  simp only [if_true, eU, CxOps.ofReal]

theorem eulerStep_succ (N0 j : Nat) (tθ tφ : Nat → ℝ) (prev : NMat ℂ) {r c : Nat} (hr : r < N0 + 1) (hc : c < j) :
    (eulerStep N0 j tθ tφ prev).get r (c + 1)
      = if r < N0 then eZ tθ tφ (fun I => prev.get I c) r else eA tθ tφ (fun I => prev.get I c) N0 := by
  unfold eulerStep
  rw [NMat.get_ofFn _ _ _ hr (Nat.succ_lt_succ hc)]
  simp only [Nat.succ_ne_zero, if_false, Nat.add_sub_cancel]
  rfl

/-- **one step of the Euler–Hurwitz recursion preserves orthonormality of the columns** -/
theorem eulerStep_orthonormal (N0 j : Nat) (tθ tφ : Nat → ℝ) (prev : NMat ℂ)
    (hP : (toM N0 j prev)ᴴ * toM N0 j prev = 1) :
    (toM (N0 + 1) (j + 1) (eulerStep N0 j tθ tφ prev))ᴴ * toM (N0 + 1) (j + 1) (eulerStep N0 j tθ tφ prev) = 1 := by
  have hgram : ∀ c1 c2 : Fin j, ∑ I ∈ range N0, star (prev.get I c1.val) * prev.get I c2.val = if c1 = c2 then 1 else 0 := by
    intro c1 c2
    have := congrFun (congrFun hP c1) c2
    simp only [Matrix.mul_apply, conjTranspose_apply, toM, Matrix.of_apply, Matrix.one_apply] at this
    rw [Finset.sum_range]; exact this
  ext c1 c2
  simp only [Matrix.mul_apply, conjTranspose_apply, toM, Matrix.of_apply]
  rw [← Finset.sum_range (f := fun r => star ((eulerStep N0 j tθ tφ prev).get r c1.val) * (eulerStep N0 j tθ tφ prev).get r c2.val)]
  refine Fin.cases ?_ (fun c1' => ?_) c1 <;> refine Fin.cases ?_ (fun c2' => ?_) c2
  · -- (0,0)
    simp only [Fin.val_zero, Matrix.one_apply_eq]
    rw [← eU_normSq N0 tθ tφ]
    exact Finset.sum_congr rfl (fun r hr => by rw [eulerStep_first _ _ _ _ _ (Finset.mem_range.1 hr)])
  · -- (0, c+1)
    rw [Matrix.one_apply_ne (Fin.succ_ne_zero c2').symm]
    simp only [Fin.val_zero, Fin.val_succ]
    rw [Finset.sum_range_succ]
    have := first_col_chain N0 tθ tφ (fun I => prev.get I c2'.val) N0 le_rfl
    rw [← eU_last] at this
    rw [← this]
    congr 1
    · refine Finset.sum_congr rfl (fun r hr => ?_)
      have hr' := Finset.mem_range.1 hr
      rw [eulerStep_first _ _ _ _ _ (by omega), eulerStep_succ _ _ _ _ _ (by omega) c2'.isLt, if_pos hr']
    · rw [eulerStep_first _ _ _ _ _ (by omega), eulerStep_succ _ _ _ _ _ (by omega) c2'.isLt, if_neg (lt_irrefl _)]
  · -- (c+1, 0)
    rw [Matrix.one_apply_ne (Fin.succ_ne_zero c1')]
    simp only [Fin.val_zero, Fin.val_succ]
    rw [Finset.sum_range_succ]
    have := first_col_chain N0 tθ tφ (fun I => prev.get I c1'.val) N0 le_rfl
    rw [← eU_last] at this
    have h2 := congrArg star this
    rw [star_zero, star_add, star_sum] at h2
    rw [← h2]
    congr 1
    · refine Finset.sum_congr rfl (fun r hr => ?_)
      have hr' := Finset.mem_range.1 hr
      rw [eulerStep_first _ _ _ _ _ (by omega), eulerStep_succ _ _ _ _ _ (by omega) c1'.isLt, if_pos hr', star_mul', star_star, mul_comm]
    · rw [eulerStep_first _ _ _ _ _ (by omega), eulerStep_succ _ _ _ _ _ (by omega) c1'.isLt, if_neg (lt_irrefl _), star_mul', star_star, mul_comm]
  · -- (c1+1, c2+1)
    simp only [Fin.val_succ]
    rw [Finset.sum_range_succ]
    have := gram_chain tθ tφ (fun I => prev.get I c1'.val) (fun I => prev.get I c2'.val) N0
    rw [hgram] at this
    have hone : (1 : Matrix (Fin (j + 1)) (Fin (j + 1)) ℂ) c1'.succ c2'.succ = if c1' = c2' then 1 else 0 := by
      simp [Matrix.one_apply]
    rw [hone, ← this]
    congr 1
    · refine Finset.sum_congr rfl (fun r hr => ?_)
      have hr' := Finset.mem_range.1 hr
      rw [eulerStep_succ _ _ _ _ _ (by omega) c1'.isLt, eulerStep_succ _ _ _ _ _ (by omega) c2'.isLt, if_pos hr', if_pos hr']
    · rw [eulerStep_succ _ _ _ _ _ (by omega) c1'.isLt, eulerStep_succ _ _ _ _ _ (by omega) c2'.isLt, if_neg (lt_irrefl _), if_neg (lt_irrefl _)]

theorem eulerRec_orthonormal (dim rank : Nat) (isReal : Bool) (θ : Nat → ℝ) (j : Nat) :
    (toM (dim - rank + j) j (eulerRec (K := ℂ) dim rank isReal θ j))ᴴ * toM (dim - rank + j) j (eulerRec (K := ℂ) dim rank isReal θ j) = 1 := by
  induction j with
  | zero => ext c1; exact c1.elim0
  | succ j ih => exact eulerStep_orthonormal _ _ _ _ _ ih

/-- **`to_stiefel_euler` has orthonormal columns for every θ** (real and complex, with and without the phase column) -/
theorem stiefelEuler_orthonormal' (dim rank : Nat) (isReal withPhase : Bool) (θ : Nat → ℝ) (h : rank ≤ dim) :
    (toM dim rank (stiefelEuler (K := ℂ) dim rank isReal withPhase θ))ᴴ * toM dim rank (stiefelEuler (K := ℂ) dim rank isReal withPhase θ) = 1 := by
  have hE : (toM dim rank (eulerRec (K := ℂ) dim rank isReal θ rank))ᴴ * toM dim rank (eulerRec (K := ℂ) dim rank isReal θ rank) = 1 := by
    have key : ∀ m, m = dim - rank + rank →
        (toM m rank (eulerRec (K := ℂ) dim rank isReal θ rank))ᴴ * toM m rank (eulerRec (K := ℂ) dim rank isReal θ rank) = 1 := by
      intro m hm; subst hm; exact eulerRec_orthonormal dim rank isReal θ rank
    exact key dim (by omega)
  unfold stiefelEuler
  simp only []
  split_ifs with hph
  · ext c1 c2
    have := congrFun (congrFun hE c1) c2
    simp only [Matrix.mul_apply, conjTranspose_apply, toM, Matrix.of_apply] at this ⊢
    simp only [NMat.get_ofFn_fin, star_mul']
    have hrw : ∀ r : Fin dim, star ((eulerRec (K := ℂ) dim rank isReal θ rank).get r.val c1.val) * star (cis (K := ℂ) (θ (2 * (dim * rank - rank * (rank + 1) / 2) + c1.val)))
        * ((eulerRec (K := ℂ) dim rank isReal θ rank).get r.val c2.val * cis (θ (2 * (dim * rank - rank * (rank + 1) / 2) + c2.val)))
        = (star (cis (K := ℂ) (θ (2 * (dim * rank - rank * (rank + 1) / 2) + c1.val))) * cis (θ (2 * (dim * rank - rank * (rank + 1) / 2) + c2.val)))
          * (star ((eulerRec (K := ℂ) dim rank isReal θ rank).get r.val c1.val) * (eulerRec (K := ℂ) dim rank isReal θ rank).get r.val c2.val) := by
      intro r; ring
    simp only [hrw, ← Finset.mul_sum, this, Matrix.one_apply]
    by_cases hc : c1 = c2
    · subst hc; simp only [if_true, mul_one]; rw [mul_comm]; exact cis_mul_conj _
    · simp [hc]
  · exact hE
